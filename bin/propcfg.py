"""Per-property configuration for bin/check: extra trusted-base entries and assumptions that go
into the evidence file. Keys are property ids."""
PROPS = {
    "C02": {
        "trusted": ["Go bytes.TrimSpace is Unicode aware, the model trims ASCII space only: cases whose trimmed payload starts/ends with a non-ASCII byte are outside the correspondence domain",
                    "Go strconv.Atoi modelled as optional sign + decimal digits (headers are at most 10 characters, so no overflow)"],
        "assumptions": ["the session read loop hands Record one complete framed message (the read-loop clause is checked at driver level; see known finding C02-F2)"],
    },
}
