import ScrapliModel.Bytes
