import ScrapliModel.Channel
/-!
# The `ReadUntil*` loops over an event list (channel/read.go)

Every iteration of `ReadUntilFuzzy / ReadUntilExplicit / ReadUntilPrompt / ReadUntilAnyPrompt` makes
two external steps: the non-blocking poll of `ctx.Done()` and one `c.Read()`. One iteration
consumes one *event*:

* `cancelled` — the context is done: the loop returns `nil, ctx.Err()` without reading;
* `err e`     — `c.Read()` returned the error `e` (taken from `c.Errs`);
* `empty`     — `c.Read()` returned `nil, nil` (queue empty): sleep one read delay, poll again;
* `chunk bs`  — `c.Read()` returned the (already normalised) bytes `bs`.

Running out of events is `none`: the real loop would keep polling. `time.Sleep` is a no-op here
(time is C05's subject). A chunk-only event list is the `List Bytes` queue of `readUntil`
(`readUntilEv_chunks`), so the C01 theorems about `readUntil` transfer.

Core Lean only.
-/
namespace Scrapli.Chan
open Scrapli

inductive Ev where
  | cancelled
  | err (e : String)
  | empty
  | chunk (bs : Bytes)
  deriving Repr, DecidableEq

/-- how a `ReadUntil*` call ends -/
inductive RRes where
  | ok (rb : Bytes)      -- the predicate held: all bytes read so far
  | cancelled            -- `nil, ctx.Err()`
  | err (e : String)     -- `nil, e`
  deriving Repr, DecidableEq

def Ev.isCancelled : Ev → Bool
  | .cancelled => true
  | _ => false

/-- `nb, err := c.Read()` on an event the context poll let through: the bytes, `nb == nil`, the error -/
def Ev.read : Ev → Bytes × Bool × Option String
  | .cancelled => ([], true, none)      -- not reachable: the poll returns first
  | .err e => ([], true, some e)
  | .empty => ([], true, none)
  | .chunk bs => (bs, false, none)

/-- the loop of `ReadUntil*` with completion predicate `P` over the bytes read so far; returns the
    result and the events that were not consumed -/
def readUntilEv (P : Bytes → Bool) : List Ev → Bytes → Option (RRes × List Ev)
  | [], _ => none
  | .cancelled :: es, _ => some (.cancelled, es)
  | .err e :: es, _ => some (.err e, es)
  | .empty :: es, rb => readUntilEv P es rb
  | .chunk c :: es, rb =>
    let rb' := rb ++ c
    if P rb' then some (.ok rb', es) else readUntilEv P es rb'

end Scrapli.Chan
