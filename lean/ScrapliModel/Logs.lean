import ScrapliModel.Bytes
/-!
# Logs: what a session writes to the user's loggers and to the channel log
(channel/write.go, channel/read.go)

`Channel.Write(b, r)` logs `channel write %#v` of `b`, or of the constant `redacted` when `r`;
`Channel.Read` logs `channel read %#v` of the chunk; the read loop copies every normalised chunk
to `ChannelLog`. Everything else that is logged is constant text or device-derived text (`note`).
-/
namespace Scrapli.Logs
open Scrapli

inductive Ev
  | write (b : Bytes) (redacted : Bool)
  | deliver (b : Bytes)
  | note (msg : Bytes)
  deriving Repr

structure LogCfg where
  redactedConst : Bytes          -- channel.redacted
  quote : Bytes → Bytes          -- Go's %#v rendering of a string
  writePrefix : Bytes
  readPrefix : Bytes

/-- the message `Channel.Write` logs -/
def logOfWrite (cfg : LogCfg) (b : Bytes) (r : Bool) : Bytes :=
  cfg.writePrefix ++ cfg.quote (if r then cfg.redactedConst else b)

/-- user-logger messages caused by one event -/
def logsOf (cfg : LogCfg) : Ev → List Bytes
  | .write b r => [logOfWrite cfg b r]
  | .deliver b => [cfg.readPrefix ++ cfg.quote b]
  | .note msg => [msg]

/-- bytes appended to the channel log by one event -/
def channelLogOf : Ev → Bytes
  | .deliver b => b
  | _ => []

def allLogs (cfg : LogCfg) (trace : List Ev) : List Bytes := trace.flatMap (logsOf cfg)
def channelLog (trace : List Ev) : Bytes := trace.flatMap channelLogOf

/-- a trace is clean for marker byte `m`: `m` occurs only in writes flagged redacted -/
def CleanFor (m : UInt8) : Ev → Prop
  | .write b r => m ∈ b → r = true
  | .deliver b => m ∉ b
  | .note msg => m ∉ msg

/-! ## The user's logging instance (logging/logging.go, logging/options.go)

Every message passes `Instance.shouldLog` and the instance's `Formatter`, and is then handed to
each of the instance's loggers. -/

/-- `Instance.Level` as the filter sees it: one of the three known words, or anything else (the
field is exported; `WithLevel` refuses other words) -/
inductive Lvl
  | debug | info | critical | other
  deriving DecidableEq, Repr

/-- `Instance.shouldLog(l)`: `inst` is the instance's level, `msg` the message's -/
def shouldLog (nLoggers : Nat) (inst msg : Lvl) : Bool :=
  if nLoggers = 0 then false else
  match inst with
  | .debug => true
  | .info => msg == .info || msg == .critical
  | .critical => msg == .critical
  | .other => false

/-- what the loggers receive: every message that passes the filter, formatted, once per logger -/
def emitted (fmt : Lvl → Bytes → Bytes) (nLoggers : Nat) (inst : Lvl) (msgs : List (Lvl × Bytes)) :
    List Bytes :=
  (msgs.filter fun p => shouldLog nLoggers inst p.1).flatMap
    fun p => List.replicate nLoggers (fmt p.1 p.2)

/-- ASCII lower-casing of one byte (`strings.ToLower` on ASCII input) -/
def lowerByte (b : UInt8) : UInt8 :=
  if 65 ≤ b.toNat ∧ b.toNat ≤ 90 then UInt8.ofNat (b.toNat + 32) else b

/-- `logging.WithLevel(s)` on an ASCII string: the level it sets, or none (ErrBadOption) -/
def withLevel (s : Bytes) : Option Lvl :=
  let l := s.map lowerByte
  if l = [100, 101, 98, 117, 103] then some .debug
  else if l = [105, 110, 102, 111] then some .info
  else if l = [99, 114, 105, 116, 105, 99, 97, 108] then some .critical
  else none

/-- the `Instance.Level` field read as the filter reads it (exact match, no case folding) -/
def levelOfField (s : Bytes) : Lvl :=
  if s = [100, 101, 98, 117, 103] then .debug
  else if s = [105, 110, 102, 111] then .info
  else if s = [99, 114, 105, 116, 105, 99, 97, 108] then .critical
  else .other

end Scrapli.Logs
