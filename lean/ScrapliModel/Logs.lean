import ScrapliModel.Bytes
/-!
# Logs: what a session writes to the user's loggers and to the channel log
(channel/write.go, channel/read.go)

`Channel.Write(b, r)` logs `channel write %#v` of `b`, or of the constant `redacted` when `r`;
`Channel.Read` logs `channel read %#v` of the chunk; the read loop copies every normalised chunk
to `ChannelLog`. Everything else that is logged is constant text or device-derived text (`note`).
-/
namespace Scrapli.Logs
open Scrapli

inductive Ev
  | write (b : Bytes) (redacted : Bool)
  | deliver (b : Bytes)
  | note (msg : Bytes)
  deriving Repr

structure LogCfg where
  redactedConst : Bytes          -- channel.redacted
  quote : Bytes → Bytes          -- Go's %#v rendering of a string
  writePrefix : Bytes
  readPrefix : Bytes

/-- the message `Channel.Write` logs -/
def logOfWrite (cfg : LogCfg) (b : Bytes) (r : Bool) : Bytes :=
  cfg.writePrefix ++ cfg.quote (if r then cfg.redactedConst else b)

/-- user-logger messages caused by one event -/
def logsOf (cfg : LogCfg) : Ev → List Bytes
  | .write b r => [logOfWrite cfg b r]
  | .deliver b => [cfg.readPrefix ++ cfg.quote b]
  | .note msg => [msg]

/-- bytes appended to the channel log by one event -/
def channelLogOf : Ev → Bytes
  | .deliver b => b
  | _ => []

def allLogs (cfg : LogCfg) (trace : List Ev) : List Bytes := trace.flatMap (logsOf cfg)
def channelLog (trace : List Ev) : Bytes := trace.flatMap channelLogOf

/-- a trace is clean for marker byte `m`: `m` occurs only in writes flagged redacted -/
def CleanFor (m : UInt8) : Ev → Prop
  | .write b r => m ∈ b → r = true
  | .deliver b => m ∉ b
  | .note msg => m ∉ msg

end Scrapli.Logs
