import ScrapliModel.Platform
import ScrapliModel.Priv
/-!
# From a platform definition to C04's privilege scenario (property C17 ↔ C04)

`toCfg d secret orc` is the scenario of `ScrapliModel/Priv.lean` that a generated definition
describes: C04's level table (names, previous links, escalate / deescalate commands, auth flags as
`Bytes`), the definition-derived device (prompt of a mode = the level's witness prompt; the device
asks for the password on an authenticated edge iff a secret is configured — the harness device of
`c17.go`), and the client's matcher (`levelMatches`: not-contains, then the level's pattern run by
the regex engine). The secret and the map-iteration oracle stay parameters.
-/
namespace Scrapli.Platform
open Scrapli Scrapli.Rx

def toPrivLevel (l : Level) : Priv.Level :=
  { name := ofStr l.name, previous := ofStr l.previous, escalate := ofStr l.escalate,
    deescalate := ofStr l.deescalate, escalateAuth := l.escalateAuth }

def findByName (d : Def) (n : Bytes) : Option Level := d.levels.find? fun l => ofStr l.name == n

/-- some level of that name is entered through an authenticated edge -/
def authByName (d : Def) (n : Bytes) : Bool := d.levels.any fun l => ofStr l.name == n && l.escalateAuth

def toCfg (d : Def) (secret : Bytes) (orc : Nat → Priv.Orders) : Priv.Cfg where
  L := d.levels.map toPrivLevel
  default := ofStr d.defaultLevel
  secret := secret
  asks := fun n => secret != [] && authByName d n
  promptOf := fun n => ((findByName d n).map (·.witness)).getD []
  matchP := fun pl prompt =>
    match findByName d pl.name with
    | some l => levelMatches l prompt
    | none => false
  orc := orc

/-- the same scenario with a device on which no secret is set: it lets the client into an
authenticated level without asking, whatever secondary secret the client has configured -/
def toCfgNoAsk (d : Def) (secret : Bytes) (orc : Nat → Priv.Orders) : Priv.Cfg :=
  { toCfg d secret orc with asks := fun _ => false }

def idOrders : Priv.Orders := { nbr := fun _ l => l, lv := fun l => l }
def revOrders : Priv.Orders := { nbr := fun _ l => l.reverse, lv := fun l => l.reverse }

/-- the scenario without secret and with the identity map order: the part of `toCfg` C04's
decidable checks look at does not depend on the two parameters -/
def cfg0 (d : Def) : Priv.Cfg := toCfg d [] fun _ => idOrders

/-- the device asks only where the level itself is flagged (names are distinct on a tree, so this
is what `asksOK` needs for every secret) -/
def authConsistent (d : Def) : Bool :=
  d.levels.all fun l => !authByName d (ofStr l.name) || l.escalateAuth

/-- C04's decidable hypotheses on the scenario of a definition, by name -/
def c04Check (d : Def) (tag : String) : Bool :=
  if tag == "isTree" then Priv.isTree (cfg0 d).L
  else if tag == "recognises" then Priv.recognises (cfg0 d)
  else if tag == "ambigLeaf" then Priv.ambigLeaf (cfg0 d)
  else if tag == "cmdsOK" then Priv.cmdsOK (cfg0 d).L
  else if tag == "authConsistent" then authConsistent d
  else false

def c04Tags : List String := ["isTree", "recognises", "ambigLeaf", "cmdsOK", "authConsistent"]

def c04Checks (d : Def) : Bool := c04Tags.all (c04Check d)

/-- the translator's exemption table: (file, variant, failing hypothesis, reason) -/
abbrev ExemptTable := List (String × String × String × String)

def exemptTag (tab : ExemptTable) (l : Loaded) : Option String :=
  (tab.find? fun e => e.1 == l.file && e.2.1 == l.variant).map (·.2.2.1)

/-- `cmdsOK` relaxed by the one exemption the property itself grants ("levels without an escalate
command only as starting points"): a non-root level may lack its escalate command when it is a
leaf; the distinctness clauses then apply to the levels that have one -/
def cmdsOKSourceOnly (L : Priv.Levels) : Bool :=
  L.all fun l =>
    (l.previous == [] || (l.escalate != [] && l.deescalate != []) ||
      (l.escalate == [] && (Priv.children L l.name).isEmpty)) &&
    L.all fun m =>
      (l.previous == [] || l.escalate == [] || l.previous != m.previous || l.escalate != m.escalate || l.name == m.name) &&
      (l.previous == [] || l.escalate == [] || l.previous != m.name || m.previous == [] || l.escalate != m.deescalate)

/-- a definition may be left out of `platform_acquire_reaches_target` only because of source-only
leaves: every other hypothesis of C04 holds, and `cmdsOK` fails but its relaxation holds -/
def exemptionGranted (d : Def) : Bool :=
  c04Check d "isTree" && c04Check d "recognises" && c04Check d "ambigLeaf" && c04Check d "authConsistent"
  && !c04Check d "cmdsOK" && cmdsOKSourceOnly (cfg0 d).L

/-- an `acquire-priv` step of a network on-X list, run by the driver of C04's session model: it is
`AcquirePriv` of the step's target (or the run-time default), which begins by re-reading the
device's prompt; every other step leaves the privilege session alone here -/
def onxAcquire (c : Priv.Cfg) (runtimeDefault : String) (st : Step) (s : Priv.Sess) : Option Priv.Err × Priv.Sess :=
  match onxAction runtimeDefault st with
  | .acquire t => Priv.acquirePriv c (ofStr t) s
  | _ => (none, s)

/-- a level the property allows as a target, and one it allows as a start without a tracked level:
its prompt is accepted by no other level -/
def unambStart (d : Def) (l : Level) : Bool := Priv.unambB (cfg0 d) (ofStr l.name)

/-- evaluation of `AcquirePriv` on the definition-derived device for two concrete map orders
(identity, reversed) × {no secret, a secret}: from every level with an unambiguous prompt to every
targetable level the call succeeds, ends at the target and the device received exactly
`expectedLog (treePath current target)` -/
def acquireEvalOK (d : Def) : Bool :=
  [idOrders, revOrders].all fun o => [[], [115, 51]].all fun secret =>
    let c := toCfg d secret (fun _ => o)
    d.levels.all fun cur => !unambStart d cur || d.levels.all fun tgt => !targetable tgt ||
      let p := Priv.treePath c.L (ofStr cur.name) (ofStr tgt.name)
      decide (Priv.acquirePriv c (ofStr tgt.name) ⟨⟨ofStr cur.name, none, []⟩, [], 0⟩ =
        (none, ⟨⟨ofStr tgt.name, none, Priv.expectedLog c p⟩, ofStr tgt.name, p.length⟩))

end Scrapli.Platform
