/-!
# `transport.(*Transport).Close(force)` — the wrapper between `Channel.Close` and `Impl.Close`

A small statement language for the body of `Transport.Close` (flat token list, `if … endIf`
bracketed), the body the shutdown model (`Model.lean`, steps `nice` / `niceLk` / `force` of the
closer) was written from, and an abstract interpreter that enumerates *every* path through a body
(conditions the language does not know are taken both ways). The translator
(`go/cmd/extract/gen_c07.go`) renders the current source in the same language
(`Generated/TransportClose.lean`); `Props/C07.lean` proves the two equal and proves the obligations
below for it, so an early `return` that skips `Impl.Close()` — or a lock taken on the forced path —
is a broken proof obligation, not only a failed test.

Core Lean only.
-/
namespace Scrapli.Close.TC

inductive Tok
  | ifNotForce                 -- `if !force {`
  | ifForce                    -- `if force {`
  | ifOther (cond : String)    -- any other condition: both branches are explored
  | elseTok                    -- `} else {`
  | endIf                      -- `}`
  | lock                       -- `recv.implLock.Lock()`
  | deferUnlock                -- `defer recv.implLock.Unlock()`
  | unlock                     -- `recv.implLock.Unlock()`
  | retImplClose               -- `return recv.Impl.Close()`
  | ret (expr : String)        -- any other `return …`
  | other (text : String)      -- a statement outside the language
  deriving DecidableEq, Repr, Inhabited

/-- the body the model was written from:
```go
if !force {
	t.implLock.Lock()
	defer t.implLock.Unlock()
}
return t.Impl.Close()
``` -/
def model : List Tok := [.ifNotForce, .lock, .deferUnlock, .endIf, .retImplClose]

def isIf : Tok → Bool
  | .ifNotForce | .ifForce | .ifOther _ => true | _ => false

/-- skip the rest of the current block: up to (and including) the matching `endIf`; with
`stopAtElse` also stop after a matching `else` (to run the else branch) -/
def skip (stopAtElse : Bool) : Nat → List Tok → List Tok
  | _, [] => []
  | d, t :: rest =>
    if isIf t then skip stopAtElse (d + 1) rest
    else match t, d with
      | .endIf, 0 => rest
      | .endIf, d + 1 => skip stopAtElse d rest
      | .elseTok, 0 => if stopAtElse then rest else skip stopAtElse 0 rest
      | _, _ => skip stopAtElse d rest

/-- how one path through the body ends -/
structure Out where
  returned : Bool      -- reached a `return` (false: fell off the end / ran out of fuel)
  implCloses : Nat     -- number of `Impl.Close()` calls on the path
  tookLock : Bool      -- `implLock.Lock()` was executed
  heldAtExit : Bool    -- `implLock` still held after the deferred calls ran
  unknown : Bool       -- a statement outside the language was executed
  deriving DecidableEq, Repr

structure Acc where
  implCloses : Nat := 0
  tookLock : Bool := false
  held : Bool := false
  deferred : Bool := false
  unknown : Bool := false

def Acc.out (a : Acc) (returned : Bool) : Out :=
  { returned, implCloses := a.implCloses, tookLock := a.tookLock,
    heldAtExit := a.held && !a.deferred, unknown := a.unknown }

/-- all paths through a body for a given `force` -/
def paths (force : Bool) : Nat → Acc → List Tok → List Out
  | 0, a, _ => [a.out false]
  | _, a, [] => [a.out false]
  | fuel + 1, a, t :: rest =>
    match t with
    | .ifNotForce => if force then paths force fuel a (skip true 0 rest) else paths force fuel a rest
    | .ifForce => if force then paths force fuel a rest else paths force fuel a (skip true 0 rest)
    | .ifOther _ => paths force fuel a rest ++ paths force fuel a (skip true 0 rest)
    | .elseTok => paths force fuel a (skip false 0 rest)    -- end of a then-branch: jump over the else
    | .endIf => paths force fuel a rest
    | .lock => paths force fuel { a with tookLock := true, held := true } rest
    | .deferUnlock => paths force fuel { a with deferred := true } rest
    | .unlock => paths force fuel { a with held := false } rest
    | .retImplClose => [{ a with implCloses := a.implCloses + 1 }.out true]
    | .ret _ => [a.out true]
    | .other _ => paths force fuel { a with unknown := true } rest

def allPaths (force : Bool) (body : List Tok) : List Out := paths force (body.length + 1) {} body

/-- the obligation on `Transport.Close`: every path returns, has closed the implementation exactly
once, takes `implLock` iff the close is not forced (a forced close must not wait for a read in
progress), does not leave it held, and executes nothing the language does not know -/
def pathOk (force : Bool) (o : Out) : Bool :=
  o.returned && o.implCloses == 1 && o.tookLock == !force && !o.heldAtExit && !o.unknown

def bodyOk (body : List Tok) : Bool :=
  (allPaths true body).all (pathOk true) && (allPaths false body).all (pathOk false)
  && !(allPaths true body).isEmpty && !(allPaths false body).isEmpty

end Scrapli.Close.TC
