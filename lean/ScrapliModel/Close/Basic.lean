/-!
# L4 concurrency skeleton of connection shutdown — shared vocabulary

Finite transition systems for `Channel.read / Read / Close` (channel/read.go, channel/channel.go),
`transport.Transport.Close/Read` (the `implLock`), `netconf.Driver.read / Close / sendRPC`.

A *process* is a goroutine of the library (or the caller's goroutine inside a library call); its
program counter ranges over the named yield points of the `verif` hooks (`util.Yield("…")`),
plus the places where a goroutine can block without a yield point (inside `Impl.Read`, inside a
`select`) and a few transient positions between a rendezvous and the next yield point. One model
step of a process is exactly "run from the current yield point to the next one (or block, or
terminate)", which is what the schedule controller of the harness releases.

Core Lean only.
-/
namespace Scrapli.Close

/-- what a blocked `Impl.Read` does when `Impl.Close` is called (sim.Pipe.CloseUnblocks 0/1/2) -/
inductive Mode | eofOnClose | errOnClose | stay
  deriving DecidableEq, Repr, Inhabited

/-- what the device side currently offers to a transport read -/
inductive Feed | quiet | data | eof | err
  deriving DecidableEq, Repr, Inhabited

/-- how many arrivals (data / EOF / error) the environment may still produce -/
inductive Left | zero | one | two
  deriving DecidableEq, Repr, Inhabited

/-- program counter of the channel read loop (`Channel.read`, channel/read.go) -/
inductive RPc
  | top      -- yield chan.read.top: about to test `done`
  | pre      -- yield chan.read.pre: about to call `t.Read()`
  | inRead   -- inside `Impl.Read`, holding `implLock` (no yield point: blocked or about to return)
  | postOk   -- yield chan.read.post, read returned bytes
  | postEof  -- yield chan.read.post, read returned io.EOF
  | postErr  -- yield chan.read.post, read returned a non-EOF error
  | send     -- yield chan.read.send: about to hand the error over (`select { Errs <- err; <-done }`)
  | parked   -- inside that select, waiting for a receiver or for `done`
  | woken    -- `done` was closed while parked: the select has committed to the `done` case
  | sent     -- the error was taken; sleeping, then `continue`
  | exit     -- yield chan.read.exit: deferred exit (`readLoopExited.Store(true); close(readLoopDone)`)
  | dead     -- goroutine terminated
  | never    -- the read loop was never started (Close before Open / after an Open that failed
             -- before `go c.read()`): `readLoopDone` is nil, nobody will ever close it
  deriving DecidableEq, Repr, Inhabited

/-- an in-flight operation: two consecutive `Channel.Read()` calls made by the user's goroutine -/
inductive OPc
  | absent   -- no operation in this scenario
  | start    -- will call `Channel.Read()`
  | errs     -- yield chan.Read.errs: non-blocking receive on `Errs`
  | flag     -- yield chan.Read.flag: test `readLoopExited`
  | deq      -- yield chan.Read.deq: `Q.Dequeue()`
  | ret      -- returned to the caller
  deriving DecidableEq, Repr, Inhabited

/-- program counter of the closer: `netconf.Driver.Close` (first two positions, NETCONF only) and
`Channel.Close` (channel/channel.go) -/
inductive KPc
  | idle     -- Close not called yet
  | ncDone   -- yield nc.close.done: about to `closeOnce.Do(close(d.done))`
  | ncChan   -- yield nc.close.chan: about to call `Channel.Close()`
  | entry    -- yield chan.close.entry: about to `closed.CompareAndSwap(false, true)`
  | signal   -- yield chan.close.signal: about to `close(c.done)`
  | select   -- yield chan.close.select: `select { <-readLoopDone; <-time.After(grace) }`
  | nice     -- yield chan.close.nice: about to `t.Close(false)` (takes `implLock`)
  | niceLk   -- blocked in `implLock.Lock()`
  | force    -- yield chan.close.force: about to `t.Close(true)`
  | chanRet  -- `Channel.Close` has returned (nil or the transport's error) to `Driver.Close`,
             -- which is about to `if err != nil { return err }` / log and `return nil`
  | ret      -- Close returned
  deriving DecidableEq, Repr, Inhabited

/-- program counter of the NETCONF read loop (`netconf.Driver.read`, driver/netconf/read.go); the
three middle positions are the yield points of the `Channel.Read()` call it makes -/
inductive NPc
  | absent   -- not a NETCONF driver
  | top      -- yield nc.read.top: about to test `d.done`
  | pre      -- yield nc.read.pre: about to call `Channel.Read()`
  | cErrs    -- yield chan.Read.errs
  | cFlag    -- yield chan.Read.flag
  | cDeq     -- yield chan.Read.deq
  | send     -- yield nc.read.send: `select { d.errs <- err; <-d.done }`
  | parked   -- inside that select
  | woken    -- `d.done` was closed while parked: the select has committed to the `done` case
  | sent     -- the error was taken by an RPC waiter; rest of the loop body, sleep
  | dead     -- goroutine terminated
  deriving DecidableEq, Repr, Inhabited

/-- an RPC in flight (`sendRPC`, driver/netconf/rpc.go) whose reply never comes -/
inductive WPc
  | absent
  | start    -- will write the request and reach the final select
  | select   -- yield nc.rpc.select: `select { <-d.errs; <-timer.C; <-done }`
  | parked   -- inside that select
  | got      -- received an error from the NETCONF read loop, returning
  | ret      -- returned
  deriving DecidableEq, Repr, Inhabited

inductive Panic | none | closeOfClosed | sendOnClosed
  deriving DecidableEq, Repr, Inhabited

/-- shared variables named in the race analysis -/
inductive Var | closedFlag | done | errs | exitedFlag | readLoopDone | implLock | ncDone | ncErrs | queue
  deriving DecidableEq, Repr

/-- kind of access a step makes to a shared variable: `sync` = atomic operation, channel operation
or access under a mutex (these create happens-before edges, they never race); `plainR/plainW` =
ordinary load / store -/
inductive Acc | sync | plainR | plainW
  deriving DecidableEq, Repr

def Acc.isPlain : Acc → Bool | .sync => false | _ => true
def Acc.isWrite : Acc → Bool | .plainW => true | _ => false

/-- two access lists conflict: same variable, both plain, at least one a store -/
def conflict (a b : List (Var × Acc)) : Bool :=
  a.any fun x => b.any fun y =>
    decide (x.1 = y.1) && x.2.isPlain && y.2.isPlain && (x.2.isWrite || y.2.isWrite)

def Mode.toNat : Mode → Nat | .eofOnClose => 0 | .errOnClose => 1 | .stay => 2
def Feed.toNat : Feed → Nat | .quiet => 0 | .data => 1 | .eof => 2 | .err => 3
def Left.toNat : Left → Nat | .zero => 0 | .one => 1 | .two => 2
def Left.pred : Left → Left | .two => .one | _ => .zero
def RPc.toNat : RPc → Nat
  | .top => 0 | .pre => 1 | .inRead => 2 | .postOk => 3 | .postEof => 4 | .postErr => 5
  | .send => 6 | .parked => 7 | .sent => 8 | .exit => 9 | .dead => 10 | .woken => 11 | .never => 12
def OPc.toNat : OPc → Nat
  | .absent => 0 | .start => 1 | .errs => 2 | .flag => 3 | .deq => 4 | .ret => 5
def KPc.toNat : KPc → Nat
  | .idle => 0 | .ncDone => 1 | .ncChan => 2 | .entry => 3 | .signal => 4 | .select => 5
  | .nice => 6 | .niceLk => 7 | .force => 8 | .ret => 9 | .chanRet => 10
def NPc.toNat : NPc → Nat
  | .absent => 0 | .top => 1 | .pre => 2 | .cErrs => 3 | .cFlag => 4 | .cDeq => 5 | .send => 6
  | .parked => 7 | .sent => 8 | .dead => 9 | .woken => 10
def WPc.toNat : WPc → Nat
  | .absent => 0 | .start => 1 | .select => 2 | .parked => 3 | .got => 4 | .ret => 5
def b2n : Bool → Nat | false => 0 | true => 1

def allMode : List Mode := [.eofOnClose, .errOnClose, .stay]
def allFeed : List Feed := [.quiet, .data, .eof, .err]
def allLeft : List Left := [.zero, .one, .two]
def allBool : List Bool := [false, true]
def allRPc : List RPc := [.top, .pre, .inRead, .postOk, .postEof, .postErr, .send, .parked, .woken, .sent, .exit, .dead, .never]
def allKPc : List KPc := [.idle, .ncDone, .ncChan, .entry, .signal, .select, .nice, .niceLk, .force, .chanRet, .ret]
def allNPc : List NPc := [.absent, .top, .pre, .cErrs, .cFlag, .cDeq, .send, .parked, .woken, .sent, .dead]
def allWPc : List WPc := [.absent, .start, .select, .parked, .got, .ret]
def allOPc : List OPc := [.absent, .start, .errs, .flag, .deq, .ret]

/-- upper bound on the number of further steps of the read loop once `done` is closed -/
def RPc.rank : RPc → Nat
  | .dead => 0 | .never => 0 | .exit => 1 | .top => 2 | .postEof => 2 | .woken => 2 | .sent => 3 | .postOk => 3 | .parked => 4
  | .send => 5 | .postErr => 6 | .inRead => 7 | .pre => 8

/-- upper bound on the number of further steps of one `Close` call -/
def KPc.rank : KPc → Nat
  | .ret => 0 | .chanRet => 1 | .force => 2 | .niceLk => 2 | .nice => 3 | .select => 4 | .signal => 5
  | .entry => 6 | .ncChan => 7 | .ncDone => 8 | .idle => 9

def KPc.label : KPc → String
  | .idle => "idle" | .ncDone => "nc.close.done" | .ncChan => "nc.close.chan"
  | .entry => "chan.close.entry" | .signal => "chan.close.signal" | .select => "chan.close.select"
  | .nice => "chan.close.nice" | .niceLk => "blocked" | .force => "chan.close.force"
  | .chanRet => "~" | .ret => "ret"

/-- upper bound on the number of further steps of the NETCONF read loop once `d.done` is closed -/
def NPc.rank : NPc → Nat
  | .absent => 0 | .dead => 0 | .top => 1 | .woken => 1 | .sent => 2 | .cDeq => 2 | .parked => 3 | .send => 4
  | .cFlag => 5 | .cErrs => 6 | .pre => 7

def WPc.rank : WPc → Nat
  | .absent => 0 | .ret => 0 | .got => 1 | .parked => 2 | .select => 3 | .start => 4

def NPc.label : NPc → String
  | .absent => "absent" | .top => "nc.read.top" | .pre => "nc.read.pre" | .cErrs => "chan.Read.errs"
  | .cFlag => "chan.Read.flag" | .cDeq => "chan.Read.deq" | .send => "nc.read.send"
  | .parked => "blocked" | .woken => "~" | .sent => "~" | .dead => "dead"

def WPc.label : WPc → String
  | .absent => "absent" | .start => "start" | .select => "nc.rpc.select" | .parked => "blocked"
  | .got => "~" | .ret => "ret"

def OPc.rank (second : Bool) : OPc → Nat
  | .absent => 0 | .ret => 0
  | .deq => if second then 1 else 4
  | .flag => if second then 2 else 5
  | .errs => if second then 3 else 6
  | .start => 7

/-- label under which the harness observes a read-loop position -/
def RPc.label : RPc → String
  | .top => "chan.read.top" | .pre => "chan.read.pre" | .inRead => "blocked"
  | .postOk => "chan.read.post" | .postEof => "chan.read.post" | .postErr => "chan.read.post"
  | .send => "chan.read.send" | .parked => "blocked" | .woken => "~" | .sent => "~" | .exit => "chan.read.exit"
  | .dead => "dead" | .never => "never"

def OPc.label : OPc → String
  | .absent => "absent" | .start => "start" | .errs => "chan.Read.errs" | .flag => "chan.Read.flag"
  | .deq => "chan.Read.deq" | .ret => "ret"

end Scrapli.Close
