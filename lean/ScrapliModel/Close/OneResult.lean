/-!
# "exactly one result per call" — the reader goroutine of `netconf.getServerCapabilities`

`getServerCapabilities` (driver/netconf/capabilities.go, part of `Open`) starts a goroutine that
reads the server hello and hands the outcome over on the unbuffered channel `cr`; the caller
receives from `cr` exactly once. The rendezvous is only correct if *every* path through the
goroutine's body sends exactly once: a second send is never received (the goroutine is leaked for
ever — found by C07 as a goroutine that outlives `Close`), no send makes `close(cr)` hand the
caller a nil result (nil dereference). C07-F14, fixed in 866557c.

Same technique as `TransportClose.lean`: a flat token language, an interpreter that enumerates all
paths (every condition both ways), the body as regenerated from the source, and the obligation.
Core Lean only.
-/
namespace Scrapli.Close.OneResult

inductive Tok
  | ifCond (cond : String)     -- `if <cond> {` (explored both ways)
  | elseTok
  | endIf
  | send                       -- `cr <- …`
  | ret                        -- `return`
  | other (text : String)      -- any other statement (no effect on the rendezvous)
  deriving DecidableEq, Repr, Inhabited

/-- the goroutine body the fix established:
```go
defer close(cr)
b, err := d.Channel.ReadUntilPrompt(ctx)
cr <- &result{b: b, err: err}
``` -/
def model : List Tok :=
  [.other "defer close(cr)", .other "b, err := d.Channel.ReadUntilPrompt(ctx)", .send]

def skip (stopAtElse : Bool) : Nat → List Tok → List Tok
  | _, [] => []
  | d, t :: rest =>
    match t, d with
    | .ifCond _, d => skip stopAtElse (d + 1) rest
    | .endIf, 0 => rest
    | .endIf, d + 1 => skip stopAtElse d rest
    | .elseTok, 0 => if stopAtElse then rest else skip stopAtElse 0 rest
    | _, d => skip stopAtElse d rest

/-- number of sends on every path through the body -/
def sends : Nat → Nat → List Tok → List Nat
  | 0, n, _ => [n]
  | _, n, [] => [n]
  | fuel + 1, n, t :: rest =>
    match t with
    | .ifCond _ => sends fuel n rest ++ sends fuel n (skip true 0 rest)
    | .elseTok => sends fuel n (skip false 0 rest)
    | .endIf => sends fuel n rest
    | .send => sends fuel (n + 1) rest
    | .ret => [n]
    | .other _ => sends fuel n rest

def allSends (body : List Tok) : List Nat := sends (body.length + 1) 0 body

/-- every path sends exactly once, and the caller receives exactly once -/
def ok (body : List Tok) (receives : Nat) : Bool :=
  (allSends body).all (· == 1) && !(allSends body).isEmpty && receives == 1

end Scrapli.Close.OneResult
