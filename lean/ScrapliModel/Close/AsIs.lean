import ScrapliModel.Close.Basic
/-!
# Shutdown skeleton of the *unrepaired* code (scrapligo before fix-1 … fix-5)

Same modelling conventions as `Model.lean`, for the code as it was:

* `Channel.Close`: `close(c.Errs)`; if `!c.readLoopExited` start a sender goroutine `S` that does
  `c.done <- struct{}{}` and then closes the local channel `ch`, else close `ch`;
  `select { <-ch → t.Close(false); <-time.After(grace) → t.Close(true) }`. No guard against a second call.
* `Channel.read`: `done` is *received* (non-blocking) at the loop top and after a failed read; a
  non-EOF error is handed over with a plain blocking `c.Errs <- err`; the deferred exit stores the
  plain bool `readLoopExited`.
* `Channel.Read`: non-blocking receive on `Errs` (a closed `Errs` yields `nil, nil`), then the plain
  load of `readLoopExited`.
* `netconf.Driver.Close`: blocking `d.done <- true`, then `Channel.Close`;
  `netconf.Driver.read`: non-blocking receive of `d.done` at the loop top, `Channel.Read`, on error a
  plain blocking `d.errs <- err` (nobody may be listening).

It exists to *exhibit* the executions on which the unrepaired code violates C07
(`Props/C07.lean`, section "the unrepaired skeleton fails"); each of them was also observed on the
real code by the harness.
-/
namespace Scrapli.Close.AsIs
open Scrapli.Close

inductive AR | top | pre | inRead | postOk | postEof | postErr | send | parked | sent | exit | dead
  deriving DecidableEq, Repr, Inhabited
inductive AK | idle | ncDone | ncParked | ncChan | entry | flag | select | nice | force | ret
  deriving DecidableEq, Repr, Inhabited
/-- the goroutine `Close` starts to send on `done` -/
inductive AS | none | yield | parked | done
  deriving DecidableEq, Repr, Inhabited
inductive AO | absent | start | errs | flag | ret
  deriving DecidableEq, Repr, Inhabited
inductive AN | absent | top | pre | send | parked | dead
  deriving DecidableEq, Repr, Inhabited

structure St where
  nc : Bool
  mode : Mode
  twice : Bool
  r : AR
  k : AK
  second : Bool
  s : AS
  o : AO
  n : AN
  feed : Feed
  left : Bool          -- the device may still produce one arrival
  errsClosed : Bool    -- close(c.Errs) has happened
  exited : Bool        -- readLoopExited (plain bool)
  chClosed : Bool      -- the closer's local channel `ch` is closed
  closeCalls : Nat
  panic : Panic
  deriving DecidableEq, Repr, Inhabited

inductive Proc | R | K | S | O | N | E
  deriving DecidableEq, Repr

def implClosed (s : St) : Bool := decide (0 < s.closeCalls)

/-- the read loop receives `done` iff the sender goroutine is parked on it -/
def recvDone (s : St) : Option St :=
  if s.s = .parked then some { s with r := .exit, s := .done, chClosed := true } else none

def stepR (s : St) : List St :=
  match s.r with
  | .top => [(recvDone s).getD { s with r := .pre }]
  | .pre => [{ s with r := .inRead }]
  | .inRead =>
    if implClosed s then
      match s.mode with
      | .eofOnClose => [{ s with r := .postEof }]
      | .errOnClose => [{ s with r := .postErr }]
      | .stay => []
    else
      match s.feed with
      | .quiet => []
      | .data => [{ s with r := .postOk, feed := .quiet }]
      | .eof => [{ s with r := .postEof }]
      | .err => [{ s with r := .postErr }]
  | .postOk => [{ s with r := .top }]
  | .postEof => [(recvDone s).getD { s with r := .exit }]
  | .postErr => [(recvDone s).getD { s with r := .send }]
  | .send => [if s.errsClosed then { s with panic := .sendOnClosed } else { s with r := .parked }]
  | .parked => if s.errsClosed then [{ s with panic := .sendOnClosed }] else []
  | .sent => [{ s with r := .top }]
  | .exit => [{ s with r := .dead, exited := true }]
  | .dead => []

def stepK (s : St) : List St :=
  match s.k with
  | .idle => [if s.nc then { s with k := .ncDone } else { s with k := .entry }]
  | .ncDone => [{ s with k := .ncParked }]        -- blocks in `d.done <- true`
  | .ncParked => []                               -- released by the NETCONF read loop's receive
  | .ncChan => [{ s with k := .entry }]
  | .entry =>
    [if s.errsClosed then { s with panic := .closeOfClosed } else { s with k := .flag, errsClosed := true }]
  | .flag =>
    [if s.exited then { s with k := .select, chClosed := true } else { s with k := .select, s := .yield }]
  | .select => if s.chClosed then [{ s with k := .force }, { s with k := .nice }] else [{ s with k := .force }]
  | .nice => if s.r = .inRead then [] else [{ s with k := .ret, closeCalls := s.closeCalls + 1 }]
  | .force => [{ s with k := .ret, closeCalls := s.closeCalls + 1 }]
  | .ret =>
    if s.twice && !s.second then
      [if s.nc then { s with k := .ncDone, second := true } else { s with k := .entry, second := true }]
    else []

def stepS (s : St) : List St :=
  match s.s with
  | .yield => [{ s with s := .parked }]           -- blocks in `c.done <- struct{}{}`
  | _ => []

def stepO (s : St) : List St :=
  match s.o with
  | .absent => []
  | .start => [{ s with o := .errs }]
  | .errs =>
    [if s.errsClosed then { s with o := .ret }      -- receive from the closed channel: `nil, nil`
     else if s.r = .parked then { s with o := .ret, r := .sent }
     else { s with o := .flag }]
  | .flag => [{ s with o := .ret }]
  | .ret => []

def stepN (s : St) : List St :=
  match s.n with
  | .absent => []
  | .top => [if s.k = .ncParked then { s with n := .dead, k := .ncChan } else { s with n := .pre }]
  | .pre =>
    -- `Channel.Read()` as one step
    [if s.errsClosed then { s with n := .top }
     else if s.r = .parked then { s with n := .send, r := .sent }
     else if s.exited then { s with n := .send }
     else { s with n := .top }]
  | .send => [{ s with n := .parked }]            -- blocks in `d.errs <- err`, nobody listens
  | .parked => []
  | .dead => []

def stepE (s : St) : List St :=
  if s.left && s.feed = .quiet then
    [{ s with feed := .data, left := false }, { s with feed := .eof, left := false },
     { s with feed := .err, left := false }]
  else []

def stepP (p : Proc) (s : St) : List St :=
  if s.panic ≠ .none then [] else
  match p with
  | .R => stepR s | .K => stepK s | .S => stepS s | .O => stepO s | .N => stepN s | .E => stepE s

def next (s : St) : List St :=
  if s.panic ≠ .none then [] else stepR s ++ stepK s ++ stepS s ++ stepO s ++ stepN s ++ stepE s

def mkInit (nc : Bool) (mode : Mode) (twice hasOp : Bool) : St :=
  { nc, mode, twice, r := .top, k := .idle, second := false, s := .none,
    o := if !nc && hasOp then .start else .absent, n := if nc then .top else .absent,
    feed := .quiet, left := true, errsClosed := false, exited := false, chClosed := false,
    closeCalls := 0, panic := .none }

/-- a schedule: which process moves, and which of its alternatives it takes -/
abbrev Sched := List (Proc × Nat)

/-- run a schedule (`none` if it asks a process to move that cannot) -/
def exec : St → Sched → Option St
  | s, [] => some s
  | s, (p, i) :: rest => match (stepP p s)[i]? with
    | some s' => exec s' rest
    | none => none

inductive Reach : St → St → Prop
  | refl (s : St) : Reach s s
  | step (s s₁ s' : St) : s₁ ∈ next s → Reach s₁ s' → Reach s s'

def accR : AR → List (Var × Acc)
  | .exit => [(.exitedFlag, .plainW)] | _ => []
def accK : AK → List (Var × Acc)
  | .flag => [(.exitedFlag, .plainR)] | _ => []
def accO : AO → List (Var × Acc)
  | .flag => [(.exitedFlag, .plainR)] | _ => []

/-- two processes are about to make conflicting plain accesses to `readLoopExited` -/
def race (s : St) : Bool :=
  conflict (accR s.r) (accK s.k) || conflict (accR s.r) (accO s.o)

/-- nothing can move, yet `Close` has not returned -/
def closeHung (s : St) : Bool := (next s).isEmpty && s.panic = .none && s.k ≠ .ret

/-- `Close` returned, nothing can move, the transport's read unblocks on close, and a library
goroutine is still there -/
def leaked (s : St) : Bool :=
  (next s).isEmpty && s.panic = .none && s.k = .ret && s.mode ≠ .stay
  && (s.s = .yield || s.s = .parked || (s.r ≠ .dead) || (s.n ≠ .absent && s.n ≠ .dead))

end Scrapli.Close.AsIs
