import ScrapliModel.Close.Basic
/-!
# Shutdown skeleton of a connection (generic / network / NETCONF driver) — repaired skeleton

Processes
* `R`  the channel read loop (`Channel.read`, channel/read.go);
* `K`  the closer: the caller's goroutine in `Driver.Close` (for NETCONF: `netconf.Driver.Close`,
       then) `Channel.Close`, `Transport.Close`; optionally it calls `Close` a second time;
* `O`  (generic/network only) an in-flight operation of another user goroutine: two consecutive
       `Channel.Read()` calls;
* `N`  (NETCONF only) the NETCONF read loop (`netconf.Driver.read`), which calls `Channel.Read()`;
* `W`  (NETCONF only, optional) an RPC in flight, waiting in `sendRPC`'s final select;
* `E`  the device side: up to two arrivals of data / EOF / a persistent non-EOF read error.

Shared variables are those of the code: `Channel.closed` (atomic), `Channel.done` (closed by
`Close`), `Channel.Errs` (unbuffered, never closed), `Channel.readLoopExited` (atomic),
`readLoopDone` (closed by the read loop's deferred exit), `Transport.implLock` (held by the read
loop while it is inside `Impl.Read`; taken by `Transport.Close(false)`), the transport
implementation's closed state, `netconf.Driver.done` (closed once by `Close`), `netconf.Driver.errs`
(unbuffered).

One step of a process = run from one yield point of the `verif` hooks to the next (or block, or
terminate); rendezvous on an unbuffered channel move both parties.

This is the skeleton of the code *with* the repairs fix-1 … fix-5; `AsIs.lean` has the skeleton of
the unrepaired code and the executions on which that one fails.
-/
namespace Scrapli.Close
namespace Sys

structure St where
  -- scenario constants
  nc : Bool           -- NETCONF driver
  mode : Mode
  twice : Bool        -- the caller calls Close a second time after the first returned
  closeErr : Bool     -- `Impl.Close()` returns a non-nil error (peer already gone, connection reset)
  -- program counters
  r : RPc
  k : KPc
  second : Bool       -- the closer is in (or past) its second Close call
  o : OPc
  oSecond : Bool      -- the operation is in its second Channel.Read()
  n : NPc
  w : WPc
  -- environment
  feed : Feed
  left : Left
  -- shared variables of the code
  closedFlag : Bool   -- Channel.closed
  doneClosed : Bool   -- close(c.done) has happened
  exited : Bool       -- Channel.readLoopExited
  rlDone : Bool       -- readLoopDone is closed
  ncDoneClosed : Bool -- close(d.done) has happened (netconf)
  closeCalls : Nat    -- number of Impl.Close calls so far
  lastErr : Bool      -- the most recent `Channel.Close` returned a non-nil error
  panic : Panic
  deriving DecidableEq, Repr, Inhabited

inductive Proc | R | K | O | N | W | E
  deriving DecidableEq, Repr

def implClosed (s : St) : Bool := decide (0 < s.closeCalls)

/-- the channel read loop, channel/read.go `read` -/
def stepR (s : St) : List St :=
  match s.r with
  | .top => [if s.doneClosed then { s with r := .exit } else { s with r := .pre }]
  | .pre => [{ s with r := .inRead }]           -- `implLock.Lock()`, enter `Impl.Read`
  | .inRead =>
    -- `Impl.Close` already called: what the transport does with a read in progress (sim.Pipe tests
    -- this first); otherwise whatever the device offers
    if implClosed s then
      match s.mode with
      | .eofOnClose => [{ s with r := .postEof }]
      | .errOnClose => [{ s with r := .postErr }]
      | .stay => []
    else
      match s.feed with
      | .quiet => []
      | .data => [{ s with r := .postOk, feed := .quiet }]
      | .eof => [{ s with r := .postEof }]
      | .err => [{ s with r := .postErr }]
  | .postOk => [{ s with r := .top }]           -- Enqueue, sleep
  | .postEof => [{ s with r := .exit }]         -- `done` closed → return; else EOF → return
  | .postErr => [if s.doneClosed then { s with r := .exit } else { s with r := .send }]
  | .send => [if s.doneClosed then { s with r := .exit } else { s with r := .parked }]
  | .parked => []                               -- moved by a receiver (→ sent) or by close(done) (→ woken)
  | .woken => [{ s with r := .exit }]
  | .sent => [{ s with r := .top }]             -- sleep, continue
  | .exit =>
    [if s.rlDone then { s with r := .dead, exited := true, panic := .closeOfClosed }
     else { s with r := .dead, exited := true, rlDone := true }]
  | .dead => []
  | .never => []

/-- the closer: driver/netconf/driver.go `Close`, channel/channel.go `Close`,
transport/transport.go `Close` -/
def stepK (s : St) : List St :=
  match s.k with
  | .idle => [if s.nc then { s with k := .ncDone } else { s with k := .entry }]
  | .ncDone =>
    -- closeOnce.Do(close(d.done)); closing the channel commits a read loop parked in
    -- `select { d.errs <- err; <-d.done }` to the done case
    [{ s with k := .ncChan, ncDoneClosed := true, n := if s.n = .parked then .woken else s.n }]
  | .ncChan => [{ s with k := .entry }]
  | .entry =>
    [if s.closedFlag then { s with k := .chanRet, lastErr := false }   -- already closed: `return nil`
     else { s with k := .signal, closedFlag := true }]
  | .signal =>
    -- close(c.done); closing the channel commits a read loop parked in
    -- `select { c.Errs <- err; <-c.done }` to the done case
    [if s.doneClosed then { s with panic := .closeOfClosed }
     else { s with k := .select, doneClosed := true, r := if s.r = .parked then .woken else s.r }]
  | .select =>
    -- the grace timer is an always enabled alternative; the other one needs readLoopDone closed
    if s.rlDone then [{ s with k := .force }, { s with k := .nice }] else [{ s with k := .force }]
  -- `return c.t.Close(…)`: the transport implementation is closed whether or not it reports an error
  | .nice =>
    [if s.r = .inRead then { s with k := .niceLk }
     else { s with k := .chanRet, closeCalls := s.closeCalls + 1, lastErr := s.closeErr }]
  | .niceLk =>
    if s.r = .inRead then [] else [{ s with k := .chanRet, closeCalls := s.closeCalls + 1, lastErr := s.closeErr }]
  | .force => [{ s with k := .chanRet, closeCalls := s.closeCalls + 1, lastErr := s.closeErr }]
  -- back in `Driver.Close`: `if err != nil { return err }`, else log and `return nil`; neither
  -- branch has anything left to do (for NETCONF `d.done` was closed *before* `Channel.Close`)
  | .chanRet => [{ s with k := .ret }]
  | .ret =>
    if s.twice && !s.second then
      [if s.nc then { s with k := .ncDone, second := true } else { s with k := .entry, second := true }]
    else []

/-- an in-flight operation, channel/read.go `Read` (twice) -/
def stepO (s : St) : List St :=
  match s.o with
  | .absent => []
  | .start => [{ s with o := .errs }]
  | .errs => [if s.r = .parked then { s with o := .ret, r := .sent } else { s with o := .flag }]
  | .flag => [if s.exited then { s with o := .ret } else { s with o := .deq }]
  | .deq => [if s.oSecond then { s with o := .ret } else { s with o := .errs, oSecond := true }]
  | .ret => []

/-- the NETCONF read loop, driver/netconf/read.go `read` -/
def stepN (s : St) : List St :=
  match s.n with
  | .absent => []
  | .top => [if s.ncDoneClosed then { s with n := .dead } else { s with n := .pre }]
  | .pre => [{ s with n := .cErrs }]
  | .cErrs => [if s.r = .parked then { s with n := .send, r := .sent } else { s with n := .cFlag }]
  | .cFlag => [if s.exited then { s with n := .send } else { s with n := .cDeq }]
  | .cDeq => [{ s with n := .top }]
  | .send =>
    if s.w = .parked then
      if s.ncDoneClosed then [{ s with n := .sent, w := .got }, { s with n := .dead }]
      else [{ s with n := .sent, w := .got }]
    else
      [if s.ncDoneClosed then { s with n := .dead } else { s with n := .parked }]
  | .parked => []                               -- moved by a waiter (→ sent) or by close(d.done) (→ woken)
  | .woken => [{ s with n := .dead }]
  | .sent => [{ s with n := .top }]
  | .dead => []

/-- an RPC waiting for a reply that never comes, driver/netconf/rpc.go `sendRPC` -/
def stepW (s : St) : List St :=
  match s.w with
  | .absent => []
  | .start => [if implClosed s then { s with w := .ret } else { s with w := .select }]
  | .select => [if s.n = .parked then { s with w := .ret, n := .sent } else { s with w := .parked }]
  | .parked => [{ s with w := .ret }]            -- the operation timer is always enabled
  | .got => [{ s with w := .ret }]
  | .ret => []

/-- the device side -/
def stepE (s : St) : List St :=
  if s.left ≠ .zero ∧ s.feed = .quiet then
    [{ s with feed := .data, left := s.left.pred }, { s with feed := .eof, left := s.left.pred },
     { s with feed := .err, left := s.left.pred }]
  else []

def stepP (p : Proc) (s : St) : List St :=
  if s.panic ≠ .none then [] else
  match p with
  | .R => stepR s | .K => stepK s | .O => stepO s | .N => stepN s | .W => stepW s | .E => stepE s

/-- all successors; a panic stops the whole program -/
def next (s : St) : List St :=
  if s.panic ≠ .none then [] else stepR s ++ stepK s ++ stepO s ++ stepN s ++ stepW s ++ stepE s

/-! ## start states, reachability, executions -/

/-- "after a successful open" (or: never opened): read loop(s) at the loop top, closer not started, an operation / RPC
in flight or not, the device quiet with up to two arrivals to come -/
def isInit (s : St) : Bool :=
  s.k = .idle && !s.second && !s.oSecond
  && (if s.r = .never then
        -- Close before Open (or after an Open that failed before the read loops were started; an
        -- Open that failed later has already called `Channel.Close` itself: that is `twice`)
        s.o = .absent && s.w = .absent && (if s.nc then s.n = .dead else s.n = .absent)
      else
        s.r = .top
        && (if s.nc then s.o = .absent && s.n = .top && (s.w = .absent || s.w = .start)
            else (s.o = .absent || s.o = .start) && s.n = .absent && s.w = .absent))
  && s.feed = .quiet && s.left = .two
  && !s.closedFlag && !s.doneClosed && !s.exited && !s.rlDone && !s.ncDoneClosed
  && s.closeCalls = 0 && !s.lastErr && s.panic = .none

def mkInit (nc : Bool) (mode : Mode) (twice hasOp : Bool) (closeErr : Bool := false) : St :=
  { nc, mode, twice, closeErr, r := .top, k := .idle, second := false,
    o := if !nc && hasOp then .start else .absent, oSecond := false,
    n := if nc then .top else .absent, w := if nc && hasOp then .start else .absent,
    feed := .quiet, left := .two, closedFlag := false, doneClosed := false,
    exited := false, rlDone := false, ncDoneClosed := false, closeCalls := 0, lastErr := false,
    panic := .none }

/-- start state of "Close before Open" -/
def mkPreOpen (nc : Bool) (mode : Mode) (twice : Bool) (closeErr : Bool := false) : St :=
  { mkInit nc mode twice false closeErr with r := .never, n := if nc then .dead else .absent }

def inits : List St :=
  allBool.flatMap fun nc => allMode.flatMap fun m => allBool.flatMap fun tw => allBool.flatMap fun op =>
    allBool.flatMap fun ce => [mkInit nc m tw op ce, mkPreOpen nc m tw ce]

inductive Reach : St → Prop
  | init (s : St) : isInit s = true → Reach s
  | step (s s' : St) : Reach s → s' ∈ next s → Reach s'

/-- `Exec s l s'`: an execution (any schedule) from `s` visiting the states `l`, ending in `s'` -/
inductive Exec : St → List St → St → Prop
  | nil (s : St) : Exec s [] s
  | cons (s s₁ s' : St) (l : List St) : s₁ ∈ next s → Exec s₁ l s' → Exec s (s₁ :: l) s'

/-! ## what the property demands -/

/-- a state in which nothing can move any more is acceptable iff: nobody panicked, Close returned
(both calls, if it is called twice), the transport was closed (exactly once), the operation / RPC
returned, the NETCONF read loop terminated, and the channel read loop terminated unless the
transport's read does not unblock on close -/
def good (s : St) : Bool :=
  s.panic = .none && s.k = .ret && (!s.twice || s.second) && s.closeCalls = 1
  && (s.o = .absent || s.o = .ret) && (s.w = .absent || s.w = .ret)
  && (s.n = .absent || s.n = .dead) && (s.mode = .stay || s.r = .dead || s.r = .never)

/-- shared-variable accesses of the next step of each process -/
def accR : RPc → List (Var × Acc)
  | .top => [(.done, .sync)] | .pre => [(.implLock, .sync)] | .inRead => [(.implLock, .sync)]
  | .postOk => [(.queue, .sync)] | .postEof => [(.done, .sync)] | .postErr => [(.done, .sync)]
  | .send => [(.errs, .sync), (.done, .sync)] | .parked => [(.errs, .sync), (.done, .sync)]
  | .woken => [] | .never => [] | .sent => [] | .exit => [(.exitedFlag, .sync), (.readLoopDone, .sync)] | .dead => []
def accK : KPc → List (Var × Acc)
  | .ncDone => [(.ncDone, .sync)]
  | .entry => [(.closedFlag, .sync)] | .signal => [(.done, .sync)] | .select => [(.readLoopDone, .sync)]
  | .nice => [(.implLock, .sync)] | .niceLk => [(.implLock, .sync)] | _ => []
def accO : OPc → List (Var × Acc)
  | .errs => [(.errs, .sync)] | .flag => [(.exitedFlag, .sync)] | .deq => [(.queue, .sync)] | _ => []
def accN : NPc → List (Var × Acc)
  | .top => [(.ncDone, .sync)] | .cErrs => [(.errs, .sync)] | .cFlag => [(.exitedFlag, .sync)]
  | .cDeq => [(.queue, .sync)] | .send => [(.ncErrs, .sync), (.ncDone, .sync)]
  | .parked => [(.ncErrs, .sync), (.ncDone, .sync)] | _ => []
def accW : WPc → List (Var × Acc)
  | .select => [(.ncErrs, .sync)] | .parked => [(.ncErrs, .sync)] | _ => []

/-- a data race: two different processes are about to access the same variable, both with plain
loads/stores, one of them a store -/
def race (s : St) : Bool :=
  conflict (accR s.r) (accK s.k) || conflict (accR s.r) (accO s.o) || conflict (accR s.r) (accN s.n)
  || conflict (accR s.r) (accW s.w) || conflict (accK s.k) (accO s.o) || conflict (accK s.k) (accN s.n)
  || conflict (accK s.k) (accW s.w) || conflict (accO s.o) (accN s.n) || conflict (accO s.o) (accW s.w)
  || conflict (accN s.n) (accW s.w)

/-- bound on the number of steps still possible once `done` is closed -/
def rank (s : St) : Nat :=
  s.r.rank + s.k.rank + (if s.twice && !s.second then 10 else 0) + s.o.rank s.oSecond
  + s.n.rank + s.w.rank + s.left.toNat

/-! ## inductive invariant (hand-written; proved inductive in `Lemmas/Close.lean`) -/

def kPastNcDone : KPc → Bool
  | .idle | .ncDone => false | _ => true
def kPastEntry : KPc → Bool
  | .signal | .select | .nice | .niceLk | .force | .chanRet | .ret => true | _ => false
def kPastSignal : KPc → Bool
  | .select | .nice | .niceLk | .force | .chanRet | .ret => true | _ => false

/-- the shared variables have the values the program counters determine, and nobody panicked -/
def wf (s : St) : Bool :=
  (s.second || kPastEntry s.k) = s.closedFlag && (s.second || kPastSignal s.k) = s.doneClosed
  && decide (s.r = .dead) = s.exited && decide (s.r = .dead) = s.rlDone
  && (s.nc && (s.second || kPastNcDone s.k)) = s.ncDoneClosed
  && (if s.second || decide (s.k = .ret) || decide (s.k = .chanRet) then 1 else 0) = s.closeCalls
  && s.panic = .none

def inv (s : St) : Bool :=
  wf s
  -- a second Close never gets past the CompareAndSwap
  && (!s.second || s.k = .ncDone || s.k = .ncChan || s.k = .entry || s.k = .chanRet || s.k = .ret)
  -- the graceful path is only taken after the read loop has exited (so `implLock` is free)
  && (!(s.k = .nice || s.k = .niceLk) || s.r = .dead)
  -- what `Channel.Close` returned: the transport's error for the call that closed it, nil for a repeat
  && (!(s.k = .chanRet || s.k = .ret) || s.lastErr = (s.closeErr && !s.second))
  -- nobody is parked on a select whose `done` alternative is ready
  && (!(s.r = .parked) || !s.doneClosed) && (!(s.n = .parked) || !s.ncDoneClosed)
  -- which processes exist
  && (if s.nc then s.o = .absent && s.n ≠ .absent
      else s.n = .absent && s.w = .absent && s.k ≠ .ncDone && s.k ≠ .ncChan)

end Sys
end Scrapli.Close
