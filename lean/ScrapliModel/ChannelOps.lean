import ScrapliModel.Channel
/-!
# Channel operations beyond the plain send (channel/sendinput.go, channel/getprompt.go)

`SendInputB` has two per-operation options that change which reads it makes:

* `InterimPromptPatterns` non-empty: the second read is `ReadUntilAnyPrompt` over
  `PromptPattern :: InterimPromptPatterns` instead of `ReadUntilPrompt`;
* `Eager`: there is no second read at all — the send returns `processOut(nil)` as soon as the echo
  was consumed and the return written; the device's answer stays in the queue and is swallowed
  (with the next echo) by the first read of the following send.

`GetPrompt` writes one return, reads until the prompt pattern matches the search window and returns
`PromptPattern.Find` of everything it read.

A session is a list of such operations (`ChanOp`) run one after the other on the same queue.
`sendInputO cfg {}` is `sendInput cfg` and a list of plain sends is `sendAll`
(`Props/C01.lean`: `sendInputO_default`, `runOps_sends`).

Core Lean only.
-/
namespace Scrapli.Chan
open Scrapli

/-- the per-operation options of `SendInputB` that select its reads (`StripPrompt` and
`ExactMatchInput` are fields of `Cfg`) -/
structure SendOpts where
  eager : Bool := false                     -- opoptions.WithEager
  interim : List (Bytes → Bool) := []       -- opoptions.WithInterimPromptPattern (as matchers)

/-- completion predicate of `SendInputB`'s second read:
`if len(op.InterimPromptPatterns) == 0 { ReadUntilPrompt } else { ReadUntilAnyPrompt(PromptPattern :: interim) }` -/
def finalPred (cfg : Cfg) (interim : List (Bytes → Bool)) : Bytes → Bool :=
  if interim.isEmpty then promptPred cfg else anyPromptPred cfg.depth (cfg.promptP :: interim)

/-- `ReadUntilFuzzy` and `ReadUntilExplicit` both return at once, without reading, when the input
is empty (`if len(b) == 0 { return nil, nil }`) -/
def skipsEcho (cmd : Bytes) : Bool := cmd.isEmpty

/-- the first read of `SendInputB`: until the input is seen (fuzzy or exact) -/
def echoRead (cfg : Cfg) (cmd : Bytes) (q : List Bytes) : Option (Bytes × List Bytes) :=
  if skipsEcho cmd then some ([], q) else readUntil (echoPred cfg cmd) q []

/-- `Channel.SendInputB` with its per-operation options against a causal device -/
def sendInputO (cfg : Cfg) (o : SendOpts) (s : Sess) (x : Exchange) : Option (Bytes × Sess) :=
  let s1 : Sess := { q := s.q ++ x.echo, writes := s.writes ++ [x.cmd] }
  match echoRead cfg x.cmd s1.q with
  | none => none
  | some (_, q2) =>
    let s2 : Sess := { q := q2 ++ x.resp, writes := s1.writes ++ [cfg.ret] }
    if o.eager then some (processOut cfg [], s2)
    else
      match readUntil (finalPred cfg o.interim) s2.q [] with
      | none => none
      | some (rb, q3) => some (processOut cfg rb, { s2 with q := q3 })

/-- `Channel.GetPrompt`: write the return, read until the prompt, return `PromptPattern.Find(rb)`
(`findP`; a parameter like the other regular-expression operations) -/
def getPrompt (cfg : Cfg) (findP : Bytes → Bytes) (s : Sess) (resp : List Bytes) : Option (Bytes × Sess) :=
  let s1 : Sess := { q := s.q ++ resp, writes := s.writes ++ [cfg.ret] }
  match readUntil (promptPred cfg) s1.q [] with
  | none => none
  | some (rb, q2) => some (findP rb, { s1 with q := q2 })

/-- one operation of a session -/
inductive ChanOp where
  | send (o : SendOpts) (x : Exchange)     -- SendInput / SendCommand
  | prompt (resp : List Bytes)             -- GetPrompt; `resp` = what the device emits for the return

def runOp (cfg : Cfg) (findP : Bytes → Bytes) (s : Sess) : ChanOp → Option (Bytes × Sess)
  | .send o x => sendInputO cfg o s x
  | .prompt resp => getPrompt cfg findP s resp

/-- a sequence of operations; stops at the first one that cannot complete -/
def runOps (cfg : Cfg) (findP : Bytes → Bytes) : Sess → List ChanOp → Option (List Bytes × Sess)
  | s, [] => some ([], s)
  | s, op :: ops =>
    match runOp cfg findP s op with
    | none => none
    | some (r, s') =>
      match runOps cfg findP s' ops with
      | none => none
      | some (rs, s'') => some (r :: rs, s'')

/-! ## what the property demands of one operation, as functions of the bytes left in the queue -/

/-- `ExactAt` as a Boolean -/
def exactAtB (P : Bytes → Bool) (S : Bytes) : Bool :=
  P S && (List.range S.length).all fun k => !P (S.take k)

/-- the bytes left in the queue already end in a prompt (and no proper prefix of them does): a
`GetPrompt` is then answered from the queue — the situation right after login, where the device's
first prompt has been read but not consumed — and what the device emits for the return stays
queued for the next operation -/
def promptQueued (cfg : Cfg) (stale : Bytes) : Bool :=
  !stale.isEmpty && exactAtB (promptPred cfg) stale

/-- bytes still queued when the second read of a send starts: nothing — the echo read swallowed
everything up to the end of the echo — unless the echo read was skipped (empty input) -/
def sendPre (_cfg : Cfg) (stale : Bytes) (x : Exchange) : Bytes :=
  if skipsEcho x.cmd then stale ++ x.echo.flatten else []

/-- bytes an operation leaves in the queue when it is well formed: an eager send leaves the whole
answer of the device, a `GetPrompt` answered from the queue leaves the device's reaction to its
return, everything else drains the queue -/
def ChanOp.leaves (cfg : Cfg) (stale : Bytes) : ChanOp → Bytes
  | .send o x => if o.eager then sendPre cfg stale x ++ x.resp.flatten else []
  | .prompt resp => if promptQueued cfg stale then resp.flatten else []

/-- what an operation writes to the transport -/
def ChanOp.writes (cfg : Cfg) : ChanOp → List Bytes
  | .send _ x => [x.cmd, cfg.ret]
  | .prompt _ => [cfg.ret]

/-- the result an operation must return when `stale` bytes were left in the queue before it -/
def ChanOp.spec (cfg : Cfg) (findP : Bytes → Bytes) (stale : Bytes) : ChanOp → Bytes
  | .send o x =>
    if o.eager then processOut cfg [] else processOut cfg (sendPre cfg stale x ++ x.resp.flatten)
  | .prompt resp => if promptQueued cfg stale then findP stale else findP (stale ++ resp.flatten)

def specOps (cfg : Cfg) (findP : Bytes → Bytes) : Bytes → List ChanOp → List Bytes
  | _, [] => []
  | st, op :: ops => op.spec cfg findP st :: specOps cfg findP (op.leaves cfg st) ops

/-- what is left in the queue after the whole list -/
def leavesOps (cfg : Cfg) : Bytes → List ChanOp → Bytes
  | st, [] => st
  | st, op :: ops => leavesOps cfg (op.leaves cfg st) ops

end Scrapli.Chan
