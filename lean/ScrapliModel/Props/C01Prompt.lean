import ScrapliModel.Props.C01Depth
/-!
# C01 — `GetPrompt` returns exactly the prompt line

`Channel.GetPrompt` returns `PromptPattern.Find(rb)`. `Props/C01.lean` (`getPrompt_with_stale`,
`getPrompt_from_queue`) pins `rb`: exactly what the device emitted for the bare return, or exactly
the prompt that was left queued. Here the regular-expression half, for the prompt pattern as it is
in the source now (`Gen.Rx.Channel.promptPattern`, shape checked by `rfl` in `Props/C01Depth.lean`):
on a text made of line feeds followed by one line `p` without line feed — `⏎ prompt`, what a device
prints for a bare return, or the bare `prompt` a login leaves — every match the pattern allows starts
right after the line feeds and ends at the end of the text, so the span `Find` reports (whatever its
priorities) is `p`, whole: no newline in front, no byte of the prompt missing, trailing blanks kept.
-/
namespace Scrapli.Chan.C01
open Scrapli Scrapli.Chan Scrapli.Rx

theorem promptEnd_cls : promptEnd = .cls [(35, 36), (62, 62)] := rfl

theorem promptHeadEnd_noLF : (Re.cat promptHead promptEnd).noLF = true := by decide +kernel

/-- every match of the prompt pattern starts at a line start with a byte that is not a line feed,
is not empty, and ends at a line end -/
theorem promptMatch_shape {P Q : Pos} (h : Matches Gen.Rx.Channel.promptPattern P Q) :
    P.atBol = true ∧ Q.atEol = true ∧ P.off < Q.off ∧ ∃ b t, P.after = b :: t ∧ b ≠ LF := by
  rw [promptPattern_shape] at h
  cases h with
  | cat hb h1 =>
    cases hb with
    | bol hbol =>
      cases h1 with
      | cat hh h2 =>
        cases h2 with
        | cat he h3 =>
          cases h3 with
          | cat hw heol =>
            cases heol with
            | eol heol =>
              rename_i q1 q2
              have hspan := (Matches.cat hh he).noLF_span promptHeadEnd_noLF
              have h12 : q1.off < q2.off ∧ 1 ≤ q1.after.length := by
                rw [promptEnd_cls] at he
                cases he with
                | cls hd hr =>
                  have hw := decodeRune_width hd
                  rw [Pos.advance_off _ _ hw.2]
                  omega
              have h01 := hh.off_le
              have h2q := hw.off_le
              refine ⟨hbol, heol, by omega, ?_⟩
              obtain ⟨n1, hn1, rfl⟩ := hh.advance
              rw [Pos.advance_after, List.length_drop] at h12
              cases hpa : P.after with
              | nil => rw [hpa] at h12; simp at h12
              | cons b t =>
                refine ⟨b, t, rfl, hspan b ?_⟩
                unfold Pos.span
                rw [hpa]
                have : q2.off - P.off = (q2.off - P.off - 1) + 1 := by omega
                rw [this, List.take_succ_cons]
                exact List.mem_cons_self

/-- a position of `s` cuts it at its offset -/
theorem Pos.Of.take_drop {s : Bytes} {p : Pos} (h : p.Of s) :
    p.before.reverse = s.take p.off ∧ p.after = s.drop p.off ∧ p.off ≤ s.length := by
  obtain ⟨hs, ho⟩ := h
  have hl : p.before.reverse.length = p.off := by simp [ho]
  refine ⟨?_, ?_, ?_⟩
  · rw [← hs, ← hl, List.take_left']; rfl
  · rw [← hs, ← hl, List.drop_left']; rfl
  · rw [← hs]; simp [ho]

/-- **The span `Find` reports is the prompt line.** On line feeds followed by one line `p` without
line feed, a match of the prompt pattern can only start right after the line feeds and end at the
end of the text. -/
theorem promptFind_span (pre p : Bytes) (hpre : ∀ b ∈ pre, b = LF) (hp : ∀ b ∈ p, b ≠ LF)
    (a e : Nat) (c : Caps) (h : find Gen.Rx.Channel.promptPattern (pre ++ p) = some (a, e, c)) :
    a = pre.length ∧ e = (pre ++ p).length := by
  obtain ⟨P, Q, _, hP, hQ, ha, he, hM⟩ := find_sound h
  obtain ⟨hbol, heol, hlt, b, t, hpa, hb⟩ := promptMatch_shape hM
  obtain ⟨hPb, hPa, hPl⟩ := Pos.Of.take_drop hP
  obtain ⟨_, hQa, hQl⟩ := Pos.Of.take_drop hQ
  -- the match cannot start inside the line feeds
  have h1 : pre.length ≤ P.off := by
    by_cases hlt' : P.off < pre.length
    · exfalso
      rw [List.drop_append_of_le_length (by omega), List.drop_eq_getElem_cons hlt', hpa] at hPa
      simp only [List.cons_append, List.cons.injEq] at hPa
      exact hb (hPa.1 ▸ hpre _ (List.getElem_mem hlt'))
    · omega
  -- nor inside the line: the byte before it would have to be a line feed
  have h2 : P.off ≤ pre.length := by
    by_cases hgt : pre.length < P.off
    · exfalso
      rw [List.take_append, List.take_of_length_le (by omega)] at hPb
      have hrev : P.before = (p.take (P.off - pre.length)).reverse ++ pre.reverse := by
        have := congrArg List.reverse hPb
        simpa using this
      have hlen : (pre ++ p).length = pre.length + p.length := by simp
      cases hx : (p.take (P.off - pre.length)).reverse with
      | nil =>
        have : (p.take (P.off - pre.length)).length = 0 := by
          have := congrArg List.length hx; simpa using this
        rw [List.length_take] at this
        omega
      | cons y ys =>
        rw [hx] at hrev
        have hy : y ∈ p := by
          have : y ∈ (p.take (P.off - pre.length)).reverse := by rw [hx]; exact List.mem_cons_self
          exact List.mem_of_mem_take (List.mem_reverse.mp this)
        unfold Pos.atBol at hbol
        rw [hrev] at hbol
        simp only [List.cons_append, beq_iff_eq] at hbol
        exact hp y hy hbol
    · omega
  have hoff : P.off = pre.length := by omega
  -- the match ends at a line end behind the line's first byte: the end of the text
  have h3 : Q.after = [] := by
    rw [List.drop_append, List.drop_of_length_le (by omega), List.nil_append] at hQa
    cases hq : Q.after with
    | nil => rfl
    | cons x xs =>
      exfalso
      have hx : x ∈ p := by
        have : x ∈ Q.after := by rw [hq]; exact List.mem_cons_self
        rw [hQa] at this
        exact List.mem_of_mem_drop this
      unfold Pos.atEol at heol
      rw [hq] at heol
      simp only [beq_iff_eq] at heol
      exact hp x hx heol
  refine ⟨by omega, ?_⟩
  rw [← he]
  have := congrArg List.length hQa
  rw [h3, List.length_drop] at this
  simp only [List.length_nil] at this
  omega

/-- `PromptPattern.Find` on `⏎…⏎ p` (or on `p` alone) is `p`, whenever the pattern matches at all -/
theorem promptFind_is_line (pre p : Bytes) (hpre : ∀ b ∈ pre, b = LF) (hp : ∀ b ∈ p, b ≠ LF)
    (hm : isMatch Gen.Rx.Channel.promptPattern (pre ++ p) = true) :
    findBytes Gen.Rx.Channel.promptPattern (pre ++ p) = some p := by
  unfold isMatch at hm
  cases hf : find Gen.Rx.Channel.promptPattern (pre ++ p) with
  | none => rw [hf] at hm; cases hm
  | some r =>
    obtain ⟨a, e, c⟩ := r
    obtain ⟨ha, he⟩ := promptFind_span pre p hpre hp a e c hf
    unfold findBytes
    rw [hf, ha, he]
    simp

/-- `router#`, `⏎router# ` (trailing blank kept), `⏎⏎r1>` -/
example : findBytes Gen.Rx.Channel.promptPattern [114, 111, 117, 116, 101, 114, 35]
      = some [114, 111, 117, 116, 101, 114, 35] ∧
    findBytes Gen.Rx.Channel.promptPattern [10, 114, 111, 117, 116, 101, 114, 35, 32]
      = some [114, 111, 117, 116, 101, 114, 35, 32] ∧
    isMatch Gen.Rx.Channel.promptPattern [10, 10, 114, 49, 62] = true := by
  refine ⟨?_, ?_, ?_⟩ <;> decide +kernel

/-- **`GetPrompt` returns exactly the prompt line.** With the source's prompt pattern as matcher
and `PromptPattern.Find` as extractor: when the device answers the bare return with line feeds and
its prompt line `p` (no line feed inside), cut into reads in any way, and that answer is well formed
(`WellFormedP`: the prompt first looks like a prompt when it is complete), `GetPrompt` from a
drained queue returns `p` — the whole line, nothing before it — leaves the queue empty and has sent
one return. -/
theorem getPrompt_returns_prompt_line (cfg : Cfg) (s : Sess) (resp : List Bytes) (pre p : Bytes)
    (hP : cfg.promptP = fun w => isMatch Gen.Rx.Channel.promptPattern w)
    (hq : s.q.flatten = []) (hr : resp.flatten = pre ++ p)
    (hpre : ∀ b ∈ pre, b = LF) (hp : ∀ b ∈ p, b ≠ LF) (hfit : (pre ++ p).length ≤ cfg.depth)
    (hw : WellFormedP cfg [] resp) :
    ∃ s', getPrompt cfg (fun b => (findBytes Gen.Rx.Channel.promptPattern b).getD []) s resp
        = some (p, s') ∧ s'.q.flatten = [] ∧ s'.writes = s.writes ++ [cfg.ret] := by
  obtain ⟨s', h1, h2, h3⟩ := getPrompt_with_stale cfg
    (fun b => (findBytes Gen.Rx.Channel.promptPattern b).getD []) s resp (by rw [hq]; exact hw)
  refine ⟨s', ?_, h2, h3⟩
  rw [h1, hq, List.nil_append, hr]
  have hm : isMatch Gen.Rx.Channel.promptPattern (pre ++ p) = true := by
    have := hw.2.1
    simp only [List.nil_append, hr, promptPred, hP, window_short _ _ hfit] at this
    exact this
  rw [promptFind_is_line pre p hpre hp hm]
  rfl

/-- the same for the prompt a login left in the queue (`getPrompt_from_queue`): the result is that
prompt line -/
theorem getPrompt_from_queue_returns_prompt_line (cfg : Cfg) (s : Sess) (resp : List Bytes)
    (pre p : Bytes) (hP : cfg.promptP = fun w => isMatch Gen.Rx.Channel.promptPattern w)
    (hs : s.q.flatten = pre ++ p) (hpre : ∀ b ∈ pre, b = LF) (hp : ∀ b ∈ p, b ≠ LF)
    (hfit : (pre ++ p).length ≤ cfg.depth) (hl : promptQueued cfg s.q.flatten = true) :
    ∃ s', getPrompt cfg (fun b => (findBytes Gen.Rx.Channel.promptPattern b).getD []) s resp
        = some (p, s') ∧ s'.q.flatten = resp.flatten ∧ s'.writes = s.writes ++ [cfg.ret] := by
  obtain ⟨s', h1, h2, h3⟩ := getPrompt_from_queue cfg
    (fun b => (findBytes Gen.Rx.Channel.promptPattern b).getD []) s resp hl
  refine ⟨s', ?_, h2, h3⟩
  rw [h1, hs]
  have hm : isMatch Gen.Rx.Channel.promptPattern (pre ++ p) = true := by
    unfold promptQueued at hl
    simp only [Bool.and_eq_true, exactAtB_iff] at hl
    have := hl.2.1
    simp only [hs, promptPred, hP, window_short _ _ hfit] at this
    exact this
  rw [promptFind_is_line pre p hpre hp hm]
  rfl

end Scrapli.Chan.C01
