import ScrapliModel.Lemmas.Platform
import ScrapliModel.Lemmas.PlatformPriv
import ScrapliModel.Props.C04
import ScrapliModel.Generated.Platforms
import ScrapliModel.Lemmas.BodiesPlatform
import ScrapliModel.Generated.BodiesPlatform
/-!
# C17 — every advertised platform definition loads and drives a matching device

The data (`Gen.Platforms.advertised`, `embeddedFiles`, `files`, witness prompts, `goPromptClasses`)
is regenerated from `/repo` on every run, so every `decide +kernel` theorem below is a proof about
exactly the names in `platform/definition.go` and the YAML files in `assets/platforms` of the tree
under check; the regex engine (`Rx.isMatch`) runs inside the kernel on the witness prompts.
`loaded` holds one entry per embedded definition (what `NewPlatform` builds) and one per variant
(what `NewPlatformVariant` builds: `mergeVariant default variant`).

`mergeVariant_spec` and its corollaries are universally quantified over all bases and variants.
-/
namespace Scrapli.Platform.C17
open Scrapli Scrapli.Platform Scrapli.Gen.Platforms

/-- every definition `NewPlatform` / `NewPlatformVariant` can hand to `setDriver` from the
embedded files (example file excluded) -/
abbrev loaded : List Loaded := allLoaded files

/-! ## names and files -/

/-- every advertised name has an embedded file `<name>.yaml`
(`loadPlatformDefinitionFromAssets` appends the suffix and reads `platforms/<name>.yaml`) -/
theorem advertised_have_files : ∀ n ∈ advertised, (n ++ ".yaml") ∈ embeddedFiles := by
  decide +kernel

/-- … and that file parses and has a `default:` section (a missing one is a nil dereference) -/
theorem advertised_files_load :
    ∀ n ∈ advertised, ∃ f ∈ files, f.file = n ++ ".yaml" ∧ f.parses = true ∧ f.hasDefault = true := by
  decide +kernel

/-- the documentation-only example file is not behind any advertised name -/
theorem example_not_advertised : ∀ n ∈ advertised, n ++ ".yaml" ≠ exampleFile := by
  decide +kernel

/-- every embedded definition (advertised or not) parses with a `default:` section -/
theorem embedded_files_load : ∀ f ∈ files, f.parses = true ∧ f.hasDefault = true := by
  decide +kernel

/-- a definition's `platform-type` is its file name (what `GetPlatformType` reports is the name
the platform was loaded by) -/
theorem platform_type_matches_file : ∀ f ∈ files, f.platformType ++ ".yaml" = f.file := by
  decide +kernel

/-- the translator decoded the YAML with the same field names as the code: the `yaml:"…"` tags
of `platform.Definition`, `platform.Platform`, `platform.optionDefinition` and
`network.PrivilegeLevel` equal those of the translator's mirror structs -/
theorem mirror_tags_agree : tagMismatches = [] := by decide +kernel

/-- `load_is_pure`: the definition a load yields is a function of the name and variant alone —
whatever was loaded before and however the holders of those instances mutated them in place — and
the instances alive before the load are left as their holders left them. (By construction in the
model; the named obligation of the harness's history scenarios `c17hist`, which put the real
`NewPlatform` / `NewPlatformVariant` through such histories and compare pointers for sharing.) -/
theorem load_is_pure (fs : List PlatformFile) (hist hist' : List LoadEvent) (file variant : String) :
    (loadAfter fs hist file variant).1 = (loadAfter fs hist' file variant).1
    ∧ (loadAfter fs hist file variant).1 = loadDef fs file variant
    ∧ (loadAfter fs hist file variant).2 = liveInstances fs hist := ⟨rfl, rfl, rfl⟩

/-- an embedded name resolves to the embedded definition whatever the caller's working directory,
file system or network holds under that name -/
theorem embedded_name_ignores_file_system {α : Type} (embedded fs fs' : String → Option α) (name : String)
    (d : α) (h : embedded name = some d) :
    resolveSource embedded fs name = some d ∧ resolveSource embedded fs name = resolveSource embedded fs' name := by
  simp [resolveSource, h]

/-- … and the source consults its sources in that order: the embedded lookup comes before the
file / URL lookup in `loadPlatformDefinition` (go/ast fact) -/
theorem embedded_lookup_first : loadLookupOrder = ["assets", "file-or-url"] := by decide +kernel

/-- the source keeps no state between loads: package platform declares no package-level variable
that holds a map, slice, pointer or sync primitive or that a function assigns (go/ast fact) -/
theorem load_path_has_no_package_state : packageState = [] := by decide +kernel

/-! ## user options layered on a definition -/

/-- options that assign different fields commute -/
theorem applyOpt_comm (c : DriverCfg) (a b : CfgOpt) (h : a.field ≠ b.field) :
    applyOpt (applyOpt c a) b = applyOpt (applyOpt c b) a := by
  cases a <;> cases b <;> first | rfl | (exact absurd rfl h)

/-- `effective_config_user_over_definition`: the effective configuration is the definition's
options followed by the user's — (1) it is the user's list applied to what the definition
configured; (2) a field the user sets last to `v` holds `v` whatever the definition (and the
earlier user options) said; (3) a user option is indifferent to the ORDER of the user options that
assign other fields: moving it across any block of such options changes nothing. -/
theorem effective_config_user_over_definition (defn user : List CfgOpt) :
    effectiveCfg defn user = applyAll (applyAll {} defn) user
    ∧ (∀ (o : CfgOpt) (pre : List CfgOpt), user = pre ++ [o] →
        effectiveCfg defn user = applyOpt (applyAll {} (defn ++ pre)) o)
    ∧ (∀ (o : CfgOpt) (pre mid post : List CfgOpt), (∀ x ∈ mid, x.field ≠ o.field) →
        effectiveCfg defn (pre ++ o :: mid ++ post) = effectiveCfg defn (pre ++ mid ++ o :: post)) := by
  refine ⟨by simp [effectiveCfg, applyAll, List.foldl_append], ?_, ?_⟩
  · intro o pre h
    subst h
    simp [effectiveCfg, applyAll, List.foldl_append]
  · intro o pre mid post hmid
    have key : ∀ (c : DriverCfg) (mid : List CfgOpt), (∀ x ∈ mid, x.field ≠ o.field) →
        mid.foldl applyOpt (applyOpt c o) = applyOpt (mid.foldl applyOpt c) o := by
      intro c mid
      induction mid generalizing c with
      | nil => intro _; rfl
      | cons x t ih =>
        intro h
        simp only [List.foldl_cons]
        rw [applyOpt_comm c o x (fun e => h x (by simp) e.symm)]
        exact ih (applyOpt c x) (fun y hy => h y (by simp [hy]))
    simp only [effectiveCfg, applyAll, List.foldl_append, List.foldl_cons, List.append_assoc]
    rw [key _ mid hmid]

/-- a user who replaces the privilege levels and the default level — in either order, with any
options for other fields in between — gets a driver that constructs: no option is validated
against the half-updated configuration -/
theorem layered_levels_and_default_construct (defn mid : List CfgOpt) (l : List String) (s : String)
    (hl : l ≠ []) (hs : s ≠ "") (hmid : ∀ x ∈ mid, x.field ≠ 0 ∧ x.field ≠ 1) :
    cfgConstructs (effectiveCfg defn (.levels l :: mid ++ [.default s])) = true
    ∧ cfgConstructs (effectiveCfg defn (.default s :: mid ++ [.levels l])) = true := by
  have keep : ∀ (c : DriverCfg) (mid : List CfgOpt), (∀ x ∈ mid, x.field ≠ 0 ∧ x.field ≠ 1) →
      (mid.foldl applyOpt c).levels = c.levels ∧ (mid.foldl applyOpt c).defaultLevel = c.defaultLevel := by
    intro c mid
    induction mid generalizing c with
    | nil => intro _; exact ⟨rfl, rfl⟩
    | cons x t ih =>
      intro h
      have hx := h x (by simp)
      have := ih (applyOpt c x) (fun y hy => h y (by simp [hy]))
      simp only [List.foldl_cons]
      rw [this.1, this.2]
      cases x <;> first | exact ⟨rfl, rfl⟩ | (exact absurd rfl hx.1) | (exact absurd rfl hx.2)
  have hl' : l.isEmpty = false := by cases l <;> simp_all
  constructor
  · simp only [effectiveCfg, applyAll, List.foldl_append, List.foldl_cons, List.foldl_nil]
    generalize hc : applyOpt (List.foldl applyOpt {} defn) (.levels l) = c1
    have h1 : c1.levels = l := by rw [← hc]; rfl
    have k := keep c1 mid hmid
    have e1 : (applyOpt (mid.foldl applyOpt c1) (.default s)).defaultLevel = s := rfl
    have e2 : (applyOpt (mid.foldl applyOpt c1) (.default s)).levels = (mid.foldl applyOpt c1).levels := rfl
    unfold cfgConstructs
    rw [e1, e2, k.1, h1, hl']
    simp [hs]
  · simp only [effectiveCfg, applyAll, List.foldl_append, List.foldl_cons, List.foldl_nil]
    generalize hc : applyOpt (List.foldl applyOpt {} defn) (.default s) = c1
    have h1 : c1.defaultLevel = s := by rw [← hc]; rfl
    have k := keep c1 mid hmid
    have e1 : (applyOpt (mid.foldl applyOpt c1) (.levels l)).levels = l := rfl
    have e2 : (applyOpt (mid.foldl applyOpt c1) (.levels l)).defaultLevel = (mid.foldl applyOpt c1).defaultLevel := rfl
    unfold cfgConstructs
    rw [e1, e2, k.2, h1, hl']
    simp [hs]

example : (∀ x ∈ [CfgOpt.port 2222, .failedWhen ["x"], .transportType "telnet"], x.field ≠ 0 ∧ x.field ≠ 1)
    ∧ effectiveCfg [.levels ["exec", "privilege-exec"], .default "privilege-exec", .failedWhen ["% Invalid"]]
        [.levels ["u-exec", "u-priv"], .port 2222, .default "u-priv"]
      = { levels := ["u-exec", "u-priv"], defaultLevel := "u-priv", failedWhen := ["% Invalid"], port := 2222 } := by
  decide

/-! ## per definition (defaults and merged variants) -/

/-- the declared driver type is one `setDriver` knows -/
theorem driver_type_valid : ∀ l ∈ loaded, driverTypeValid l.d = true := by decide +kernel

/-- `setDriver` builds exactly the declared driver and `network.NewDriver` has nothing to complain
about (default level and level map present) -/
theorem loaded_yield_declared_driver : ∀ l ∈ loaded,
    setDriver l.d = (if l.d.driverType == "network" then DriverKind.network else DriverKind.generic, LoadErr.ok) := by
  decide +kernel

/-- the constructor gets through `setDriver` and `UpdatePrivileges` for every embedded definition
and variant: valid patterns, no write into a missing graph entry -/
theorem loaded_construct : ∀ l ∈ loaded, constructs l.d = true := by decide +kernel

theorem default_level_exists : ∀ l ∈ loaded, isNetwork l.d = true → defaultLevelExists l.d = true := by
  decide +kernel

/-- one root, every `previous-priv` names a level, acyclic, names pairwise distinct -/
theorem levels_form_single_tree : ∀ l ∈ loaded, isNetwork l.d = true → singleTree l.d = true := by
  decide +kernel

/-- for **every** definition (not only the embedded ones): key = name and a single tree exclude the
nil-map panic of `buildPrivGraph` (a `previous-priv` that is no level's name) -/
theorem tree_definitions_build_graph (d : Def) (hk : keyEqName d = true) (ht : singleTree d = true) :
    graphBuildable d = true := singleTree_graphBuildable d hk ht

example : ∃ l ∈ loaded, keyEqName l.d = true ∧ singleTree l.d = true ∧ 3 ≤ l.d.levels.length := by
  decide +kernel

/-- the key of every level in the `privilege-levels` map is the level's `name` (the graph is
keyed by name, the map by key) -/
theorem map_key_eq_name : ∀ l ∈ loaded, keyEqName l.d = true := by decide +kernel

/-- every level pattern and escalate prompt is a valid Go regular expression (`MustCompile`) -/
theorem patterns_compile : ∀ l ∈ loaded, patternsCompile l.d = true := by decide +kernel

/-- each level's canonical prompt is accepted by that level (pattern after not-contains) and by
the joined prompt pattern -/
theorem witness_matches_own_and_joined : ∀ l ∈ loaded, witnessesOk l.d = true := by decide +kernel

/-- which levels are indistinguishable by their canonical prompts: the classes the Lean engine
computes from the generated pattern terms are the classes Go's `regexp` computes from the pattern
sources, for the levels of every default section and of every variant section -/
theorem prompt_classes : ∀ f ∈ files,
    goClassesFor goPromptClasses f.file "" = some (promptClasses f.default) ∧
    ∀ nv ∈ f.variants, nv.2.levels = [] ∨
      goClassesFor goPromptClasses f.file nv.1 = some (promptClasses nv.2) := by
  decide +kernel

/-- an authenticated edge has an escalate prompt, and its canonical text matches it -/
theorem auth_edges_have_prompt : ∀ l ∈ loaded, authEdgesOk l.d = true := by decide +kernel

/-- every on-open / on-close step (generic and network lists) is one of the four operations with
its required argument of the right type; `acquire-priv` targets exist -/
theorem onx_wellformed : ∀ l ∈ loaded, onxWellformed l.d = true := by decide +kernel

/-- `onx_acquire_uses_runtime_default`: for every step list and every pair of defaults, an
`acquire-priv` step that names no (string) target acquires the driver's RUN-TIME default desired
level — whatever the definition's own default is. With a user `WithDefaultDesiredPriv x` layered
on top of a definition the run-time default is `x`, so Open and Close steer to `x`. -/
theorem onx_acquire_uses_runtime_default (r : String) (s : Step)
    (hop : s.get "operation" = some (.str opAcquirePriv)) (ht : isStr (s.get "target") = false) :
    onxAction r s = .acquire r := by
  unfold onxAction
  rw [hop]
  have h1 : (opAcquirePriv == opChannelWrite) = false := by decide
  have h2 : (opAcquirePriv == opChannelReturn) = false := by decide
  simp only [h1, h2, beq_self_eq_true, if_true, Bool.false_eq_true, if_false]
  cases h : s.get "target" with
  | none => rfl
  | some v =>
    cases v with
    | str t => rw [h] at ht; simp [isStr] at ht
    | _ => rfl

theorem runtime_default_is_users (d : Def) (x : String) : runtimeDefault d (some x) = x := rfl
theorem runtime_default_without_user_option (d : Def) : runtimeDefault d none = d.defaultLevel := rfl

example : onxAction "exec" ⟨[("operation", .str "acquire-priv")]⟩ = .acquire "exec"
    ∧ onxAction "exec" ⟨[("operation", .str "acquire-priv"), ("target", .str "configuration")]⟩ = .acquire "configuration" := by
  decide

/-- on the embedded definitions: with a user default `x` (any level of the definition) every level
the on-open and on-close lists acquire is `x` or a target a step names explicitly — never the
definition's own default unless that is `x` -/
theorem loaded_onx_follow_user_default : ∀ l ∈ loaded, ∀ x ∈ l.d.levels,
    ∀ steps ∈ [l.d.netOnOpen.getD [], l.d.netOnClose.getD []],
      ∀ t ∈ acquireTargets (runNetworkOnX (runtimeDefault l.d (some x.key)) steps),
        t = x.key ∨ t ∈ explicitTargets steps := by decide +kernel

/-- the generic lists only use the two operations the generic runner executes -/
theorem generic_onx_effective : ∀ l ∈ loaded, genericOnxEffective l.d = true := by decide +kernel

/-- the definition's own options have known names and values of the type `asOptions` asserts -/
theorem options_wellformed : ∀ l ∈ loaded, optionsOk l.d = true := by decide +kernel

example : optionOk ⟨"port", .int 2022⟩ = true ∧ optionOk ⟨"port", .str "2022"⟩ = false
    ∧ optionOk ⟨"read-delay", .float "0.1"⟩ = true ∧ optionOk ⟨"no-such-option", .null⟩ = false := by
  decide

/-- an options block that is well-formed entry by entry never makes the constructor panic -/
theorem options_block_no_panic (os : List OptionDef) (h : os.all optionOk = true) :
    optionsOutcome os ≠ .panics := by
  have hall : ∀ o ∈ os, optionOutcome o ≠ .panics := by
    intro o ho
    have := List.all_eq_true.1 h o ho
    simpa [optionOk] using this
  unfold optionsOutcome
  have htp : (os.any fun o => optionOutcome o == .panics && (o.name == "port" || o.name == "read-size"
      || o.name == "transport-pty-height" || o.name == "transport-pty-width" || o.name == "prompt-pattern"
      || o.name == "username-pattern" || o.name == "password-pattern" || o.name == "passphrase-pattern"
      || o.name == "return-char" || o.name == "read-delay" || o.name == "timeout-ops" || o.name == "transport-type"
      || o.name == "transport-system-open-args")) = false := by
    rw [List.any_eq_false]
    intro o ho
    have := hall o ho
    simp [this]
  simp only [htp, Bool.false_eq_true, if_false]
  split
  · rename_i o hf
    exact hall o (List.mem_of_find?_eq_some hf)
  · simp

example : optionOutcome ⟨"transport-system-open-args", .strList ["-o", "X=y"]⟩ = .lands "System.ExtraArgs"
    ∧ optionOutcome ⟨"transport-type", .str "carrier-pigeon"⟩ = .badoption
    ∧ optionsOutcome [⟨"port", .int 22⟩, ⟨"transport-type", .str "bogus"⟩, ⟨"nope", .null⟩] = .badoption
    ∧ optionsOutcome [⟨"nope", .null⟩, ⟨"port", .str "x"⟩] = .panics := by decide

/-- the generic runner executes exactly the channel operations: on a list that holds only those,
the generic and the network interpreter do the same, whatever the run-time default level -/
theorem generic_onx_agrees_on_channel_ops (r : String) (steps : List Step)
    (h : steps.all genericStepOk = true) : runGenericOnX steps = runNetworkOnX r steps := by
  induction steps with
  | nil => rfl
  | cons s t ih =>
    simp only [List.all_cons, Bool.and_eq_true] at h
    have hs : onxActionGeneric s = onxAction r s := by
      have h1 := h.1
      unfold genericStepOk at h1
      unfold onxActionGeneric onxAction
      cases hop : s.get "operation" with
      | none => simp [hop] at h1
      | some v =>
        cases v with
        | str op =>
          rw [hop] at h1
          simp only [Bool.or_eq_true] at h1
          rcases h1 with h1 | h1
          · simp [h1]
          · have hne : (op == opChannelWrite) = false := by
              rw [beq_iff_eq] at h1; subst h1; decide
            simp [h1, hne]
        | _ => simp [hop] at h1
    simp only [runGenericOnX, runNetworkOnX, hs, ih h.2]

/-- … and it silently skips the two network operations -/
theorem generic_onx_skips_network_ops (s : Step) (op : String)
    (hop : s.get "operation" = some (.str op)) (h : op = opAcquirePriv ∨ op = opDriverSendCommand) :
    onxActionGeneric s = .skip := by
  unfold onxActionGeneric
  rw [hop]
  have a1 : (opAcquirePriv == opChannelWrite) = false := by decide
  have a2 : (opAcquirePriv == opChannelReturn) = false := by decide
  have b1 : (opDriverSendCommand == opChannelWrite) = false := by decide
  have b2 : (opDriverSendCommand == opChannelReturn) = false := by decide
  rcases h with rfl | rfl <;> simp [a1, a2, b1, b2]

/-- sibling escalate commands differ and none equals the parent's deescalate command, so a device
built from the definition reacts deterministically -/
theorem transitions_unambiguous : ∀ l ∈ loaded, transitionsUnambiguous l.d = true := by decide +kernel

/-- every level that may be a target (the root, or a level with an escalate command) is reachable
from every level over the usable links (up: the level has a deescalate command; down: the child
has an escalate command), levels with indistinguishable canonical prompts counting as one.
Together with `levels_form_single_tree` these are the hypotheses under which C04's
`acquire_reaches_target` gives termination at the target along the tree path. -/
theorem all_levels_reachable : ∀ l ∈ loaded, isNetwork l.d = true → allReachable l.d = true := by
  decide +kernel

/-- the hypotheses above are not vacuous: there are network definitions, one with a variant, one
with at least four levels, and a level that is only a starting point -/
example : (∃ l ∈ loaded, isNetwork l.d = true ∧ 4 ≤ l.d.levels.length)
    ∧ (∃ l ∈ loaded, l.variant ≠ "")
    ∧ (∃ l ∈ loaded, ∃ x ∈ l.d.levels, targetable x = false) := by decide +kernel

/-! ## link to C04: `AcquirePriv` on the definition-derived device

`toCfg d secret orc` (`ScrapliModel/PlatformPriv.lean`) turns a generated definition into C04's
scenario: level table, device prompts = witness prompts, client matcher = not-contains + pattern
(regex engine), password asked on authenticated edges iff a secret is configured. C04's decidable
hypotheses are evaluated by the kernel for every embedded definition and variant; `dom_of_checks`
and C04's theorems then give the acquisition result for EVERY secret, EVERY map-iteration order
(possibly different at every call), every cache content and every log/tick. Definitions that miss a
hypothesis are listed, with the hypothesis, in the generated `c04Exempt` and are left out
explicitly. -/

/-- every network definition not listed in `c04Exempt` meets C04's decidable hypotheses:
`isTree`, `recognises`, `ambigLeaf` (a level whose prompt another level accepts is a leaf),
`cmdsOK` (non-root levels have escalate and deescalate commands, unambiguous among siblings) and
auth flags consistent with the device's asking -/
theorem c04_checks_hold : ∀ l ∈ loaded, isNetwork l.d = true → exemptTag c04Exempt l = none →
    c04Checks l.d = true := by decide +kernel

/-- the exemption list is honest: every entry names a loaded definition and a C04 hypothesis that
the kernel evaluates to false on it -/
theorem c04_exempt_justified : ∀ e ∈ c04Exempt, e.2.2.1 ∈ c04Tags ∧
    ∃ l ∈ loaded, l.file = e.1 ∧ l.variant = e.2.1 ∧ c04Check l.d e.2.2.1 = false := by
  decide +kernel

/-- … and it cannot grow silently: a definition is exempt only for the reason the property itself
grants — a leaf level without an escalate command ("only as a starting point") — with every other
hypothesis of C04 (tree, recognised prompts, ambiguous levels are leaves, unambiguous transition
commands among the levels that have them) holding. A definition that misses another hypothesis
(an ambiguous interior level, a command shared with a sibling or the parent) breaks THIS theorem. -/
theorem c04_exempt_only_source_only : ∀ l ∈ loaded, exemptTag c04Exempt l ≠ none →
    exemptionGranted l.d = true := by decide +kernel

/-- `platform_acquire_reaches_target` (instantiation of C04's `acquire_reaches_target` /
`acquire_log_is_treePath`): for every embedded network definition and merged variant outside
`c04Exempt`, every secret, every valid map-order oracle, every current level and every targetable
level of the definition, every cache that resolves the start (`Resolves`: the start prompt is
unambiguous — then any cache —, or the cache is accurate, or the device already is at the target
and the cache names no level; this is "levels with indistinguishable prompts count as one"), every
log and tick: `AcquirePriv` on the definition-derived device succeeds with the device at the
target, the cache naming it, and the device having received exactly `expectedLog` of the tree
path; the non-empty lines among them are exactly the tree-path commands (`hopLines`: deescalate of
the level left / escalate of the child entered, followed by the secret where the device asks). -/
theorem platform_acquire_reaches_target :
    ∀ l ∈ loaded, isNetwork l.d = true → exemptTag c04Exempt l = none →
    ∀ (secret : Bytes) (orc : Nat → Priv.Orders), (∀ t, (orc t).Valid) →
    ∀ cur ∈ l.d.levels, ∀ tgt ∈ l.d.levels, targetable tgt = true →
    ∀ (cache : Bytes) (log : List (Bytes × Bytes)) (tick : Nat),
      Priv.Resolves (toCfg l.d secret orc) cache (ofStr tgt.name) (ofStr cur.name) →
      Priv.acquirePriv (toCfg l.d secret orc) (ofStr tgt.name)
          ⟨⟨ofStr cur.name, none, log⟩, cache, tick⟩ =
        (none, ⟨⟨ofStr tgt.name, none, log ++ Priv.expectedLog (toCfg l.d secret orc)
                    (Priv.treePath (toCfg l.d secret orc).L (ofStr cur.name) (ofStr tgt.name))⟩,
                ofStr tgt.name,
                tick + (Priv.treePath (toCfg l.d secret orc).L (ofStr cur.name) (ofStr tgt.name)).length⟩)
      ∧ (Priv.expectedLog (toCfg l.d secret orc)
            (Priv.treePath (toCfg l.d secret orc).L (ofStr cur.name) (ofStr tgt.name))).filter
            (fun e => e.2 != []) =
          Priv.hopLines (toCfg l.d secret orc)
            (Priv.treePath (toCfg l.d secret orc).L (ofStr cur.name) (ofStr tgt.name)) := by
  intro l hl hn hex secret orc ho cur hcur tgt htgt _ cache log tick hres
  obtain ⟨hd, htree⟩ := dom_toCfg l.d (c04_checks_hold l hl hn hex) secret orc ho
  have hm : ofStr cur.name ∈ Priv.names (toCfg l.d secret orc).L := mem_names_toCfg hcur
  have ht : ofStr tgt.name ∈ Priv.names (toCfg l.d secret orc).L := mem_names_toCfg htgt
  exact ⟨Priv.C04.acquire_log_is_treePath hd htree ⟨⟨ofStr cur.name, none, log⟩, cache, tick⟩ rfl hm ht hres,
    Priv.C04.acquire_lines_are_path_commands hd _ _ _ (Priv.treePath_simple htree hm ht).1⟩

/-- `platform_acquire_device_need_not_ask`: the same for a device that does NOT ask for the
password although the client has a secondary secret configured (no enable secret set on the
device): every level, the authenticated ones included, is reached along the tree path, and the
secret is never sent (every hop of `expectedLog` in the no-ask scenario is one line: the
deescalate or escalate command alone). -/
theorem platform_acquire_device_need_not_ask :
    ∀ l ∈ loaded, isNetwork l.d = true → exemptTag c04Exempt l = none →
    ∀ (secret : Bytes) (orc : Nat → Priv.Orders), (∀ t, (orc t).Valid) →
    ∀ cur ∈ l.d.levels, ∀ tgt ∈ l.d.levels,
    ∀ (cache : Bytes) (log : List (Bytes × Bytes)) (tick : Nat),
      Priv.Resolves (toCfgNoAsk l.d secret orc) cache (ofStr tgt.name) (ofStr cur.name) →
      Priv.acquirePriv (toCfgNoAsk l.d secret orc) (ofStr tgt.name) ⟨⟨ofStr cur.name, none, log⟩, cache, tick⟩ =
        (none, ⟨⟨ofStr tgt.name, none, log ++ Priv.expectedLog (toCfgNoAsk l.d secret orc)
                    (Priv.treePath (toCfgNoAsk l.d secret orc).L (ofStr cur.name) (ofStr tgt.name))⟩,
                ofStr tgt.name,
                tick + (Priv.treePath (toCfgNoAsk l.d secret orc).L (ofStr cur.name) (ofStr tgt.name)).length⟩)
      ∧ ∀ a b : Bytes, (Priv.stepEntries (toCfgNoAsk l.d secret orc) a b).length = 1 := by
  intro l hl hn hex secret orc ho cur hcur tgt htgt cache log tick hres
  obtain ⟨hd, htree⟩ := dom_toCfgNoAsk l.d (c04_checks_hold l hl hn hex) secret orc ho
  have hm : ofStr cur.name ∈ Priv.names (toCfgNoAsk l.d secret orc).L :=
    mem_names_toCfg (secret := secret) (orc := orc) hcur
  have ht : ofStr tgt.name ∈ Priv.names (toCfgNoAsk l.d secret orc).L :=
    mem_names_toCfg (secret := secret) (orc := orc) htgt
  refine ⟨Priv.C04.acquire_log_is_treePath hd htree ⟨⟨ofStr cur.name, none, log⟩, cache, tick⟩ rfl hm ht hres, ?_⟩
  intro a b
  unfold Priv.stepEntries
  split
  · rfl
  · simp [toCfgNoAsk]

/-- from a level whose prompt no other level accepts, whatever the cache holds -/
theorem platform_acquire_from_unambiguous :
    ∀ l ∈ loaded, isNetwork l.d = true → exemptTag c04Exempt l = none →
    ∀ (secret : Bytes) (orc : Nat → Priv.Orders), (∀ t, (orc t).Valid) →
    ∀ cur ∈ l.d.levels, unambStart l.d cur = true → ∀ tgt ∈ l.d.levels,
    ∀ (cache : Bytes) (log : List (Bytes × Bytes)) (tick : Nat),
      (Priv.acquirePriv (toCfg l.d secret orc) (ofStr tgt.name) ⟨⟨ofStr cur.name, none, log⟩, cache, tick⟩).1 = none
      ∧ (Priv.acquirePriv (toCfg l.d secret orc) (ofStr tgt.name) ⟨⟨ofStr cur.name, none, log⟩, cache, tick⟩).2.dev.mode
          = ofStr tgt.name := by
  intro l hl hn hex secret orc ho cur hcur hu tgt htgt cache log tick
  obtain ⟨hd, htree⟩ := dom_toCfg l.d (c04_checks_hold l hl hn hex) secret orc ho
  have hres : Priv.Resolves (toCfg l.d secret orc) cache (ofStr tgt.name) (ofStr cur.name) := Or.inl hu
  rw [Priv.C04.acquire_log_is_treePath hd htree ⟨⟨ofStr cur.name, none, log⟩, cache, tick⟩ rfl
    (mem_names_toCfg hcur) (mem_names_toCfg htgt) hres]
  exact ⟨rfl, rfl⟩

/-- `onx_acquire_reads_device_level`: an `acquire-priv` step of an on-open / on-close list starts
from the level the device IS in (the prompt is re-read), not from the driver's cached level: for
every covered definition, every secret and map-order oracle, every level `m` the device may have
moved to behind the driver's back (its prompt accepted by no other level), every step that acquires
a level of the definition, and ANY two cache contents — stale, empty, accurate — the step ends
with the device at that level having received exactly the tree path from `m`, and the two runs
are indistinguishable. -/
theorem onx_acquire_reads_device_level :
    ∀ l ∈ loaded, isNetwork l.d = true → exemptTag c04Exempt l = none →
    ∀ (secret : Bytes) (orc : Nat → Priv.Orders), (∀ t, (orc t).Valid) →
    ∀ m ∈ l.d.levels, unambStart l.d m = true → ∀ tgt ∈ l.d.levels,
    ∀ (r : String) (st : Step), onxAction r st = .acquire tgt.name →
    ∀ (cache cache' : Bytes) (log : List (Bytes × Bytes)) (tick : Nat),
      onxAcquire (toCfg l.d secret orc) r st ⟨⟨ofStr m.name, none, log⟩, cache, tick⟩
        = onxAcquire (toCfg l.d secret orc) r st ⟨⟨ofStr m.name, none, log⟩, cache', tick⟩
      ∧ (onxAcquire (toCfg l.d secret orc) r st ⟨⟨ofStr m.name, none, log⟩, cache, tick⟩).1 = none
      ∧ (onxAcquire (toCfg l.d secret orc) r st ⟨⟨ofStr m.name, none, log⟩, cache, tick⟩).2.dev =
          ⟨ofStr tgt.name, none, log ++ Priv.expectedLog (toCfg l.d secret orc)
            (Priv.treePath (toCfg l.d secret orc).L (ofStr m.name) (ofStr tgt.name))⟩ := by
  intro l hl hn hex secret orc ho m hm hu tgt htgt r st hst cache cache' log tick
  obtain ⟨hd, htree⟩ := dom_toCfg l.d (c04_checks_hold l hl hn hex) secret orc ho
  have run : ∀ ca : Bytes, onxAcquire (toCfg l.d secret orc) r st ⟨⟨ofStr m.name, none, log⟩, ca, tick⟩ =
      (none, ⟨⟨ofStr tgt.name, none, log ++ Priv.expectedLog (toCfg l.d secret orc)
          (Priv.treePath (toCfg l.d secret orc).L (ofStr m.name) (ofStr tgt.name))⟩, ofStr tgt.name,
        tick + (Priv.treePath (toCfg l.d secret orc).L (ofStr m.name) (ofStr tgt.name)).length⟩) := by
    intro ca
    unfold onxAcquire
    rw [hst]
    exact Priv.C04.acquire_log_is_treePath hd htree ⟨⟨ofStr m.name, none, log⟩, ca, tick⟩ rfl
      (mem_names_toCfg hm) (mem_names_toCfg htgt) (Or.inl hu)
  rw [run cache, run cache']
  exact ⟨rfl, rfl, rfl⟩

/-- the hypotheses are met and the statement is not vacuous: a covered definition with at least four levels,
an authenticated edge, a level with an unambiguous prompt (any cache) and a level whose prompt
other levels accept too (needs the tracked level) -/
example : ∃ l ∈ loaded, isNetwork l.d = true ∧ exemptTag c04Exempt l = none ∧ 4 ≤ l.d.levels.length
    ∧ (∃ x ∈ l.d.levels, x.escalateAuth = true) ∧ (∃ x ∈ l.d.levels, unambStart l.d x = true)
    ∧ (∃ x ∈ l.d.levels, unambStart l.d x = false) := by
  decide +kernel

/-- a level that is alone in its prompt class (C17's notion) has an unambiguous prompt (C04's) -/
theorem singleton_class_unambiguous : ∀ l ∈ loaded, ∀ x ∈ l.d.levels,
    classOf (confusablePairs l.d.levels) (l.d.levels.map (·.key)) x.key = [x.key] → unambStart l.d x = true := by
  decide +kernel

/-- the full statement for the exempt definitions (all valid oracles, all secrets, caches) is not
proved: C04's theorem needs `cmdsOK` for the whole table -/
def ExemptAcquireFull : Prop :=
  ∀ l ∈ loaded, exemptTag c04Exempt l ≠ none →
    ∀ (secret : Bytes) (orc : Nat → Priv.Orders), (∀ t, (orc t).Valid) →
    ∀ cur ∈ l.d.levels, unambStart l.d cur = true → ∀ tgt ∈ l.d.levels, targetable tgt = true →
    ∀ (cache : Bytes),
      (Priv.acquirePriv (toCfg l.d secret orc) (ofStr tgt.name) ⟨⟨ofStr cur.name, none, []⟩, cache, 0⟩).2.dev.mode
        = ofStr tgt.name

/-- for the definitions in `c04Exempt` (a source-only level breaks `cmdsOK`) the same result by
kernel evaluation for two concrete map orders (identity, reversed) × {no secret, a secret}, empty
cache: from every level with an unambiguous prompt to every targetable level -/
theorem exempt_acquire_evaluated_partial : ∀ l ∈ loaded, exemptTag c04Exempt l ≠ none →
    acquireEvalOK l.d = true := by decide +kernel

/-- the evaluation agrees with the theorem on a covered definition (sanity check of the
instantiation itself: four levels, an authenticated edge, both map orders) -/
example : ∃ l ∈ loaded, l.file = "cisco_iosxe.yaml" ∧ exemptTag c04Exempt l = none ∧ acquireEvalOK l.d = true := by
  decide +kernel

/-! ## variants: `mergeVariant` for all bases and variants -/

section merge
variable {L S O : Type}

/-- a variant replaces exactly the sections it defines among driver type, failure strings,
generic on-open / on-close, privilege levels, default level, network on-open / on-close; options
are never replaced -/
theorem mergeVariant_spec (p v : Sections L S O) :
    let m := mergeVariant p v
    m.driverType = (if v.driverType != "" then v.driverType else p.driverType)
    ∧ m.failedWhen = (if v.failedWhen.length > 0 then v.failedWhen else p.failedWhen)
    ∧ m.onOpen = (if v.onOpen.isSome then v.onOpen else p.onOpen)
    ∧ m.onClose = (if v.onClose.isSome then v.onClose else p.onClose)
    ∧ m.levels = (if v.levels.length > 0 then v.levels else p.levels)
    ∧ m.defaultLevel = (if v.defaultLevel != "" then v.defaultLevel else p.defaultLevel)
    ∧ m.netOnOpen = (if v.netOnOpen.isSome then v.netOnOpen else p.netOnOpen)
    ∧ m.netOnClose = (if v.netOnClose.isSome then v.netOnClose else p.netOnClose)
    ∧ m.options = p.options := by
  simp only [mergeVariant_eq_mergeSpec, mergeSpec, and_self]

/-- a variant that defines nothing leaves the base unchanged -/
theorem mergeVariant_empty (p : Sections L S O) : mergeVariant p {} = p := by
  rw [mergeVariant_eq_mergeSpec]; rfl

/-- a variant that defines all eight sections replaces all eight -/
theorem mergeVariant_full (p v : Sections L S O)
    (h1 : v.driverType ≠ "") (h2 : v.failedWhen ≠ []) (h3 : v.onOpen.isSome) (h4 : v.onClose.isSome)
    (h5 : v.levels ≠ []) (h6 : v.defaultLevel ≠ "") (h7 : v.netOnOpen.isSome) (h8 : v.netOnClose.isSome) :
    mergeVariant p v = { v with options := p.options } := by
  have l2 : v.failedWhen.length > 0 := List.length_pos_iff.mpr h2
  have l5 : v.levels.length > 0 := List.length_pos_iff.mpr h5
  rw [mergeVariant_eq_mergeSpec]
  simp [mergeSpec, h1, h3, h4, h6, h7, h8, l2, l5]

example : ∃ v : Sections Nat Nat Nat, v.driverType ≠ "" ∧ v.failedWhen ≠ [] ∧ v.onOpen.isSome ∧ v.onClose.isSome
    ∧ v.levels ≠ [] ∧ v.defaultLevel ≠ "" ∧ v.netOnOpen.isSome ∧ v.netOnClose.isSome :=
  ⟨{ driverType := "network", failedWhen := ["x"], onOpen := some [], onClose := some [1], levels := [0],
     defaultLevel := "exec", netOnOpen := some [2], netOnClose := some [] }, by decide⟩

/-- merging is idempotent: applying the same variant twice changes nothing more -/
theorem mergeVariant_idem (p v : Sections L S O) :
    mergeVariant (mergeVariant p v) v = mergeVariant p v := by
  simp only [mergeVariant_eq_mergeSpec, mergeSpec]
  congr 1 <;> split <;> rfl

end merge

/-- the generated variants satisfy the specification by evaluation: each embedded variant, merged
by the model, has the variant's levels / default level / failure strings / network on-X lists
where the variant defines them and the default's otherwise, and the default's options -/
theorem generated_variants_merge : ∀ f ∈ files, ∀ nv ∈ f.variants,
    defAgree (mergeVariant f.default nv.2) (mergeSpec f.default nv.2) = true
    ∧ (mergeVariant f.default nv.2).options = f.default.options := by
  decide +kernel

/-! ## tie to the source: translated body = model (regenerated on every run) -/

/-- the body of `(*Platform).mergeVariant` as the translator renders it from the current source
(`Generated/BodiesPlatform.lean`): the eight sections of the receiver end up exactly as the model's
`mergeVariant p v` says (`options` is not assigned), for every base and variant definition -/
theorem generated_mergeVariant_eq {L S O : Type} (p v : Sections L S O) :
    Gen.Bodies.Platform.mergeVariant v p.driverType p.failedWhen p.onOpen p.onClose p.levels p.defaultLevel
        p.netOnOpen p.netOnClose
      = ((mergeVariant p v).driverType, (mergeVariant p v).failedWhen, (mergeVariant p v).onOpen,
          (mergeVariant p v).onClose, (mergeVariant p v).levels, (mergeVariant p v).defaultLevel,
          (mergeVariant p v).netOnOpen, (mergeVariant p v).netOnClose) := by
  simp only [Gen.Bodies.Platform.mergeVariant, mergeVariant, mDriverType_eq, mFailedWhen_eq, mOnOpen_eq, mOnClose_eq,
    mLevels_eq, mDefaultLevel_eq, mNetOnOpen_eq, mNetOnClose_eq, decide_eq_true_eq]

end Scrapli.Platform.C17
