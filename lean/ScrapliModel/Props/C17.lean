import ScrapliModel.Lemmas.Platform
import ScrapliModel.Generated.Platforms
/-!
# C17 — every advertised platform definition loads and drives a matching device

The data (`Gen.Platforms.advertised`, `embeddedFiles`, `files`, witness prompts, `goPromptClasses`)
is regenerated from `/repo` on every run, so every `decide +kernel` theorem below is a proof about
exactly the names in `platform/definition.go` and the YAML files in `assets/platforms` of the tree
under check; the regex engine (`Rx.isMatch`) runs inside the kernel on the witness prompts.
`loaded` holds one entry per embedded definition (what `NewPlatform` builds) and one per variant
(what `NewPlatformVariant` builds: `mergeVariant default variant`).

`mergeVariant_spec` and its corollaries are universally quantified over all bases and variants.
-/
namespace Scrapli.Platform.C17
open Scrapli Scrapli.Platform Scrapli.Gen.Platforms

/-- every definition `NewPlatform` / `NewPlatformVariant` can hand to `setDriver` from the
embedded files (example file excluded) -/
abbrev loaded : List Loaded := allLoaded files

/-! ## names and files -/

/-- every advertised name has an embedded file `<name>.yaml`
(`loadPlatformDefinitionFromAssets` appends the suffix and reads `platforms/<name>.yaml`) -/
theorem advertised_have_files : ∀ n ∈ advertised, (n ++ ".yaml") ∈ embeddedFiles := by
  decide +kernel

/-- … and that file parses and has a `default:` section (a missing one is a nil dereference) -/
theorem advertised_files_load :
    ∀ n ∈ advertised, ∃ f ∈ files, f.file = n ++ ".yaml" ∧ f.parses = true ∧ f.hasDefault = true := by
  decide +kernel

/-- the documentation-only example file is not behind any advertised name -/
theorem example_not_advertised : ∀ n ∈ advertised, n ++ ".yaml" ≠ exampleFile := by
  decide +kernel

/-- every embedded definition (advertised or not) parses with a `default:` section -/
theorem embedded_files_load : ∀ f ∈ files, f.parses = true ∧ f.hasDefault = true := by
  decide +kernel

/-- a definition's `platform-type` is its file name (what `GetPlatformType` reports is the name
the platform was loaded by) -/
theorem platform_type_matches_file : ∀ f ∈ files, f.platformType ++ ".yaml" = f.file := by
  decide +kernel

/-- the translator decoded the YAML with the same field names as the code: the `yaml:"…"` tags
of `platform.Definition`, `platform.Platform`, `platform.optionDefinition` and
`network.PrivilegeLevel` equal those of the translator's mirror structs -/
theorem mirror_tags_agree : tagMismatches = [] := by decide +kernel

/-! ## per definition (defaults and merged variants) -/

/-- the declared driver type is one `setDriver` knows -/
theorem driver_type_valid : ∀ l ∈ loaded, driverTypeValid l.d = true := by decide +kernel

/-- `setDriver` builds exactly the declared driver and `network.NewDriver` has nothing to complain
about (default level and level map present) -/
theorem loaded_yield_declared_driver : ∀ l ∈ loaded,
    setDriver l.d = (if l.d.driverType == "network" then DriverKind.network else DriverKind.generic, LoadErr.ok) := by
  decide +kernel

/-- the constructor gets through `setDriver` and `UpdatePrivileges` for every embedded definition
and variant: valid patterns, no write into a missing graph entry -/
theorem loaded_construct : ∀ l ∈ loaded, constructs l.d = true := by decide +kernel

theorem default_level_exists : ∀ l ∈ loaded, isNetwork l.d = true → defaultLevelExists l.d = true := by
  decide +kernel

/-- one root, every `previous-priv` names a level, acyclic, names pairwise distinct -/
theorem levels_form_single_tree : ∀ l ∈ loaded, isNetwork l.d = true → singleTree l.d = true := by
  decide +kernel

/-- for **every** definition (not only the embedded ones): key = name and a single tree exclude the
nil-map panic of `buildPrivGraph` (a `previous-priv` that is no level's name) -/
theorem tree_definitions_build_graph (d : Def) (hk : keyEqName d = true) (ht : singleTree d = true) :
    graphBuildable d = true := singleTree_graphBuildable d hk ht

example : ∃ l ∈ loaded, keyEqName l.d = true ∧ singleTree l.d = true ∧ l.d.levels.length = 4 := by
  decide +kernel

/-- the key of every level in the `privilege-levels` map is the level's `name` (the graph is
keyed by name, the map by key) -/
theorem map_key_eq_name : ∀ l ∈ loaded, keyEqName l.d = true := by decide +kernel

/-- every level pattern and escalate prompt is a valid Go regular expression (`MustCompile`) -/
theorem patterns_compile : ∀ l ∈ loaded, patternsCompile l.d = true := by decide +kernel

/-- each level's canonical prompt is accepted by that level (pattern after not-contains) and by
the joined prompt pattern -/
theorem witness_matches_own_and_joined : ∀ l ∈ loaded, witnessesOk l.d = true := by decide +kernel

/-- which levels are indistinguishable by their canonical prompts: the classes the Lean engine
computes from the generated pattern terms are the classes Go's `regexp` computes from the pattern
sources, for the levels of every default section and of every variant section -/
theorem prompt_classes : ∀ f ∈ files,
    goClassesFor goPromptClasses f.file "" = some (promptClasses f.default) ∧
    ∀ nv ∈ f.variants, nv.2.levels = [] ∨
      goClassesFor goPromptClasses f.file nv.1 = some (promptClasses nv.2) := by
  decide +kernel

/-- an authenticated edge has an escalate prompt, and its canonical text matches it -/
theorem auth_edges_have_prompt : ∀ l ∈ loaded, authEdgesOk l.d = true := by decide +kernel

/-- every on-open / on-close step (generic and network lists) is one of the four operations with
its required argument of the right type; `acquire-priv` targets exist -/
theorem onx_wellformed : ∀ l ∈ loaded, onxWellformed l.d = true := by decide +kernel

/-- the generic lists only use the two operations the generic runner executes -/
theorem generic_onx_effective : ∀ l ∈ loaded, genericOnxEffective l.d = true := by decide +kernel

/-- the definition's own options have known names and values of the type `asOptions` asserts -/
theorem options_wellformed : ∀ l ∈ loaded, optionsOk l.d = true := by decide +kernel

example : optionOk ⟨"port", .int 2022⟩ = true ∧ optionOk ⟨"port", .str "2022"⟩ = false
    ∧ optionOk ⟨"read-delay", .float "0.1"⟩ = true ∧ optionOk ⟨"no-such-option", .null⟩ = false := by
  decide

/-- sibling escalate commands differ and none equals the parent's deescalate command, so a device
built from the definition reacts deterministically -/
theorem transitions_unambiguous : ∀ l ∈ loaded, transitionsUnambiguous l.d = true := by decide +kernel

/-- every level that may be a target (the root, or a level with an escalate command) is reachable
from every level over the usable links (up: the level has a deescalate command; down: the child
has an escalate command), levels with indistinguishable canonical prompts counting as one.
Together with `levels_form_single_tree` these are the hypotheses under which C04's
`acquire_reaches_target` gives termination at the target along the tree path. -/
theorem all_levels_reachable : ∀ l ∈ loaded, isNetwork l.d = true → allReachable l.d = true := by
  decide +kernel

/-- the hypotheses above are not vacuous: there are network definitions, one with a variant, one
with six levels, and a level that is only a starting point -/
example : (∃ l ∈ loaded, isNetwork l.d = true ∧ l.d.levels.length = 6)
    ∧ (∃ l ∈ loaded, l.variant ≠ "")
    ∧ (∃ l ∈ loaded, ∃ x ∈ l.d.levels, targetable x = false) := by decide +kernel

/-! ## variants: `mergeVariant` for all bases and variants -/

section merge
variable {L S O : Type}

/-- a variant replaces exactly the sections it defines among driver type, failure strings,
generic on-open / on-close, privilege levels, default level, network on-open / on-close; options
are never replaced -/
theorem mergeVariant_spec (p v : Sections L S O) :
    let m := mergeVariant p v
    m.driverType = (if v.driverType != "" then v.driverType else p.driverType)
    ∧ m.failedWhen = (if v.failedWhen.length > 0 then v.failedWhen else p.failedWhen)
    ∧ m.onOpen = (if v.onOpen.isSome then v.onOpen else p.onOpen)
    ∧ m.onClose = (if v.onClose.isSome then v.onClose else p.onClose)
    ∧ m.levels = (if v.levels.length > 0 then v.levels else p.levels)
    ∧ m.defaultLevel = (if v.defaultLevel != "" then v.defaultLevel else p.defaultLevel)
    ∧ m.netOnOpen = (if v.netOnOpen.isSome then v.netOnOpen else p.netOnOpen)
    ∧ m.netOnClose = (if v.netOnClose.isSome then v.netOnClose else p.netOnClose)
    ∧ m.options = p.options := by
  simp only [mergeVariant_eq_mergeSpec, mergeSpec, and_self]

/-- a variant that defines nothing leaves the base unchanged -/
theorem mergeVariant_empty (p : Sections L S O) : mergeVariant p {} = p := by
  rw [mergeVariant_eq_mergeSpec]; rfl

/-- a variant that defines all eight sections replaces all eight -/
theorem mergeVariant_full (p v : Sections L S O)
    (h1 : v.driverType ≠ "") (h2 : v.failedWhen ≠ []) (h3 : v.onOpen.isSome) (h4 : v.onClose.isSome)
    (h5 : v.levels ≠ []) (h6 : v.defaultLevel ≠ "") (h7 : v.netOnOpen.isSome) (h8 : v.netOnClose.isSome) :
    mergeVariant p v = { v with options := p.options } := by
  have l2 : v.failedWhen.length > 0 := List.length_pos_iff.mpr h2
  have l5 : v.levels.length > 0 := List.length_pos_iff.mpr h5
  rw [mergeVariant_eq_mergeSpec]
  simp [mergeSpec, h1, h3, h4, h6, h7, h8, l2, l5]

example : ∃ v : Sections Nat Nat Nat, v.driverType ≠ "" ∧ v.failedWhen ≠ [] ∧ v.onOpen.isSome ∧ v.onClose.isSome
    ∧ v.levels ≠ [] ∧ v.defaultLevel ≠ "" ∧ v.netOnOpen.isSome ∧ v.netOnClose.isSome :=
  ⟨{ driverType := "network", failedWhen := ["x"], onOpen := some [], onClose := some [1], levels := [0],
     defaultLevel := "exec", netOnOpen := some [2], netOnClose := some [] }, by decide⟩

/-- merging is idempotent: applying the same variant twice changes nothing more -/
theorem mergeVariant_idem (p v : Sections L S O) :
    mergeVariant (mergeVariant p v) v = mergeVariant p v := by
  simp only [mergeVariant_eq_mergeSpec, mergeSpec]
  congr 1 <;> split <;> rfl

end merge

/-- the generated variants satisfy the specification by evaluation: each embedded variant, merged
by the model, has the variant's levels / default level / failure strings / network on-X lists
where the variant defines them and the default's otherwise, and the default's options -/
theorem generated_variants_merge : ∀ f ∈ files, ∀ nv ∈ f.variants,
    defAgree (mergeVariant f.default nv.2) (mergeSpec f.default nv.2) = true
    ∧ (mergeVariant f.default nv.2).options = f.default.options := by
  decide +kernel

end Scrapli.Platform.C17
