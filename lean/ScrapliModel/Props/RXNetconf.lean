import ScrapliModel.Lemmas.RegexNetconf
/-!
# RX / NETCONF — the read loop's scanners are the regex engine on the extracted patterns

`Netconf/Store.lean` (model for C02 / C08 / C09) replaces the three regular expressions of
`driver/netconf/read.go` by byte-walking scanners. The theorems below replace the former "scanner =
regexp" trust by proofs against the regex engine (`Rx.isMatch`, `Rx.split2`) run on the `Rx.Re`
terms that the translator regenerates from the source patterns (`Generated/Patterns.lean`), using
the engine's soundness, completeness and leftmost theorems (`Props/RX.lean`). A change of a pattern
in the source changes the regenerated term and breaks these proofs.

What remains trusted on this path: that the engine models Go's `regexp` (per-run Go diff), as before.
-/
namespace Scrapli.Props.RX
open Scrapli Scrapli.Rx Scrapli.Netconf.Store

/-- the regenerated regex term of the end-of-message pattern of each framing version -/
def delimRe : Ver → Re
  | .v10 => Gen.Rx.Netconf.v1Dot0Delim
  | .v11 => Gen.Rx.Netconf.v1Dot1Delim

/-- 1.1: the scanner `match11From` is `(?m)^##$` run by the engine, on every byte string. -/
theorem delimMatch_v11_eq (b : Bytes) :
    delimMatch .v11 b = isMatch Gen.Rx.Netconf.v1Dot1Delim b :=
  delimMatch_v11 b

/-- 1.0: `bytes.Contains`-style search for the source constant is `]]>]]>` run by the engine. -/
theorem delimMatch_v10_eq (b : Bytes) :
    delimMatch .v10 b = isMatch Gen.Rx.Netconf.v1Dot0Delim b :=
  delimMatch_v10 b

theorem delimMatch_eq (v : Ver) (b : Bytes) : delimMatch v b = isMatch (delimRe v) b := by
  cases v
  · exact delimMatch_v10 b
  · exact delimMatch_v11 b

/-- `Split(s, 2)[1]`: the text after the first delimiter match, for both versions. The engine's
match is the leftmost one and its length is forced (6 and 2 bytes), so start and end agree with the
scanners' first occurrence. -/
theorem afterFirstOpt_eq (v : Ver) (b : Bytes) :
    afterFirstOpt v b = (split2 (delimRe v) b).map (·.2) := by
  cases v
  · exact afterFirstOpt_v10 b
  · exact afterFirstOpt_v11 b

/-- reusable form: the engine on a non-empty ASCII literal finds its first occurrence -/
theorem find_literal (bs : Bytes) (h : ∀ b ∈ bs, b.toNat < 128) (hne : bs ≠ []) (s : Bytes) :
    (find (litRe bs) s).map (fun x => (x.1, x.2.1)) =
      (firstFrom (fun k => hasPrefix (s.drop k) bs) (s.length + 1) 0).map
        (fun k => (k, k + bs.length)) :=
  find_litRe h hne s

/-- reusable form: an ASCII literal matches iff it is an infix -/
theorem isMatch_literal (bs : Bytes) (h : ∀ b ∈ bs, b.toNat < 128) (hne : bs ≠ []) (s : Bytes) :
    isMatch (litRe bs) s = isInfix bs s := by
  rw [isMatch_eq_firstFrom _ _ (find_litRe h hne s)]
  exact (isInfix_eq_firstFrom bs s).symm

example : litRe [93, 93, 62] = .cat (.lit 93) (.cat (.lit 93) (.lit 62)) ∧
    (∀ b ∈ ([93, 93, 62] : Bytes), b.toNat < 128) := ⟨rfl, by decide⟩

/-- the full claim about the message-id scanner -/
def FirstIdIsMatch : Prop :=
  ∀ b : Bytes, (firstId b).isSome = isMatch Gen.Rx.Netconf.messageID b

/-- the exact shape of the regenerated message-id term the theorems below are about
(`(?i)(?:message-id\s*=\s*["'](\d+)["'])` as Go parses it): the case-folded literal `message-id`
(`s` also admits U+017F), then `\s*`, `=`, `\s*`, a quote, group 1 = `\d+`, a quote -/
theorem messageID_term_shape :
    Gen.Rx.Netconf.messageID =
      .cat (seqRe [.cls [(77, 77), (109, 109)], .cls [(69, 69), (101, 101)],
          .cls [(83, 83), (115, 115), (383, 383)], .cls [(83, 83), (115, 115), (383, 383)],
          .cls [(65, 65), (97, 97)], .cls [(71, 71), (103, 103)], .cls [(69, 69), (101, 101)],
          .lit 45, .cls [(73, 73), (105, 105)], .cls [(68, 68), (100, 100)]])
        (.cat (.star (.cls [(9, 10), (12, 13), (32, 32)]) true) (.cat (.lit 61)
          (.cat (.star (.cls [(9, 10), (12, 13), (32, 32)]) true) (.cat (.cls [(34, 34), (39, 39)])
            (.cat (.group 1 (.plus (.cls [(48, 57)]) true)) (.cls [(34, 34), (39, 39)])))))) := rfl

/-- `firstId` finds an id exactly when `(?i)(?:message-id\s*=\s*["'](\d+)["'])` matches, for every text that
does not contain `ſ` (U+017F, bytes C5 BF), which Go's `(?i)` folds onto `s`. -/
theorem firstId_isSome_eq_partial (b : Bytes) (hb : isInfix [0xC5, 0xBF] b = false) :
    (firstId b).isSome = isMatch Gen.Rx.Netconf.messageID b :=
  firstId_isSome b (NoLongS.of_isInfix hb)

example : isInfix [0xC5, 0xBF] (ofStr "<rpc-reply message-id=\"101\">") = false ∧
    firstId (ofStr "<rpc-reply message-id=\"101\">") = some 101 := by
  constructor <;> decide +kernel

/-- the spellings of finding C08-F25 are recognised: single quotes, white space around `=` -/
example : firstId (ofStr "<rpc-reply message-id='101'>") = some 101 ∧
    firstId (ofStr "<rpc-reply Message-ID \n=\t \"102'>") = some 102 ∧
    firstId (ofStr "<rpc-reply message-id=101>") = none := by
  refine ⟨?_, ?_, ?_⟩ <;> decide +kernel

/-- the full claim about the captured id: `getID(messageID.FindSubmatch(b))` -/
def FirstIdIsGroup : Prop :=
  ∀ b : Bytes, firstId b = (findGroup Gen.Rx.Netconf.messageID b 1).map atoiClamp

/-- The id `firstId` returns is the engine's capture group 1 of the leftmost match, read as a
decimal (`atoiClamp`), for every text without `ſ`. Captures are covered by soundness of the engine
against the capture-threading relation `Rx.MatchesC`; for this pattern the decomposition of a
match is forced, so the group span is determined. -/
theorem firstId_eq_findGroup_partial (b : Bytes) (hb : isInfix [0xC5, 0xBF] b = false) :
    firstId b = (findGroup Gen.Rx.Netconf.messageID b 1).map atoiClamp :=
  firstId_eq_findGroup b (NoLongS.of_isInfix hb)

example : findGroup Gen.Rx.Netconf.messageID (ofStr "<rpc-reply Message-ID=\"0042\" x=\"7\">") 1
    = some [48, 48, 52, 50] := by decide +kernel

/-- Engine soundness with captures: whatever `find` reports (span and capture table) has a
derivation in the capture-threading relation. -/
theorem find_sound_captures (re : Re) (s : Bytes) (a e : Nat) (c : Caps)
    (h : find re s = some (a, e, c)) :
    ∃ p q, RuneReach (Pos.start s) p ∧ p.Of s ∧ q.Of s ∧ p.off = a ∧ q.off = e ∧
      MatchesC re p [] q c :=
  find_soundC h

/-- one read-loop iteration written with the regex engine on the regenerated patterns, statement by
statement as `(*Driver).read` does it: `PromptPattern.Match`, `bytes.Contains(b, "</rpc>")`,
`Split(b, 2)[1]`, `getID(messageID.FindSubmatch(b))` -/
def bufStepRx (v : Ver) (buf chunk : Bytes) : Bytes × Option (Nat × Bytes) :=
  let b := buf ++ chunk
  if isMatch (delimRe v) b then
    if containsRpcClose b then (((split2 (delimRe v) b).map (·.2)).getD [], none)
    else
      match (findGroup Gen.Rx.Netconf.messageID b 1).map atoiClamp with
      | some n => if n != 0 then ([], some (n, b)) else ([], none)
      | none => ([], none)
  else (b, none)

/-- the full claim: the scanner-based read-loop step of the model is the regex-based one -/
def BufStepIsRegex : Prop := ∀ v buf chunk, bufStep v buf chunk = bufStepRx v buf chunk

/-- The read-loop step of the C08 model (scanners) equals the step computed with the regex engine
on the regenerated patterns, for every framing version, buffer and chunk without `ſ`. -/
theorem bufStep_eq_bufStepRx_partial (v : Ver) (buf chunk : Bytes)
    (hb : isInfix [0xC5, 0xBF] (buf ++ chunk) = false) :
    bufStep v buf chunk = bufStepRx v buf chunk := by
  unfold bufStep bufStepRx afterFirstDelim
  simp only [delimMatch_eq, afterFirstOpt_eq, firstId_eq_findGroup_partial _ hb]
  rfl

/-- The side condition cannot be dropped: the regex (as Go parses it) accepts `meſſage-id="7"`, the
scanner does not. The model and the code differ on such texts (no NETCONF server sends them). -/
theorem firstIdIsMatch_fails : ¬ FirstIdIsMatch := by
  intro h
  have := h [109, 101, 0xC5, 0xBF, 0xC5, 0xBF, 97, 103, 101, 45, 105, 100, 61, 34, 55, 34]
  revert this
  decide +kernel

end Scrapli.Props.RX
