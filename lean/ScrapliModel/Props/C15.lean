import ScrapliModel.Lemmas.Telnet
/-!
# C15 — Telnet option negotiation is answered and kept out of the data stream

Property theorems only. Model and specification: `ScrapliModel/Telnet.lean` (`step`/`negotiate`/
`Conn.read` mirror `transport/telnet.go` with the F8 repair; `tokenize`/`encode`/`Tok.delivered`/
`Tok.answer` are the RFC 854 reading of the opening, written independently with literal RFC byte
values). The protocol bytes the model uses are the regenerated constants
`Scrapli.Gen.Transport.«iac»` …, so a change of a constant in the source re-checks everything here.

Quantifiers: every theorem holds for token streams / byte streams of any length; segmentation and
the moment the negotiation phase ends (socket timeout) enter as "any list of segments" and "any
byte stream, complete or cut in mid-sequence" (`open_total`).
-/
namespace Scrapli.Telnet.C15
open Scrapli Scrapli.Telnet

/-- a server opening: every data token is a non-IAC byte, every two-byte command is neither IAC nor
a negotiation verb -/
def WF (ts : List Tok) : Prop := ∀ t ∈ ts, t.wf = true

instance (ts : List Tok) : Decidable (WF ts) := by unfold WF; infer_instance

/-- non-vacuity: DO SGA, WILL ECHO, banner text, IAC NOP, text, escaped IAC, DONT 24, IAC GA, text -/
example : WF [.neg .DO 3, .neg .WILL 1, .data 72, .data 105, .cmd 241, .data 33, .escIAC,
    .neg .DONT 24, .cmd 249, .data 62] := by decide

/-- Obligation on the regenerated constants: the protocol bytes of the source are the RFC 854/858
values (IAC 255, DONT 254, DO 253, WONT 252, WILL 251, SUPPRESS-GO-AHEAD 3). -/
theorem codes_rfc :
    Gen.Transport.«iac» = 255 ∧ Gen.Transport.«dont» = 254 ∧ Gen.Transport.«do» = 253 ∧
    Gen.Transport.«wont» = 252 ∧ Gen.Transport.«will» = 251 ∧ Gen.Transport.«sga» = 3 := by decide

/-! ## the specification is a faithful reading of the byte stream -/

/-- The tokenizer reads back exactly the tokens the server composed its opening from. -/
theorem tokenize_encode (ts : List Tok) (h : WF ts) : tokenize (encode ts) = (ts, []) := by
  have := tokenize_encode_append ts h []
  simpa [tokenize] using this

/-- Every byte stream is a well-formed token stream followed by an incomplete sequence (`[]`,
`IAC` or `IAC verb`): the tokenizer loses and invents nothing. -/
theorem tokenize_complete (bs : Bytes) :
    bs = encode (tokenize bs).1 ++ (tokenize bs).2 ∧ WF (tokenize bs).1 ∧ Pending (tokenize bs).2 :=
  tokenize_sound bs

/-! ## replies -/

/-- `replies_spec`: for every opening, the bytes written to the server are one reply per
negotiation token, in order (DO SGA → WILL SGA; other DO and every DONT → WONT; WILL → DO;
WONT → DONT), and nothing else. -/
theorem replies_spec (ts : List Tok) (h : WF ts) :
    (openWith (encode ts)).replies = answers ts := by
  simp [openWith, negotiate_encode ts h {} rfl]

/-- "answered exactly once": as many replies as negotiation tokens -/
theorem replies_count (ts : List Tok) (h : WF ts) :
    (openWith (encode ts)).replies.length = (ts.filter isNeg).length := by
  rw [replies_spec ts h]
  clear h
  induction ts with
  | nil => rfl
  | cons t ts ih =>
    have hc : answers (t :: ts) = t.answer ++ answers ts := by simp [answers]
    rw [hc, List.length_append, ih]
    cases t with
    | neg v o =>
      obtain ⟨r, hr⟩ := answer_neg_singleton v o
      simp [hr, isNeg, List.filter_cons]; omega
    | data b => simp [Tok.answer, isNeg]
    | cmd c => simp [Tok.answer, isNeg]
    | escIAC => simp [Tok.answer, isNeg]

/-- the reply table in terms of the source's own constants -/
theorem reply_table (o : UInt8) :
    replyFor DO SGA = some [IAC, WILL, SGA] ∧
    (o ≠ SGA → replyFor DO o = some [IAC, WONT, o]) ∧
    replyFor DONT o = some [IAC, WONT, o] ∧
    replyFor WILL o = some [IAC, DO, o] ∧
    replyFor WONT o = some [IAC, DONT, o] := by
  refine ⟨by decide, ?_, ?_, ?_, ?_⟩
  · intro h
    have h' : o ≠ 3 := by simpa [SGA_eq] using h
    simp [replyFor, DO_eq, DONT_eq, WONT_eq, SGA_eq, IAC_eq, h']
  all_goals simp [replyFor, DO_eq, DONT_eq, WILL_eq, WONT_eq, SGA_eq, IAC_eq]

/-! ## data -/

/-- `data_spec` (the property): after the negotiation phase `initialBuf` is exactly the data of the
token stream, in order: data bytes unmodified, one byte 255 per escaped `IAC IAC`, nothing for
negotiations and two-byte commands; data that follows `IAC NOP` / `IAC GA` / `IAC IAC` is kept.
The parser is back in its idle state. -/
theorem data_spec (ts : List Tok) (h : WF ts) :
    (openWith (encode ts)).data = delivered ts ∧ (openWith (encode ts)).ctrl = [] := by
  simp [openWith, negotiate_encode ts h {} rfl]

/-- no negotiation byte reaches the reader: every byte of `initialBuf` is the byte of a data token
or the 255 of an escaped IAC of the opening -/
theorem no_negotiation_byte (ts : List Tok) (h : WF ts) (b : UInt8)
    (hb : b ∈ (openWith (encode ts)).data) :
    Tok.data b ∈ ts ∨ (b = 255 ∧ Tok.escIAC ∈ ts) := by
  rw [(data_spec ts h).1] at hb
  simp only [delivered, List.mem_flatMap] at hb
  obtain ⟨t, ht, hbt⟩ := hb
  cases t with
  | data c =>
    simp only [Tok.delivered, List.mem_singleton] at hbt
    subst hbt; exact Or.inl ht
  | escIAC =>
    simp only [Tok.delivered, List.mem_singleton] at hbt
    exact Or.inr ⟨hbt, ht⟩
  | neg v o => simp [Tok.delivered] at hbt
  | cmd c => simp [Tok.delivered] at hbt

/-- the F8 clause in plain form: text that follows a two-byte command is delivered -/
theorem data_after_command_kept (c : UInt8) (text : Bytes) (hc : isSimpleCmd c = true)
    (htext : ∀ b ∈ text, b ≠ 255) :
    (openWith ([255, c] ++ text)).data = text := by
  have hwf : WF (Tok.cmd c :: text.map Tok.data) := by
    intro t ht
    simp only [List.mem_cons, List.mem_map] at ht
    rcases ht with rfl | ⟨b, hb, rfl⟩
    · simp only [isSimpleCmd, Bool.and_eq_true, decide_eq_true_eq] at hc
      have h1 : c ≠ 255 := by intro h; subst h; exact absurd hc.2 (by decide)
      have h2 : verbOf c = none := by
        unfold verbOf
        have : c ≠ 251 ∧ c ≠ 252 ∧ c ≠ 253 ∧ c ≠ 254 := by
          refine ⟨?_, ?_, ?_, ?_⟩ <;> (intro h; subst h; exact absurd hc.2 (by decide))
        simp [this]
      simp [Tok.wf, h1, h2]
    · simpa [Tok.wf] using htext b hb
  have henc : ∀ l : Bytes, encode (l.map Tok.data) = l := by
    intro l; induction l with
    | nil => rfl
    | cons x xs ih => simp only [encode, List.map_cons, List.flatMap_cons, Tok.wire] at ih ⊢; simp [ih]
  have hdel : ∀ l : Bytes, delivered (l.map Tok.data) = l := by
    intro l; induction l with
    | nil => rfl
    | cons x xs ih =>
      simp only [delivered, List.map_cons, List.flatMap_cons, Tok.delivered] at ih ⊢; simp [ih]
  have h := (data_spec _ hwf).1
  have e1 : encode (Tok.cmd c :: text.map Tok.data) = [255, c] ++ text := by
    have := henc text
    simp only [encode, List.flatMap_cons, Tok.wire] at this ⊢
    rw [this]
  have e2 : delivered (Tok.cmd c :: text.map Tok.data) = text := by
    have := hdel text
    simp only [delivered, List.flatMap_cons, Tok.delivered, List.nil_append] at this ⊢
    exact this
  rw [e1, e2] at h
  exact h

/-- non-vacuity of `data_after_command_kept`: IAC NOP "abc" -/
example : isSimpleCmd 241 = true ∧ ∀ b ∈ ([97, 98, 99] : Bytes), b ≠ 255 := by decide

/-! ## all byte streams, all segmentations, any end of the negotiation phase -/

/-- `open_total`: for EVERY byte stream that arrives before the negotiation phase ends — complete
or cut in the middle of a sequence — the parser state is: the incomplete tail in `ctrlBuf`, the
data of the complete tokens in `initialBuf`, one reply per complete negotiation. -/
theorem open_total (bs : Bytes) :
    openWith bs =
      { ctrl := (tokenize bs).2, data := delivered (tokenize bs).1, replies := answers (tokenize bs).1 } := by
  obtain ⟨h1, h2, h3⟩ := tokenize_sound bs
  have e : openWith bs = negotiate {} (encode (tokenize bs).1 ++ (tokenize bs).2) := by
    rw [← h1]; rfl
  rw [e, negotiate_append, negotiate_encode _ h2 {} rfl, negotiate_pending _ rfl _ h3]
  simp

/-- the statement the correspondence harness evaluates per case (`dom` = `inDomain`): on a complete
stream of data, negotiations, two-byte commands NOP…GA and escaped IAC the parser ends idle with
the tokenizer's data and answers. -/
theorem in_domain_spec (bs : Bytes) (h : inDomain bs = true) :
    openWith bs =
      { ctrl := [], data := delivered (tokenize bs).1, replies := answers (tokenize bs).1 } := by
  have hp : (tokenize bs).2 = [] := by
    simp only [inDomain, Bool.and_eq_true, List.isEmpty_iff] at h
    exact h.1
  rw [open_total bs, hp]

/-- non-vacuity: DO SGA, "a", IAC NOP, "b", IAC IAC is in the domain; a stream with SB is not -/
example : inDomain [255, 253, 3, 97, 255, 241, 98, 255, 255] = true ∧
    inDomain [255, 250, 24, 1, 255, 240] = false := by decide

/-- feeding the parser segment by segment is feeding it the concatenation -/
theorem negotiateSegs_flatten (s : St) (segs : List Bytes) :
    negotiateSegs s segs = negotiate s segs.flatten := by
  induction segs generalizing s with
  | nil => rfl
  | cons a rest ih =>
    simp only [List.flatten_cons, negotiate_append]
    exact ih (negotiate s a)

/-- segmentation independence: two TCP segmentations of the same opening give the same replies,
the same `initialBuf` and the same parser state. -/
theorem segmentation_independent (segs segs' : List Bytes) (h : segs.flatten = segs'.flatten) :
    negotiateSegs {} segs = negotiateSegs {} segs' := by
  rw [negotiateSegs_flatten, negotiateSegs_flatten, h]

/-- the property for an opening that arrives in any segmentation -/
theorem segmented_spec (ts : List Tok) (h : WF ts) (segs : List Bytes) (hs : segs.flatten = encode ts) :
    negotiateSegs {} segs = { ctrl := [], data := delivered ts, replies := answers ts } := by
  rw [negotiateSegs_flatten, hs, negotiate_encode ts h {} rfl]
  simp

/-- non-vacuity: `IAC DO SGA 'a' IAC NOP 'b'` cut inside both sequences -/
example : ([[255], [253, 3, 97, 255], [241, 98]] : List Bytes).flatten =
    encode [.neg .DO 3, .data 97, .cmd 241, .data 98] := by decide

/-! ## the first reads -/

/-- `first_reads_deliver`: `Telnet.Read` hands out a non-empty `initialBuf` as the result of the
first call, whole and once; after that (or at once when it is empty) the socket's chunks follow. -/
theorem first_reads_deliver (t : Conn) (n : Nat) :
    (t.initialBuf ≠ [] → t.reads (n + 1) = t.initialBuf :: t.sock.take n) ∧
    (t.initialBuf = [] → t.reads n = t.sock.take n) := by
  have hempty : ∀ (n : Nat) (sock : List Bytes), Conn.reads n ⟨[], sock⟩ = sock.take n := by
    intro n
    induction n with
    | zero => intro sock; simp [Conn.reads]
    | succ n ih =>
      intro sock
      cases sock with
      | nil => simp [Conn.reads, Conn.read]
      | cons c cs => simp [Conn.reads, Conn.read, ih]
  obtain ⟨buf, sock⟩ := t
  constructor
  · intro hne
    simp only at hne
    have hlen : buf.length > 0 := by
      cases buf with
      | nil => exact absurd rfl hne
      | cons x xs => simp
    simp [Conn.reads, Conn.read, hlen, hempty]
  · intro he
    simp only at he
    subst he
    exact hempty n sock

/-- end to end: after an opening `ts` (in any segmentation), the concatenation of what the reads
return is the opening's data followed by everything the socket delivers afterwards — in order,
nothing lost, nothing added. -/
theorem reads_deliver_data_then_stream (ts : List Tok) (h : WF ts) (segs sock : List Bytes)
    (hs : segs.flatten = encode ts) :
    (Conn.reads (sock.length + 1) ⟨(negotiateSegs {} segs).data, sock⟩).flatten =
      delivered ts ++ sock.flatten := by
  rw [segmented_spec ts h segs hs]
  simp only
  by_cases he : delivered ts = []
  · have h1 : Conn.reads (sock.length + 1) ⟨delivered ts, sock⟩ = sock := by
      have h2 := (first_reads_deliver ⟨delivered ts, sock⟩ (sock.length + 1)).2 he
      simpa [List.take_of_length_le] using h2
    rw [h1, he]; simp
  · have h1 := (first_reads_deliver ⟨delivered ts, sock⟩ sock.length).1 he
    simp only [List.take_length] at h1
    rw [h1]; simp

/-! ## the read size -/

/-- `initial_buffer_conservation`: for every read size `n ≥ 1`, every buffer content and every
later socket stream (in any chunking), the concatenation of the successive `Read(n)` results is
the buffered data followed by the later stream — nothing lost, nothing added, nothing reordered.
It holds for the code as it is (`.whole`: the first read hands out the whole `initialBuf`, ignoring
`n`) and for the other correct design (`.keepRest`: at most `n` bytes per read, the rest is kept).
`k` is any number of reads that is enough to drain (`Conn.size`). -/
theorem initial_buffer_conservation (p : BufPolicy) (hp : p ≠ .dropRest) (n : Nat) (hn : 1 ≤ n)
    (t : Conn) (k : Nat) (hk : t.size ≤ k) :
    (Conn.readsN p n k t).flatten = t.initialBuf ++ t.sock.flatten :=
  readsN_conserve p hp n hn k t hk

/-- the code as it is: the first `Read(n)` returns the whole buffer even when it is longer than `n` -/
theorem first_read_ignores_size (n : Nat) (t : Conn) (h : t.initialBuf ≠ []) :
    (t.readN .whole n).1 = some t.initialBuf ∧ (t.readN .whole n).2.initialBuf = [] := by
  have hlen : t.initialBuf.length > 0 := by
    cases hb : t.initialBuf with
    | nil => exact absurd hb h
    | cons x xs => simp
  simp [Conn.readN, hlen]

/-- end to end for the code as it is: after an opening `ts` (in any segmentation) and for every read
size, the reads deliver exactly the opening's data followed by the later stream. -/
theorem reads_deliver_all_any_size (ts : List Tok) (h : WF ts) (segs sock : List Bytes)
    (hs : segs.flatten = encode ts) (n : Nat) (hn : 1 ≤ n) (k : Nat)
    (hk : (Conn.mk (delivered ts) sock).size ≤ k) :
    (Conn.readsN .whole n k ⟨(negotiateSegs {} segs).data, sock⟩).flatten =
      delivered ts ++ sock.flatten := by
  rw [segmented_spec ts h segs hs]
  exact initial_buffer_conservation .whole (by decide) n hn _ k hk

/-- non-vacuity: 5 buffered bytes, read size 2, socket chunks of 3 and 1 bytes: 9 reads suffice -/
example : (Conn.mk [1, 2, 3, 4, 5] [[6, 7, 8], [9]]).size ≤ 11 ∧
    Conn.readsN .keepRest 2 11 ⟨[1, 2, 3, 4, 5], [[6, 7, 8], [9]]⟩ = [[1, 2], [3, 4], [5], [6, 7], [8], [9]] ∧
    Conn.readsN .whole 2 11 ⟨[1, 2, 3, 4, 5], [[6, 7, 8], [9]]⟩ = [[1, 2, 3, 4, 5], [6, 7], [8], [9]] := by
  decide

/-- negative witness, "copy `n` bytes, then drop the buffer": whenever more than `n` bytes were
buffered during the negotiation, no number of reads delivers them all. -/
theorem copy_then_drop_loses (n : Nat) (buf : Bytes) (h : n < buf.length) (k : Nat) :
    (Conn.readsN .dropRest n k ⟨buf, []⟩).flatten ≠ buf ++ ([] : List Bytes).flatten := by
  intro heq
  have hlen : buf.length > 0 := by omega
  have hle : (Conn.readsN .dropRest n k ⟨buf, []⟩).flatten.length ≤ n := by
    cases k with
    | zero => simp [Conn.readsN]
    | succ k =>
      cases k with
      | zero => simp [Conn.readsN, Conn.readN, hlen]; omega
      | succ k => simp [Conn.readsN, Conn.readN, hlen]; omega
  rw [heq] at hle
  simp at hle
  omega

/-- the same with a later stream: 5 buffered bytes, read size 2 -/
example : (Conn.readsN .dropRest 2 11 ⟨[1, 2, 3, 4, 5], [[6, 7, 8], [9]]⟩).flatten = [1, 2, 6, 7, 8, 9] := by
  decide

/-! ## pinned behaviour next to the property's domain (coverage round) -/

/-- every option code, every verb: a single request `IAC verb opt` (any of the 4 × 256) is answered
with exactly its one demanded reply and leaves no data and no parser state behind. -/
theorem every_request_answered (v : Verb) (o : UInt8) :
    openWith [255, v.code, o] = { ctrl := [], data := [], replies := Tok.answer (.neg v o) } := by
  have h : WF [Tok.neg v o] := by intro t ht; simp at ht; subst ht; rfl
  have e : encode [Tok.neg v o] = [255, v.code, o] := by simp [encode, Tok.wire]
  have := negotiate_encode [Tok.neg v o] h {} rfl
  rw [e] at this
  simpa [openWith, delivered, answers, Tok.delivered] using this

/-- bytes that arrive AFTER the negotiation phase (nothing was buffered) are handed to the reader
exactly as the socket delivers them — negotiation sequences included: `Read` does not parse, and
nothing is answered (the reply list belongs to `openWith` alone). The property's clauses speak
about the opening phase; this pins what the code does afterwards. -/
theorem late_bytes_pass_through (n : Nat) (hn : 1 ≤ n) (sock : List Bytes) (k : Nat)
    (hk : (Conn.mk [] sock).size ≤ k) :
    (Conn.readsN .whole n k ⟨(openWith []).data, sock⟩).flatten = sock.flatten := by
  have := initial_buffer_conservation .whole (by decide) n hn ⟨[], sock⟩ k hk
  simpa [openWith, negotiate] using this

/-- non-vacuity / witness: `IAC DO 24` arriving after the phase reaches the reader as it is -/
example : (Conn.readsN .whole 8192 3 ⟨(openWith []).data, [[255, 253, 24, 108]]⟩).flatten = [255, 253, 24, 108] := by
  decide

/-- subnegotiation `IAC SB payload IAC SE` is not mentioned by the property and not understood by
the parser: `IAC SB` and `IAC SE` are dropped as two-byte commands and the payload between them is
DELIVERED to the reader as data (for a payload without IAC). A server only sends SB for an option
the client agreed to; the client agrees (`DO`) to every `WILL`, so this can happen. -/
theorem subneg_payload_delivered (payload : Bytes) (hp : ∀ b ∈ payload, b ≠ 255) :
    openWith ([255, 250] ++ payload ++ [255, 240]) =
      { ctrl := [], data := payload, replies := [] } := by
  let ts : List Tok := Tok.cmd 250 :: (payload.map Tok.data ++ [Tok.cmd 240])
  have hwf : WF ts := by
    intro t ht
    simp only [ts, List.mem_cons, List.mem_append, List.mem_map, List.not_mem_nil, or_false] at ht
    rcases ht with rfl | ⟨b, hb, rfl⟩ | rfl
    · decide
    · simpa [Tok.wf] using hp b hb
    · decide
  have henc : ∀ l : Bytes, (l.map Tok.data).flatMap Tok.wire = l := by
    intro l; induction l with
    | nil => rfl
    | cons x xs ih => simp [Tok.wire, ih]
  have hdel : ∀ l : Bytes, (l.map Tok.data).flatMap Tok.delivered = l := by
    intro l; induction l with
    | nil => rfl
    | cons x xs ih => simp [Tok.delivered, ih]
  have hans : ∀ l : Bytes, (l.map Tok.data).flatMap Tok.answer = [] := by
    intro l; induction l with
    | nil => rfl
    | cons x xs ih => simp [Tok.answer, ih]
  have e : encode ts = [255, 250] ++ payload ++ [255, 240] := by
    simp [ts, encode, Tok.wire, List.flatMap_append, henc]
  have := negotiate_encode ts hwf {} rfl
  rw [e] at this
  simpa [openWith, ts, delivered, answers, Tok.delivered, Tok.answer, List.flatMap_append, hdel, hans]
    using this

/-- non-vacuity: `SB TERMINAL-TYPE SEND SE` — the bytes 24, 1 reach the reader -/
example : ∀ b ∈ ([24, 1] : Bytes), b ≠ 255 := by decide

/-! ## the parser before the repair violates the property (finding F8) -/

/-- Before the repair, after `IAC c` with `c` not a negotiation verb, every following non-verb byte
is swallowed: `IAC NOP "abc"` delivers nothing, although `data_after_command_kept` demands "abc". -/
theorem asIs_swallows (c : UInt8) (text : Bytes) (hc : isVerb c = false)
    (htext : ∀ b ∈ text, isVerb b = false) :
    (negotiateAsIs {} ([255, c] ++ text)).data = [] := by
  have hstuck : ∀ (text : Bytes), (∀ b ∈ text, isVerb b = false) →
      negotiateAsIs { ctrl := [255], data := [], replies := [] } text =
        { ctrl := [255], data := [], replies := [] } := by
    intro text
    induction text with
    | nil => intro _; rfl
    | cons x xs ih =>
      intro hx
      have hxv : isVerb x = false := hx x (by simp)
      have : negotiateAsIs { ctrl := [255], data := [], replies := [] } (x :: xs) =
          negotiateAsIs (stepAsIs { ctrl := [255], data := [], replies := [] } x) xs := rfl
      rw [this]
      have hstep : stepAsIs { ctrl := [255], data := [], replies := [] } x =
          { ctrl := [255], data := [], replies := [] } := by
        simp [stepAsIs, hxv]
      rw [hstep]
      exact ih (fun b hb => hx b (by simp [hb]))
  have h0 : negotiateAsIs {} ([255, c] ++ text) =
      negotiateAsIs { ctrl := [255], data := [], replies := [] } text := by
    simp [negotiateAsIs, stepAsIs, IAC_eq, hc]
  rw [h0, hstuck text htext]

/-- non-vacuity: NOP (241) and "abc" satisfy the hypotheses of `asIs_swallows` -/
example : isVerb 241 = false ∧ ∀ b ∈ ([97, 98, 99] : Bytes), isVerb b = false := by decide

/-! ## one transport object, several openings

The property quantifies over every server opening, so what an opening produces must not depend on
the openings the same transport object went through before (truncated in mid-sequence by a hang-up
or by the end of the negotiation phase, or complete). The correspondence harness opens one object
several times in a row and judges each opening on its own; these are the statements it relies on. -/

/-- what an opening writes to the server, and the parser state it ends in, are a function of that
opening's bytes only; bytes left in `initialBuf` by an earlier opening (only possible when no
`Read` handed them out) stay in front of the opening's own data, unchanged. -/
theorem openOn_eq (leftover bs : Bytes) :
    openOn leftover bs = { openWith bs with data := leftover ++ (openWith bs).data } := by
  have h := negotiate_data_prefix leftover {} bs
  simpa [openOn, openWith] using h

/-- `open_history_independent`: when every opening's buffered data was read before the object is
opened again, each opening of the history gives exactly what it gives on a fresh object — whatever
the earlier openings were (complete, cut after `IAC`, cut after `IAC verb`, …). -/
theorem open_history_independent (os : List Opening) (h : ∀ o ∈ os, o.drained = true) :
    history [] os = os.map fun o => openWith o.bytes := by
  induction os with
  | nil => rfl
  | cons o os ih =>
    have ho : o.drained = true := h o (by simp)
    have e : openOn [] o.bytes = openWith o.bytes := rfl
    simp only [history, ho, if_true, List.map_cons, e]
    rw [ih (fun o' h' => h o' (by simp [h']))]

/-- without that hypothesis: replies and final parser state of every opening are still those of a
fresh object (only stale `initialBuf` content can leak, cf. finding C15-F19) -/
theorem history_replies_independent (leftover : Bytes) (os : List Opening) :
    (history leftover os).map (fun s => (s.ctrl, s.replies)) =
      os.map fun o => ((openWith o.bytes).ctrl, (openWith o.bytes).replies) := by
  induction os generalizing leftover with
  | nil => rfl
  | cons o os ih =>
    simp only [history, List.map_cons, openOn_eq]
    rw [ih]

/-- non-vacuity: first opening cut after `IAC WILL` (then read), second `IAC DO 24 "ok"` -/
example : (∀ o ∈ ([⟨[255, 251], true⟩, ⟨[255, 253, 24, 111, 107], true⟩] : List Opening), o.drained = true) ∧
    history [] [⟨[255, 251], true⟩, ⟨[255, 253, 24, 111, 107], true⟩] =
      [{ ctrl := [255, 251], data := [], replies := [] },
       { ctrl := [], data := [111, 107], replies := [[255, 252, 24]] }] := by decide

end Scrapli.Telnet.C15
