import ScrapliModel.Lemmas.Timeout
import ScrapliModel.Props.C01
import ScrapliModel.Props.C04
import ScrapliModel.Generated.Consts
import ScrapliModel.Generated.C05RpcSites
import ScrapliModel.Generated.BodiesTimeout
/-!
# C05 — Every blocking operation honours its timeout

Model: `ScrapliModel/Timeout.lean` (discrete time: every loop iteration tests the deadline, then
either consumes one available chunk or sleeps one tick of `d` time units; a device emission is a
schedule of chunks and silences that ends in a stall). The theorems quantify over every operation
(`Prog`: any sequence of "write, read until predicate" phases whose continuation may depend on
what was read — `sendInputP`, `getPromptP`, `interactiveP`, `authTelnetP`, `helloP`, `rpcP`,
`callbacksP`, `acquireP` are the instances), every device reaction, every segmentation of it into
reads and every timing of the arrivals (arbitrary schedules), every stall point, every tick length
`d > 0`, every timeout and every completion predicate (the regular expressions are parameters).

Real time is not a theorem: that one tick of the model is at most one read delay of wall-clock
time, and that Go's timers fire on time, is observed by the harness (declared slack), not proved.
-/
namespace Scrapli.Timeout.C05
open Scrapli Scrapli.Chan Scrapli.Timeout

/-! ## which timeout applies -/

/-- `GetTimeout`: `-1` → the connection-wide value, `0` → the maximum, anything else → itself -/
theorem getTimeout_spec (ops maxT t : Int) :
    (t = -1 → getTimeout ops maxT t = ops) ∧
    (t = 0 → getTimeout ops maxT t = maxT) ∧
    (t ≠ -1 → t ≠ 0 → getTimeout ops maxT t = t) := by
  unfold getTimeout
  refine ⟨?_, ?_, ?_⟩
  · intro h; simp [h]
  · intro h; subst h; simp
  · intro h1 h2; simp [h1, h2]

/-- a per-operation timeout, when given (`≠ -1`), takes precedence: the result does not depend on
    the connection-wide value at all; and zero selects the maximum -/
theorem perOp_precedence (maxT t : Int) (ht : t ≠ -1) :
    (∀ ops ops', getTimeout ops maxT t = getTimeout ops' maxT t) ∧
    (∀ ops, getTimeout ops maxT 0 = maxT) := by
  unfold getTimeout
  constructor
  · intro ops ops'; simp [ht]
  · intro ops; simp

example : getTimeout 60 86400 5 = 5 ∧ getTimeout 60 86400 (-1) = 60 ∧ getTimeout 60 86400 0 = 86400 := by
  decide

/-- obligations on the regenerated constants: an operation created without a timeout option
    carries the sentinel that selects the connection-wide timeout (channel and NETCONF operations),
    and the maximum is a positive number of seconds -/
theorem default_perOp_is_connection_wide (ops maxT : Int) :
    getTimeout ops maxT Gen.Channel.defaultTimeout = ops ∧
    getTimeout ops maxT Gen.Netconf.defaultTimeout = ops ∧
    0 < Gen.Util.MaxTimeout := by
  refine ⟨?_, ?_, by decide⟩ <;> simp [getTimeout, Gen.Channel.defaultTimeout, Gen.Netconf.defaultTimeout]

/-- configuration used by the satisfiability examples: prompt = "ends in `#`" -/
def exCfg : Cfg :=
  { depth := 100, mult := 2, exact := false, strip := false, ret := [10],
    promptP := fun w => w.getLast? == some 35, stripP := fun b => b }

/-! ## the deadline is honoured -/

/-- Whatever the operation, the device and the schedule: an operation whose deadline is not
    already behind it returns a deadline outcome at a model time in `[deadline, deadline + d)` —
    at most one tick late — and any other outcome not after the deadline. -/
theorem timeout_window {α : Type} (d : Nat) (hd : 0 < d) (prog : Prog α) (st : St)
    (h : Fresh prog st) :
    match (run d prog st).1 with
    | .timeout => (run d prog st).2.deadline ≤ (run d prog st).2.now ∧
                  (run d prog st).2.now < (run d prog st).2.deadline + d
    | _ => (run d prog st).2.now ≤ (run d prog st).2.deadline :=
  (run_time d hd prog st h).2

/-- THE PROPERTY (logic part). For every operation with one context of timeout `T`
    (`SingleRestart`), every device whose reactions — cut into reads and timed in any way
    (`st.rs`, `st.pend` are arbitrary schedules) — carry byte streams on which the operation
    stalls (`Stalls`: some phase never sees its completion predicate hold, every earlier phase's
    predicate first held exactly at the end of what that phase received): the operation returns
    the deadline outcome, at a model time in `[start + T, start + T + d)`, never success. -/
theorem stall_yields_timeout {α : Type} (d : Nat) (hd : 0 < d) (prog : Prog α) (T : Nat)
    (hT : SingleRestart prog T) (pre : Bytes) (streams : List Bytes) (hS : Stalls prog pre streams)
    (st : St) (hp : bytesOf st.pend = pre) (hs : st.rs.map bytesOf = streams) :
    (run d prog st).1 = Out.timeout ∧
    st.now + T ≤ (run d prog st).2.now ∧ (run d prog st).2.now < st.now + T + d := by
  have h1 := run_stalls d prog pre streams hS st hp hs
  have hf : Fresh prog st := by
    obtain ⟨ws, P, k, rfl, _⟩ := hT; trivial
  have h2 := timeout_window d hd prog st hf
  rw [h1] at h2
  simp only at h2
  rw [run_singleRestart d prog T hT st] at h2
  exact ⟨h1, h2.1, h2.2⟩

/-- the same for operations that restart their deadline per stage (callbacks): the deadline
    outcome comes within one tick of the deadline in force -/
theorem stall_yields_timeout_staged {α : Type} (d : Nat) (hd : 0 < d) (prog : Prog α)
    (pre : Bytes) (streams : List Bytes) (hS : Stalls prog pre streams)
    (st : St) (hf : Fresh prog st) (hp : bytesOf st.pend = pre) (hs : st.rs.map bytesOf = streams) :
    (run d prog st).1 = Out.timeout ∧
    (run d prog st).2.deadline ≤ (run d prog st).2.now ∧
    (run d prog st).2.now < (run d prog st).2.deadline + d := by
  have h1 := run_stalls d prog pre streams hS st hp hs
  have h2 := timeout_window d hd prog st hf
  rw [h1] at h2
  exact ⟨h1, h2⟩

/-- the deadline outcome surfaces as the timeout error for every operation kind … -/
theorem stall_public_error (kind : OpKind) (α : Type) :
    toPublic kind (Out.timeout : Out α) = .error .timeout := by
  cases kind <;> rfl

/-- … except through the implicit privilege change of `network.Driver.SendCommand`, where any
    failure (the timeout included) is reported as a privilege error, and a success lets the
    command's own outcome through -/
theorem implicit_acquire_error {α : Type} (e : ErrClass) (cmd : Except ErrClass α) :
    wrapAcquire (.error e) cmd = .error .privilege ∧ wrapAcquire (.ok ()) cmd = cmd :=
  ⟨rfl, rfl⟩

/-- `network.Driver.SendCommand` whose implicit acquire stalls: privilege error, inside the
    acquire's own deadline window -/
theorem networkSendCommand_stall (d : Nat) (hd : 0 < d) (acq : Prog Unit) (cmd : Prog Bytes)
    (pre : Bytes) (streams : List Bytes) (hS : Stalls acq pre streams)
    (st : St) (hf : Fresh acq st) (hp : bytesOf st.pend = pre) (hs : st.rs.map bytesOf = streams) :
    (networkSendCommand d acq cmd st).1 = .error .privilege ∧
    (networkSendCommand d acq cmd st).2.deadline ≤ (networkSendCommand d acq cmd st).2.now ∧
    (networkSendCommand d acq cmd st).2.now < (networkSendCommand d acq cmd st).2.deadline + d := by
  obtain ⟨h1, h2⟩ := stall_yields_timeout_staged d hd acq pre streams hS st hf hp hs
  unfold networkSendCommand
  cases hr : run d acq st with
  | mk o st1 =>
    rw [hr] at h1 h2
    simp only at h1
    subst h1
    exact ⟨rfl, h2⟩

/-- the hypotheses are satisfiable: an implicit acquire whose first prompt never completes
    (`\nr` of `\nr#` delivered) stalls -/
example : Stalls (acquireP exCfg id (fun _ => false) [101] 5 1) [] [([10, 114, 35] : Bytes).take 2] := by
  show Stalls (.io _ _ _ _) [] _
  apply Stalls.here
  intro j
  simpa using noPrefix_of_exactAt (promptPred exCfg) [10, 114, 35] (by decide) 2 (by decide) j

/-! ## the concrete operations are such programs -/

theorem sendInputP_single (cfg : Cfg) (cmd : Bytes) (T : Nat) : SingleRestart (sendInputP cfg cmd T) T :=
  ⟨_, _, _, rfl, fun _ => NoRestart.io fun _ => NoRestart.ret _⟩

theorem getPromptP_single (cfg : Cfg) (find : Bytes → Bytes) (T : Nat) :
    SingleRestart (getPromptP cfg find T) T :=
  ⟨_, _, _, rfl, fun _ => NoRestart.ret _⟩

theorem helloP_single (cfg : Cfg) (T : Nat) : SingleRestart (helloP cfg T) T :=
  ⟨_, _, _, rfl, fun _ => NoRestart.ret _⟩

theorem rpcP_single (frame : List Bytes) (P : Bytes → Bool) (T : Nat) : SingleRestart (rpcP frame P T) T :=
  ⟨_, _, _, rfl, fun _ => NoRestart.ret _⟩

/-- EVERY NETCONF operation kind (any framed message, any reply predicate), whatever the source of
    its options: one timer, started when the request is written, of the length its options source
    yields through `GetTimeout` -/
theorem rpcOpP_single (frame : List Bytes) (P : Bytes → Bool) (ops maxT dflt : Int) (src : OptSource) :
    SingleRestart (rpcOpP frame P ops maxT dflt src) (rpcTimeout ops maxT dflt src).toNat :=
  rpcP_single frame P _

/-- what that length is, by options source (with the `-1` sentinel as package default): options
    from `NewOperation` give the connection-wide timeout, or the caller's own when one was passed;
    a struct literal without a `Timeout` field gives the MAXIMUM — the operation would wait a day -/
theorem rpcTimeout_by_source (ops maxT t : Int) (h1 : t ≠ -1) (h0 : t ≠ 0) :
    rpcTimeout ops maxT (-1) (.newOperation none) = ops ∧
    rpcTimeout ops maxT (-1) (.newOperation (some t)) = t ∧
    rpcTimeout ops maxT (-1) (.literal 0) = maxT := by
  unfold rpcTimeout optTimeout getTimeout
  simp [h1, h0]

/-- The full obligation on the regenerated call-site table (`Generated/C05RpcSites.lean`, go/ast
    over driver/netconf): EVERY `sendRPC` call gets options built by `NewOperation`, and
    `NewOperation` initialises `Timeout` with `defaultTimeout`. It did not hold on the pinned
    tree (`EstablishPeriodicSubscription` passed `&OperationOptions{}`, finding C05-F16, repaired
    by `2056bb3`); it holds since, and is an obligation of every run. -/
def sendRPC_sites_all_from_NewOperation : Prop :=
  (Gen.C05Rpc.sites.all fun s => s.viaNewOperation) = true ∧
  Gen.C05Rpc.newOperationSetsDefaultTimeout = true

theorem sendRPC_sites_all_from_NewOperation_holds : sendRPC_sites_all_from_NewOperation := by
  unfold sendRPC_sites_all_from_NewOperation; decide

/-- kept from before the repair (weaker; the recorded exception is no longer needed): every
    `sendRPC` call site other than the once-recorded one builds its options with `NewOperation`, whose `Timeout` starts as `defaultTimeout`, which
    is the `-1` sentinel (see `default_perOp_is_connection_wide`); the table is the full set of
    public operations. A new operation, or an existing one, that hands `sendRPC` a struct literal
    breaks this obligation. -/
theorem sendRPC_sites_from_NewOperation_partial :
    (Gen.C05Rpc.sites.all fun s => s.viaNewOperation || s.func == "EstablishPeriodicSubscription") = true ∧
    Gen.C05Rpc.newOperationSetsDefaultTimeout = true ∧
    Gen.Netconf.defaultTimeout = -1 ∧
    (["Commit", "Discard", "CopyConfig", "DeleteConfig", "EditConfig", "Get", "GetConfig", "Lock", "Unlock",
      "RPC", "Validate"].all fun f => Gen.C05Rpc.sites.any fun s => s.func == f && s.viaNewOperation) = true := by
  decide

theorem interactiveP_noRestart (cfg : Cfg) (complete : List (Bytes → Bool)) :
    ∀ (es : List Event) (b : Bytes), NoRestart (interactiveP cfg complete es none b) := by
  intro es
  induction es with
  | nil => intro b; exact NoRestart.ret _
  | cons e es ih =>
    intro b
    simp only [interactiveP]
    split
    · refine NoRestart.io fun nb => NoRestart.io fun pb => ?_
      split
      · exact NoRestart.ret _
      · exact ih _
    · refine NoRestart.io fun pb => ?_
      split
      · exact NoRestart.ret _
      · exact ih _

/-- `SendInteractive` with at least one event: one context for the whole dialogue -/
theorem interactiveP_single (cfg : Cfg) (complete : List (Bytes → Bool)) (e : Event) (es : List Event)
    (T : Nat) (b : Bytes) : SingleRestart (interactiveP cfg complete (e :: es) (some T) b) T := by
  simp only [interactiveP]
  split
  · refine ⟨_, _, _, rfl, fun nb => NoRestart.io fun pb => ?_⟩
    split
    · exact NoRestart.ret _
    · exact interactiveP_noRestart cfg complete es _
  · refine ⟨_, _, _, rfl, fun pb => ?_⟩
    split
    · exact NoRestart.ret _
    · exact interactiveP_noRestart cfg complete es _

theorem authTelnetP_noRestart (cfg : Cfg) (userP passP : Bytes → Bool) (u p : Bytes) (umax pmax : Nat) :
    ∀ (f : Nat) (ws : List Bytes) (uc pc : Nat) (b : Bytes),
      NoRestart (authTelnetP cfg userP passP u p umax pmax f ws uc pc b none) := by
  intro f
  induction f with
  | zero => intro ws uc pc b; exact NoRestart.fail _
  | succ f ih =>
    intro ws uc pc b
    simp only [authTelnetP]
    refine NoRestart.io fun nb => ?_
    split
    · exact NoRestart.ret _
    · split
      · split
        · exact NoRestart.fail _
        · exact ih _ _ _ _
      · split
        · split
          · exact NoRestart.fail _
          · exact ih _ _ _ _
        · exact ih _ _ _ _

/-- in-channel telnet login: one timer for the whole login -/
theorem authTelnetP_single (cfg : Cfg) (userP passP : Bytes → Bool) (u p : Bytes) (umax pmax : Nat)
    (f : Nat) (ws : List Bytes) (uc pc : Nat) (b : Bytes) (T : Nat) :
    SingleRestart (authTelnetP cfg userP passP u p umax pmax (f + 1) ws uc pc b (some T)) T := by
  simp only [authTelnetP]
  refine ⟨_, _, _, rfl, fun nb => ?_⟩
  split
  · exact NoRestart.ret _
  · split
    · split
      · exact NoRestart.fail _
      · exact authTelnetP_noRestart cfg userP passP u p umax pmax _ _ _ _ _
    · split
      · split
        · exact NoRestart.fail _
        · exact authTelnetP_noRestart cfg userP passP u p umax pmax _ _ _ _ _
      · exact authTelnetP_noRestart cfg userP passP u p umax pmax _ _ _ _ _

/-- `SendInput` with interim prompt patterns and / or eager: still one context for the whole
    operation; without those options it is `sendInputP` -/
theorem sendInputXP_single (cfg : Cfg) (cmd : Bytes) (T : Nat) (interim : List (Bytes → Bool))
    (eager : Bool) : SingleRestart (sendInputXP cfg cmd T interim eager) T := by
  refine ⟨_, _, _, rfl, fun _ => ?_⟩
  cases eager with
  | true => exact NoRestart.ret _
  | false => exact NoRestart.io fun _ => NoRestart.ret _

theorem sendInputXP_plain (cfg : Cfg) (cmd : Bytes) (T : Nat) :
    sendInputXP cfg cmd T [] false = sendInputP cfg cmd T := rfl

theorem authSSHP_noRestart (cfg : Cfg) (sshErr passP ppP : Bytes → Bool) (p pp : Bytes) (pmax ppmax : Nat) :
    ∀ (f : Nat) (ws : List Bytes) (pc ppc : Nat),
      NoRestart (authSSHP cfg sshErr passP ppP p pp pmax ppmax f ws pc ppc none) := by
  intro f
  induction f with
  | zero => intro ws pc ppc; exact NoRestart.fail _
  | succ f ih =>
    intro ws pc ppc
    simp only [authSSHP]
    refine NoRestart.io fun b => ?_
    split
    · exact NoRestart.fail _
    · split
      · exact NoRestart.ret _
      · split
        · split
          · exact NoRestart.fail _
          · exact ih _ _ _
        · split
          · split
            · exact NoRestart.fail _
            · exact ih _ _ _
          · exact NoRestart.fail _

/-- in-channel SSH login (password, passphrase, retries, error texts): one timer for the whole login -/
theorem authSSHP_single (cfg : Cfg) (sshErr passP ppP : Bytes → Bool) (p pp : Bytes) (pmax ppmax : Nat)
    (f : Nat) (ws : List Bytes) (pc ppc : Nat) (T : Nat) :
    SingleRestart (authSSHP cfg sshErr passP ppP p pp pmax ppmax (f + 1) ws pc ppc (some T)) T := by
  simp only [authSSHP]
  refine ⟨_, _, _, rfl, fun b => ?_⟩
  split
  · exact NoRestart.fail _
  · split
    · exact NoRestart.ret _
    · split
      · split
        · exact NoRestart.fail _
        · exact authSSHP_noRestart cfg sshErr passP ppP p pp pmax ppmax _ _ _ _
      · split
        · split
          · exact NoRestart.fail _
          · exact authSSHP_noRestart cfg sshErr passP ppP p pp pmax ppmax _ _ _ _
        · exact NoRestart.fail _

/-! ## for every stall point k -/

/-- a one-phase operation (`GetPrompt`, the NETCONF hello, an RPC, a callback stage) whose device
    goes silent after byte `k`, strictly before the point `|S|` where the completion predicate
    first holds, stalls — whatever the segmentation of those `k` bytes -/
theorem single_phase_stalls {α : Type} (ws : List Bytes) (P : Bytes → Bool) (T : Option Nat)
    (k : Bytes → Prog α) (S : Bytes) (hE : ExactAt P S) (n : Nat) (hn : n < S.length) :
    Stalls (.io ws P T k) [] [S.take n] := by
  apply Stalls.here
  intro j
  simpa using noPrefix_of_exactAt P S hE n hn j

/-- hence every NETCONF operation whose options come from `NewOperation` without a per-operation
    timeout, against a device that goes silent before the reply is complete — after byte `n` of a
    reply `S`, for every `n`, every segmentation and timing: the timeout error at a model time
    within one tick of the connection-wide `TimeoutOps` (the regenerated `defaultTimeout` is used,
    not assumed) -/
theorem rpc_any_kind_stall_timeout (d : Nat) (hd : 0 < d) (frame : List Bytes) (P : Bytes → Bool)
    (ops : Nat) (maxT : Int) (S : Bytes) (hE : ExactAt P S) (n : Nat) (hn : n < S.length)
    (st : St) (hp : bytesOf st.pend = []) (hs : st.rs.map bytesOf = [S.take n]) :
    let prog := rpcOpP frame P ops maxT Gen.Netconf.defaultTimeout (.newOperation none)
    toPublic .rpc (run d prog st).1 = .error .timeout ∧
    st.now + ops ≤ (run d prog st).2.now ∧ (run d prog st).2.now < st.now + ops + d := by
  intro prog
  have hT : (rpcTimeout ops maxT Gen.Netconf.defaultTimeout (.newOperation none)).toNat = ops := by
    simp [rpcTimeout, optTimeout, getTimeout, Gen.Netconf.defaultTimeout]
  have hsingle : SingleRestart prog ops := by
    have := rpcOpP_single frame P ops maxT Gen.Netconf.defaultTimeout (.newOperation none)
    rwa [hT] at this
  obtain ⟨a, b, c⟩ := stall_yields_timeout d hd prog ops hsingle [] [S.take n]
    (single_phase_stalls frame P _ _ S hE n hn) st hp hs
  rw [a]
  exact ⟨rfl, b, c⟩

/-- `SendInputB` against a device that echoes `Se` and answers `Sr` (the echo predicate first holds
    exactly at the end of `Se`, the prompt predicate exactly at the end of `Sr`) and goes silent
    after byte `k` of the exchange, for EVERY `k` strictly before the end: it stalls. -/
theorem sendInput_stalls (cfg : Cfg) (cmd : Bytes) (T : Nat) (Se Sr : Bytes)
    (he : ExactAt (echoPred cfg cmd) Se) (hr : ExactAt (promptPred cfg) Sr)
    (k : Nat) (hk : k < Se.length + Sr.length) (tail : List Bytes) :
    Stalls (sendInputP cfg cmd T) [] (Se.take k :: Sr.take (k - Se.length) :: tail) := by
  unfold sendInputP
  by_cases h : k < Se.length
  · apply Stalls.here
    intro j
    simpa using noPrefix_of_exactAt _ Se he k h j
  · have hfull : Se.take k = Se := List.take_of_length_le (by omega)
    apply Stalls.later
    · simpa [hfull] using he
    · apply Stalls.here
      intro j
      simpa using noPrefix_of_exactAt _ Sr hr (k - Se.length) (by omega) j

/-- a send whose device answers completely completes exactly -/
theorem sendInput_exactly (cfg : Cfg) (cmd : Bytes) (T : Nat) (Se Sr : Bytes)
    (he : ExactAt (echoPred cfg cmd) Se) (hr : ExactAt (promptPred cfg) Sr) :
    Exactly (sendInputP cfg cmd T) [] [Se, Sr] (processOut cfg Sr) := by
  unfold sendInputP
  apply Exactly.io (by simpa using he)
  apply Exactly.io (by simpa using hr)
  simpa using Exactly.ret (processOut cfg Sr)

/-- A BATCH (`SendCommands`, `SendConfigs`, `…FromFile`: the sends one after the other, each with
    its own context) whose device goes silent in the MIDDLE: after any number of sends that were
    answered completely (`done`: command, echo, answer), at byte `k` of the next exchange, for
    every `k` strictly before its end, whatever follows in the batch: the batch stalls (hence,
    by `stall_yields_timeout_staged`, returns the timeout within one tick of that send's deadline,
    never success). -/
theorem batch_stalls_in_the_middle (cfg : Cfg) (T : Nat) (done : List (Bytes × Bytes × Bytes))
    (hdone : ∀ x ∈ done, ExactAt (echoPred cfg x.1) x.2.1 ∧ ExactAt (promptPred cfg) x.2.2)
    (c Se Sr : Bytes) (he : ExactAt (echoPred cfg c) Se) (hr : ExactAt (promptPred cfg) Sr)
    (k : Nat) (hk : k < Se.length + Sr.length) (rest : List (Prog Bytes)) (tail : List Bytes) :
    Stalls (seqP (done.map (fun x => sendInputP cfg x.1 T) ++ sendInputP cfg c T :: rest)) []
      (done.flatMap (fun x => [x.2.1, x.2.2]) ++ Se.take k :: Sr.take (k - Se.length) :: tail) := by
  induction done with
  | nil =>
    simp only [List.map_nil, List.nil_append, List.flatMap_nil]
    exact seqP_stalls_head (sendInput_stalls cfg c T Se Sr he hr k hk tail) rest
  | cons x xs ih =>
    obtain ⟨hx1, hx2⟩ := hdone x (by simp)
    have ih' := ih (fun y hy => hdone y (by simp [hy]))
    have hex := sendInput_exactly cfg x.1 T x.2.1 x.2.2 hx1 hx2
    cases xs with
    | nil =>
      simp only [List.map_cons, List.map_nil, List.nil_append, List.cons_append, List.flatMap_cons,
        List.flatMap_nil] at ih' ⊢
      exact seqP_stalls_later hex rest ih'
    | cons y ys =>
      simp only [List.map_cons, List.cons_append, List.flatMap_cons] at ih' ⊢
      exact seqP_stalls_later hex _ ih'

/-- hence, for every stall point, every segmentation and timing of the delivered bytes, every tick
    length and every timeout: timeout error, within one tick of `T`, never success -/
theorem sendInput_stall_timeout (d : Nat) (hd : 0 < d) (cfg : Cfg) (cmd : Bytes) (T : Nat)
    (Se Sr : Bytes) (he : ExactAt (echoPred cfg cmd) Se) (hr : ExactAt (promptPred cfg) Sr)
    (k : Nat) (hk : k < Se.length + Sr.length)
    (se sr : Sched) (h1 : bytesOf se = Se.take k) (h2 : bytesOf sr = Sr.take (k - Se.length))
    (st : St) (hq : bytesOf st.pend = []) (hrs : st.rs = [se, sr]) :
    toPublic .sendInput (run d (sendInputP cfg cmd T) st).1 = .error .timeout ∧
    st.now + T ≤ (run d (sendInputP cfg cmd T) st).2.now ∧
    (run d (sendInputP cfg cmd T) st).2.now < st.now + T + d := by
  obtain ⟨a, b, c⟩ := stall_yields_timeout d hd _ T (sendInputP_single cfg cmd T) [] _
    (sendInput_stalls cfg cmd T Se Sr he hr k hk []) st hq (by rw [hrs]; simp [h1, h2])
  rw [a]
  exact ⟨rfl, b, c⟩

/-- a concrete instance of the hypotheses: command `a`, echo `a`, answer `\no\nr#`; the stall
    points 0 … 5 all satisfy them -/
example : ExactAt (echoPred exCfg [97]) [97] ∧ ExactAt (promptPred exCfg) [10, 111, 10, 114, 35] := by
  decide

example :
    (match run 1 (sendInputP exCfg [97] 7) { rs := [[some [97]], [none, some [10, 111], none]] } with
     | (.timeout, st) => st.now == 7 && st.consumed == [97, 10, 111]
     | _ => false) = true := by decide

/-! ## success only through completion -/

/-- `ok r` ⇒ every phase's completion predicate held on the bytes that phase consumed, `r` is the
    program's own function of those complete reads, and they are exactly what the operation
    consumed: no success with partial output. -/
theorem success_only_if_complete {α : Type} (d : Nat) (prog : Prog α) (st : St) (r : α)
    (h : (run d prog st).1 = Out.ok r) :
    ∃ rbs, Completes prog rbs r ∧ (run d prog st).2.consumed = st.consumed ++ rbs.flatten :=
  run_ok_completes d prog st r h

/-- for `SendInputB`: a result is `processOut` of a read on which the prompt predicate held,
    obtained after a read on which the echo predicate held -/
theorem sendInput_success_complete (d : Nat) (cfg : Cfg) (cmd : Bytes) (T : Nat) (st : St) (r : Bytes)
    (h : (run d (sendInputP cfg cmd T) st).1 = Out.ok r) :
    ∃ rb1 rb2, echoPred cfg cmd rb1 = true ∧ promptPred cfg rb2 = true ∧ r = processOut cfg rb2 := by
  obtain ⟨rbs, hc, _⟩ := success_only_if_complete d _ st r h
  unfold sendInputP at hc
  cases hc with
  | io h1 hc2 =>
    cases hc2 with
    | io h2 hc3 =>
      cases hc3
      exact ⟨_, _, h1, h2, rfl⟩

/-- a stalled operation never reports success (contrapositive form used by the oracle) -/
theorem stalled_never_ok {α : Type} (d : Nat) (prog : Prog α) (pre : Bytes) (streams : List Bytes)
    (hS : Stalls prog pre streams) (st : St) (hp : bytesOf st.pend = pre)
    (hs : st.rs.map bytesOf = streams) (r : α) : (run d prog st).1 ≠ Out.ok r := by
  rw [run_stalls d prog pre streams hS st hp hs]
  intro h; cases h

/-! ## nothing is consumed after the return -/

/-- Conservation. For the operations whose caller waits for its worker (the model is then a single
    thread): when the operation returns — with success, an error or the timeout — every byte the
    device has emitted or will emit is either among the bytes the operation consumed before it
    returned, or still pending / still to come for the next operation; nothing disappears in
    between and the next operation starts from exactly `pend`. -/
theorem no_consumption_after_return {α : Type} (d : Nat) (prog : Prog α) (st : St) :
    (run d prog st).2.consumed ++ bytesOf (run d prog st).2.pend ++ future (run d prog st).2.rs
      = st.consumed ++ bytesOf st.pend ++ future st.rs :=
  run_conserve d prog st

/-- the code before the repair of `handleCallbacks` did lose output after it had returned: a
    reader that was past its `ctx.Done()` test took the next chunk with it … -/
theorem callbacks_asis_consumed_after_return :
    ∃ pend : Sched, bytesOf (lateReaderAsIs true pend) ≠ bytesOf pend :=
  ⟨[some [97]], by decide⟩

/-- … the repaired code (the caller waits for the reader, `late = false` at the return) does not -/
theorem callbacks_fixed_consumes_nothing (pend : Sched) : lateReaderAsIs false pend = pend := rfl

/-! ## recovery -/

/-- After a timed-out exchange whose stall began after the return was written, the queue holds
    `leftover` (what the timed-out operation did not consume plus what the device delivered late).
    If the next command is a subsequence of `leftover ++ echo` but not of that text without its
    last byte (in particular when the command carries a byte that occurs nowhere in `leftover`),
    everything fits the search window, and the answer's prompt is exact, then the next exchange —
    against the now responsive device, for every segmentation, with any timeout `T > 0` — returns
    the processed output of ITS OWN answer and drains the queue. Instance of C01's
    `sendInput_with_stale`. -/
theorem recovery_after_timeout (d : Nat) (cfg : Cfg) (hfz : cfg.exact = false)
    (leftover : List Bytes) (x : Exchange) (T : Nat) (hT : 0 < T)
    (hne : (leftover ++ x.echo).flatten ≠ [])
    (hfit : (leftover ++ x.echo).flatten.length ≤ searchDepth cfg.mult cfg.depth x.cmd.length)
    (hsub : x.cmd.Sublist (leftover ++ x.echo).flatten)
    (hnot : ¬ x.cmd.Sublist (leftover ++ x.echo).flatten.dropLast)
    (hrne : x.resp.flatten ≠ []) (hresp : ExactAt (promptPred cfg) x.resp.flatten)
    (st : St) (hp : st.pend = leftover.map some)
    (hrs : st.rs = [x.echo.map some, x.resp.map some]) :
    (run d (sendInputP cfg x.cmd T) st).1 = Out.ok (processOut cfg x.resp.flatten) ∧
    bytesOf (run d (sendInputP cfg x.cmd T) st).2.pend = [] ∧
    (run d (sendInputP cfg x.cmd T) st).2.writes = st.writes ++ [x.cmd, cfg.ret] := by
  have hwf : C01.WellFormed cfg leftover x :=
    ⟨hne, exactAt_echo_of_sublist cfg hfz x.cmd _ hfit hsub hnot, hrne, hresp⟩
  obtain ⟨s', h1, h2, h3⟩ := C01.sendInput_with_stale cfg { q := leftover, writes := st.writes } x hwf
  obtain ⟨a, b, c, _⟩ := run_sendInput_of_chan d cfg x T hT _ s' _ st hp hrs rfl h1
  refine ⟨a, ?_, ?_⟩
  · rw [b, bytesOf_somes]; exact h2
  · rw [c, h3]

/-- a concrete instance: left-over `o\nr#` of the timed-out exchange, next command `b`, echo `b`,
    answer `\np\nr#` -/
example :
    let x : Exchange := { cmd := [98], echo := [[98]], resp := [[10, 112], [10, 114, 35]] }
    let leftover : List Bytes := [[111, 10], [114, 35]]
    (leftover ++ x.echo).flatten ≠ [] ∧
    (leftover ++ x.echo).flatten.length ≤ searchDepth exCfg.mult exCfg.depth x.cmd.length ∧
    x.cmd.Sublist (leftover ++ x.echo).flatten ∧
    ¬ x.cmd.Sublist (leftover ++ x.echo).flatten.dropLast ∧
    x.resp.flatten ≠ [] ∧ ExactAt (promptPred exCfg) x.resp.flatten := by
  decide

/-! ## recovery for operations with privilege navigation -/

/-- A navigation step (`SendInput` of an escalate / de-escalate command) whose device goes silent
    AFTER the return was sent — the echo arrived, `n` bytes of the answer (fewer than the prompt
    needs) did: the step returns the timeout within one tick of `T`, and what the device received
    is the command AND its return. The device has executed the line (its mode has changed) while
    the client only knows that the step failed: this is the fault `PrivFault.lean` models. -/
theorem nav_step_timeout_device_moved (d : Nat) (hd : 0 < d) (cfg : Cfg) (cmd : Bytes) (T : Nat)
    (hT : 0 < T) (ce : List Bytes) (hne : ce.flatten ≠ [])
    (he : ExactAt (echoPred cfg cmd) ce.flatten)
    (Sr : Bytes) (hr : ExactAt (promptPred cfg) Sr) (n : Nat) (hn : n < Sr.length)
    (sr : Sched) (hsr : bytesOf sr = Sr.take n)
    (st : St) (hp : st.pend = []) (hrs : st.rs = [ce.map some, sr]) :
    (run d (sendInputP cfg cmd T) st).1 = Out.timeout ∧
    (run d (sendInputP cfg cmd T) st).2.writes = st.writes ++ [cmd, cfg.ret] ∧
    st.now + T ≤ (run d (sendInputP cfg cmd T) st).2.now ∧
    (run d (sendInputP cfg cmd T) st).2.now < st.now + T + d := by
  obtain ⟨tail, h1, htail⟩ := readUntil_exact (echoPred cfg cmd) [] ce [] rfl hne he
  simp only [List.nil_append, List.append_nil] at h1
  have hlt : st.now < st.now + T := by omega
  have r1 : phaseRead d (echoPred cfg cmd) (some T) st = ⟨true, ce.flatten, st.now, tail.map some⟩ := by
    unfold phaseRead phaseDeadline
    rw [hp, hrs]
    simp only [List.headD_cons, List.nil_append]
    rw [readUntilT_somes _ _ _ _ _ _ hlt, h1]
  have r2ok : (phaseRead d (promptPred cfg) none
      (phaseSt d [cmd] (echoPred cfg cmd) (some T) st)).ok = false := by
    apply readUntilT_never
    intro j
    have hb : bytesOf ((phaseSt d [cmd] (echoPred cfg cmd) (some T) st).pend ++
        (phaseSt d [cmd] (echoPred cfg cmd) (some T) st).rs.headD []) = Sr.take n := by
      have e1 : (phaseSt d [cmd] (echoPred cfg cmd) (some T) st).pend = tail.map some := by
        show (phaseRead _ _ _ st).rest = _; rw [r1]
      have e2 : (phaseSt d [cmd] (echoPred cfg cmd) (some T) st).rs = [sr] := by
        show st.rs.tail = _; rw [hrs]; rfl
      rw [e1, e2, bytesOf_append, bytesOf_somes, htail]
      simpa using hsr
    rw [hb, List.nil_append]
    exact noPrefix_of_exactAt _ Sr hr n hn j
  have hrun : run d (sendInputP cfg cmd T) st =
      (.timeout, phaseSt d [cfg.ret] (promptPred cfg) none (phaseSt d [cmd] (echoPred cfg cmd) (some T) st)) := by
    unfold sendInputP
    rw [run_io, r1]
    simp only [if_true]
    rw [run_io, r2ok]
    rfl
  have htime := timeout_window d hd (sendInputP cfg cmd T) st (by unfold sendInputP; trivial)
  rw [run_singleRestart d _ T (sendInputP_single cfg cmd T) st] at htime
  rw [hrun] at htime ⊢
  refine ⟨rfl, ?_, htime.1, htime.2⟩
  show (st.writes ++ [cmd]) ++ [cfg.ret] = _
  simp

/-- RECOVERY AFTER A TIMED-OUT OPERATION WITH NAVIGATION (link to C04). Hypothesis: the level cache
    is reset to `UNKNOWN` BEFORE each navigation command is sent (`resetBefore = true`, what
    `processAcquirePriv` does; C04's `reset_before_send_keeps_cache_sound`). Then, whatever
    operation `op₁` came first and whichever of its navigation steps timed out after the device
    had already moved (ANY fault pattern — `nav_step_timeout_device_moved` is such a step), the
    session is usable: the next operation `op₂`, of any kind, either fails in its own acquisition
    and sends no payload line, or delivers every one of its payload lines in the level IT demands
    (commands at the default level, configuration lines at the configuration / requested level),
    never in the level the timed-out operation left the device in. Instance of C04's
    `payload_level_under_faults` with the timed-out operation as history. -/
theorem recovery_after_timed_out_navigation {c : Priv.Cfg} (hd : Priv.Dom c)
    (hu : Priv.allUnamb c = true) (hdef : c.default ∈ Priv.names c.L) (faults : Nat → Bool)
    (s0 : Priv.Sess) (hi : Priv.Inv c s0) (op₁ op₂ : Priv.Op)
    (h1 : ∀ l ∈ Priv.opLines op₁, l = [] ∨ Priv.isPayload c.L l = true)
    (h2 : ∀ l ∈ Priv.opLines op₂, l = [] ∨ Priv.isPayload c.L l = true) :
    let s := (Priv.runOpF c true faults s0 op₁).2
    ∃ s1, Priv.Inv c s1 ∧
      (((Priv.runOpF c true faults s op₂).1 ≠ none ∧ (Priv.runOpF c true faults s op₂).2 = s1) ∨
       Priv.PayloadAt c op₂ s1 (Priv.runOpF c true faults s op₂)) := by
  have := Priv.C04.payload_level_under_faults hd hu hdef faults [op₁] s0 hi
    (by intro op hop; simp only [List.mem_singleton] at hop; subst hop; exact h1) op₂ h2
  simpa [Priv.runOpsF] using this

/-- the hypothesis is needed: with the reset only AFTER a successful step, a `SendConfigs` whose
    escalation timed out after the device had entered configuration mode leaves the old level
    cached, the next `SendCommand` skips the acquisition and its command `[115]` reaches the device
    in configuration mode `[99]` instead of the default level `[112]` -/
theorem recovery_fails_without_reset_before :
    (Priv.runOpsF Priv.C04.exCfg false (fun t => t == 0) Priv.C04.exAtP
        [.sendConfigs [[120]] [99], .sendCommand [115]]).2.dev.log.getLast? = some ([99], [115]) ∧
    (Priv.runOpsF Priv.C04.exCfg true (fun t => t == 0) Priv.C04.exAtP
        [.sendConfigs [[120]] [99], .sendCommand [115]]).2.dev.log.getLast? = some ([112], [115]) := by
  decide +kernel

/-! ## tie to the source: translated body = model (regenerated on every run) -/

/-- the body of `(*Channel).GetTimeout` as the translator renders it from the current source
(`Generated/BodiesTimeout.lean`) is `getTimeout` with `maxT = util.MaxTimeout * time.Second`, for
all `TimeoutOps` and all arguments -/
theorem generated_getTimeout_eq (ops t : Int) :
    Gen.Bodies.Timeout.getTimeout ops t
      = getTimeout ops ((Gen.Util.MaxTimeout : Int) * 1000000000) t := by
  unfold Gen.Bodies.Timeout.getTimeout getTimeout
  by_cases h1 : t = -1 <;> by_cases h0 : t = 0 <;> simp [h1, h0]

end Scrapli.Timeout.C05
