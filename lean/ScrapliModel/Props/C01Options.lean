import ScrapliModel.OptLoop
import ScrapliModel.Generated.C13OptionLoops
/-!
# C01 — per-operation options reach the channel wherever they stand in the call

`Channel.SendInputB` builds its `OperationOptions` with `channel.NewOperation(opts...)`; the same
variadic list is also handed to `generic.NewOperation` (and, on other paths, to the network and
NETCONF constructors), so it may carry options of other layers, which answer
`util.ErrIgnoredOption` here. C01 quantifies over the strip-prompt / exact-vs-fuzzy settings (and
the sessions use eager, interim patterns and a per-operation timeout): those settings must take
effect whatever else is in the list and in whatever order. The loop shape is a fact regenerated from
`channel/operation.go` on every run (`Generated/C13OptionLoops.lean`, shared with C13).
-/
namespace Scrapli.Chan.C01
open Scrapli

/-- an element of the option list of a send, as `channel.NewOperation` sees it -/
inductive ChOpt where
  | noStrip                 -- opoptions.WithNoStripPrompt
  | exact                   -- opoptions.WithExactMatchInput
  | eager                   -- opoptions.WithEager
  | interim (set : Nat)     -- opoptions.WithInterimPromptPattern (a pattern set, by number)
  | timeout (t : Nat)       -- opoptions.WithTimeoutOps
  | foreign                 -- an option of another layer: `util.ErrIgnoredOption`
  deriving DecidableEq, Repr

/-- `channel.OperationOptions` (the fields the sends read) -/
structure ChOp where
  strip : Bool := true
  exact : Bool := false
  eager : Bool := false
  interim : Option Nat := none
  timeout : Option Nat := none
  deriving DecidableEq, Repr

def updChOp (o : ChOp) : ChOpt → ChOp
  | .noStrip => { o with strip := false }
  | .exact => { o with exact := true }
  | .eager => { o with eager := true }
  | .interim s => { o with interim := some s }
  | .timeout t => { o with timeout := some t }
  | .foreign => o

def applyChOpt (x : ChOpt) (o : ChOp) : OptLoop.Outcome ChOp :=
  match x with
  | .foreign => .ignored
  | x => .ok (updChOp o x)

/-- `channel.NewOperation(opts...)` with the loop as the source has it now -/
def newChannelOperation (opts : List ChOpt) : Option ChOp :=
  OptLoop.run Gen.C13OptionLoops.channel applyChOpt opts {}

/-- obligation on the regenerated loop shape of `channel.NewOperation`: after an option that
applied and after one that answered `util.ErrIgnoredOption` the loop goes on to the next option; its
only other exit is `return nil, err` for a real error -/
theorem channel_option_loop_shape : Gen.C13OptionLoops.channel = OptLoop.good := by decide

theorem run_good_eq_foldl (opts : List ChOpt) (o : ChOp) :
    OptLoop.run OptLoop.good applyChOpt opts o = some (opts.foldl updChOp o) := by
  induction opts generalizing o with
  | nil => rfl
  | cons x xs ih =>
    cases x <;> simpa [OptLoop.run, applyChOpt, OptLoop.good, updChOp] using ih _

/-- **Channel options are position independent.** For every option list of a send — the channel's
own options in any order and any multiplicity, options of other layers before, between and after
them — `channel.NewOperation` succeeds, every channel option takes effect (the record is the fold of
the list), and the result is the one for the list with every foreign option removed. -/
theorem channel_options_position_independent (opts : List ChOpt) :
    newChannelOperation opts = some (opts.foldl updChOp {}) ∧
    newChannelOperation (opts.filter (· != .foreign)) = newChannelOperation opts := by
  unfold newChannelOperation
  rw [channel_option_loop_shape, run_good_eq_foldl, run_good_eq_foldl]
  refine ⟨rfl, ?_⟩
  congr 1
  generalize ({} : ChOp) = o
  induction opts generalizing o with
  | nil => rfl
  | cons x xs ih =>
    cases x <;> simp [List.filter_cons, updChOp, ih]

/-- in particular "keep the prompt" and "exact match" hold whenever they were asked for -/
theorem channel_options_effective (opts : List ChOpt) (o : ChOp)
    (h : newChannelOperation opts = some o) :
    (ChOpt.noStrip ∈ opts → o.strip = false) ∧ (ChOpt.exact ∈ opts → o.exact = true) ∧
    (ChOpt.eager ∈ opts → o.eager = true) := by
  rw [(channel_options_position_independent opts).1] at h
  cases h
  have key : ∀ (l : List ChOpt) (a : ChOp),
      ((ChOpt.noStrip ∈ l ∨ a.strip = false) → (l.foldl updChOp a).strip = false) ∧
      ((ChOpt.exact ∈ l ∨ a.exact = true) → (l.foldl updChOp a).exact = true) ∧
      ((ChOpt.eager ∈ l ∨ a.eager = true) → (l.foldl updChOp a).eager = true) := by
    intro l
    induction l with
    | nil => intro a; simp
    | cons x xs ih =>
      intro a
      obtain ⟨i1, i2, i3⟩ := ih (updChOp a x)
      refine ⟨fun h => i1 ?_, fun h => i2 ?_, fun h => i3 ?_⟩ <;>
        cases x <;> simp_all [updChOp]
  obtain ⟨k1, k2, k3⟩ := key opts {}
  exact ⟨fun h => k1 (Or.inl h), fun h => k2 (Or.inl h), fun h => k3 (Or.inl h)⟩

/-- negative witness: a loop that `break`s on `util.ErrIgnoredOption` drops what follows the first
foreign option — `[foreign, noStrip, exact]` yields the defaults -/
example : OptLoop.run { OptLoop.good with onIgnored := .brk } applyChOpt
    [.foreign, .noStrip, .exact] {} = some {} := by decide

end Scrapli.Chan.C01
