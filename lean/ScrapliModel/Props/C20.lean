import ScrapliModel.Lemmas.Queue
import ScrapliModel.Lemmas.QueueSolo
import ScrapliModel.Lemmas.QueueChan
import ScrapliModel.Lemmas.QueueMulti
import ScrapliModel.Generated.C20ReadLoop
import ScrapliModel.Lemmas.GoSem
import ScrapliModel.Generated.BodiesQueue
/-!
# C20 — The channel's byte queue is a lossless FIFO under concurrent use

Property theorems only. Model: `ScrapliModel/Queue.lean` (mirrors `util/queue.go`):

* `Spec`  : the abstract queue, a `List Bytes`;
* `Seq`   : the five Go methods as functions on `(queue, depth, token, locked)`;
* `Conc`  : the same methods as small-step programs for one producer (`Enqueue`) and one consumer
            (`Dequeue`, `DequeueAll`, `Requeue`, `GetDepth`), arbitrary chunk contents, arbitrary
            many calls, arbitrary interleaving (`Reach`).

The concurrent theorems are consequences of one inductive invariant (`Conc.Inv`, proved in
`Lemmas/Queue.lean` by case analysis on the two program counters, no state enumeration).
-/
namespace Scrapli.Queue.C20
open Scrapli Scrapli.Queue Scrapli.Queue.Conc

/-! ## one caller: the struct refines the list -/

/-- Every sequential history of `Enqueue / Dequeue / DequeueAll / Requeue / GetDepth` (any length,
any chunks) on a new queue returns exactly what the list specification returns — in particular an
empty queue yields `nil`, the depth is the number of chunks held — never panics or blocks, and
leaves slice = list, depth = published depth = number of chunks, lock free. -/
theorem queue_refines_list (ops : List Op) :
    ∃ q', Seq.run ops new = .ok ((Spec.run ops []).1, q') ∧ Abs q' (Spec.run ops []).2 :=
  run_refines ops new [] abs_new

/-- The same from any state between calls, not just a new queue. -/
theorem queue_refines_list_from (ops : List Op) (q : Q) (l : List Bytes) (h : Abs q l) :
    ∃ q', Seq.run ops q = .ok ((Spec.run ops l).1, q') ∧ Abs q' (Spec.run ops l).2 :=
  run_refines ops q l h

example : Abs { queue := [[1], [2, 3]], depth := 2, token := some 2, locked := false } [[1], [2, 3]] := by
  simp [Abs]

/-- The small-step programs of `Conc`, run by the consumer goroutine alone from a state between
calls, compute exactly the sequential functions (same result, same struct afterwards). -/
theorem seq_is_solo_consumer (s : St) (l : List Bytes) (call : Call)
    (hq : Abs s.toQ l) (hc : s.cpc = .idle) :
    ∃ n s', iterC call n s = some s' ∧ SoloC s call s' :=
  solo_consumer s l call hq hc

/-- … and so does the producer's program for `Enqueue(b)`. -/
theorem seq_is_solo_producer (s : St) (l : List Bytes) (b : Bytes)
    (hq : Abs s.toQ l) (hp : s.ppc = .idle) :
    ∃ s', iterP b 7 s = some s' ∧ SoloP s b s' :=
  solo_producer s l b hq hp

example : Abs Conc.init.toQ [] ∧ Conc.init.cpc = .idle ∧ Conc.init.ppc = .idle := by
  simp [Abs, Conc.init, St.toQ]

/-! ## two goroutines, all schedules -/

/-- `Conc.Inv` holds in every reachable state: the lock is held exactly inside critical sections;
the depth token is in the channel or held by exactly one goroutine; outside the consumer's critical
sections `depth` and the published depth equal the number of chunks in the slice minus the
producer's chunk in flight (so a depth read without the lock never exceeds the number of chunks
the consumer will find when it later takes the lock); plus the per-program-counter facts `CInv`
and the two history facts used below. -/
theorem conc_invariant {s : St} (h : Reach s) : Inv s := inv_reach h

/-- Between operations of both goroutines (lock free, token in the channel) the struct is
consistent: `depth` and the published depth are the number of chunks held. -/
theorem conc_quiescent {s : St} (h : Reach s) (hl : s.lock = none) :
    s.depth = s.queue.length ∧ ∀ d, s.token = some d → d = s.queue.length := by
  have hi := inv_reach h
  have hc : s.cpc.crit = false := by
    cases hcc : s.cpc.crit with
    | false => rfl
    | true => have := hi.lockC.mpr hcc; simp [hl] at this
  have hp : s.ppc.crit = false := by
    cases hcc : s.ppc.crit with
    | false => rfl
    | true => have := hi.lockP.mpr hcc; simp [hl] at this
  have hlag : s.ppc.lag = 0 ∧ s.ppc.dlag = 0 := by
    cases hpp : s.ppc <;> simp [hpp, PPc.crit, PPc.lag, PPc.dlag] at hp ⊢
  have h1 := hi.depthOk hc
  have h2 := hi.tokOk hc
  refine ⟨by omega, fun d hd => ?_⟩
  have := h2 d hd
  omega

example : Reach Conc.init ∧ Conc.init.lock = none := ⟨.init, rfl⟩

/-- The depth `GetDepth` is about to return is the number of chunks held at that moment. -/
theorem conc_depth_exact {s : St} (h : Reach s) (d : Int) (hc : s.cpc = .gdRUnlock d) :
    d = s.queue.length := by
  have := (inv_reach h).cinv
  simp only [CInv, hc] at this
  omega

/-- The depth the consumer reads through the token at the top of `Dequeue`/`DequeueAll` never
overstates the slice, and understates it by at most the producer's one chunk in flight: `nil` is
returned only if every chunk whose `Enqueue` has published is already taken. -/
theorem conc_token_read {s : St} (h : Reach s) (k : Kind) (d : Int) (hc : s.cpc = .gSend k d) :
    d + s.ppc.lag = s.queue.length ∧ 0 ≤ s.ppc.lag ∧ s.ppc.lag ≤ 1 := by
  have hi := inv_reach h
  have := hi.cinv
  simp only [CInv, hc] at this
  refine ⟨this, ?_, ?_⟩ <;> cases s.ppc <;> simp [PPc.lag]

example : Reach midState ∧ midState.cpc = .gSend .dq 1 := ⟨midState_reach, rfl⟩

/-- The consumer never indexes an empty slice: no reachable state has the consumer goroutine dead
from `q.queue[0]` on an empty slice, under any schedule. -/
theorem conc_no_panic {s : St} (h : Reach s) : s.cpc ≠ .panicked := by
  intro hc
  have := (inv_reach h).cinv
  simp [CInv, hc] at this

/-- … and at the indexing statement the slice is non-empty. -/
theorem conc_index_safe {s : St} (h : Reach s) (hc : s.cpc = .dqIdx) : s.queue ≠ [] := by
  have := (inv_reach h).cinv
  simp only [CInv, hc] at this
  intro hq
  simp [hq] at this

/-- No deadlock: whenever a goroutine is inside an operation, some goroutine that is inside an
operation can take its next step (a blocked goroutine is always waiting for one that can move). -/
theorem conc_no_deadlock {s : St} (h : Reach s) (hb : s.ppc.busy = true ∨ s.cpc.busy = true) :
    ∃ s', BusyStep s s' :=
  no_deadlock (inv_reach h) hb

example : Reach midState ∧ (midState.ppc.busy = true ∨ midState.cpc.busy = true) :=
  ⟨midState_reach, Or.inl rfl⟩

/-- No livelock: every step taken inside an operation decreases `rem` (the number of statements
the two calls in progress still have to execute). Together with `conc_no_deadlock`: if no new call
is started, both calls in progress return within `s.rem ≤ 16` steps, whatever the schedule. -/
theorem conc_busy_step_decreases {s s' : St} (hs : BusyStep s s') : s'.rem < s.rem :=
  busy_step_decreases hs

/-- a busy step is a step, so the states it visits are reachable -/
theorem conc_busy_step_reach {s s' : St} (h : Reach s) (hs : BusyStep s s') : Reach s' := by
  cases hs with
  | p b _ hp => exact .step h (.p b hp)
  | c call _ hc => exact .step h (.c call hc)

example : ∃ s', BusyStep midState s' := conc_no_deadlock midState_reach (Or.inl rfl)

/-- Every maximal run without new calls ends with both calls returned: from any reachable state
a run of busy steps that cannot be extended (`∀ s'', ¬ BusyStep s' s''`) ends with both goroutines
idle (runs are finite by `conc_busy_step_decreases`, so such an end always exists). -/
theorem conc_calls_complete {s s' : St} (h : Reach s) (hr : BusySteps s s')
    (hmax : ∀ s'', ¬ BusyStep s' s'') : s'.ppc = .idle ∧ s'.cpc = .idle := by
  induction hr with
  | refl s =>
    have hnp := conc_no_panic h
    have hb : ¬ (s.ppc.busy = true ∨ s.cpc.busy = true) := fun hb =>
      let ⟨s'', hs⟩ := conc_no_deadlock h hb
      hmax s'' hs
    constructor
    · cases hp : s.ppc <;> simp [hp, PPc.busy] at hb ⊢
    · cases hc : s.cpc <;> simp [hc, CPc.busy] at hb hnp ⊢
  | step hs _ ih => exact ih (conc_busy_step_reach h hs) hmax

/-- FIFO, lossless, all schedules. In every reachable state, reading the stream of produced chunks
(`produced`, in `Enqueue` order) with a push-back stack according to the consumer's completed
calls (`rets`, in call order: a `Dequeue` result takes one chunk, a `DequeueAll` result takes its
chunks, a `Requeue` pushes one back) and the mutations of its call in progress succeeds — every
chunk the consumer got was the next one of the stream, put-backs first — and leaves exactly the
slice: nothing lost, nothing duplicated, nothing reordered. -/
theorem conc_fifo {s : St} (h : Reach s) :
    consume (s.rets.flatMap Ret.events ++ s.cpc.pending) s.produced = some s.queue := by
  have hi := inv_reach h
  rw [hi.retsOk]
  exact hi.fifo

/-- … in particular between consumer calls. -/
theorem conc_fifo_idle {s : St} (h : Reach s) (hc : s.cpc = .idle) :
    consume (s.rets.flatMap Ret.events) s.produced = some s.queue := by
  have := conc_fifo h
  simpa [hc, CPc.pending] using this

/-- Without put-backs: the chunks obtained so far followed by the chunks still queued are exactly
the chunks produced, in order. -/
theorem conc_fifo_no_putback {s : St} (h : Reach s) (hc : s.cpc = .idle)
    (hr : ∀ r ∈ s.rets, r.isReq = false) :
    (s.rets.map Ret.chunks).flatten ++ s.queue = s.produced := by
  have h1 := conc_fifo_idle h hc
  have h2 := consume_only_gots _ _ _ (rets_backs s.rets hr) h1
  rw [rets_gots] at h2
  exact h2.symm

/-- … and at byte level: the consumer's byte stream followed by the bytes still queued is the
producer's byte stream. -/
theorem conc_fifo_bytes {s : St} (h : Reach s) (hc : s.cpc = .idle)
    (hr : ∀ r ∈ s.rets, r.isReq = false) :
    outBytes s.rets ++ s.queue.flatten = s.produced.flatten := by
  rw [← conc_fifo_no_putback h hc hr, outBytes_chunks, List.flatten_append]

example : Reach afterState ∧ afterState.cpc = .idle ∧ ∀ r ∈ afterState.rets, r.isReq = false :=
  ⟨afterState_reach, rfl, by decide⟩

/-- With put-backs, each once: the chunks obtained plus the chunks still queued are, as a
multiset, the chunks produced plus the chunks put back. -/
theorem conc_conservation {s : St} (h : Reach s) (hc : s.cpc = .idle) :
    ((s.rets.map Ret.chunks).flatten ++ s.queue).Perm
      (backsOf (s.rets.flatMap Ret.events) ++ s.produced) := by
  have := consume_perm _ _ _ (conc_fifo_idle h hc)
  rwa [rets_gots] at this

/-- Put-backs first: whatever the producer does in between, the chunk the consumer obtains next
after a `Requeue(b)` is `b` (and the pair can be cancelled from the history). Stated on the reader
that `conc_fifo` shows the consumer to be. -/
theorem conc_putback_first (l l' : List CEv) (b c : Bytes) (S Q : List Bytes)
    (h : consume (l ++ .back b :: .got c :: l') S = some Q) :
    c = b ∧ consume (l ++ l') S = some Q :=
  consume_putback_first l l' b c S Q h

example : consume ([.got [1]] ++ .back [9] :: .got [9] :: [.got [2]]) [[1], [2], [3]] = some [[3]] := by
  decide

/-! ## one producer, any number of consumer goroutines

The library itself can run two consumers: `Close` on a platform-built network driver runs an
on-close function that sends commands while an operation started earlier is still reading the
channel. Model: `ScrapliModel/QueueMulti.lean` (`k` consumer program counters; `Multi.Reach recheck k`:
all schedules; `recheck = true` is the code with the emptiness test under the lock in `Dequeue`). -/

/-- `Multi.MInv` holds in every reachable state of one producer and `k` consumers (any `k`): the write
lock is held exactly by the goroutine inside a critical section, a reader excludes writers, the
depth token is in the channel or held by exactly the goroutine recorded in `holder`, the published
depth is the slice length whenever the lock is free, per-program-counter facts, and the FIFO fact. -/
theorem multi_invariant {k : Nat} {s : Multi.St} (h : Multi.Reach true k s) : Multi.MInv s :=
  Multi.minv_reach h

/-- With the re-check under the lock, no consumer ever indexes an empty slice: for every number of
consumers, every schedule and every call sequence, no consumer goroutine is dead from `q.queue[0]`. -/
theorem conc_no_panic_multi_consumer {k : Nat} {s : Multi.St} (h : Multi.Reach true k s) (i : Nat) :
    s.cpcs[i]? ≠ some .panicked := by
  intro hc
  have := ((Multi.minv_reach h).cl i _ hc).n
  simp [Multi.CNum] at this

/-- … and whenever a consumer is at the indexing statement the slice is non-empty. -/
theorem multi_index_safe {k : Nat} {s : Multi.St} (h : Multi.Reach true k s) (i : Nat)
    (hc : s.cpcs[i]? = some .dqIdx) : s.queue ≠ [] := by
  have := ((Multi.minv_reach h).cl i _ hc).n
  simp only [Multi.CNum] at this
  intro hq
  simp [hq] at this

/-- the schedule of the negative witness: one chunk is enqueued; both consumers read depth 1 through
the token and pass the unlocked test; consumer 0 locks, takes the chunk and unlocks; consumer 1 locks
and executes `q.queue[0]` on the empty slice. -/
def panicSchedule : List (Bytes ⊕ (Nat × Call)) :=
  List.replicate 7 (.inl [1])
  ++ List.replicate 4 (.inr (0, .dequeue))
  ++ List.replicate 4 (.inr (1, .dequeue))
  ++ List.replicate 7 (.inr (0, .dequeue))
  ++ List.replicate 2 (.inr (1, .dequeue))

/-- Negative witness: WITHOUT the re-check (the code before the repair) two consumers reach the
panic — the defect C07 observed through `Close` during `GetPrompt`. -/
theorem two_consumers_panic_without_recheck :
    ∃ s, Multi.Reach false 2 s ∧ s.cpcs[1]? = some .panicked := by
  have h : ∃ s, Multi.sched false panicSchedule (Multi.init 2) = some s ∧ s.cpcs[1]? = some .panicked := by
    decide
  obtain ⟨s, hs, hp⟩ := h
  exact ⟨s, Multi.reach_sched false 2 _ _ _ .init hs, hp⟩

/-- The same interleaving on the repaired code (one more step for each re-check): consumer 1 finds the
slice empty under the lock, returns `nil` and is idle again; the struct stays consistent. -/
theorem same_interleaving_with_recheck_returns_nil :
    ∃ s, Multi.sched true
        (List.replicate 7 (.inl [1]) ++ List.replicate 4 (.inr (0, .dequeue)) ++ List.replicate 4 (.inr (1, .dequeue))
          ++ List.replicate 8 (.inr (0, .dequeue)) ++ List.replicate 3 (.inr (1, .dequeue)))
        (Multi.init 2) = some s ∧
      s.cpcs = [.idle, .idle] ∧ s.queue = [] ∧ s.depth = 0 ∧ s.token = some 0 ∧ s.lock = none := by
  decide

/-- FIFO with several consumers, part 1 (global order): the slice mutations of ALL consumers, in the
order in which they happened (each happens under the write lock, so the order is total), read the
produced stream in order with put-backs first and leave exactly the slice. -/
theorem multi_fifo {k : Nat} {s : Multi.St} (h : Multi.Reach true k s) :
    consume (s.clog.map (·.2)) s.produced = some s.queue :=
  (Multi.minv_reach h).fifo

/-- part 2 (each chunk to exactly one consumer, none lost): every removal is one entry of the log,
tagged with the one consumer that made it, and as a multiset the chunks removed by all consumers
plus the chunks still queued are the chunks produced plus the chunks put back. -/
theorem multi_conservation {k : Nat} {s : Multi.St} (h : Multi.Reach true k s) :
    (gotsOf (s.clog.map (·.2)) ++ s.queue).Perm (backsOf (s.clog.map (·.2)) ++ s.produced) :=
  consume_perm _ _ _ (multi_fifo h)

/-- part 3, without put-backs: the chunks removed by all consumers, in removal order, followed by
the chunks still queued, are exactly the chunks produced. -/
theorem multi_fifo_no_putback {k : Nat} {s : Multi.St} (h : Multi.Reach true k s)
    (hb : backsOf (s.clog.map (·.2)) = []) :
    gotsOf (s.clog.map (·.2)) ++ s.queue = s.produced :=
  (consume_only_gots _ _ _ hb (multi_fifo h)).symm

/-- part 4 (per consumer): what one consumer obtains is, in its own order, a subsequence of the
produced stream (it sees the stream in order, minus what the other consumers took). -/
theorem multi_per_consumer_subsequence {k : Nat} {s : Multi.St} (h : Multi.Reach true k s)
    (hb : backsOf (s.clog.map (·.2)) = []) (i : Nat) :
    (Multi.delivered i s.clog).Sublist s.produced := by
  have h1 := Multi.gotsOf_sublist_filter s.clog i
  have h2 := multi_fifo_no_putback h hb
  rw [← h2]
  exact h1.trans (List.sublist_append_left _ _)

/-- a reachable state with two consumers that each took one chunk, no put-backs -/
def twoTook : Multi.St :=
  { queue := [[3]], depth := 1, token := some 1, lock := none, holder := none, pub := 1, ppc := .idle,
    cpcs := [.idle, .idle], produced := [[1], [2], [3]], clog := [(1, .got [1]), (0, .got [2])] }

theorem twoTook_reach : Multi.Reach true 2 twoTook := by
  refine Multi.reach_sched true 2
    (List.replicate 7 (.inl [1]) ++ List.replicate 7 (.inl [2]) ++ List.replicate 7 (.inl [3])
      ++ List.replicate 12 (.inr (1, .dequeue)) ++ List.replicate 12 (.inr (0, .dequeue)))
    (Multi.init 2) _ .init ?_
  decide

example : Multi.Reach true 2 twoTook ∧ backsOf (twoTook.clog.map (·.2)) = [] ∧
    Multi.delivered 0 twoTook.clog = [[2]] ∧ Multi.delivered 1 twoTook.clog = [[1]] :=
  ⟨twoTook_reach, by decide, by decide, by decide⟩

/-- Between operations (write lock free) the struct is consistent, whatever the consumers did:
`depth` and the published depth are the number of chunks held. -/
theorem multi_quiescent {k : Nat} {s : Multi.St} (h : Multi.Reach true k s) (hl : s.lock = none) :
    s.depth = s.queue.length ∧ ∀ d, s.token = some d → d = s.queue.length := by
  have hi := Multi.minv_reach h
  obtain ⟨h1, h2⟩ := hi.numFree hl
  refine ⟨h1, fun d hd => ?_⟩
  rcases hi.tokPub with ht | ht
  · simp [ht] at hd
  · rw [ht] at hd
    cases hd
    omega

/-- `GetDepth` returns the number of chunks held while it holds the read lock. -/
theorem multi_depth_exact {k : Nat} {s : Multi.St} (h : Multi.Reach true k s) (i : Nat) (d : Int)
    (hc : s.cpcs[i]? = some (.gdRUnlock d)) : d = s.queue.length := by
  have hi := Multi.minv_reach h
  have hcl := hi.cl i _ hc
  have hl := hcl.r (by simp [Multi.critR])
  have hn := hcl.n
  simp only [Multi.CNum] at hn
  have := (hi.numFree hl).1
  omega

/-- NOT PROVED (stated only): with several consumers no goroutine waits forever for the lock or
the token. Argument: the token holder's next step is always enabled, a goroutine inside a critical
section waits only for the token, readers never wait once inside. The stress runs with two and
three consumers sample it under a watchdog. -/
def MultiNoDeadlock : Prop :=
  ∀ (k : Nat) (s : Multi.St), Multi.Reach true k s →
    (s.ppc.busy = true ∨ ∃ (i : Nat) (pc : CPc), s.cpcs[i]? = some pc ∧ pc.busy = true) →
    (∃ b s', s.ppc.busy = true ∧ Multi.stepP s b = some s') ∨
    (∃ (i : Nat) (pc : CPc) (call : Call) (s' : Multi.St), s.cpcs[i]? = some pc ∧ pc.busy = true ∧ Multi.stepC true s i call = some s')

/-! ## the queue inside the channel: end to end, byte level

Producer = the `Channel.read` goroutine (`Chan.enqueued`: skip reads of length 0, normalise, enqueue);
consumer = the operations (`Read`, `ReadAll`, the `ReadUntil*` loops, `GetPrompt`, the login code with
its `Requeue` of leftover bytes), which only observe concatenations. -/

/-- End to end, all schedules: if the producer enqueued what `Channel.read` enqueues for the
transport reads `reads`, then reading the normalised byte stream of those reads with a byte-level
push-back stack according to the consumer's calls succeeds and leaves exactly the bytes still
queued: bytes delivered by the transport (normalised) = bytes consumed ++ bytes left, in order. -/
theorem chan_end_to_end {s : St} (h : Reach s) (norm : Bytes → Bytes) (reads : List Bytes)
    (hp : s.produced = Chan.enqueued norm reads) :
    Chan.consumeB (s.rets.flatMap Ret.events ++ s.cpc.pending) (Chan.stream norm reads)
      = some s.queue.flatten := by
  have := Chan.consume_bytes _ _ _ (conc_fifo h)
  rw [hp] at this
  exact this

example : Reach afterState ∧ afterState.produced = Chan.enqueued id [[1], [], [2]] :=
  ⟨afterState_reach, by decide⟩

/-- … without put-backs, between consumer calls: the consumer's byte stream followed by the bytes
still queued is the normalised transport stream. -/
theorem chan_end_to_end_no_putback {s : St} (h : Reach s) (hc : s.cpc = .idle)
    (hr : ∀ r ∈ s.rets, r.isReq = false) (norm : Bytes → Bytes) (reads : List Bytes)
    (hp : s.produced = Chan.enqueued norm reads) :
    outBytes s.rets ++ s.queue.flatten = Chan.stream norm reads := by
  rw [conc_fifo_bytes h hc hr, hp]
  rfl

/-- An operation that concatenates the chunks it dequeued (`ReadUntil*`, `ReadAll`) is, for the
byte-level reader, one read of the concatenation: chunk boundaries are not observable. -/
theorem chan_op_concat (cs : List Bytes) (es : List CEv) (S : Bytes) :
    Chan.consumeB (cs.map .got ++ es) S = Chan.consumeB (.got cs.flatten :: es) S :=
  Chan.consumeB_gots cs es S

/-- The login code's `Requeue` of the bytes it read restores the stream: read `b`, put `b` back,
and every later read sees what it would have seen. -/
theorem chan_login_putback (b : Bytes) (es : List CEv) (S : Bytes) (h : b.isPrefixOf S = true) :
    Chan.consumeB (.got b :: .back b :: es) S = Chan.consumeB es S :=
  Chan.consumeB_got_back b es S h

example : ([1, 2] : Bytes).isPrefixOf [1, 2, 3] = true := by decide

/-- Without put-backs the byte-level reader accepts exactly a prefix: stream = bytes obtained ++ rest. -/
theorem chan_reader_prefix (l : List CEv) (S Q : Bytes) (hb : backsOf l = [])
    (h : Chan.consumeB l S = some Q) : S = (gotsOf l).flatten ++ Q :=
  Chan.consumeB_only_gots l S Q hb h

example : backsOf [.got [1], .got [2, 3]] = [] ∧
    Chan.consumeB [.got [1], .got [2, 3]] [1, 2, 3, 4] = some [4] := by decide

/-- Reads of length 0 are invisible (read.go:104): inserting them anywhere changes nothing. -/
theorem chan_skips_empty_reads (norm : Bytes → Bytes) (a b : List Bytes) :
    Chan.enqueued norm (a ++ [] :: b) = Chan.enqueued norm (a ++ b) := by
  simp [Chan.enqueued, List.filter_append]

/-- The stream is built read by read, in order. -/
theorem chan_stream_append (norm : Bytes → Bytes) (a b : List Bytes) :
    Chan.stream norm (a ++ b) = Chan.stream norm a ++ Chan.stream norm b := by
  simp [Chan.stream, Chan.enqueued, List.filter_append]

/-- When no read contains ESC, normalisation is deletion of CR and does not depend on how the
transport cut the bytes into reads: the stream is the concatenation of the reads without CR. -/
theorem chan_stream_plain (strip : Bytes → Bytes) (reads : List Bytes)
    (h : ∀ r ∈ reads, (Scrapli.Chan.dropCR r).contains ESC = false) :
    Chan.stream (Scrapli.Chan.normalizeChunk strip) reads = Scrapli.Chan.dropCR reads.flatten := by
  induction reads with
  | nil => simp [Chan.stream, Chan.enqueued, Scrapli.Chan.dropCR]
  | cons r rs ih =>
    have hr := h r (by simp)
    have ih' := ih (fun x hx => h x (by simp [hx]))
    simp only [Chan.stream, Chan.enqueued] at ih' ⊢
    cases r with
    | nil => simpa [Scrapli.Chan.dropCR] using ih'
    | cons x xs =>
      have hn : Scrapli.Chan.normalizeChunk strip (x :: xs) = Scrapli.Chan.dropCR (x :: xs) := by
        simp only [Scrapli.Chan.normalizeChunk, hr]
        simp
      simp only [List.filter_cons, List.isEmpty_cons, Bool.not_false, if_true, List.map_cons,
        List.flatten_cons, ih', hn]
      simp only [Scrapli.Chan.dropCR, List.cons_append, ← List.filter_append]

example : ∀ r ∈ ([[13, 97], [], [98, 13]] : List Bytes), (Scrapli.Chan.dropCR r).contains ESC = false := by
  decide

/-! ## an enqueued chunk is a copy (value semantics)

The queue model holds byte strings; the Go queue holds slices. The two agree only if what the read
loop enqueues is a private copy: a transport may return views of one buffer that its next `Read`
overwrites (`transport.Implementation` does not promise a fresh slice per read). -/

/-- The named correspondence: a read loop whose normalisation always copies enqueues VALUES — over a
transport that reuses one read buffer, and whatever that buffer holds when a consumer finally
dequeues, the consumers see exactly `Chan.enqueued norm reads` (what `chan_end_to_end` assumes). -/
theorem chan_enqueued_chunk_is_copy (norm : Bytes → Bytes) (reads : List Bytes) (buf later : Bytes) :
    ((Chan.Aliased.loop (fun _ => true) norm reads buf).1.map (Chan.Aliased.resolve later))
      = Chan.enqueued norm reads :=
  Chan.Aliased.loop_copying norm reads buf later

/-- Negative witness: if the read loop copies only the reads that contain CR (a "skip ReplaceAll when
there is nothing to replace" optimisation), two reads `ab`, `cd` queued before the consumer dequeues
resolve to `cd`, `cd`: the first chunk is lost and the second duplicated. -/
theorem chan_uncopied_chunk_is_overwritten :
    let r := Chan.Aliased.loop (fun r => r.contains CR) Scrapli.Chan.dropCR [[97, 98], [99, 100]] []
    (r.1.map (Chan.Aliased.resolve r.2)).flatten = [99, 100, 99, 100] ∧
      Chan.stream Scrapli.Chan.dropCR [[97, 98], [99, 100]] = [97, 98, 99, 100] := by
  decide

/-- Source fact, regenerated from `channel/read.go` on every run: between `c.t.Read()` and
`c.Q.Enqueue(b)` the read loop passes `b` through an unconditional copying step
(`Gen.C20ReadLoop.copyingStep`, today `b = bytes.ReplaceAll(b, "\r", "")`). -/
theorem read_loop_enqueues_a_copy : Gen.C20ReadLoop.enqueueCopies = true := by decide

/-! ## tie to the source: translated method bodies = the `Seq` layer (regenerated on every run)

The struct is the four state variables `queue`, `depth`, `token` (content of the 1-slot
`depthChan`), `locked`; `Lock`/`RLock` on a held lock, a receive from the empty channel and a send
to the full one are the `deadlock` fault, an index out of range the `panic` fault; the deferred
`Unlock` runs before every return that follows it. A `[]byte` result keeps `nil` apart (`none`). -/

/-- the body of `(*Queue).getDepth` (receive the depth token, send it back, return it) as the
translator renders it from the current source (`Generated/BodiesQueue.lean`) is `Seq.getDepthTok`,
faults included, for every queue state -/
theorem generated_getDepthTok_eq (q : Q) :
    Gen.Bodies.QueueSeq.getDepthTok q.queue q.depth q.token q.locked
      = (Seq.getDepthTok q).map (fun r => (r.1, r.2.queue, r.2.depth, r.2.token, r.2.locked)) := by
  obtain ⟨queue, depth, token, locked⟩ := q
  unfold Gen.Bodies.QueueSeq.getDepthTok Seq.getDepthTok
  cases token <;> simp [Seq.recvTok, Seq.sendTok, bind, Except.bind, Except.map, pure, Except.pure]

/-- the translated body of `(*Queue).Enqueue` is `Seq.enqueue`, faults included, for every state -/
theorem generated_enqueue_eq (q : Q) (b : Bytes) :
    Gen.Bodies.QueueSeq.enqueue q.queue q.depth q.token q.locked b
      = (Seq.enqueue q b).map (fun r => (r.queue, r.depth, r.token, r.locked)) := by
  obtain ⟨queue, depth, token, locked⟩ := q
  unfold Gen.Bodies.QueueSeq.enqueue Seq.enqueue
  cases token <;> cases locked <;>
    simp [Seq.lock, Seq.unlock, Seq.republish, Seq.recvTok, Seq.sendTok, bind, Except.bind, Except.map, pure, Except.pure]

/-- the translated body of `(*Queue).Requeue` is `Seq.requeue`, faults included, for every state -/
theorem generated_requeue_eq (q : Q) (b : Bytes) :
    Gen.Bodies.QueueSeq.requeue q.queue q.depth q.token q.locked b
      = (Seq.requeue q b).map (fun r => (r.queue, r.depth, r.token, r.locked)) := by
  obtain ⟨queue, depth, token, locked⟩ := q
  unfold Gen.Bodies.QueueSeq.requeue Seq.requeue
  cases token <;> cases locked <;>
    simp [Seq.lock, Seq.unlock, Seq.republish, Seq.recvTok, Seq.sendTok, bind, Except.bind, Except.map, pure, Except.pure]

/-- the translated body of `(*Queue).Dequeue` (early `nil` on published depth 0; `nil` again when the
slice turns out empty under the lock; `q.queue[0]` and `q.queue[1:]` with their bounds tests) is
`Seq.dequeue`, for every state -/
theorem generated_dequeue_eq (q : Q) :
    Gen.Bodies.QueueSeq.dequeue q.queue q.depth q.token q.locked
      = (Seq.dequeue q).map (fun r => (r.1, r.2.queue, r.2.depth, r.2.token, r.2.locked)) := by
  obtain ⟨queue, depth, token, locked⟩ := q
  unfold Gen.Bodies.QueueSeq.dequeue Seq.dequeue Gen.Bodies.QueueSeq.getDepthTok Seq.getDepthTok
  cases token with
  | none => simp [Seq.recvTok, bind, Except.bind, Except.map]
  | some d =>
    by_cases hd : d = 0
    · simp [hd, Seq.recvTok, Seq.sendTok, bind, Except.bind, Except.map, pure, Except.pure]
    · have hl0 : Go.len ([] : List Bytes) = 0 := rfl
      have hl1 : ∀ (x : Bytes) (xs : List Bytes), ¬ Go.len (x :: xs) = 0 := by
        intro x xs h; simp [Go.len] at h; omega
      cases locked <;> cases queue <;>
        simp [hd, hl0, hl1, Seq.lock, Seq.unlock, Seq.republish, Seq.recvTok, Seq.sendTok, bind, Except.bind, Except.map,
          pure, Except.pure, Go.idxOK_zero_nil, Go.idxOK_zero_cons, Go.sliceOK_one_cons, Go.at_zero_cons,
          Go.slice_one_cons]

/-- the translated body of `(*Queue).DequeueAll` is `Seq.dequeueAll`, faults included, for every state -/
theorem generated_dequeueAll_eq (q : Q) :
    Gen.Bodies.QueueSeq.dequeueAll q.queue q.depth q.token q.locked
      = (Seq.dequeueAll q).map (fun r => (r.1, r.2.queue, r.2.depth, r.2.token, r.2.locked)) := by
  obtain ⟨queue, depth, token, locked⟩ := q
  unfold Gen.Bodies.QueueSeq.dequeueAll Seq.dequeueAll Gen.Bodies.QueueSeq.getDepthTok Seq.getDepthTok
  cases token with
  | none => simp [Seq.recvTok, bind, Except.bind, Except.map]
  | some d =>
    by_cases hd : d = 0
    · simp [hd, Seq.recvTok, Seq.sendTok, bind, Except.bind, Except.map, pure, Except.pure]
    · cases locked <;>
        simp [hd, Seq.lock, Seq.unlock, Seq.republish, Seq.recvTok, Seq.sendTok, bind, Except.bind, Except.map,
          pure, Except.pure]

/-- the translated body of `(*Queue).GetDepth` is `Seq.getDepth`, for every state -/
theorem generated_getDepth_eq (q : Q) :
    Gen.Bodies.QueueSeq.getDepth q.queue q.depth q.token q.locked
      = (Seq.getDepth q).map (fun r => (r.1, r.2.queue, r.2.depth, r.2.token, r.2.locked)) := by
  obtain ⟨queue, depth, token, locked⟩ := q
  unfold Gen.Bodies.QueueSeq.getDepth Seq.getDepth
  cases locked <;> simp [Seq.lock, Seq.unlock, bind, Except.bind, Except.map, pure, Except.pure]

end Scrapli.Queue.C20
