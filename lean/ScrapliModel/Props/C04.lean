import ScrapliModel.Lemmas.PrivSession
import ScrapliModel.Lemmas.PrivFault
import ScrapliModel.PrivOptions
import ScrapliModel.Lemmas.PrivScript
import ScrapliModel.Generated.Consts
import ScrapliModel.Lemmas.BodiesPriv
/-!
# C04 — Privilege navigation reaches the target level along the tree path

Model: `ScrapliModel/Priv.lean` (`dfs` = `buildPrivChangeMap`, `processAcquire`, `acquireLoop`,
`acquirePriv`, the privilege device `devStep`, the five operations `runOp`). Lemmas:
`Lemmas/Forest.lean` (unique simple paths in a parent-pointer forest, DFS soundness and
completeness for every neighbour order), `Lemmas/Priv.lean`, `Lemmas/PrivSession.lean`.

The theorems quantify over every list of levels that forms a tree (`Tree`: no bound on the number
of levels), every map-iteration oracle (`Orders.Valid`: same members, any order, possibly different
at every call), every start level, every target, every cache content, every device policy about
asking for the password (`asks`, within `asksOK`), and every sequence of operations whose payload
lines are not transition commands. Regex behaviour enters as hypotheses on the abstract matcher
`Cfg.matchP` (not-contains + pattern) and the device's prompts `Cfg.promptOf`: every level
recognises its own prompt (`recognises`); prompts need NOT distinguish the levels — levels whose
prompt other levels accept too (`configuration` / `configuration-exclusive`) must be leaves of the
graph (`ambigLeaf`), and at such a level the tracked `CurrentPriv` must be accurate (`Resolves`;
maintained by the driver itself: `cache_coherent`).
-/
namespace Scrapli.Priv.C04
open Scrapli Scrapli.Priv Scrapli.Forest

/-- the decidable checks the driver evaluates per case imply the theorems' hypotheses -/
theorem dom_of_checks (c : Cfg) (h1 : isTree c.L = true) (h2 : recognises c = true)
    (h2' : ambigLeaf c = true) (h3 : cmdsOK c.L = true) (h4 : asksOK c = true)
    (h5 : ∀ t, (c.orc t).Valid) : Dom c := by
  refine ⟨tree_of_isTree h1, ?_, h2, h2', h3, h4, h5⟩
  unfold isTree at h1
  simp only [Bool.and_eq_true, Bool.not_eq_true'] at h1
  intro hc
  have := List.contains_iff_mem.2 hc
  rw [this] at h1
  exact absurd h1.1.1.2 (by simp)

/-- prompts that distinguish all levels are the special case without any ambiguity -/
theorem dom_of_distinguishing (c : Cfg) (h1 : isTree c.L = true) (h2 : distinguishes c = true)
    (h3 : cmdsOK c.L = true) (h4 : asksOK c = true) (h5 : ∀ t, (c.orc t).Valid) : Dom c :=
  dom_of_checks c h1 (recognises_of_distinguishes h2) (ambigLeaf_of_distinguishes h2) h3 h4 h5

/-- `pathDFS_unique`: on a tree there is exactly one simple path between two levels, and
`buildPrivChangeMap` returns it for EVERY neighbour iteration order -/
theorem pathDFS_unique {L : Levels} (ht : Tree L) {cur tgt : Bytes} (hc : cur ∈ names L)
    (hg : tgt ∈ names L) :
    ∃ p, SimplePath (par L) cur tgt p ∧ (∀ q, SimplePath (par L) cur tgt q → q = p) ∧
      p.length ≤ L.length ∧ ∀ o : Orders, o.Valid → pathDFS L o cur tgt = some p := by
  obtain ⟨p, hp, hV⟩ := path_exists ht hc hg
  obtain ⟨d, hd⟩ := ht.depth
  exact ⟨p, hp, fun q hq => simplePath_unique hd q p cur tgt hq hp, path_length_le hp hV,
    fun o ho => pathDFS_eq ht ho hp hV⟩

/-- two runs with different map orders return the same path -/
theorem pathDFS_order_independent {L : Levels} (ht : Tree L) {cur tgt : Bytes} (hc : cur ∈ names L)
    (hg : tgt ∈ names L) (o1 o2 : Orders) (h1 : o1.Valid) (h2 : o2.Valid) :
    pathDFS L o1 cur tgt = pathDFS L o2 cur tgt := by
  obtain ⟨p, _, _, _, h⟩ := pathDFS_unique ht hc hg
  rw [h o1 h1, h o2 h2]

/-- `next_step_correct`: away from the target the decision follows the second node `x` of the
tree path: `x` is the parent of the current level `m` → de-escalate `m` (its deescalate command is
sent); otherwise `x` is a child of `m` → escalate into `x`. The cache is reset to `UNKNOWN`. -/
theorem next_step_correct {c : Cfg} (hd : Dom c) {o : Orders} (ho : o.Valid) {m tgt x : Bytes}
    {rest : List Bytes} (hp : SimplePath (par c.L) m tgt (m :: x :: rest))
    (hV : ∀ v ∈ m :: x :: rest, v ∈ names c.L) (cache : Bytes) (hr : Resolves c cache tgt m) :
    (par c.L m = some x ∧
      processAcquire c.matchP o c.L cache tgt (c.promptOf m) = .ok ⟨.deescalate, m, unknownPriv⟩) ∨
    (par c.L x = some m ∧
      processAcquire c.matchP o c.L cache tgt (c.promptOf m) = .ok ⟨.escalate, x, unknownPriv⟩) := by
  have h := processAcquire_step hd ho hp hV cache hr
  by_cases hpar : par c.L m = some x
  · left; rw [h]; simp [hpar]
  · right
    rcases hp.2.2.1.1 with h' | h'
    · exact absurd h' hpar
    · rw [h]; simp [hpar, h']

/-- at the target nothing is done and the cache names the target -/
theorem at_target_no_action {c : Cfg} (hd : Dom c) {o : Orders} (ho : o.Valid) {m : Bytes}
    (hm : m ∈ names c.L) (cache : Bytes) (hr : Resolves c cache m m) :
    processAcquire c.matchP o c.L cache m (c.promptOf m) = .ok ⟨.noAction, m, m⟩ :=
  processAcquire_same hd ho hm cache hr

/-- THE PROPERTY (`acquire_reaches_target`). Tree, self-recognising prompts that need not
distinguish the levels (ambiguous ones are leaves), unambiguous transition commands, any start
level whose candidates the tracked level resolves (`Resolves`: the prompt is unambiguous — then ANY
cache content —, or the cache is accurate, or the device is at the target and the cache names no
level), any map orders, any target in the map: `AcquirePriv`
succeeds; it ran `|p|` loop iterations, i.e. `|p| − 1 ≤ |levels| − 1 < 2·|levels|` transitions,
where `p` is THE simple path of the tree; the device is at the target (at a prompt), the cache names
the target, and what the device received is exactly `expectedLog p`: one bare return per node and,
between two nodes, the deescalate command of the lower one or the escalate command of the child
followed by the secret where the device asks for it — in path order, each in the mode the path
prescribes. -/
theorem acquire_reaches_target {c : Cfg} (hd : Dom c) (s : Sess) {tgt : Bytes}
    (haw : s.dev.awaiting = none) (hm : s.dev.mode ∈ names c.L) (ht : tgt ∈ names c.L)
    (hres : Resolves c s.cache tgt s.dev.mode) :
    ∃ p, SimplePath (par c.L) s.dev.mode tgt p ∧
      (∀ q, SimplePath (par c.L) s.dev.mode tgt q → q = p) ∧
      p.length ≤ c.L.length ∧ p.length - 1 < 2 * c.L.length ∧
      acquirePriv c tgt s =
        (none, { dev := { mode := tgt, awaiting := none, log := s.dev.log ++ expectedLog c p },
                 cache := tgt, tick := s.tick + p.length }) := by
  obtain ⟨p, hp, hV⟩ := path_exists hd.tree hm ht
  obtain ⟨d, hdep⟩ := hd.tree.depth
  have hlen := path_length_le hp hV
  have hpos : 0 < c.L.length := by rw [← names_length]; exact List.length_pos_of_mem ht
  exact ⟨p, hp, fun q hq => simplePath_unique hdep q p _ tgt hq hp, hlen, by omega,
    acquirePriv_ok hd s haw hres ht hp hV⟩

/-- the path is explicit: for levels passing the decidable tree check, the search returns
`treePath` (up from the current level to the lowest common ancestor, then down to the target),
for every iteration order -/
theorem pathDFS_is_treePath {L : Levels} (h : isTree L = true) {o : Orders} (ho : o.Valid)
    {cur tgt : Bytes} (hc : cur ∈ names L) (hg : tgt ∈ names L) :
    pathDFS L o cur tgt = some (treePath L cur tgt) := by
  obtain ⟨hp, hV⟩ := treePath_simple h hc hg
  exact pathDFS_eq (tree_of_isTree h) ho hp hV

/-- THE PROPERTY with the path made explicit: the device ends at the target having received
exactly `expectedLog (treePath current target)` -/
theorem acquire_log_is_treePath {c : Cfg} (hd : Dom c) (htree : isTree c.L = true) (s : Sess)
    {tgt : Bytes} (haw : s.dev.awaiting = none) (hm : s.dev.mode ∈ names c.L)
    (ht : tgt ∈ names c.L) (hres : Resolves c s.cache tgt s.dev.mode) :
    acquirePriv c tgt s =
      (none, { dev := { mode := tgt, awaiting := none,
                        log := s.dev.log ++ expectedLog c (treePath c.L s.dev.mode tgt) },
               cache := tgt, tick := s.tick + (treePath c.L s.dev.mode tgt).length }) := by
  obtain ⟨hp, hV⟩ := treePath_simple htree hm ht
  exact acquirePriv_ok hd s haw hres ht hp hV

/-- `acquire_reaches_target_ambiguous`: the start level's prompt may be accepted by other levels
too (sibling levels showing the same prompt) and the target may be one of them: as long as the
tracked `CurrentPriv` is accurate, the acquisition walks the tree path and ends at the target — it
never mistakes the sibling it is in for the sibling it was asked for. -/
theorem acquire_reaches_target_ambiguous {c : Cfg} (hd : Dom c) (htree : isTree c.L = true)
    (s : Sess) {tgt : Bytes} (haw : s.dev.awaiting = none) (hm : s.dev.mode ∈ names c.L)
    (ht : tgt ∈ names c.L) (hcache : s.cache = s.dev.mode) :
    acquirePriv c tgt s =
      (none, { dev := { mode := tgt, awaiting := none,
                        log := s.dev.log ++ expectedLog c (treePath c.L s.dev.mode tgt) },
               cache := tgt, tick := s.tick + (treePath c.L s.dev.mode tgt).length }) :=
  acquire_log_is_treePath hd htree s haw hm ht (Or.inr (Or.inl hcache))

/-- the model's recursion fuel is not binding: the `count > 2·|levels|` exit of the Go loop always
fires first, so `acquirePriv`'s `2·|levels| + 2` behaves like the unbounded `for` -/
theorem loop_fuel_not_binding (c : Cfg) (tgt : Bytes) (s : Sess) (extra : Nat) :
    acquireLoop c tgt (2 * c.L.length + 2 + extra) 0 s = acquireLoop c tgt (2 * c.L.length + 2) 0 s := by
  induction extra with
  | zero => rfl
  | succ k ih =>
    rw [← ih]
    exact acquireLoop_fuel c tgt (2 * c.L.length + 2 + k) 0 s (by omega)

/-- an unknown target is refused with a privilege error and nothing is sent (state unchanged) -/
theorem acquire_unknown_target (c : Cfg) (s : Sess) {tgt : Bytes} (ht : tgt ∉ names c.L) :
    acquirePriv c tgt s = (some .privilege, s) :=
  acquirePriv_unknown c s ht

/-- "and nothing else except bare returns": the non-empty lines of an acquisition are exactly the
hop lines of the path, in order (every transition command and the secret are non-empty) -/
theorem acquire_lines_are_path_commands {c : Cfg} (hd : Dom c) : ∀ (p : List Bytes) (a b : Bytes),
    SimplePath (par c.L) a b p →
    (expectedLog c p).filter (fun e => e.2 != []) = hopLines c p := by
  intro p
  induction p with
  | nil => intro a b _; rfl
  | cons a' t ih =>
    intro a b hp
    cases t with
    | nil => simp [expectedLog, hopLines]
    | cons x rest =>
      have hrest : SimplePath (par c.L) x b (x :: rest) :=
        ⟨rfl, by have := hp.2.1; rw [List.getLast?_cons_cons] at this; exact this,
          hp.2.2.1.2, (List.nodup_cons.1 hp.2.2.2).2⟩
      have hstep : (stepEntries c a' x).filter (fun e => e.2 != []) = stepEntries c a' x := by
        rw [List.filter_eq_self]
        intro e he
        simp only [bne_iff_ne, ne_eq]
        unfold stepEntries at he
        rcases hp.2.2.1.1 with h | h
        · simp only [h, if_true, List.mem_singleton] at he
          subst he
          obtain ⟨l, hl, hprev, hne⟩ := par_some h
          obtain ⟨_, hde, _, _⟩ := cmdsOK_unfold hd.cmds (find?_some hl).1 (by rw [hprev]; exact hne)
          simpa [deescCmd, hl] using hde
        · have hnot : par c.L a' ≠ some x := by
            obtain ⟨d, hdep⟩ := hd.tree.depth
            intro hc
            have h1 := hdep _ _ h
            have h2 := hdep _ _ hc
            omega
          simp only [hnot, if_false] at he
          obtain ⟨l, hl, hprev, hne⟩ := par_some h
          obtain ⟨hes, _, _, _⟩ := cmdsOK_unfold hd.cmds (find?_some hl).1 (by rw [hprev]; exact hne)
          rcases List.mem_cons.1 he with rfl | he
          · simpa [escCmd, hl] using hes
          · by_cases ha : c.asks x = true
            · simp only [ha, if_true, List.mem_singleton] at he
              subst he
              have hasks := hd.asks
              simp only [asksOK, List.all_eq_true, Bool.or_eq_true, Bool.not_eq_true',
                Bool.and_eq_true, bne_iff_ne] at hasks
              rcases hasks l (find?_some hl).1 with h0 | h0
              · rw [(find?_some hl).2, ha] at h0; cases h0
              · simpa using h0.2
            · simp [ha] at he
      simp only [expectedLog, hopLines, List.filter_cons, List.filter_append, hstep,
        ih x b hrest]
      simp

/-- `cache_coherent`: over ALL sequences of the five operations whose payload lines are not
transition commands (whatever their targets — unknown targets are refused and change nothing),
the invariant "the device sits at a prompt in a level, a cache that names a level names the
device's level, and the cache is accurate whenever the device's prompt is ambiguous" is preserved:
sessions driven entirely by the driver keep the cache accurate, so levels that share a prompt need
no extra hypothesis beyond a start at an unambiguous level (`inv_initial`). -/
theorem cache_coherent {c : Cfg} (hd : Dom c) (hdef : c.default ∈ names c.L) :
    ∀ (ops : List Op) (s : Sess), Inv c s →
      (∀ op ∈ ops, ∀ l ∈ opLines op, l = [] ∨ isPayload c.L l = true) →
      Inv c (runOps c s ops).2 := by
  intro ops
  induction ops with
  | nil => intro s hi _; exact hi
  | cons op ops ih =>
    intro s hi hpl
    simp only [runOps]
    apply ih _ _ (fun op' h' => hpl op' (List.mem_cons_of_mem _ h'))
    by_cases hlv : opLevel c op ∈ names c.L
    · obtain ⟨p, _, _, hrun⟩ := runOp_spec hd hi op (hpl op (by simp)) hlv
      rw [hrun]
      exact ⟨rfl, hlv, fun _ => rfl, fun _ => rfl⟩
    · have hsk : opSkips c s op = false := by
        cases op <;> simp only [opSkips, opLevel] at hlv ⊢
        all_goals
          apply beq_eq_false_iff_ne.2
          intro hc
          have := hi.coherent (hc ▸ hdef)
          exact hlv hdef
      rw [runOp_unknown c s op hsk hlv]
      exact hi

/-- the initial state of a session (cache `""`, device at a prompt in a level whose prompt is
unambiguous) satisfies the invariant -/
theorem inv_initial {c : Cfg} (hd : Dom c) {m : Bytes} (hm : m ∈ names c.L)
    (hu : unambB c m = true) (log : List (Bytes × Bytes)) (tick : Nat) :
    Inv c { dev := { mode := m, awaiting := none, log := log }, cache := [], tick := tick } :=
  ⟨rfl, hm, fun h => absurd h hd.tree.nonempty, fun h => by simp [hu] at h⟩

/-- `commands_at_default_configs_at_target`: after ANY history of such operations (whatever level
they left the device in), the next operation with a known level delivers every one of its payload
lines in that level — commands in the default desired level, configuration lines in
`configuration` or the explicitly requested level, interactive inputs in the default or requested
level — preceded only by the acquisition along the tree path (nothing at all when `SendCommand(s)`
finds the default level cached), and leaves device and cache at that level. -/
theorem commands_at_default_configs_at_target {c : Cfg} (hd : Dom c) (hdef : c.default ∈ names c.L)
    (history : List Op) (s0 : Sess) (hi : Inv c s0)
    (hhist : ∀ op ∈ history, ∀ l ∈ opLines op, l = [] ∨ isPayload c.L l = true)
    (op : Op) (hpl : ∀ l ∈ opLines op, l = [] ∨ isPayload c.L l = true)
    (hlv : opLevel c op ∈ names c.L) :
    let s := (runOps c s0 history).2
    ∃ p, SimplePath (par c.L) s.dev.mode (opLevel c op) p ∧
      (runOp c s op).1 = opErr op ∧
      (runOp c s op).2.dev.mode = opLevel c op ∧
      (runOp c s op).2.cache = opLevel c op ∧
      (runOp c s op).2.dev.log =
        s.dev.log ++ (if opSkips c s op then [] else expectedLog c p) ++
          (opLines op).map fun l => (opLevel c op, l) := by
  intro s
  have his : Inv c s := cache_coherent hd hdef history s0 hi hhist
  obtain ⟨p, hp, _, hrun⟩ := runOp_spec hd his op hpl hlv
  exact ⟨p, hp, by rw [hrun], by rw [hrun], by rw [hrun], by rw [hrun]⟩

/-- an operation that asks for a level outside the map is refused with a privilege error before
anything is sent (`SendCommand(s)` only skip this when the default level is cached) -/
theorem unknown_level_refused (c : Cfg) (s : Sess) (op : Op) (hsk : opSkips c s op = false)
    (hlv : opLevel c op ∉ names c.L) : runOp c s op = (some .privilege, s) :=
  runOp_unknown c s op hsk hlv

/-! ## the hypotheses are satisfiable and the statements are not vacuous: an IOS-like tree with
an authenticated edge, a device that asks for the password, a reversing map order -/

def exLevels : Levels :=
  [ { name := [101], previous := [], escalate := [], deescalate := [], escalateAuth := false },
    { name := [112], previous := [101], escalate := [1], deescalate := [2], escalateAuth := true },
    { name := [99], previous := [112], escalate := [3], deescalate := [4], escalateAuth := false },
    { name := [116], previous := [112], escalate := [5], deescalate := [6], escalateAuth := false } ]

def exCfg : Cfg where
  L := exLevels
  default := [112]
  secret := [7, 7]
  asks := fun x => x == [112]
  promptOf := fun m => m ++ [35]
  matchP := fun l p => p == l.name ++ [35]
  orc := fun _ => { nbr := fun _ l => l.reverse, lv := fun l => l.reverse }

example : Dom exCfg :=
  dom_of_distinguishing exCfg (by decide) (by decide) (by decide) (by decide)
    (fun _ => ⟨fun _ _ _ => List.mem_reverse, fun _ _ => List.mem_reverse⟩)

/-- the same tree, but the siblings `c` and `t` show the same prompt and both matchers accept it -/
def exAmbig : Cfg :=
  { exCfg with
    promptOf := fun m => if m == [99] || m == [116] then [120, 35] else m ++ [35]
    matchP := fun l p =>
      if l.name == [99] || l.name == [116] then p == [120, 35] else p == l.name ++ [35] }

example : Dom exAmbig :=
  dom_of_checks exAmbig (by decide) (by decide) (by decide) (by decide) (by decide)
    (fun _ => ⟨fun _ _ _ => List.mem_reverse, fun _ _ => List.mem_reverse⟩)

example : distinguishes exAmbig = false := by decide

/-- in sibling `c` with an accurate cache, asked for sibling `t` (same prompt): up and down again -/
example :
    acquirePriv exAmbig [116] { dev := { mode := [99], awaiting := none, log := [] }, cache := [99], tick := 0 } =
      (none, { dev := { mode := [116], awaiting := none,
                        log := [([99], []), ([99], [4]), ([112], []), ([112], [5]), ([116], [])] },
               cache := [116], tick := 3 }) := by decide +kernel

/-- a down-then-up acquisition `c → p → t` (up to the common parent, down into the sibling),
evaluated by the kernel -/
example :
    acquirePriv exCfg [116] { dev := { mode := [99], awaiting := none, log := [] }, cache := [], tick := 0 } =
      (none, { dev := { mode := [116], awaiting := none,
                        log := [([99], []), ([99], [4]), ([112], []), ([112], [5]), ([116], [])] },
               cache := [116], tick := 3 }) := by decide +kernel

/-- the authenticated edge: escalate command, then the secret, both while still in `e` -/
example :
    (acquirePriv exCfg [112] { dev := { mode := [101], awaiting := none, log := [] }, cache := [], tick := 0 }).2.dev.log =
      [([101], []), ([101], [1]), ([101], [7, 7]), ([112], [])] := by decide +kernel

example : isPayload exLevels [115, 104] = true := by decide

example : treePath exLevels [99] [116] = [[99], [112], [116]] := by decide +kernel

/-! ## navigation steps that fail after the device has moved (`PrivFault.lean`) -/

/-- without faults the fault-aware model is the model -/
theorem no_faults_is_the_model (c : Cfg) (tgt : Bytes) (s : Sess) :
    acquirePrivF c true (fun _ => false) tgt s = acquirePriv c tgt s := by
  unfold acquirePrivF acquirePriv
  cases find? c.L tgt with
  | none => rfl
  | some _ => exact acquireLoopF_nofault c tgt _ _ s

/-- `reset_before_send_keeps_cache_sound`: the cache is reset to `UNKNOWN` BEFORE the escalate /
de-escalate command is sent, so whichever steps fail after the device already changed mode (prompt
withheld → timeout, for ANY fault pattern), `AcquirePriv` ends with "the cache names the device's
level, or names no level"; and when it reports success, device and cache are at the target. -/
theorem reset_before_send_keeps_cache_sound {c : Cfg} (hd : Dom c) (hu : allUnamb c = true)
    (faults : Nat → Bool) (tgt : Bytes) (s : Sess) (hi : Inv c s) :
    Inv c (acquirePrivF c true faults tgt s).2 ∧
    ((acquirePrivF c true faults tgt s).1 = none →
      (acquirePrivF c true faults tgt s).2.dev.mode = tgt ∧
      (acquirePrivF c true faults tgt s).2.cache = tgt) :=
  acquirePrivF_inv hd hu faults tgt s hi

/-- `cache_coherent_under_faults`: over all sequences of the five operations (payloads not
transition commands), for ANY pattern of steps that fail after the device moved, the invariant
holds at every operation boundary. -/
theorem cache_coherent_under_faults {c : Cfg} (hd : Dom c) (hu : allUnamb c = true)
    (hdef : c.default ∈ names c.L) (faults : Nat → Bool) :
    ∀ (ops : List Op) (s : Sess), Inv c s →
      (∀ op ∈ ops, ∀ l ∈ opLines op, l = [] ∨ isPayload c.L l = true) →
      Inv c (runOpsF c true faults s ops).2 := by
  intro ops
  induction ops with
  | nil => intro s hi _; exact hi
  | cons op ops ih =>
    intro s hi hpl
    simp only [runOpsF]
    apply ih _ _ (fun op' h' => hpl op' (List.mem_cons_of_mem _ h'))
    obtain ⟨s1, hi1, h | h⟩ := runOpF_spec hd hu faults hi op (hpl op (by simp)) hdef
    · rw [h.2]; exact hi1
    · exact h.2.2.1

/-- `payload_level_under_faults`: after ANY history of operations and failed navigation steps, the
next operation either fails in its acquisition and sends no payload line at all, or delivers every
payload line in the level it demands (commands at the default level, configuration lines at the
configuration / requested level) — never at the level a failed earlier operation left behind. -/
theorem payload_level_under_faults {c : Cfg} (hd : Dom c) (hu : allUnamb c = true)
    (hdef : c.default ∈ names c.L) (faults : Nat → Bool) (history : List Op) (s0 : Sess)
    (hi : Inv c s0)
    (hhist : ∀ op ∈ history, ∀ l ∈ opLines op, l = [] ∨ isPayload c.L l = true)
    (op : Op) (hpl : ∀ l ∈ opLines op, l = [] ∨ isPayload c.L l = true) :
    let s := (runOpsF c true faults s0 history).2
    ∃ s1, Inv c s1 ∧
      (((runOpF c true faults s op).1 ≠ none ∧ (runOpF c true faults s op).2 = s1) ∨
       PayloadAt c op s1 (runOpF c true faults s op)) :=
  runOpF_spec hd hu faults (cache_coherent_under_faults hd hu hdef faults history s0 hi hhist) op hpl hdef

/-! ## negation witness: resetting only AFTER a successful step breaks the invariant -/

/-- device and cache in `p` (coherent) -/
def exAtP : Sess := { dev := { mode := [112], awaiting := none, log := [] }, cache := [112], tick := 0 }

example : allUnamb exCfg = true := by decide

/-- `reset_after_success_breaks_invariant`: the escalation `p → c` fails after the device moved
(iteration 0 withholds the prompt). With the reset after success the cache still says `p` while
the device is in `c`: the invariant is broken … -/
theorem reset_after_success_breaks_invariant :
    ¬ Inv exCfg (acquirePrivF exCfg false (fun t => t == 0) [99] exAtP).2 := by
  intro h
  have hc : (acquirePrivF exCfg false (fun t => t == 0) [99] exAtP).2.cache ∈ names exCfg.L := by
    decide +kernel
  have := h.coherent hc
  revert this
  decide +kernel

/-- … whereas the source's order leaves `UNKNOWN` in the cache -/
example : (acquirePrivF exCfg true (fun t => t == 0) [99] exAtP).2.cache = unknownPriv ∧
    (acquirePrivF exCfg true (fun t => t == 0) [99] exAtP).2.dev.mode = [99] := by decide +kernel

/-- consequence: after the failed `SendConfigs` the next `SendCommand` trusts the stale level,
skips `AcquirePriv`, and its command `[115]` is executed in `c` instead of the default level `p` -/
example :
    (runOpsF exCfg false (fun t => t == 0) exAtP [.sendConfigs [[120]] [99], .sendCommand [115]]).2.dev.log =
      [([112], []), ([112], [3]), ([99], [115])] := by decide +kernel

/-- the source's order: the command is preceded by a fresh acquisition and runs in `p` -/
example :
    (runOpsF exCfg true (fun t => t == 0) exAtP [.sendConfigs [[120]] [99], .sendCommand [115]]).2.dev.log =
      [([112], []), ([112], [3]), ([99], []), ([99], [4]), ([112], []), ([112], [115])] := by decide +kernel

/-! ## the explicit target: `opoptions.WithPrivilegeLevel` among other operation options -/

/-- OBLIGATION on the regenerated fact (`Generated/C04Operation.lean`, from the body of
`network.NewOperation`): one pass of the option loop carries on after `nil`, carries on after
`ErrIgnoredOption`, and returns the error otherwise — there is no other exit (`break`, an early
`return o, nil`, or a statement the extractor does not model break this). -/
theorem generated_option_loop_ok :
    Gen.C04Operation.loopFound = true ∧
    sourceTable = { onNil := .next, onIgnored := .next, onReal := .retErr } := by decide

theorem newOperationWith_ok_table (opts : List Opt) :
    newOperation opts = newOperationWith { onNil := .next, onIgnored := .next, onReal := .retErr } opts [] := by
  unfold newOperation; rw [generated_option_loop_ok.2]

theorem newOperation_ignored_tail : ∀ (post : List Opt) (lvl : Bytes), (∀ o ∈ post, o = Opt.ignored) →
    newOperationWith { onNil := .next, onIgnored := .next, onReal := .retErr } post lvl = .ok lvl := by
  intro post
  induction post with
  | nil => intro lvl _; rfl
  | cons o os ih =>
    intro lvl h
    have ho := h o (by simp)
    subst ho
    simp only [newOperationWith]
    exact ih lvl (fun o' h' => h o' (List.mem_cons_of_mem _ h'))

theorem newOperation_prefix_irrelevant : ∀ (pre rest : List Opt) (lvl x : Bytes), (∀ o ∈ pre, o ≠ Opt.bad) →
    (∀ l, newOperationWith { onNil := .next, onIgnored := .next, onReal := .retErr } rest l = .ok x) →
    newOperationWith { onNil := .next, onIgnored := .next, onReal := .retErr } (pre ++ rest) lvl = .ok x := by
  intro pre
  induction pre with
  | nil => intro rest lvl x _ h; exact h lvl
  | cons o os ih =>
    intro rest lvl x hb h
    have hrest := fun l => ih rest l x (fun o' h' => hb o' (List.mem_cons_of_mem _ h')) h
    cases o with
    | level y => simp only [List.cons_append, newOperationWith]; exact hrest y
    | ignored => simp only [List.cons_append, newOperationWith]; exact hrest lvl
    | bad => exact absurd rfl (hb .bad (by simp))

/-- `explicit_target_respected`: wherever `WithPrivilegeLevel x` stands in the option list — after
any options that do not fail (other level options included: the last one wins) and before any
number of options of other layers — the operation asks for `x`. Position-independent. -/
theorem explicit_target_respected (pre post : List Opt) (x : Bytes)
    (hpre : ∀ o ∈ pre, o ≠ Opt.bad) (hpost : ∀ o ∈ post, o = Opt.ignored) :
    newOperation (pre ++ Opt.level x :: post) = .ok x := by
  rw [newOperationWith_ok_table]
  apply newOperation_prefix_irrelevant pre _ [] x hpre
  intro l
  simp only [newOperationWith]
  exact newOperation_ignored_tail post x hpost

/-- without a level option the field stays empty: the operation falls back to the level of its
kind (`configuration` for `SendConfig(s)`, the default desired level for `SendInteractive`) -/
theorem no_level_option_means_default (opts : List Opt) (h : ∀ o ∈ opts, o = Opt.ignored) :
    newOperation opts = .ok [] := by
  rw [newOperationWith_ok_table]
  exact newOperation_ignored_tail opts [] h

/-- the explicit level is the level the operation runs at (`opLevel`), hence — by
`commands_at_default_configs_at_target` — the level every payload line is delivered in -/
theorem explicit_target_is_op_level (c : Cfg) (pre post : List Opt) (x : Bytes) (hx : x ≠ [])
    (hpre : ∀ o ∈ pre, o ≠ Opt.bad) (hpost : ∀ o ∈ post, o = Opt.ignored)
    (lines : List Bytes) (cfg : Bytes) :
    ∃ p, newOperation (pre ++ Opt.level x :: post) = .ok p ∧
      opLevel c (.sendConfigs lines p) = x ∧ opLevel c (.sendConfig cfg p) = x ∧
      opLevel c (.sendInteractive lines p) = x :=
  ⟨x, explicit_target_respected pre post x hpre hpost, by simp [opLevel, hx], by simp [opLevel, hx],
    by simp [opLevel, hx]⟩

/-- negation witness: a loop that `break`s at the first ignored option drops a level option that
follows it -/
example : newOperationWith { onNil := .next, onIgnored := .brk, onReal := .retErr }
    [.ignored, .level [120]] [] = .ok [] := rfl

/-- `secret_sent_verbatim`: on an authenticated edge whose device asks for the password, the
escalate step makes the device receive exactly two lines while still in the parent: the escalate
command of the child, then the secondary secret — the very byte string that was configured,
whatever it is (blanks, tabs, any bytes; the return that ends the line is the channel's). -/
theorem secret_sent_verbatim {c : Cfg} (hd : Dom c) (s : Sess) (h : s.dev.awaiting = none) {x : Bytes}
    (hp : par c.L x = some s.dev.mode) (hasks : c.asks x = true) :
    escalate c s x = (none, { s with dev :=
      { mode := x, awaiting := none,
        log := s.dev.log ++ [(s.dev.mode, escCmd c.L x), (s.dev.mode, c.secret)] } }) := by
  rw [escalate_ok hd s h hp]
  simp [hasks]

/-! ## between the operations: `GetPrompt`, refused operations, reconfiguration (`PrivScript.lean`) -/

/-- `GetPrompt` on the network driver: one bare return reaches the device in its current mode, the
prompt of that mode comes back, nothing is navigated and the invariant is kept -/
theorem getPrompt_spec {c : Cfg} {s : Sess} (hi : Inv c s) :
    getPrompt c s = (c.promptOf s.dev.mode,
      { s with dev := { s.dev with log := s.dev.log ++ [(s.dev.mode, [])] } }) ∧
    Inv c (getPrompt c s).2 :=
  ⟨getPrompt_eq c s hi.atPrompt, getPrompt_inv hi⟩

/-- `undeterminable_prompt_refused`: the device shows a prompt that no configured level accepts
(a mode outside the map, or every matching pattern vetoed by its not-contains): `AcquirePriv` reads
the prompt with one bare return and fails with a privilege error; no transition command is sent,
the cache is not touched -/
theorem undeterminable_prompt_refused {c : Cfg} (ho : ∀ t, (c.orc t).Valid) (s : Sess) {tgt : Bytes}
    (haw : s.dev.awaiting = none) (ht : tgt ∈ names c.L)
    (h : undeterminable c s.dev.mode = true) :
    acquirePriv c tgt s = (some .privilege,
      { s with dev := { s.dev with log := s.dev.log ++ [(s.dev.mode, [])] }, tick := s.tick + 1 }) :=
  acquirePriv_undeterminable ho s haw ht h

/-- an option that returns a real error makes `NewOperation` fail, wherever it stands after options
that do not fail: the operation is refused before anything is sent -/
theorem bad_option_refused (pre post : List Opt) (hpre : ∀ o ∈ pre, o ≠ Opt.bad) :
    newOperation (pre ++ Opt.bad :: post) = .error () := by
  rw [newOperationWith_ok_table]
  generalize ([] : Bytes) = lvl
  induction pre generalizing lvl with
  | nil => simp [newOperationWith]
  | cons o os ih =>
    have hos := fun o' h' => hpre o' (List.mem_cons_of_mem _ h')
    cases o with
    | level y => simp only [List.cons_append, newOperationWith]; exact ih hos y
    | ignored => simp only [List.cons_append, newOperationWith]; exact ih hos lvl
    | bad => exact absurd rfl (hpre .bad (by simp))

/-- `script_coherent`: sessions that mix the five operations with `GetPrompt`, refused operations
and RECONFIGURATIONS between operations (levels added / removed / re-patterned + `UpdatePrivileges`,
`DefaultDesiredPriv` reassigned, secret changed) keep the invariant with respect to the scenario in
force, provided each new scenario is inside the hypotheses and still describes the state
(`ScriptOK`). Hence (`commands_at_default_configs_at_target` for the scenario in force) the next
operation delivers its payload at ITS level under the NEW tree / default. -/
theorem script_coherent (items : List Item) (c : Cfg) (s : Sess) (hd : Dom c)
    (hdef : c.default ∈ names c.L) (hi : Inv c s) (hok : ScriptOK c s items) :
    Dom (runScript c s items).2.1 ∧
    (runScript c s items).2.1.default ∈ names (runScript c s items).2.1.L ∧
    Inv (runScript c s items).2.1 (runScript c s items).2.2 :=
  runScript_inv items c s hd hdef hi hok

/-! ## tie to the source: translated body = model (regenerated on every run) -/

set_option linter.unusedSimpArgs false in
/-- the body of `(*Driver).processAcquirePriv` as the translator renders it from the current source
(`Generated/BodiesPriv.lean`): given what `determineCurrentPriv` returned (it fails exactly when no
level matches, and every name it returns is a key of `PrivilegeLevels`) and `buildPrivChangeMap` as
the model's `pathDFS`, the code resolves the current level (cached → target → first), picks the
action from the second element of the path, updates `CurrentPriv` and panics (nil map entry,
`mapTo[1]` out of range) exactly as `processAcquire` says, for every level table, oracle, cache,
target and prompt -/
theorem generated_processAcquirePriv_eq (matchP : Level → Bytes → Bool) (o : Orders) (L : Levels)
    (cache tgt prompt : Bytes) (detErr : Go.Error)
    (hdet : (determineCurrent matchP o L prompt = [] → detErr ≠ none) ∧
            (determineCurrent matchP o L prompt ≠ [] → detErr = none))
    (hlv : ∀ p ∈ determineCurrent matchP o L prompt, (find? L p).isSome) :
    Gen.Bodies.Priv.processAcquirePriv L (determineCurrent matchP o L prompt) detErr
        (fun c t => (pathDFS L o c t).getD []) cache tgt prompt
      = match processAcquire matchP o L cache tgt prompt with
        | .ok st => .ok (actionStr st.action, st.next, none, st.cache)
        | .error .panic => .error .panic
        | .error _ => .ok ([], [], detErr, cache) := by
  unfold Gen.Bodies.Priv.processAcquirePriv processAcquire
  generalize hposs : determineCurrent matchP o L prompt = possible at hdet hlv
  cases possible with
  | nil =>
    have := hdet.1 rfl
    have hb : (detErr != none) = true := by simpa using this
    simp [hb]
  | cons p0 ps =>
    have hnone := hdet.2 (by simp)
    subst hnone
    have hidx1 : ∀ (x m1 : Bytes) (rest : List Bytes), Go.idxOK (Go.len (x :: m1 :: rest)) 1 = true := by
      intro x m1 rest
      have := Go.idxOK_nat (x :: m1 :: rest) 1
      simpa using this
    have hat1 : ∀ (x m1 : Bytes) (rest : List Bytes), Go.at (x :: m1 :: rest) 1 = m1 := by
      intro x m1 rest; simp [Go.at]
    have hidx0 : Go.idxOK (Go.len (p0 :: ps)) 0 = true := Go.idxOK_zero_cons _ _
    have hat0 : Go.at (p0 :: ps) 0 = p0 := Go.at_zero_cons _ _
    have hnil1 : Go.idxOK (Go.len ([] : List Bytes)) 1 = false := by simp [Go.idxOK, Go.len]
    have hone1 : ∀ x : Bytes, Go.idxOK (Go.len [x]) 1 = false := by intro x; simp [Go.idxOK, Go.len]
    -- the part after `current` is fixed, for any value `cur` of it
    have tail : ∀ cur : Bytes,
        (if (cur == tgt) = true then
            (Except.ok (Gen.Network.noAction, cur, (none : Go.Error), cur) : Except Err _)
          else
            if (!(Go.idxOK (Go.len ((pathDFS L o cur tgt).getD [])) 1 &&
                  (find? L (Go.at ((pathDFS L o cur tgt).getD []) 1)).isSome)) = true then .error Err.panic
            else if ((((find? L (Go.at ((pathDFS L o cur tgt).getD []) 1)).map (·.previous)).getD []) != cur) = true then
              .ok (Gen.Network.deescalateAction, cur, none, Gen.Network.unknownPriv)
            else if (!(Go.idxOK (Go.len ((pathDFS L o cur tgt).getD [])) 1 &&
                  (find? L (Go.at ((pathDFS L o cur tgt).getD []) 1)).isSome)) = true then .error Err.panic
            else .ok (Gen.Network.escalateAction,
                (((find? L (Go.at ((pathDFS L o cur tgt).getD []) 1)).map (·.name)).getD []), none,
                Gen.Network.unknownPriv))
        = (match (if cur = tgt then (Except.ok ⟨.noAction, cur, cur⟩ : Except Err Step)
            else match pathDFS L o cur tgt with
              | some (_ :: m1 :: _) =>
                match find? L m1 with
                | some l1 =>
                  if l1.previous ≠ cur then .ok ⟨.deescalate, cur, unknownPriv⟩
                  else .ok ⟨.escalate, l1.name, unknownPriv⟩
                | none => .error .panic
              | _ => .error .panic) with
          | .ok st => .ok (actionStr st.action, st.next, none, st.cache)
          | .error .panic => .error .panic
          | .error _ => .ok ([], [], none, cache)) := by
      intro cur
      by_cases hc : cur = tgt
      · simp [hc, actionStr]
      · have hcb : (cur == tgt) = false := by simpa using hc
        simp only [hcb, Bool.false_eq_true, if_false, hc]
        cases hp : pathDFS L o cur tgt with
        | none => simp [hnil1]
        | some path =>
          match path with
          | [] => simp [hnil1]
          | [x] => simp [hone1]
          | x :: m1 :: rest =>
            simp only [Option.getD_some, hidx1, hat1]
            cases hf : find? L m1 with
            | none => simp
            | some l1 =>
              by_cases hprev : l1.previous = cur
              · simp [hprev, actionStr, unknownPriv]
              · simp [hprev, actionStr, unknownPriv]
    simp only [bne_self_eq_false, Bool.false_eq_true, if_false]
    by_cases h1 : cache ∈ p0 :: ps
    · have hb : List.contains (p0 :: ps) cache = true := by simpa using h1
      simp only [hb, h1, if_true]
      exact tail cache
    · have hb : List.contains (p0 :: ps) cache = false := by simpa using h1
      by_cases h2 : tgt ∈ p0 :: ps
      · have hb2 : List.contains (p0 :: ps) tgt = true := by simpa using h2
        have hsome := hlv tgt h2
        obtain ⟨l, hl⟩ := Option.isSome_iff_exists.mp hsome
        have hn := find?_name L tgt l hl
        simp only [hb, hb2, h1, h2, if_true, if_false, Bool.false_eq_true, hl, Option.isSome_some, Bool.not_true,
          Option.map_some, Option.getD_some, hn]
        refine (tail tgt).trans ?_
        simp
      · have hb2 : List.contains (p0 :: ps) tgt = false := by simpa using h2
        simp only [hb, hb2, h1, h2, if_false, Bool.false_eq_true, hidx0, hat0, Bool.not_true]
        exact tail p0

/-- `util.StringSliceContains` (the candidate tests of `processAcquirePriv`) as translated from the
current source is list membership — what the translator renders its call sites as -/
theorem generated_stringSliceContains_eq (ss : List Bytes) (s : Bytes) :
    Gen.Bodies.Priv.stringSliceContains ss s = ss.contains s := by
  unfold Gen.Bodies.Priv.stringSliceContains Go.forRange
  rw [Go.forRangeFrom_find (fun x => x == s) (fun _ => true)]
  induction ss with
  | nil => simp
  | cons a l ih =>
    simp only [List.find?, List.contains_cons]
    by_cases h : a = s
    · simp [h]
    · have h1 : (a == s) = false := by simpa using h
      have h2 : (s == a) = false := by simpa using (Ne.symm h)
      simp [h1, h2, ih]

/-- `util.StringContainsAny` (the not-contains test of `determineCurrentPriv`) as translated from the
current source: some element of the list is a substring of the text -/
theorem generated_stringContainsAny_eq (s : Bytes) (l : List Bytes) :
    Gen.Bodies.Priv.stringContainsAny s l = l.any (fun ss => isInfix ss s) := by
  unfold Gen.Bodies.Priv.stringContainsAny Go.forRange
  rw [Go.forRangeFrom_find (fun ss => isInfix ss s) (fun _ => true)]
  induction l with
  | nil => simp
  | cons a l ih =>
    simp only [List.find?, List.any]
    cases h : isInfix a s <;> simp [ih]

/-- the `range` loop of `determineCurrentPriv` over the levels in whatever order the map iteration
yields them, as translated from the current source -/
theorem determine_loop (notContains : Level → List Bytes) (patMatch : Level → Bytes → Bool) (prompt : Bytes)
    (lvs : List Level) (acc : List Bytes) (i : Int) :
    Go.forRangeFrom (ρ := List Bytes × Go.Error) (fun _ priv possiblePrivs => (
      if (Gen.Bodies.Priv.stringContainsAny prompt (notContains priv)) then (
        .next possiblePrivs)
      else (
        let possiblePrivs := if (patMatch priv prompt) then (
            let possiblePrivs := (possiblePrivs ++ [priv.name])
            possiblePrivs)
          else (
            possiblePrivs)
        .next possiblePrivs))) i lvs acc
    = .fin (acc ++ (lvs.filter fun l => matchOf notContains patMatch l prompt).map (·.name)) := by
  generalize hbody : (fun (_ : Int) (priv : Level) (possiblePrivs : List Bytes) => _) = body
  have hstep : ∀ (i : Int) (l : Level) (acc : List Bytes), body i l acc
      = .next (if matchOf notContains patMatch l prompt then acc ++ [l.name] else acc) := by
    intro i l acc
    subst hbody
    simp only [generated_stringContainsAny_eq, matchOf]
    by_cases h1 : ((notContains l).any (fun s => isInfix s prompt)) = true <;>
      by_cases h2 : patMatch l prompt = true <;> simp [h1, h2]
  clear hbody
  induction lvs generalizing acc i with
  | nil => simp [Go.forRangeFrom]
  | cons l lvs ih =>
    simp only [Go.forRangeFrom, hstep, List.filter]
    cases h : matchOf notContains patMatch l prompt <;> simp [ih]

/-- the body of `(*Driver).determineCurrentPriv` as the translator renders it from the current source,
over ANY iteration order `o.lv L` of the level map: it returns the names `determineCurrent` returns
(matcher = no not-contains string occurs in the prompt, and the pattern matches) and fails with
`ErrPrivilegeError` exactly when there is none -/
theorem generated_determineCurrentPriv_eq (notContains : Level → List Bytes) (patMatch : Level → Bytes → Bool)
    (o : Orders) (L : Levels) (prompt : Bytes) :
    Gen.Bodies.Priv.determineCurrentPriv (o.lv L) notContains patMatch prompt
      = if determineCurrent (matchOf notContains patMatch) o L prompt = [] then ([], some "ErrPrivilegeError")
        else (determineCurrent (matchOf notContains patMatch) o L prompt, none) := by
  unfold Gen.Bodies.Priv.determineCurrentPriv Go.forRange determineCurrent
  dsimp only
  rw [determine_loop]
  simp only [List.nil_append]
  generalize ((o.lv L).filter fun l => matchOf notContains patMatch l prompt).map (·.name) = r
  cases r <;> simp [Go.len]
  omega

/-- … which is the contract `generated_processAcquirePriv_eq` assumes of it -/
theorem generated_determineCurrentPriv_contract (notContains : Level → List Bytes)
    (patMatch : Level → Bytes → Bool) (o : Orders) (L : Levels) (prompt : Bytes) :
    let r := Gen.Bodies.Priv.determineCurrentPriv (o.lv L) notContains patMatch prompt
    let possible := determineCurrent (matchOf notContains patMatch) o L prompt
    r.1 = possible ∧ (possible = [] → r.2 ≠ none) ∧ (possible ≠ [] → r.2 = none) := by
  simp only [generated_determineCurrentPriv_eq]
  by_cases h : determineCurrent (matchOf notContains patMatch) o L prompt = [] <;> simp [h]

end Scrapli.Priv.C04
