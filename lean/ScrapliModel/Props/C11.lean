import ScrapliModel.Logs
import ScrapliModel.Generated.LogSites
import ScrapliModel.Generated.Consts
/-!
# C11 — Credentials never reach the logs

Two layers. (1) Call-site table regenerated from the source on every run (`Generated/LogSites.lean`,
syntactic taint rule in `go/cmd/extract/gen_c11.go`): no logger call takes a credential; every
write of a credential passes `true` as its redaction flag; the escalation event that carries the
secondary secret hides its input; the ssh argv builder does not mention a credential; no error
construction site formats a secret-bearing value (`gen_c11_errs.go`: error values are logged).
(2) Trace theorem: for every session trace in which a marker byte of the secret occurs only in
writes flagged redacted, no user-logger message and no channel-log byte contains it.
-/
namespace Scrapli.Logs.C11
open Scrapli Scrapli.Logs Scrapli.Gen.Logs

/-- no logger call anywhere in the library has a credential-classified argument -/
theorem log_sites_clean : ∀ s ∈ logSites, s.tainted = [] := by decide +kernel

/-- the table is not empty (the statement above is not vacuous) -/
theorem log_sites_nonempty : 40 ≤ logSites.length := by decide +kernel

/-- every channel write whose data is a credential is redacted -/
theorem credential_writes_redacted : ∀ w ∈ writeSites, w.dataTaint ≠ "" →
    w.redactKind = "true" ∨ w.redactKind = "param" := by
  decide +kernel

/-- the only place where a credential meets a forwarded flag is `WriteAndReturn` handing its own
arguments to `Write`; every caller that passes a credential into it passes the literal `true` -/
theorem forwarded_flag_sites : ∀ w ∈ writeSites, w.dataTaint ≠ "" → w.redactKind = "param" →
    w.file = "channel/write.go" := by
  decide +kernel

/-- both login credentials really are written somewhere (non-vacuity of the previous theorem) -/
theorem credential_writes_exist :
    (writeSites.any fun w => w.dataTaint == "Password") = true ∧
    (writeSites.any fun w => w.dataTaint == "PrivateKeyPassPhrase") = true := by decide +kernel

/-- the only forwarding sites pass the caller's flag through unchanged -/
theorem write_flag_forwarded : ∀ w ∈ writeSites,
    w.redactKind = "true" ∨ w.redactKind = "false" ∨ w.redactKind = "param" ∨
    w.redact = "e.HideInput" ∨ w.redact = "r" := by
  decide +kernel

/-- an interactive event that carries a credential hides its input -/
theorem secret_events_hidden : ∀ e ∈ eventLits, e.inputTaint ≠ "" → e.hide = "true" := by
  decide +kernel

theorem secret_event_exists : (eventLits.any fun e => e.inputTaint == "AuthSecondary") = true := by
  decide +kernel

/-! ## Error values (the logger is handed `err`)

`generic/network Driver.Open` and `Close` log the error an on-open / on-close function returned,
the channel and the transports log the errors of the layer below: a secret that is formatted into
an ERROR VALUE reaches the user's logger through a call whose arguments look clean. The translator
therefore lists every error construction site (`fmt.Errorf` / `errors.New` incl. every `%w`
wrapping, the results of `Error()` methods, literals of error types) of every non-test package with
its secret-bearing arguments: credentials and whole values of the structs that hold them, an
interactive event's `ChannelInput` (whether hidden or not), a platform on-X operation's `input`
(whether its `redacted` flag is set, known or not), locals / parameters / results derived from
them (rule: `go/cmd/extract/gen_c11_errs.go`). -/

/-- no error construction site anywhere in the library formats a secret-bearing value -/
theorem error_sites_clean : ∀ s ∈ errSites, s.tainted = [] := by decide +kernel

/-- the table is not vacuous: it has the sites of the code whose errors are logged — the platform
on-X operations, the channel (authentication, interactive), both drivers and the transports -/
theorem error_sites_cover :
    40 ≤ errSites.length ∧
    2 ≤ (errSites.filter fun s => s.file == "platform/onx.go").length ∧
    (errSites.any fun s => s.file == "channel/auth.go") = true ∧
    (errSites.any fun s => s.file == "channel/sendinteractive.go") = true ∧
    (errSites.any fun s => s.file == "driver/network/acquirepriv.go") = true ∧
    (errSites.any fun s => s.file == "driver/generic/sendwithcallbacks.go") = true ∧
    (errSites.any fun s => s.file == "transport/standard.go") = true ∧
    (errSites.any fun s => s.kind == "Error()") = true ∧
    (errSites.any fun s => s.kind == "lit:OperationError") = true := by decide +kernel

/-- why the obligation above matters: error values do reach the user's logger — both drivers log
the error of their on-open and of their on-close function -/
theorem error_values_are_logged :
    2 ≤ (errLogSites.filter fun s => s.file == "driver/generic/driver.go").length ∧
    2 ≤ (errLogSites.filter fun s => s.file == "driver/network/driver.go").length := by
  decide +kernel

/-- under the extended rule too, no logger call takes a secret-bearing argument (an event's input,
an on-X operation's input, a struct that holds a credential, anything derived from them) -/
theorem log_sites_no_hidden_input : ∀ s ∈ logSitesExt, s.tainted = [] := by decide +kernel

/-- both passes of the translator see the same logger calls -/
theorem log_sites_ext_same_calls :
    logSitesExt.map (fun s => (s.file, s.line, s.kind)) =
    logSites.map (fun s => (s.file, s.line, s.method)) := by decide +kernel

/-- the system transport's argv builder mentions no credential -/
theorem argv_builder_clean : argvBuilderMentions = [] := by decide

/-- the redaction constant is the documented word and cannot itself contain a secret's marker -/
theorem redacted_const : Gen.Channel.redacted = [114, 101, 100, 97, 99, 116, 101, 100] := by decide

/-- `Channel.Write` with the redaction flag logs the constant, whatever the data -/
theorem write_redaction (cfg : LogCfg) (b b' : Bytes) :
    logOfWrite cfg b true = logOfWrite cfg b' true := by simp [logOfWrite]

/-- THE TRACE THEOREM. Let `m` be a byte of the secret that occurs neither in the constant log
texts nor in anything the device sent (the property assumes the device does not echo secrets), and
let quoting not invent it. If every write that contains `m` is flagged redacted, then no message
handed to the user's loggers contains `m`, and neither does the channel log — for every trace:
logins, retries, failures, timeouts, escalations of any length. -/
theorem no_marker_in_logs (cfg : LogCfg) (m : UInt8) (trace : List Ev)
    (hq : ∀ x, m ∉ x → m ∉ cfg.quote x)
    (hr : m ∉ cfg.redactedConst) (hw : m ∉ cfg.writePrefix) (hrd : m ∉ cfg.readPrefix)
    (hclean : ∀ ev ∈ trace, CleanFor m ev) :
    (∀ msg ∈ allLogs cfg trace, m ∉ msg) ∧ m ∉ channelLog trace := by
  constructor
  · intro msg hmsg
    simp only [allLogs, List.mem_flatMap] at hmsg
    obtain ⟨ev, hev, hin⟩ := hmsg
    have hc := hclean ev hev
    cases ev with
    | write b r =>
      simp only [logsOf, List.mem_singleton] at hin
      subst hin
      simp only [logOfWrite, List.mem_append, not_or]
      refine ⟨hw, hq _ ?_⟩
      cases r with
      | true => simpa using hr
      | false =>
        simp only [CleanFor] at hc
        simp only [Bool.false_eq_true, if_false]
        intro hmem
        exact absurd (hc hmem) (by simp)
    | deliver b =>
      simp only [logsOf, List.mem_singleton] at hin
      subst hin
      simp only [List.mem_append, not_or]
      exact ⟨hrd, hq _ hc⟩
    | note c =>
      simp only [logsOf, List.mem_singleton] at hin
      subst hin
      exact hc
  · simp only [channelLog, List.mem_flatMap, not_exists, not_and]
    intro ev hev
    have hc := hclean ev hev
    cases ev with
    | write b r => simp [channelLogOf]
    | deliver b => simpa [channelLogOf, CleanFor] using hc
    | note c => simp [channelLogOf]

/-- hence the secret itself (any byte string containing the marker) is not a substring of any
logged message nor of the channel log -/
theorem no_secret_in_logs (cfg : LogCfg) (m : UInt8) (secret : Bytes) (trace : List Ev)
    (hm : m ∈ secret)
    (hq : ∀ x, m ∉ x → m ∉ cfg.quote x)
    (hr : m ∉ cfg.redactedConst) (hw : m ∉ cfg.writePrefix) (hrd : m ∉ cfg.readPrefix)
    (hclean : ∀ ev ∈ trace, CleanFor m ev) :
    (∀ msg ∈ allLogs cfg trace, ¬ ∃ a b, msg = a ++ secret ++ b) ∧
    ¬ ∃ a b, channelLog trace = a ++ secret ++ b := by
  obtain ⟨h1, h2⟩ := no_marker_in_logs cfg m trace hq hr hw hrd hclean
  constructor
  · intro msg hmsg ⟨a, b, hab⟩
    apply h1 msg hmsg
    rw [hab]; simp [hm]
  · intro ⟨a, b, hab⟩
    apply h2
    rw [hab]; simp [hm]

/-! ## Level filter, formatter, several loggers (logging/logging.go) -/

/-- an instance whose level is not one of the three known words hands nothing to any logger -/
theorem unknown_level_silent (fmt : Lvl → Bytes → Bytes) (n : Nat) (msgs : List (Lvl × Bytes)) :
    emitted fmt n .other msgs = [] := by
  have h : ∀ p : Lvl × Bytes, shouldLog n .other p.1 = false := by
    intro p; simp only [shouldLog]; split <;> rfl
  simp [emitted, h]

/-- without a logger nothing is emitted, whatever the level -/
theorem no_logger_silent (fmt : Lvl → Bytes → Bytes) (inst : Lvl) (msgs : List (Lvl × Bytes)) :
    emitted fmt 0 inst msgs = [] := by
  simp [emitted, shouldLog]

/-- every level shows a subset of what `debug` shows: a session that is clean at debug level is
clean at every level -/
theorem emitted_sub_debug (fmt : Lvl → Bytes → Bytes) (n : Nat) (inst : Lvl)
    (msgs : List (Lvl × Bytes)) :
    ∀ e ∈ emitted fmt n inst msgs, e ∈ emitted fmt n .debug msgs := by
  intro e he
  simp only [emitted, List.mem_flatMap, List.mem_filter] at he ⊢
  obtain ⟨p, ⟨hp, hs⟩, hin⟩ := he
  refine ⟨p, ⟨hp, ?_⟩, hin⟩
  simp only [shouldLog] at hs ⊢
  split at hs
  · exact absurd hs (by simp)
  · rename_i hn; simp [hn]

/-- with ANY formatter that does not invent the marker, any number of loggers and any level: if no
message contains the marker, nothing the loggers receive does -/
theorem emitted_clean (fmt : Lvl → Bytes → Bytes) (n : Nat) (inst : Lvl) (m : UInt8)
    (msgs : List (Lvl × Bytes))
    (hf : ∀ l x, m ∉ x → m ∉ fmt l x) (hc : ∀ p ∈ msgs, m ∉ p.2) :
    ∀ e ∈ emitted fmt n inst msgs, m ∉ e := by
  intro e he
  simp only [emitted, List.mem_flatMap, List.mem_filter, List.mem_replicate] at he
  obtain ⟨p, ⟨hp, _⟩, _, rfl⟩ := he
  exact hf _ _ (hc p hp)

/-- the trace theorem through the user's logging instance: whatever level each message has,
whatever the instance's level, formatter and loggers — no marker byte reaches a logger -/
theorem no_marker_after_filter_and_format (cfg : LogCfg) (m : UInt8) (trace : List Ev)
    (fmt : Lvl → Bytes → Bytes) (n : Nat) (inst : Lvl) (lv : Bytes → Lvl)
    (hf : ∀ l x, m ∉ x → m ∉ fmt l x)
    (hq : ∀ x, m ∉ x → m ∉ cfg.quote x)
    (hr : m ∉ cfg.redactedConst) (hw : m ∉ cfg.writePrefix) (hrd : m ∉ cfg.readPrefix)
    (hclean : ∀ ev ∈ trace, CleanFor m ev) :
    ∀ e ∈ emitted fmt n inst ((allLogs cfg trace).map fun x => (lv x, x)), m ∉ e := by
  apply emitted_clean fmt n inst m _ hf
  intro p hp
  simp only [List.mem_map] at hp
  obtain ⟨x, hx, rfl⟩ := hp
  exact (no_marker_in_logs cfg m trace hq hr hw hrd hclean).1 x hx

/-- the formatter hypothesis is satisfiable by a formatter that wraps the message in constant
text (like `DefaultFormatter` and the custom ones the harness uses) -/
example (m : UInt8) (pre post : Bytes) (hp : m ∉ pre) (hs : m ∉ post) :
    ∀ (l : Lvl) (x : Bytes), m ∉ x → m ∉ (fun (_ : Lvl) (y : Bytes) => pre ++ y ++ post) l x := by
  intro _ x hx; simp [hp, hs, hx]

/-- `WithLevel` accepts exactly the three words, in any (ASCII) case -/
theorem withLevel_words :
    withLevel [68, 69, 66, 85, 71] = some .debug ∧ withLevel [73, 110, 102, 111] = some .info ∧
    withLevel [99, 114, 105, 116, 105, 99, 97, 108] = some .critical ∧
    withLevel [116, 114, 97, 99, 101] = none ∧ withLevel [] = none := by decide

/-- the system transport logs its argument vector at debug level (`opening system transport with
bin … and args …`): those two logger calls are in the table, none of their arguments is
secret-bearing under either rule, and the builder of that vector mentions no credential -/
theorem system_transport_argv_line_clean :
    2 ≤ ((logSitesExt.filter fun s => s.file == "transport/system.go" && s.kind == "Debugf").length) ∧
    (∀ s ∈ logSitesExt, s.file = "transport/system.go" → s.tainted = []) ∧
    (∀ s ∈ logSites, s.file = "transport/system.go" → s.tainted = []) ∧
    argvBuilderMentions = [] := by decide +kernel

/-- non-vacuity: a login trace (banner, password prompt, redacted password write, prompt) is clean
for the marker `Z` of the password `pZ` -/
example : ∀ ev ∈ [Ev.deliver [66, 97, 110], Ev.deliver [80, 97, 115, 115, 119, 111, 114, 100, 58],
    Ev.write [112, 90] true, Ev.write [10] false, Ev.deliver [114, 35]], CleanFor 90 ev := by
  intro ev hev
  simp only [List.mem_cons, List.mem_nil_iff, or_false] at hev
  rcases hev with rfl | rfl | rfl | rfl | rfl <;> simp [CleanFor]

end Scrapli.Logs.C11
