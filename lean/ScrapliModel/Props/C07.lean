import ScrapliModel.Lemmas.Close
import ScrapliModel.Close.AsIs
import ScrapliModel.Generated.TransportClose
import ScrapliModel.Generated.CapsReader
/-!
# C07 — Close always completes: no panic, deadlock, leaked goroutine or data race

Property theorems only. Model: `ScrapliModel/Close/Model.lean`, the finite transition system of the
shutdown paths of a generic/network/NETCONF driver (channel read loop, closer incl. a second
`Close`, in-flight operation, NETCONF read loop, RPC waiter, device side), one step = one
yield-point-to-yield-point segment of the real code (`util.Yield` hooks, build tag `verif`).
The model is the skeleton of the code *with* the repairs fix-1 … fix-5.

"For all schedules" is literal: `Exec s₀ l s` ranges over every interleaving of the processes,
of any length (the read loops are unbounded before `Close` is called).

Fairness: no assumption is needed after `Close` has closed `done` (`bounded_after_signal`: every
continuation, under any scheduler, has at most `rank s ≤ 47` steps and can only stop in a state
that satisfies `good`); before that point the only assumption is that the caller's goroutine
gets to run (`closer_never_blocks`: its next step is always enabled).
-/
namespace Scrapli.Close.C07
open Scrapli.Close Scrapli.Close.Sys

/-- no goroutine panics (close of a closed channel / send on a closed channel), in any reachable state -/
theorem no_panic (s : St) (h : Reach s) : s.panic = .none := inv_noPanic s (reach_inv s h)

/-- no reachable state has two conflicting unsynchronised accesses pending -/
theorem no_race (s : St) (_ : Reach s) : race s = false := Sys.no_race s

/-- whenever `Close` has returned, the transport implementation has been closed exactly once -/
theorem close_returns_transport_closed (s : St) (h : Reach s) (hk : s.k = .ret) : s.closeCalls = 1 :=
  inv_ret_closed s (reach_inv s h) hk

/-- what `Close` returns: the call that closed the transport returns the transport's error (if
any), a repeated call returns nil -/
theorem close_result (s : St) (h : Reach s) (hk : s.k = .ret) :
    s.lastErr = (s.closeErr && !s.second) :=
  (inv_invP s (reach_inv s h)).lastErr (.inr hk)

/-- the clause "no library goroutine outlives the close" does not depend on the transport closing
cleanly: also when `Impl.Close()` returns an error (so `Channel.Close` and `Driver.Close` take
their `return err` path), an execution can only stop with the NETCONF read loop terminated, and
the channel read loop terminated unless the transport's read stays blocked -/
theorem close_error_still_terminates (s : St) (h : Reach s) (_ : s.closeErr = true)
    (ht : next s = []) : (s.n = .absent ∨ s.n = .dead) ∧ ((s.mode = .stay ∨ s.r = .dead) ∨ s.r = .never) ∧ s.k = .ret := by
  have g := inv_terminal_good s (reach_inv s h) ht
  simp only [good, Bool.and_eq_true, Bool.or_eq_true, decide_eq_true_eq] at g
  exact ⟨g.1.2, g.2, g.1.1.1.1.1.1.2⟩

/-- Close before Open (the read loop was never started, `readLoopDone` is nil): every execution
can only stop with `Close` returned and the transport implementation closed exactly once (through
the grace timer and the forced path) -/
theorem close_before_open (s₀ s : St) (l : List St) (h0 : isInit s₀ = true) (_ : s₀.r = .never)
    (he : Exec s₀ l s) (ht : next s = []) : s.k = .ret ∧ s.closeCalls = 1 ∧ s.panic = .none := by
  have hr : Reach s := exec_reach s₀ s l he (.init s₀ h0)
  have g := inv_terminal_good s (reach_inv s hr) ht
  simp only [good, Bool.and_eq_true, Bool.or_eq_true, decide_eq_true_eq] at g
  exact ⟨g.1.1.1.1.1.1.2, g.1.1.1.1.2, g.1.1.1.1.1.1.1⟩

example : isInit (mkPreOpen true .eofOnClose true) = true ∧ (mkPreOpen true .eofOnClose true).r = .never := by decide

/-- until it has closed `done`, the closer's next step is always enabled: `Close` cannot block
before it has signalled the read loop -/
theorem closer_never_blocks (s : St) (h : Reach s) (hd : s.doneClosed = false) : stepK s ≠ [] :=
  closer_enabled s (reach_inv s h) hd

/-- once `done` is closed, every continuation under every scheduler is finite: at most `rank s`
further steps -/
theorem bounded_after_signal (s s' : St) (l : List St) (h : Reach s) (hd : s.doneClosed = true)
    (he : Exec s l s') : l.length ≤ rank s := by
  have := exec_bound s s' l he (reach_inv s h) hd
  omega

/-- `rank` is uniformly small -/
theorem rank_le (s : St) : rank s ≤ 47 := by
  have h1 : s.r.rank ≤ 8 := by cases s.r <;> decide
  have h2 : s.k.rank ≤ 9 := by cases s.k <;> decide
  have h3 : s.o.rank s.oSecond ≤ 7 := by cases s.o <;> cases s.oSecond <;> decide
  have h4 : s.n.rank ≤ 7 := by cases s.n <;> decide
  have h5 : s.w.rank ≤ 4 := by cases s.w <;> decide
  have h6 : s.left.toNat ≤ 2 := by cases s.left <;> decide
  unfold rank
  split <;> omega

/-- a state in which no process can move any more (the only way an execution can stop) satisfies
the property: nobody panicked, `Close` returned (both calls), the transport was closed exactly
once, the operation / RPC returned, the NETCONF read loop terminated, and the channel read loop
terminated unless the transport's read stays blocked on close -/
theorem terminal_good (s : St) (h : Reach s) (ht : next s = []) : good s = true :=
  inv_terminal_good s (reach_inv s h) ht

/-- The property at full strength, for every start state after a successful open (generic or
NETCONF driver, every transport close behaviour incl. a `Close()` that returns an error, `Close`
called once or twice, with or without an operation / RPC in flight), every schedule `l` of any length and every state `s` it reaches. -/
def Full : Prop :=
  ∀ s₀ : St, isInit s₀ = true → ∀ (l : List St) (s : St), Exec s₀ l s →
    s.panic = .none ∧ race s = false
    ∧ (s.k = .ret → s.closeCalls = 1)
    ∧ (s.doneClosed = false → stepK s ≠ [])
    ∧ (s.doneClosed = true → ∀ (l' : List St) (s' : St), Exec s l' s' → l'.length ≤ rank s ∧ rank s ≤ 47)
    ∧ (next s = [] → good s = true)

theorem C07_full : Full := by
  intro s₀ h0 l s he
  have hr : Reach s := exec_reach s₀ s l he (.init s₀ h0)
  exact ⟨no_panic s hr, no_race s hr, close_returns_transport_closed s hr, closer_never_blocks s hr,
    fun hd l' s' he' => ⟨bounded_after_signal s s' l' hr hd he', rank_le s⟩, terminal_good s hr⟩

/-! ### non-vacuity: start states exist, executions run to completion, and the end states are the
interesting ones -/

example : isInit (mkInit true .errOnClose true true) = true := by decide
example : isInit (mkInit true .eofOnClose true true true) = true ∧ (mkInit true .eofOnClose true true true).closeErr = true := by decide
example : ∀ s ∈ inits, isInit s = true := by decide

/-- from every start state the canonical execution (always take the first enabled step) stops
within 80 steps, in a state where `Close` has returned and the read loop has terminated or is
stuck in a transport read that does not unblock -/
theorem canonical_executions_complete :
    ∀ s ∈ inits, next (greedy 80 s) = [] ∧ (greedy 80 s).k = .ret ∧ good (greedy 80 s) = true := by
  decide +kernel

example (s : St) (hs : s ∈ inits) : Exec s (greedyTrace 80 s) (greedy 80 s) := greedy_exec 80 s

/-! ### `Transport.Close`: every path that returns has closed the implementation

The closer's steps `nice` / `niceLk` / `force` of the transition system stand for
`transport.(*Transport).Close(false | true)`. Its body is regenerated from the source on every run
(`Generated/TransportClose.lean`); an added early `return`, condition (`IsAlive()` …) or lock on the
forced path breaks `generated_transportClose_eq`. -/

/-- the body of `Transport.Close` as the source reads now is the body the model was written from -/
theorem generated_transportClose_eq : Gen.TransportClose.body = TC.model := by decide

/-- every path through `Transport.Close` — forced or not — returns, has called `Impl.Close()`
exactly once, takes `implLock` iff the close is not forced and does not leave it held -/
theorem transportClose_closes_impl : TC.bodyOk Gen.TransportClose.body = true := by
  rw [generated_transportClose_eq]; decide

/-- spelled out: whatever `force` is, the only path is "returned, one `Impl.Close()`" — which is
what the closer's `nice` / `force` steps do to `closeCalls` (and why `nice` needs `implLock` free) -/
theorem transportClose_paths (force : Bool) :
    TC.allPaths force Gen.TransportClose.body
      = [{ returned := true, implCloses := 1, tookLock := !force, heldAtExit := false, unknown := false }] := by
  rw [generated_transportClose_eq]; cases force <;> decide

/-- the obligation is not vacuous: a body with an early `return nil` guarded by some liveness test
(the shape of a "skip the close when the peer is gone" shortcut) violates it, and so does a lock
on the forced path -/
example : TC.bodyOk [.ifNotForce, .lock, .deferUnlock, .ifOther "!recv.Impl.IsAlive()", .ret "nil", .endIf, .endIf,
    .retImplClose] = false := by decide
example : TC.bodyOk [.lock, .deferUnlock, .retImplClose] = false := by decide

/-! ### `getServerCapabilities`: exactly one result per call (C07-F14)

The reader goroutine `Open` starts for the NETCONF hello must hand over exactly one result on every
path (two: the goroutine outlives `Close` for ever; none: the caller dereferences nil). Its body is
regenerated from the source on every run (`Generated/CapsReader.lean`). -/

/-- on every path the reader goroutine sends exactly once, and the caller receives exactly once -/
theorem capsReader_one_result : OneResult.ok Gen.CapsReader.body Gen.CapsReader.receives = true := by decide

/-- the body is the one the repair established -/
theorem generated_capsReader_eq : Gen.CapsReader.body = OneResult.model := by decide

/-- the obligation is not vacuous: the body before the repair has a path with two sends (read error
that is not the timeout) and one with none (read finished as the timer expired) -/
example : OneResult.allSends [.other "defer close(cr)", .other "b, err := d.Channel.ReadUntilPrompt(ctx)",
    .ifCond "err != nil", .send, .endIf, .ifCond "ctx.Err() != nil", .ret, .endIf, .send] = [1, 2, 0, 1] := by decide

/-! ### the unrepaired skeleton fails

`ScrapliModel/Close/AsIs.lean` is the skeleton of the code before fix-1 … fix-5. Each theorem
exhibits one schedule (the list says which process moves and which alternative it takes) on which it
violates the property; each was also observed on the real unrepaired code by the forced-schedule
harness. (These are existence statements, so one kernel-evaluated schedule is a proof.) -/

section Unrepaired
open AsIs

private def ks (n : Nat) : Sched := List.replicate n (AsIs.Proc.K, 0)
private def rs (n : Nat) : Sched := List.replicate n (AsIs.Proc.R, 0)

/-- F3: a second `Close` panics with "close of closed channel" (`close(c.Errs)`) -/
theorem double_close_panics :
    ∃ sch, (exec (AsIs.mkInit false .eofOnClose true false) sch).map (·.panic) = some .closeOfClosed :=
  ⟨ks 7, by decide⟩

/-- F4: `Close` while the read loop is blocked handing over a transport error: the *read loop*
panics with "send on closed channel" -/
theorem close_after_idle_error_panics_in_reader :
    ∃ sch, (exec (AsIs.mkInit false .eofOnClose false false) sch).map (·.panic) = some .sendOnClosed :=
  ⟨[(.E, 2)] ++ rs 5 ++ ks 2 ++ rs 1, by decide⟩

/-- F4, race window: the read loop has passed its `done` test and is about to send when `Close`
closes `Errs` -/
theorem close_races_error_send :
    ∃ sch s, exec (AsIs.mkInit false .eofOnClose false false) sch = some s ∧ s.r = .send
      ∧ (exec s (ks 2 ++ rs 1)).map (·.panic) = some .sendOnClosed :=
  ⟨[(.E, 2)] ++ rs 4, _, rfl, by decide, by decide⟩

/-- F6: the plain bool `readLoopExited` is stored by the read loop's exit while `Channel.Read`
is about to load it -/
theorem readLoopExited_race :
    ∃ sch, (exec (AsIs.mkInit false .eofOnClose false true) sch).map AsIs.race = some true :=
  ⟨[(.E, 1)] ++ rs 4 ++ [(.O, 0), (.O, 0)], by decide⟩

/-- F5: NETCONF `Close` after the peer closed the stream never returns (nobody receives
`d.done <- true`: the NETCONF read loop is stuck in `d.errs <- err`) -/
theorem netconf_close_hangs_after_eof :
    ∃ sch, (exec (AsIs.mkInit true .eofOnClose false false) sch).map closeHung = some true :=
  ⟨[(.E, 1)] ++ rs 5 ++ [(.N, 0), (.N, 0), (.N, 0)] ++ ks 2, by decide⟩

/-- F5: a second NETCONF `Close` never returns (the NETCONF read loop is gone) -/
theorem netconf_double_close_hangs :
    ∃ sch, (exec (AsIs.mkInit true .eofOnClose true false) sch).map closeHung = some true :=
  ⟨ks 2 ++ [(.N, 0)] ++ ks 7 ++ rs 5 ++ [(.S, 0), (.E, 0)], by decide⟩

/-- new finding: when the read loop exits on its own (EOF) between `Close`'s test of
`readLoopExited` and the sender goroutine's `c.done <- …`, that goroutine is leaked forever,
although the transport's read does unblock on close -/
theorem close_leaks_sender_goroutine :
    ∃ sch, (exec (AsIs.mkInit false .eofOnClose false false) sch).map leaked = some true :=
  ⟨ks 3 ++ [(.E, 1)] ++ rs 5 ++ [(.S, 0)] ++ ks 2, by decide⟩

/-- schedules are executions: what `exec` reaches is reachable in the transition system -/
theorem exec_reach (s s' : AsIs.St) (sch : Sched) (h : exec s sch = some s') : AsIs.Reach s s' := by
  induction sch generalizing s with
  | nil => simp [exec] at h; subst h; exact .refl s
  | cons c rest ih =>
    obtain ⟨p, i⟩ := c
    simp only [exec] at h
    split at h
    · rename_i s₁ heq
      have hm : s₁ ∈ AsIs.stepP p s := List.mem_of_getElem? heq
      have hn : s₁ ∈ AsIs.next s := by
        unfold AsIs.stepP at hm
        unfold AsIs.next
        split at hm
        · simp at hm
        · rename_i hp
          simp only [hp, ↓reduceIte, List.mem_append]
          cases p <;> simp_all
      exact .step s s₁ s' hn (ih s₁ h)
    · simp at h

end Unrepaired

end Scrapli.Close.C07
