import ScrapliModel.Lemmas.Decode
import ScrapliModel.Lemmas.Framed
import ScrapliModel.Props.C08
import ScrapliModel.Generated.BodiesResponse
import ScrapliModel.Lemmas.BodiesResponse
import ScrapliModel.Lemmas.GoSem
/-!
# C02 — NETCONF replies decode to exactly the payload, or are explicitly failed

Property theorems only. Model: `ScrapliModel/Netconf/Decode.lean` (mirrors
`response/netconf.go`). Constants (`xmlHeader`, `v1Dot0Delim`, `maxChunkSizeCharLen`) come from
`Generated/Consts.lean`, regenerated from the source on every run.
-/
namespace Scrapli.Netconf.C02
open Scrapli Scrapli.Netconf

def AllSpace (ws : Bytes) : Prop := ∀ b ∈ ws, isSpaceB b = true
/-- RFC 6242 §4.2: chunks are non-empty and at most 4294967295 bytes long. The bound is the RFC's,
not the code's: the code's header-scan length is tied to it by `rfc_sizes_fit`. -/
def LegalChunks (cs : List Bytes) : Prop := ∀ c ∈ cs, c ≠ [] ∧ c.length < 2 ^ 32

/-- Obligation on the regenerated constant: the header scan must admit at least one digit. -/
theorem maxHdr_pos : 0 < Gen.Response.maxChunkSizeCharLen := by decide

/-- Obligation on the regenerated constant: every RFC-legal chunk size can be written within the
number of header characters the decoder is willing to scan. -/
theorem rfc_sizes_fit : 2 ^ 32 ≤ 10 ^ Gen.Response.maxChunkSizeCharLen := by decide

theorem legal_fits {cs : List Bytes} (h : LegalChunks cs) :
    ∀ c ∈ cs, c ≠ [] ∧ c.length < 10 ^ Gen.Response.maxChunkSizeCharLen :=
  fun c hc => ⟨(h c hc).1, Nat.lt_of_lt_of_le (h c hc).2 rfc_sizes_fit⟩

/-- RFC 6242 round trip, raw level: every legal chunking of any payload (any bytes, any number of
chunks, any chunk sizes of up to `maxChunkSizeCharLen` digits), padded by any whitespace, decodes
to exactly the concatenation of the chunk data. -/
theorem decode11Raw_body (cs : List Bytes) (ws1 ws2 : Bytes) (hcs : LegalChunks cs)
    (h1 : AllSpace ws1) (h2 : AllSpace ws2) :
    decode11Raw (ws1 ++ ((cs.map chunk).flatten ++ [LF, HASH, HASH]) ++ ws2) = .ok cs.flatten := by
  -- the trimmed text is `#…\n##`
  have hshape : ∃ m, ws1 ++ ((cs.map chunk).flatten ++ [LF, HASH, HASH]) ++ ws2
        = (ws1 ++ [LF]) ++ (HASH :: (m ++ [HASH])) ++ ws2
      ∧ (cs.map chunk).flatten ++ [LF, HASH, HASH] = LF :: HASH :: (m ++ [HASH]) := by
    cases cs with
    | nil => exact ⟨[], by simp, by simp⟩
    | cons c cs' =>
      refine ⟨decDigits c.length ++ [LF] ++ c ++ (cs'.map chunk).flatten ++ [LF, HASH], ?_, ?_⟩
      · simp [chunk]
      · simp [chunk]
  obtain ⟨m, hm, hbody⟩ := hshape
  have hsp1 : ∀ b ∈ ws1 ++ [LF], isSpaceB b = true := by
    intro b hb
    simp only [List.mem_append, List.mem_singleton] at hb
    rcases hb with hb | hb
    · exact h1 b hb
    · subst hb; decide
  have htrim := trimSpace_padded (ws1 ++ [LF]) ws2 m HASH HASH hsp1 h2 (by decide) (by decide)
  unfold decode11Raw
  rw [hm, htrim]
  simp only [bne_self_eq_false, Bool.false_eq_true, if_false]
  have hloop := decodeLoop_frame Gen.Response.maxChunkSizeCharLen maxHdr_pos cs
    ((HASH :: (m ++ [HASH])).length + 2) [] [] (legal_fits hcs) (by
      have hl := frame_body_length cs
      have : ((cs.map chunk).flatten ++ [LF, HASH, HASH]).length = (LF :: HASH :: (m ++ [HASH])).length := by
        rw [hbody]
      simp only [List.length_append, List.length_cons, List.length_nil] at this ⊢
      omega)
  have hb' : (cs.map chunk).flatten ++ [LF, HASH, HASH] = (cs.map chunk).flatten ++ LF :: HASH :: HASH :: [] := rfl
  rw [← hb', hbody] at hloop
  have hstep : decodeLoop Gen.Response.maxChunkSizeCharLen ((HASH :: (m ++ [HASH])).length + 2)
      (LF :: HASH :: (m ++ [HASH])) [] =
      decodeLoop Gen.Response.maxChunkSizeCharLen ((HASH :: (m ++ [HASH])).length + 1) (HASH :: (m ++ [HASH])) [] := by
    show decodeLoop _ (_ + 1 + 1) _ _ = _
    simp [decodeLoop, LF]
  rw [hstep] at hloop
  simpa using hloop

/-- RFC 6242 round trip, raw level: every legal chunking of any payload (any bytes, any number of
chunks, any chunk sizes of up to `maxChunkSizeCharLen` digits), padded by any whitespace, decodes
to exactly the concatenation of the chunk data. -/
theorem decode11Raw_frame11 (cs : List Bytes) (ws1 ws2 : Bytes) (hcs : LegalChunks cs)
    (h1 : AllSpace ws1) (h2 : AllSpace ws2) :
    decode11Raw (ws1 ++ frame11 cs ++ ws2) = .ok cs.flatten := by
  have hsp2 : AllSpace (LF :: ws2) := by
    intro b hb
    simp only [List.mem_cons] at hb
    rcases hb with hb | hb
    · subst hb; decide
    · exact h2 b hb
  have := decode11Raw_body cs ws1 (LF :: ws2) hcs h1 hsp2
  have e : ws1 ++ frame11 cs ++ ws2 = ws1 ++ ((cs.map chunk).flatten ++ [LF, HASH, HASH]) ++ (LF :: ws2) := by
    simp [frame11]
  rw [e]; exact this

/-- The property's success clause for NETCONF 1.1: the result is exactly the reply payload with the
XML declaration and surrounding whitespace trimmed, for every chunking and padding. -/
theorem decode11_frame11 (cs : List Bytes) (ws1 ws2 : Bytes) (hcs : LegalChunks cs)
    (h1 : AllSpace ws1) (h2 : AllSpace ws2) :
    decode11 (ws1 ++ frame11 cs ++ ws2) = .ok (finish cs.flatten) := by
  unfold decode11
  rw [decode11Raw_frame11 cs ws1 ws2 hcs h1 h2]
  rfl

/-- Chunking independence: two legal chunkings of the same payload give the same result. -/
theorem decode11_chunking_independent (cs cs' : List Bytes) (hcs : LegalChunks cs)
    (hcs' : LegalChunks cs') (hsame : cs.flatten = cs'.flatten) :
    decode11 (frame11 cs) = decode11 (frame11 cs') := by
  have a := decode11_frame11 cs [] [] hcs (by intro b hb; simp at hb) (by intro b hb; simp at hb)
  have b := decode11_frame11 cs' [] [] hcs' (by intro b hb; simp at hb) (by intro b hb; simp at hb)
  simp only [List.nil_append, List.append_nil] at a b
  rw [a, b, hsame]

/-- non-vacuity: a concrete three-chunk frame with '#', digits and LF at chunk edges -/
example : LegalChunks [[35, 49], [10, 35, 35, 10], [60, 97, 47, 62]] := by
  intro c hc
  simp only [List.mem_cons, List.mem_nil_iff, or_false] at hc
  rcases hc with rfl | rfl | rfl <;> exact ⟨by simp, by decide⟩

/-- Safety: whatever the input, a successful decode returns only bytes of the input, in order
(never bytes the server did not send). Totality ("never panics") holds by construction: `decode11`
is a total function whose every index is guarded. -/
theorem decode11_safe (raw r : Bytes) (h : decode11 raw = .ok r) : r.Sublist raw := by
  unfold decode11 at h
  cases hr : decode11Raw raw with
  | error e => rw [hr] at h; simp [Except.map] at h
  | ok j =>
    rw [hr] at h
    simp only [Except.map, Except.ok.injEq] at h
    subst h
    have hj : j.Sublist raw := by
      unfold decode11Raw at hr
      simp only at hr
      split at hr
      · simp at hr
      · split at hr
        · simp at hr
        · rename_i heq _
          obtain ⟨s, hs, hj⟩ := decodeLoop_sublist _ _ _ _ _ hr
          simp at hj
          subst hj
          exact hs.trans (trimSpace_sublist raw)
    unfold finish
    exact (trimSpace_sublist _).trans ((trimPrefix_sublist _ _).trans hj)

/-- a frame cut before its end-of-chunks marker is a parse error, not a success:
    the chunks alone, without `\n##\n`, never decode. -/
theorem decodeLoop_unterminated (k f : Nat) (cs : List Bytes) (acc : Bytes) (hk : 0 < k)
    (hcs : ∀ c ∈ cs, c ≠ [] ∧ c.length < 10 ^ k) :
    ∃ e, decodeLoop k f ((cs.map chunk).flatten) acc = .error e := by
  induction cs generalizing f acc with
  | nil => cases f <;> exact ⟨.truncated, by simp [decodeLoop]⟩
  | cons c cs ih =>
    match f with
    | 0 => exact ⟨.truncated, by simp [decodeLoop]⟩
    | 1 =>
      refine ⟨.truncated, ?_⟩
      simp only [List.map_cons, List.flatten_cons, chunk, List.append_assoc, List.cons_append,
        List.nil_append]
      simp [decodeLoop, LF]
    | f + 2 =>
      simp only [List.map_cons, List.flatten_cons]
      rw [decodeLoop_chunk k f c _ acc (hcs c (by simp)).1 (hcs c (by simp)).2 hk]
      exact ih f (acc ++ c) (fun x hx => hcs x (by simp [hx]))

/-- EXACT CHARACTERISATION of what the 1.1 decoder accepts: a raw reply decodes successfully iff its
trimmed text starts with `#` and is a terminated chunk stream (`Framed`: chunk headers of at most
`maxChunkSizeCharLen` characters whose size equals the length of the data that follows, ended by
`##`); the result is then exactly the concatenated chunk data. Every other input — truncated
before the end marker, a size larger than the data that remains, a negative / zero / non-numeric /
over-long size, a missing `#` — is an error. -/
theorem decode11Raw_ok_iff (raw r : Bytes) :
    decode11Raw raw = .ok r ↔
      (∃ t, trimSpace raw = HASH :: t) ∧
      ∃ cs, Framed Gen.Response.maxChunkSizeCharLen (trimSpace raw) cs ∧ r = cs.flatten := by
  unfold decode11Raw
  simp only
  constructor
  · intro h
    split at h
    · simp at h
    · rename_i b t heq
      split at h
      · simp at h
      · rename_i hb
        have hbh : b = HASH := by simpa using hb
        subst hbh
        obtain ⟨cs, hf, hr⟩ := decodeLoop_sound _ _ _ _ _ h
        exact ⟨⟨t, heq⟩, cs, hf, by simpa using hr⟩
  · rintro ⟨⟨t, ht⟩, cs, hf, rfl⟩
    rw [ht] at hf ⊢
    simp only [bne_self_eq_false, Bool.false_eq_true, if_false]
    have := decodeLoop_complete _ _ _ hf ((HASH :: t).length + 1) [] (by omega)
    simpa using this

/-- the malformed-input clause: an input that is not a terminated chunk stream is marked failed
with a parse error and yields no result bytes -/
theorem malformed_is_failed (mk : List Bytes) (raw : Bytes)
    (h : ¬ ∃ cs, Framed Gen.Response.maxChunkSizeCharLen (trimSpace raw) cs) :
    (record mk .v11 raw).failed = true ∧ (record mk .v11 raw).parseErr = true ∧
    (record mk .v11 raw).result = [] := by
  have hne : ∀ r, decode11 raw ≠ .ok r := by
    intro r hr
    unfold decode11 at hr
    cases hraw : decode11Raw raw with
    | error e => rw [hraw] at hr; simp [Except.map] at hr
    | ok j =>
      obtain ⟨_, cs, hcs, _⟩ := (decode11Raw_ok_iff raw j).mp hraw
      exact absurd ⟨cs, hcs⟩ h
  unfold record
  cases hd : decode11 raw with
  | ok r => exact absurd hd (hne r)
  | error e => simp

/-- a terminated chunk stream contains the end-of-chunks marker: input cut before it never decodes -/
theorem framed_has_terminator {k : Nat} {d : Bytes} {cs : List Bytes} (h : Framed k d cs) :
    ∃ a b, d = a ++ [HASH, HASH] ++ b := by
  induction h with
  | lf _ ih => obtain ⟨a, b, e⟩ := ih; exact ⟨LF :: a, b, by simp [e]⟩
  | @done rest => exact ⟨[], rest, rfl⟩
  | @chunk hd data rest cs _ _ _ _ _ _ ih =>
    obtain ⟨a, b, e⟩ := ih
    exact ⟨HASH :: (hd ++ LF :: (data ++ a)), b, by simp [e]⟩

/-- NETCONF 1.0 body step: payload, end-of-message delimiter, trailing whitespace → payload -/
theorem decode10_body (p ws : Bytes) (h : AllSpace ws) :
    trimSpace (trimSuffix (trimSpace (p ++ Gen.Response.v1Dot0Delim ++ ws)) Gen.Response.v1Dot0Delim) = trimSpace p := by
  have hd : Gen.Response.v1Dot0Delim = 93 :: ([93, 62, 93, 93] ++ [62]) := by decide
  have key : trimSpace (p ++ Gen.Response.v1Dot0Delim ++ ws) = trimLeft isSpaceB p ++ Gen.Response.v1Dot0Delim := by
    unfold trimSpace trimLeft
    have e : p ++ Gen.Response.v1Dot0Delim ++ ws = p ++ (93 : UInt8) :: ([93, 62, 93, 93, 62] ++ ws) := by
      rw [hd]; simp
    have hdw : ∀ (a : Bytes) (x : UInt8) (r : Bytes), isSpaceB x = false →
        (a ++ x :: r).dropWhile isSpaceB = a.dropWhile isSpaceB ++ x :: r := by
      intro a x r hx
      induction a with
      | nil => simp [List.dropWhile, hx]
      | cons y t ih =>
        simp only [List.cons_append, List.dropWhile]
        split
        · exact ih
        · rfl
    rw [e, hdw p 93 _ (by decide)]
    have e2 : List.dropWhile isSpaceB p ++ (93 : UInt8) :: ([93, 62, 93, 93, 62] ++ ws)
        = (List.dropWhile isSpaceB p ++ [93, 93, 62, 93, 93]) ++ (62 : UInt8) :: ws := by simp
    rw [e2, trimRight_append_all _ 62 ws h (by decide), hd]
    simp
  rw [key, trimSuffix_append]
  unfold trimSpace trimLeft
  rw [dropWhile_dropWhile]

/-- the trimmed text of a padded 1.0 message: the payload without its leading white space, and the
delimiter -/
theorem trimSpace_frame10 (ws1 p ws2 : Bytes) (h1 : AllSpace ws1) (h2 : AllSpace ws2) :
    trimSpace (ws1 ++ p ++ Gen.Response.v1Dot0Delim ++ ws2) = trimLeft isSpaceB p ++ Gen.Response.v1Dot0Delim := by
  have hlead : (ws1 ++ p).dropWhile isSpaceB = p.dropWhile isSpaceB := by
    induction ws1 with
    | nil => rfl
    | cons w t ih =>
      have hw : isSpaceB w = true := h1 w (by simp)
      simp only [List.cons_append, List.dropWhile_cons, hw, if_true]
      exact ih (fun b hb => h1 b (by simp [hb]))
  have hd : Gen.Response.v1Dot0Delim = 93 :: ([93, 62, 93, 93] ++ [62]) := by decide
  unfold trimSpace trimLeft
  have e : ws1 ++ p ++ Gen.Response.v1Dot0Delim ++ ws2 = (ws1 ++ p) ++ (93 : UInt8) :: ([93, 62, 93, 93, 62] ++ ws2) := by
    rw [hd]; simp
  have hdw : ∀ (a : Bytes) (x : UInt8) (r : Bytes), isSpaceB x = false →
      (a ++ x :: r).dropWhile isSpaceB = a.dropWhile isSpaceB ++ x :: r := by
    intro a x r hx
    induction a with
    | nil => simp [List.dropWhile, hx]
    | cons y t ih =>
      simp only [List.cons_append, List.dropWhile]
      split
      · exact ih
      · rfl
  rw [e, hdw (ws1 ++ p) 93 _ (by decide), hlead]
  have e2 : List.dropWhile isSpaceB p ++ (93 : UInt8) :: ([93, 62, 93, 93, 62] ++ ws2)
      = (List.dropWhile isSpaceB p ++ [93, 93, 62, 93, 93]) ++ (62 : UInt8) :: ws2 := by simp
  rw [e2, trimRight_append_all _ 62 ws2 h2 (by decide), hd]
  simp

theorem trimSpace_trimLeft (p : Bytes) : trimSpace (trimLeft isSpaceB p) = trimSpace p := by
  unfold trimSpace trimLeft
  rw [dropWhile_dropWhile]

/-- NETCONF 1.0 without a declaration, for every white space in front of the message (the LF a
server sends behind the previous message's delimiter, when a read boundary separates the two) and
behind it: the result is the payload, white space trimmed. The hypothesis says that the message,
once its white space is gone, does not begin with the canonical declaration. -/
theorem decode10_frame10 (ws1 p ws2 : Bytes) (h1 : AllSpace ws1) (h2 : AllSpace ws2)
    (hdr : hasPrefix (trimLeft isSpaceB p ++ Gen.Response.v1Dot0Delim) Gen.Response.xmlHeader = false) :
    decode10 (ws1 ++ p ++ Gen.Response.v1Dot0Delim ++ ws2) = trimSpace p := by
  unfold decode10
  rw [trimSpace_frame10 ws1 p ws2 h1 h2]
  unfold trimPrefix
  rw [hdr]
  simp only [Bool.false_eq_true, if_false]
  have := trimSpace_frame10 [] (trimLeft isSpaceB p) [] (by intro b hb; simp at hb) (by intro b hb; simp at hb)
  simp only [List.nil_append, List.append_nil] at this
  rw [this, trimSuffix_append]
  unfold trimLeft
  rw [dropWhile_dropWhile]
  exact trimSpace_trimLeft p

/-- the hypothesis is satisfiable and the statement not vacuous: `LF SP <a/> ]]>]]> LF` -/
example : hasPrefix (trimLeft isSpaceB [10, 32, 60, 97, 47, 62] ++ Gen.Response.v1Dot0Delim) Gen.Response.xmlHeader = false
    ∧ decode10 ([10] ++ [32, 60, 97, 47, 62] ++ Gen.Response.v1Dot0Delim ++ [10]) = [60, 97, 47, 62] := by decide

/-- NETCONF 1.0 with the canonical declaration in front of the payload, for every white space in
front of the declaration and behind the delimiter: declaration and white space are removed, the
result is the payload. (Before fix 72d4808 this held only with nothing in front of the
declaration: finding C02-F21, `decode10_before_fix_keeps_declaration`.) -/
theorem decode10_frame10_decl (ws1 p ws2 : Bytes) (h1 : AllSpace ws1) (h2 : AllSpace ws2) :
    decode10 (ws1 ++ Gen.Response.xmlHeader ++ p ++ Gen.Response.v1Dot0Delim ++ ws2) = trimSpace p := by
  have e : ws1 ++ Gen.Response.xmlHeader ++ p ++ Gen.Response.v1Dot0Delim ++ ws2
      = ws1 ++ (Gen.Response.xmlHeader ++ p) ++ Gen.Response.v1Dot0Delim ++ ws2 := by simp
  unfold decode10
  rw [e, trimSpace_frame10 ws1 (Gen.Response.xmlHeader ++ p) ws2 h1 h2]
  have hx : Gen.Response.xmlHeader = 60 :: Gen.Response.xmlHeader.tail := by decide
  have hl : trimLeft isSpaceB (Gen.Response.xmlHeader ++ p) = Gen.Response.xmlHeader ++ p := by
    rw [hx]
    simp only [List.cons_append]
    exact trimLeft_all_append [] 60 _ (by intro b hb; simp at hb) (by decide)
  rw [hl]
  have e2 : Gen.Response.xmlHeader ++ p ++ Gen.Response.v1Dot0Delim = Gen.Response.xmlHeader ++ (p ++ Gen.Response.v1Dot0Delim) := by simp
  unfold trimPrefix
  rw [e2, hasPrefix_append]
  simp only [if_true, List.drop_left]
  have := decode10_body p [] (by intro b hb; simp at hb)
  simpa using this

/-- the result of a padded 1.0 message does not depend on the padding — in particular not on
whether the LF behind the previous delimiter was delivered with that delimiter or with this
message -/
theorem decode10_padding_independent (ws1 ws1' p ws2 ws2' : Bytes) (h1 : AllSpace ws1) (h1' : AllSpace ws1')
    (h2 : AllSpace ws2) (h2' : AllSpace ws2') :
    decode10 (ws1 ++ p ++ Gen.Response.v1Dot0Delim ++ ws2) = decode10 (ws1' ++ p ++ Gen.Response.v1Dot0Delim ++ ws2') := by
  unfold decode10
  rw [trimSpace_frame10 ws1 p ws2 h1 h2, trimSpace_frame10 ws1' p ws2' h1' h2']

/-- Failure classification: a parse error always marks the response failed, and so does a marker
anywhere in the decoded payload (even when the marker was split over several chunks). -/
theorem failed_of_parse_error (mk : List Bytes) (raw : Bytes) (e : DErr)
    (h : decode11 raw = .error e) : (record mk .v11 raw).failed = true ∧ (record mk .v11 raw).parseErr = true := by
  unfold record; simp [h]

theorem failed_of_marker_in_payload (mk : List Bytes) (cs : List Bytes) (ws1 ws2 : Bytes)
    (hcs : LegalChunks cs) (h1 : AllSpace ws1) (h2 : AllSpace ws2)
    (hm : containsAny mk (finish cs.flatten) = true) :
    (record mk .v11 (ws1 ++ frame11 cs ++ ws2)).failed = true := by
  unfold record
  rw [decode11_frame11 cs ws1 ws2 hcs h1 h2]
  simp [hm]

theorem record11_result (mk : List Bytes) (cs : List Bytes) (ws1 ws2 : Bytes)
    (hcs : LegalChunks cs) (h1 : AllSpace ws1) (h2 : AllSpace ws2) :
    (record mk .v11 (ws1 ++ frame11 cs ++ ws2)).result = finish cs.flatten
    ∧ (record mk .v11 (ws1 ++ frame11 cs ++ ws2)).parseErr = false := by
  unfold record
  rw [decode11_frame11 cs ws1 ws2 hcs h1 h2]
  simp

/-- a response is failed only for one of the three stated reasons -/
theorem failed_only_if (mk : List Bytes) (v : Version) (raw : Bytes)
    (h : (record mk v raw).failed = true) :
    (record mk v raw).parseErr = true ∨ containsAny mk raw = true
      ∨ containsAny mk (record mk v raw).result = true := by
  unfold record at h ⊢
  cases v with
  | v10 => simp at h ⊢; exact h
  | v11 =>
    simp only at h ⊢
    split at h <;> rename_i heq <;> simp [heq] at h ⊢
    exact h

/-! ## the read-loop clause: "for every way its bytes are split into transport reads"

Composition with the session read-loop model of C08 (`Netconf/Store.lean`, mirroring
`driver/netconf/read.go`): whatever interleaving of calls, read-loop iterations and polls, and
however the server's bytes are cut into reads, a NETCONF 1.1 call that returns a message returns
bytes that decode to exactly the payload of the reply addressed to it. The hypotheses are C08's
(`Delivery.valid`: no line `##` inside the framed bytes before the real end marker — known finding
F2 —, the message-id attribute contiguous — F13 —, no `</rpc>` text in a reply) plus: the server
framed each reply as a legal RFC 6242 chunk stream. -/

open Scrapli.Netconf.Store in
theorem session_reply_decodes (evs : List Store.Ev) (ds : List Store.Delivery) (later : List Bytes)
    (hv : ∀ d ∈ ds, d.valid .v11 = true)
    (hreads : Store.readsOf evs ++ later = Scrapli.Netconf.C08.chunksOf ds)
    (hframed : ∀ r ∈ Scrapli.Netconf.C08.repliesOf ds, ∃ cs, LegalChunks cs ∧
      r.body = (cs.map chunk).flatten ++ [LF, HASH, HASH])
    (id : Nat) (m : Bytes) (h : (id, some m) ∈ (Store.run .v11 Store.init evs).results) :
    ∃ r cs, r ∈ Scrapli.Netconf.C08.repliesOf ds ∧ r.to = id ∧ LegalChunks cs ∧
      r.body = (cs.map chunk).flatten ++ [LF, HASH, HASH] ∧
      decode11 m = .ok (finish cs.flatten) := by
  rcases Scrapli.Netconf.C08.fetch_returns_own .v11 evs ds later hv hreads id (some m) h with h0 | ⟨m', r, hm, hr, hto, lf, j, hlf, hmr⟩
  · simp at h0
  · simp only [Option.some.injEq] at hm
    subst hm
    obtain ⟨cs, hcs, hbody⟩ := hframed r hr
    -- the reply's tail is line feeds only (C08's validity), so is any prefix of it
    have htail : AllSpace (r.tail.take j) := by
      simp only [Scrapli.Netconf.C08.repliesOf, List.mem_flatMap] at hr
      obtain ⟨d, hd, hrd⟩ := hr
      have hg := hv d hd
      simp only [Store.Delivery.valid, Bool.and_eq_true] at hg
      have hgood := hg.1.1
      have hgr : Store.goodReply .v11 r = true := by
        cases hb : d.burst with
        | echoOnly e => rw [hb] at hrd; simp [Store.Burst.replies] at hrd
        | replyOnly r' =>
          rw [hb] at hrd hgood
          simp only [Store.Burst.replies, List.mem_singleton] at hrd
          subst hrd; simpa [Store.Burst.good] using hgood
        | echoReply e r' =>
          rw [hb] at hrd hgood
          simp only [Store.Burst.replies, List.mem_singleton] at hrd
          subst hrd
          simp only [Store.Burst.good, Bool.and_eq_true] at hgood
          exact hgood.2
      simp only [Store.goodReply, Bool.and_eq_true] at hgr
      have hall : Store.allLF r.tail = true := hgr.1.1.1.1.1.1
      intro b hb
      have hb' : b ∈ r.tail := List.mem_of_mem_take hb
      simp only [Store.allLF, List.all_eq_true, beq_iff_eq] at hall
      rw [hall b hb']; decide
    have hlfs : AllSpace lf := by
      intro b hb
      simp only [Store.allLF, List.all_eq_true, beq_iff_eq] at hlf
      rw [hlf b hb]; decide
    refine ⟨r, cs, hr, hto, hcs, hbody, ?_⟩
    rw [hmr, hbody]
    unfold decode11
    rw [decode11Raw_body cs lf (r.tail.take j) hcs hlfs htail]
    rfl

/-! ## tie to the source: translated body = model (regenerated on every run) -/

/-- the body of `(*NetconfResponse).record1dot0` as the translator renders it from the current
source (`Generated/BodiesResponse.lean`): whatever `Result` held before, it ends up as `decode10`
of the raw result -/
theorem generated_record1dot0_eq (raw r0 : Bytes) :
    Gen.Bodies.Response.record1dot0 raw r0 = decode10 raw := rfl

set_option linter.unusedSimpArgs false in
/-- the body of `(*NetconfResponse).record1dot1Chunks` — the cursor loop and the size-header loop —
as the translator renders it from the current source (`Generated/BodiesResponse.lean`), for every
raw reply and every fuel of at least `len(raw) + maxChunkSizeCharLen + 2` iterations per loop:
never indexes out of range, never runs out of fuel, returns `nil` and stores exactly `decode11 raw`
when the model decodes, and returns the parse error leaving `Result` untouched when the model
fails. Assumptions of the library table: `strconv.Atoi` = `Go.atoi` (no overflow on a header of at
most 10 characters), `bytes.TrimSpace/TrimPrefix` = `trimSpace/trimPrefix`. -/
theorem generated_record1dot1Chunks_eq (fuel : Nat) (raw r0 : Bytes)
    (hf : raw.length + Gen.Response.maxChunkSizeCharLen + 2 ≤ fuel) :
    Gen.Bodies.Response.record1dot1Chunks fuel raw r0 =
      some (match decode11 raw with
        | .ok res => (none, res)
        | .error _ => (some "errNetconf1Dot1Error", r0)) := by
  have hlen := trimSpace_length_le raw
  unfold Gen.Bodies.Response.record1dot1Chunks decode11 decode11Raw
  simp only []
  generalize hd : trimSpace raw = d at hlen
  cases d with
  | nil => simp [Go.len, Go.idxOK, Except.map]
  | cons b t =>
    have hidx : Go.idxOK (Go.len (b :: t)) 0 = true := Go.idxOK_zero_cons b t
    have hat : Go.at (b :: t) 0 = b := Go.at_zero_cons b t
    have hl0 : (Go.len (b :: t) == 0) = false := by simp [Go.len]; omega
    by_cases hH : b = HASH
    · subst hH
      have h35 : (HASH != (35 : UInt8)) = false := rfl
      have hHH : (HASH != HASH) = false := by simp
      have := outer_loop fuel raw r0 (HASH :: t) (by omega) (HASH :: t).length 0 fuel ((HASH :: t).length + 1) []
        (by omega) (by simp) (by simp at hlen ⊢; omega) (by omega)
      simp only [List.drop_zero, Int.natCast_zero] at this
      simp only [hidx, hat, hl0, h35, hHH, Bool.not_false, Bool.not_true, Bool.false_or, Bool.or_true, Bool.false_eq_true,
        if_false]
      cases hR : decodeLoop Gen.Response.maxChunkSizeCharLen ((HASH :: t).length + 1) (HASH :: t) [] with
      | ok acc =>
        rw [hR] at this
        obtain ⟨c', hL⟩ := this
        simp [hL, Except.map, finish]
      | error e =>
        rw [hR] at this
        simp only [Expect] at this
        by_cases he : e = .truncated
        · simp only [he, if_true] at this
          obtain ⟨c', j', hL⟩ := this
          simp [hL, Except.map]
        · simp only [he, if_false] at this
          simp [this, Except.map]
    · have h35 : (b != (35 : UInt8)) = true := by simpa [HASH] using hH
      have hbH : (b != HASH) = true := by simpa using hH
      simp [hidx, hat, hl0, h35, hbH, Except.map]

/-- the fuel hypothesis is satisfiable and the statement is not vacuous: one chunk `abc` -/
example : Gen.Bodies.Response.record1dot1Chunks 40 [35, 51, 10, 97, 98, 99, 10, 35, 35] []
    = some (none, [97, 98, 99]) := by decide +kernel

/-- the `range` loop of `util.ByteContainsAny` as translated from the current source is `containsAny`
(the failure-marker test of `NetconfResponse.Record`), for every buffer and every marker list -/
theorem generated_byteContainsAny_eq (b : Bytes) (l : List Bytes) :
    Gen.Bodies.Response.byteContainsAny b l = containsAny l b := by
  unfold Gen.Bodies.Response.byteContainsAny Go.forRange containsAny
  rw [Go.forRangeFrom_find (fun ss => isInfix ss b) (fun _ => true)]
  induction l with
  | nil => simp
  | cons a l ih =>
    simp only [List.find?, List.any]
    cases h : isInfix a b <;> simp [ih]

/-- the version string of a response -/
def verStr : Version → Bytes
  | .v10 => Gen.Response.v1Dot0
  | .v11 => Gen.Response.v1Dot1

set_option linter.unusedSimpArgs false in
/-- the bodies of `(*NetconfResponse).Record` and `record1dot1` as the translator renders them from
the current source (the two regex searches are parameters, the time stamps are declared not
modelled), on a fresh response (`Result == ""`, `Failed == nil`), for both versions, every marker
list, every reply and enough fuel for the chunk loops: `RawResult` is the reply, `Result` is the
model's decoded result, and `Failed` is set exactly when the model says failed — a marker in the raw
bytes, a marker in the decoded result, or (1.1) a framing error, in which case `Result` stays empty -/
theorem generated_Record_eq (fuel : Nat) (errText : Go.Error → Bytes) (input : Bytes) (fwc : List Bytes)
    (findErr : Bytes → Bytes) (findAllErr : Bytes → List Bytes) (raw0 : Bytes) (em wm : List Bytes)
    (v : Version) (b : Bytes) (hf : b.length + Gen.Response.maxChunkSizeCharLen + 2 ≤ fuel) :
    ∃ f e w, Gen.Bodies.Response.record fuel errText input fwc (verStr v) findErr findAllErr raw0 [] none em wm b
        = some (b, (record fwc v b).result, f, e, w) ∧ f.isSome = (record fwc v b).failed := by
  have hne : (Gen.Response.v1Dot1 == Gen.Response.v1Dot0) = false := by decide
  unfold Gen.Bodies.Response.record
  simp only [generated_byteContainsAny_eq, generated_record1dot0_eq]
  have hrec := generated_record1dot1Chunks_eq fuel b [] hf
  -- the severity loop always runs to its end
  have hloop : ∀ (st : List Bytes × List Bytes), ∃ st', Go.forRange (ρ := Option (Bytes × Bytes × Option (Bytes × Bytes × Bytes) × List Bytes × List Bytes))
      (findAllErr b) st (fun _ rpcerr (errorMessages, warningMessages) => (
        let errStr := rpcerr
        let (errorMessages, warningMessages) := if (isInfix ([60,101,114,114,111,114,45,115,101,118,101,114,105,116,121,62,101,114,114,111,114,60,47,101,114,114,111,114,45,115,101,118,101,114,105,116,121,62] : Bytes) errStr) then (
            let errorMessages := (errorMessages ++ [errStr])
            (errorMessages, warningMessages))
          else if (isInfix ([60,101,114,114,111,114,45,115,101,118,101,114,105,116,121,62,119,97,114,110,105,110,103,60,47,101,114,114,111,114,45,115,101,118,101,114,105,116,121,62] : Bytes) errStr) then (
            let warningMessages := (warningMessages ++ [errStr])
            (errorMessages, warningMessages))
          else (
            (errorMessages, warningMessages))
        .next (errorMessages, warningMessages))) = .fin st' := by
    intro st
    apply Go.forRangeFrom_total
    intro i x s
    exact ⟨_, rfl⟩
  cases v with
  | v10 =>
    by_cases hc : containsAny fwc b = true
    · obtain ⟨⟨e, w⟩, hl⟩ := hloop (em, wm)
      simp only [hc, if_true, hl, verStr, beq_self_eq_true, record]
      refine ⟨_, e, w, rfl, ?_⟩
      simp
    · have hc' : containsAny fwc b = false := by simpa using hc
      simp only [hc', Bool.false_eq_true, if_false, verStr, beq_self_eq_true, if_true, record]
      refine ⟨_, em, wm, rfl, ?_⟩
      cases containsAny fwc (decode10 b) <;> simp
  | v11 =>
    have h11 : ∀ f0 : Option (Bytes × Bytes × Bytes),
        Gen.Bodies.Response.record1dot1 fuel errText input b [] f0
          = some (match decode11 b with
              | .ok res => (res, f0)
              | .error _ => ([], some (input, [], errText (some "errNetconf1Dot1Error")))) := by
      intro f0
      unfold Gen.Bodies.Response.record1dot1
      rw [hrec]
      cases decode11 b <;> simp
    by_cases hc : containsAny fwc b = true
    · obtain ⟨⟨e, w⟩, hl⟩ := hloop (em, wm)
      simp only [hc, if_true, hl, verStr, hne, Bool.false_eq_true, if_false, beq_self_eq_true, h11, record]
      cases hd : decode11 b with
      | ok res => exact ⟨_, e, w, rfl, by simp⟩
      | error err => exact ⟨_, e, w, rfl, by simp⟩
    · have hc' : containsAny fwc b = false := by simpa using hc
      simp only [hc', Bool.false_eq_true, if_false, verStr, hne, beq_self_eq_true, if_true, h11, record]
      cases hd : decode11 b with
      | ok res =>
        refine ⟨_, em, wm, rfl, ?_⟩
        cases hca : containsAny fwc res <;> simp [hca]
      | error err => exact ⟨_, em, wm, rfl, by simp⟩

/-! ## NETCONF 1.0: the decoder as it was before fix 72d4808 (finding C02-F21, negative witness)

Real servers end a message with `]]>]]>` + LF; when that LF arrives in a later transport read than
the delimiter, the session read loop has already reset its buffer and the LF becomes the first byte
of the NEXT raw reply. The old `record1dot0` looked for the declaration before it removed white
space, so such a reply kept its declaration while the same bytes split differently did not. -/

theorem trimSpace_lead (ws p : Bytes) (h : AllSpace ws) : trimSpace (ws ++ p) = trimSpace p := by
  unfold trimSpace trimLeft
  congr 1
  induction ws with
  | nil => rfl
  | cons w t ih =>
    have hw : isSpaceB w = true := h w (by simp)
    simp only [List.cons_append, List.dropWhile_cons, hw, if_true]
    exact ih (fun b hb => h b (by simp [hb]))

/-- a text that begins with white space does not begin with the XML declaration -/
theorem lead_not_header (ws rest : Bytes) (hne : ws ≠ []) (h : AllSpace ws) :
    hasPrefix (ws ++ rest) Gen.Response.xmlHeader = false := by
  cases ws with
  | nil => exact absurd rfl hne
  | cons w t =>
    have hw : isSpaceB w = true := h w (by simp)
    have hne60 : (w == 60) = false := by
      cases hq : w == 60 with
      | false => rfl
      | true =>
        have : w = 60 := by simpa using hq
        subst this
        exact absurd hw (by decide)
    have hx : Gen.Response.xmlHeader = 60 :: Gen.Response.xmlHeader.tail := by decide
    rw [hx]
    simp [hasPrefix, hne60]

/-- NEGATIVE WITNESS (finding C02-F21, the code before 72d4808): with any non-empty white space in
front, a reply that carries the canonical declaration keeps it — for every payload `q`. -/
theorem decode10_before_fix_keeps_declaration (ws1 q ws2 : Bytes) (hne : ws1 ≠ [])
    (h1 : AllSpace ws1) (h2 : AllSpace ws2) :
    decode10BeforeFix (ws1 ++ Gen.Response.xmlHeader ++ q ++ Gen.Response.v1Dot0Delim ++ ws2)
      = trimSpace (Gen.Response.xmlHeader ++ q) := by
  have hdr : hasPrefix (ws1 ++ Gen.Response.xmlHeader ++ q ++ Gen.Response.v1Dot0Delim ++ ws2) Gen.Response.xmlHeader = false := by
    have := lead_not_header ws1 (Gen.Response.xmlHeader ++ q ++ Gen.Response.v1Dot0Delim ++ ws2) hne h1
    simpa [List.append_assoc] using this
  unfold decode10BeforeFix trimPrefix
  rw [hdr]
  simp only [Bool.false_eq_true, if_false]
  have e : ws1 ++ Gen.Response.xmlHeader ++ q ++ Gen.Response.v1Dot0Delim ++ ws2
      = (ws1 ++ (Gen.Response.xmlHeader ++ q)) ++ Gen.Response.v1Dot0Delim ++ ws2 := by simp
  rw [e, decode10_body (ws1 ++ (Gen.Response.xmlHeader ++ q)) ws2 h2, trimSpace_lead ws1 _ h1]

/-- … so the old decoder did not satisfy the padded statement `decode10_frame10_decl`: a concrete
reply `LF <?xml …?> <a/> ]]>]]>` came back with its declaration -/
theorem decode10_before_fix_violates : ¬ ∀ ws1 q ws2 : Bytes, AllSpace ws1 → AllSpace ws2 →
    decode10BeforeFix (ws1 ++ Gen.Response.xmlHeader ++ q ++ Gen.Response.v1Dot0Delim ++ ws2) = trimSpace q := by
  intro h
  have := h [LF] [60, 97, 47, 62] [] (by intro b hb; simp at hb; subst hb; decide) (by intro b hb; simp at hb)
  revert this
  decide

/-- the fixed decoder on the same reply -/
example : decode10 ([LF] ++ Gen.Response.xmlHeader ++ [60, 97, 47, 62] ++ Gen.Response.v1Dot0Delim ++ []) = [60, 97, 47, 62] := by
  decide

/-! ## rpc-error messages (`ErrorMessages`, `WarningErrorMessages`) -/

/-- every reported message is a contiguous piece of the bytes received (never bytes the server did
not send) and has the shape opening tag … closing tag -/
theorem messages_sound (mk : List Bytes) (raw m : Bytes)
    (hm : m ∈ (messages mk raw).1 ∨ m ∈ (messages mk raw).2) :
    (∃ a b, raw = a ++ m ++ b) ∧
    ∃ o body c, o ∈ errOpenTags ∧ c ∈ errCloseTags ∧ m = o ++ body ++ c := by
  unfold messages at hm
  split at hm
  · simp only [classifyMsgs, List.mem_filter] at hm
    rcases hm with hm | hm <;> exact errorBlocks_spec _ _ _ hm.1
  · simp at hm

/-- the two lists are told apart by the severity element; `error` wins -/
theorem messages_classified (mk : List Bytes) (raw m : Bytes) :
    (m ∈ (messages mk raw).1 → isInfix sevError m = true) ∧
    (m ∈ (messages mk raw).2 → isInfix sevWarning m = true ∧ isInfix sevError m = false) := by
  unfold messages
  split
  · simp only [classifyMsgs, List.mem_filter, Bool.and_eq_true, Bool.not_eq_true']
    exact ⟨fun h => h.2, fun h => ⟨h.2.2, h.2.1⟩⟩
  · simp

/-- non-vacuity: one warning block and one error block between other text -/
example : messages Gen.Response.netconfFailedWhenContains
    (ofStr "a<rpc-error><error-severity>warning</error-severity></rpc-error>b<rpc-errors>x<error-severity>error</error-severity></rpc-error>c")
    = ([ofStr "<rpc-errors>x<error-severity>error</error-severity></rpc-error>"],
       [ofStr "<rpc-error><error-severity>warning</error-severity></rpc-error>"]) := by decide +kernel

/-- the severity loop of `Record` as translated from the current source appends exactly the
classified blocks (the two severity texts are literals of the source) -/
theorem generated_severity_loop_eq (xs : List Bytes) (i : Int) (em wm : List Bytes) :
    Go.forRangeFrom (ρ := Option (Bytes × Bytes × Option (Bytes × Bytes × Bytes) × List Bytes × List Bytes))
      (fun _ rpcerr (errorMessages, warningMessages) => (
        let errStr := rpcerr
        let (errorMessages, warningMessages) := if (isInfix ([60,101,114,114,111,114,45,115,101,118,101,114,105,116,121,62,101,114,114,111,114,60,47,101,114,114,111,114,45,115,101,118,101,114,105,116,121,62] : Bytes) errStr) then (
            let errorMessages := (errorMessages ++ [errStr])
            (errorMessages, warningMessages))
          else if (isInfix ([60,101,114,114,111,114,45,115,101,118,101,114,105,116,121,62,119,97,114,110,105,110,103,60,47,101,114,114,111,114,45,115,101,118,101,114,105,116,121,62] : Bytes) errStr) then (
            let warningMessages := (warningMessages ++ [errStr])
            (errorMessages, warningMessages))
          else (
            (errorMessages, warningMessages))
        .next (errorMessages, warningMessages))) i xs (em, wm)
      = .fin (em ++ (classifyMsgs xs).1, wm ++ (classifyMsgs xs).2) := by
  induction xs generalizing i em wm with
  | nil => simp [Go.forRangeFrom, classifyMsgs]
  | cons x xs ih =>
    simp only [Go.forRangeFrom]
    by_cases he : isInfix sevError x = true
    · have he' : isInfix ([60,101,114,114,111,114,45,115,101,118,101,114,105,116,121,62,101,114,114,111,114,60,47,101,114,114,111,114,45,115,101,118,101,114,105,116,121,62] : Bytes) x = true := he
      simp only [he', if_true]
      rw [ih]
      simp [classifyMsgs, he]
    · have he0 : isInfix sevError x = false := by simpa using he
      have he' : isInfix ([60,101,114,114,111,114,45,115,101,118,101,114,105,116,121,62,101,114,114,111,114,60,47,101,114,114,111,114,45,115,101,118,101,114,105,116,121,62] : Bytes) x = false := he0
      by_cases hw : isInfix sevWarning x = true
      · have hw' : isInfix ([60,101,114,114,111,114,45,115,101,118,101,114,105,116,121,62,119,97,114,110,105,110,103,60,47,101,114,114,111,114,45,115,101,118,101,114,105,116,121,62] : Bytes) x = true := hw
        simp only [he', hw', Bool.false_eq_true, if_false, if_true]
        rw [ih]
        simp [classifyMsgs, he0, hw]
      · have hw0 : isInfix sevWarning x = false := by simpa using hw
        have hw' : isInfix ([60,101,114,114,111,114,45,115,101,118,101,114,105,116,121,62,119,97,114,110,105,110,103,60,47,101,114,114,111,114,45,115,101,118,101,114,105,116,121,62] : Bytes) x = false := hw0
        simp only [he', hw', Bool.false_eq_true, if_false]
        rw [ih]
        simp [classifyMsgs, he0, hw0]

set_option linter.unusedSimpArgs false in
/-- `generated_Record_eq` with the message lists made explicit: on a response whose lists hold `em`
and `wm`, `Record(b)` as translated from the current source appends to them exactly the classified
blocks of `findAllErr b` (`rpcSingleErrors.FindAll`) when a failure marker occurs in the raw bytes,
and leaves them alone otherwise. With `generated_severity_loop_eq` this pins the two severity
texts and the precedence of `error` over `warning` to the model (`classifyMsgs`). -/
theorem generated_Record_messages_eq (fuel : Nat) (errText : Go.Error → Bytes) (input : Bytes) (fwc : List Bytes)
    (findErr : Bytes → Bytes) (findAllErr : Bytes → List Bytes) (raw0 : Bytes) (em wm : List Bytes)
    (v : Version) (b : Bytes) (hf : b.length + Gen.Response.maxChunkSizeCharLen + 2 ≤ fuel) :
    ∃ f, Gen.Bodies.Response.record fuel errText input fwc (verStr v) findErr findAllErr raw0 [] none em wm b
        = some (b, (record fwc v b).result, f,
            em ++ (if containsAny fwc b then (classifyMsgs (findAllErr b)).1 else []),
            wm ++ (if containsAny fwc b then (classifyMsgs (findAllErr b)).2 else []))
      ∧ f.isSome = (record fwc v b).failed := by
  have hne : (Gen.Response.v1Dot1 == Gen.Response.v1Dot0) = false := by decide
  unfold Gen.Bodies.Response.record
  simp only [generated_byteContainsAny_eq, generated_record1dot0_eq]
  have hrec := generated_record1dot1Chunks_eq fuel b [] hf
  have hl := generated_severity_loop_eq (findAllErr b) 0 em wm
  cases v with
  | v10 =>
    by_cases hc : containsAny fwc b = true
    · simp only [hc, if_true, Go.forRange, hl, verStr, beq_self_eq_true, record]
      refine ⟨_, rfl, ?_⟩
      simp
    · have hc' : containsAny fwc b = false := by simpa using hc
      simp only [hc', Bool.false_eq_true, if_false, verStr, beq_self_eq_true, if_true, record, List.append_nil]
      refine ⟨_, rfl, ?_⟩
      cases containsAny fwc (decode10 b) <;> simp
  | v11 =>
    have h11 : ∀ f0 : Option (Bytes × Bytes × Bytes),
        Gen.Bodies.Response.record1dot1 fuel errText input b [] f0
          = some (match decode11 b with
              | .ok res => (res, f0)
              | .error _ => ([], some (input, [], errText (some "errNetconf1Dot1Error")))) := by
      intro f0
      unfold Gen.Bodies.Response.record1dot1
      rw [hrec]
      cases decode11 b <;> simp
    by_cases hc : containsAny fwc b = true
    · simp only [hc, if_true, Go.forRange, hl, verStr, hne, Bool.false_eq_true, if_false, beq_self_eq_true, h11, record]
      cases hd : decode11 b with
      | ok res => exact ⟨_, rfl, by simp⟩
      | error err => exact ⟨_, rfl, by simp⟩
    · have hc' : containsAny fwc b = false := by simpa using hc
      simp only [hc', Bool.false_eq_true, if_false, verStr, hne, beq_self_eq_true, if_true, h11, record, List.append_nil]
      cases hd : decode11 b with
      | ok res =>
        refine ⟨_, rfl, ?_⟩
        cases hca : containsAny fwc res <;> simp [hca]
      | error err => exact ⟨_, rfl, by simp⟩

/-! ## chunk-size tokens: decimal digits only

RFC 6242: `chunk-size = [1-9][0-9]*`. The decoder (strconv.Atoi + the `> 0` guard) is more lenient in
exactly two ways — one leading `+`, and leading zeros — and in no other: a size token that any other
integer syntax would accept (`0x5d`, `0b101`, `0o135`, `9_3`, white space, exponents, non-ASCII
digits, a `-` sign) is a parse error, and a zero-padded token is read in base ten (`011` is eleven). -/

theorem parseDecAux_digits (ds : Bytes) : ∀ (acc n : Nat), parseDecAux acc ds = some n →
    ∀ b ∈ ds, isDigit b = true := by
  induction ds with
  | nil => intro _ _ _ b hb; simp at hb
  | cons d t ih =>
    intro acc n h b hb
    simp only [parseDecAux] at h
    split at h
    · rename_i hd
      simp only [List.mem_cons] at hb
      rcases hb with rfl | hb
      · exact hd
      · exact ih _ _ h b hb
    · simp at h

theorem parseDec_digits (ds : Bytes) (n : Nat) (h : parseDec ds = some n) :
    ds ≠ [] ∧ ∀ b ∈ ds, isDigit b = true := by
  cases ds with
  | nil => simp [parseDec] at h
  | cons d t => exact ⟨by simp, parseDecAux_digits (d :: t) 0 n (by simpa [parseDec] using h)⟩

/-- every size token the decoder accepts is an optional `+` followed by one or more ASCII decimal
digits, read in base ten, with a positive value -/
theorem parseSize_decimal_only (hd : Bytes) (n : Nat) (h : parseSize hd = some n) :
    ∃ ds, (hd = ds ∨ hd = 43 :: ds) ∧ ds ≠ [] ∧ (∀ b ∈ ds, isDigit b = true) ∧
      parseDec ds = some n ∧ 0 < n := by
  have key : ∀ ds : Bytes, ((parseDec ds).bind fun m => if m = 0 then none else some m) = some n →
      ds ≠ [] ∧ (∀ b ∈ ds, isDigit b = true) ∧ parseDec ds = some n ∧ 0 < n := by
    intro ds hds
    cases hp : parseDec ds with
    | none => simp [hp] at hds
    | some m =>
      simp only [hp, Option.bind_some] at hds
      split at hds
      · simp at hds
      · rename_i hm
        simp only [Option.some.injEq] at hds
        subst hds
        obtain ⟨h1, h2⟩ := parseDec_digits ds m hp
        exact ⟨h1, h2, rfl, Nat.pos_of_ne_zero hm⟩
  unfold parseSize at h
  split at h
  · simp at h
  · rename_i ds
    exact ⟨ds, Or.inr rfl, key ds h⟩
  · exact ⟨hd, Or.inl rfl, key hd h⟩

/-- the tokens of the seeded change C02p and their relatives are rejected; a zero-padded token is
decimal -/
example : parseSize (ofStr "0x5d") = none ∧ parseSize (ofStr "0X5D") = none ∧ parseSize (ofStr "0b101") = none
    ∧ parseSize (ofStr "0o135") = none ∧ parseSize (ofStr "9_3") = none ∧ parseSize (ofStr "-5") = none
    ∧ parseSize (ofStr " 5") = none ∧ parseSize (ofStr "5 ") = none ∧ parseSize (ofStr "1e2") = none
    ∧ parseSize (ofStr "٩") = none ∧ parseSize (ofStr "011") = some 11 ∧ parseSize (ofStr "+3") = some 3 := by
  decide +kernel

end Scrapli.Netconf.C02
