import ScrapliModel.Props.C01
import ScrapliModel.Lemmas.ChannelEv
import ScrapliModel.Generated.BodiesRead
/-!
# C01 (also C05, C12) — the `ReadUntil*` loops as the source reads now

The four loops of `channel/read.go` are translated from the source on every run
(`Generated/BodiesRead.lean`) over the event-list semantics of `ScrapliModel/ChannelEv.lean`: one
iteration = one event (`cancelled | err e | empty | chunk bs`); the non-blocking poll of
`ctx.Done()` and `c.Read()` are the two templated external steps, `time.Sleep` is a no-op, the rest
(the append, the predicate with `processReadBuf` / `getProcessReadBufSearchDepth` /
`BytesRoughlyContains` / `bytes.Contains` / the pattern match as a parameter, the early return of
`ReadUntilFuzzy` on an empty input) is ordinary translated code calling the translated helpers.

Each `generated_ReadUntil*_eq` says: for every event list and every fuel larger than its length the
translated loop never panics, never runs out of fuel, and returns exactly what `readUntilEv` returns
with the predicate `Channel.lean` defines (`echoPred` exact / fuzzy, `promptPred`, any-of-prompts).
`readUntilEv_chunks` (Lemmas/ChannelEv) carries the C01 theorems about `readUntil` over.

This module is a separate obligation set (`extra_props`) so that a change of the loops breaks it
without taking the model theorems and the harness down.
-/
namespace Scrapli.Chan.C01
open Scrapli Scrapli.Chan Gen.Bodies.Read

/-! ## model side: chunk-only lists, cancellation, errors -/

/-- (b) on a chunk-only event list the event loop is `readUntil`: what C01 proves about `readUntil`
holds for the loops as they are written -/
theorem readUntilEv_agrees_with_readUntil (P : Bytes → Bool) (cs : List Bytes) (rb : Bytes) :
    readUntilEv P (cs.map .chunk) rb = (readUntil P cs rb).map fun r => (.ok r.1, r.2.map .chunk) :=
  readUntilEv_chunks P cs rb

/-- (c) a cancellation met before completion is returned as such, whatever was read before it -/
theorem readUntilEv_cancelled_after (P : Bytes → Bool) (pre rest : List Ev) (rb : Bytes)
    (hpre : ∀ e ∈ pre, e = .empty ∨ ∃ c, e = .chunk c)
    (hno : ∀ k, 0 < k → k ≤ pre.length → P (rb ++ evBytes (pre.take k)) = false) :
    readUntilEv P (pre ++ .cancelled :: rest) rb = some (.cancelled, rest) := by
  rw [readUntilEv_skip P pre _ rb hpre hno]; rfl

/-- (c) a read error met before completion is returned as such -/
theorem readUntilEv_err_after (P : Bytes → Bool) (e : String) (pre rest : List Ev) (rb : Bytes)
    (hpre : ∀ e ∈ pre, e = .empty ∨ ∃ c, e = .chunk c)
    (hno : ∀ k, 0 < k → k ≤ pre.length → P (rb ++ evBytes (pre.take k)) = false) :
    readUntilEv P (pre ++ .err e :: rest) rb = some (.err e, rest) := by
  rw [readUntilEv_skip P pre _ rb hpre hno]; rfl

/-- (c) never a success across a cancellation or an error: a successful call consumed only empty
polls and chunks -/
theorem readUntilEv_success_clean (P : Bytes → Bool) (evs : List Ev) (rb r : Bytes) (rest : List Ev)
    (h : readUntilEv P evs rb = some (.ok r, rest)) :
    ∃ pre, evs = pre ++ rest ∧ ∀ e ∈ pre, e = .empty ∨ ∃ c, e = .chunk c :=
  readUntilEv_ok_prefix P evs rb r rest h

/-! ## the translated loops -/

theorem window_via_generated (rb : Bytes) (d : Nat) :
    Gen.Bodies.Channel.processReadBuf rb ((d : Nat) : Int) = some (window rb d) :=
  generated_processReadBuf_eq rb d

theorem depth_via_generated (depth : Nat) (b : Bytes) :
    Gen.Bodies.Channel.getProcessReadBufSearchDepth ((depth : Nat) : Int) (Go.len b)
      = ((searchDepth Gen.Channel.inputSearchDepthMultiplier depth b.length : Nat) : Int) :=
  generated_getProcessReadBufSearchDepth_eq depth b.length

set_option linter.unusedSimpArgs false

theorem readUntilPrompt_step (fuel : Nat) (cfg : Cfg) :
    StepSpec (promptPred cfg) (readUntilPrompt_loop1_step fuel cfg) := by
  refine ⟨?_, ?_, ?_, ?_, ?_⟩
  · intro rb; simp [readUntilPrompt_loop1_step]
  · intro es rb; simp [readUntilPrompt_loop1_step, Ev.isCancelled]
  · intro e es rb; simp [readUntilPrompt_loop1_step, Ev.isCancelled, Ev.read]
  · intro es rb; simp [readUntilPrompt_loop1_step, Ev.isCancelled, Ev.read]
  · intro c es rb
    simp only [readUntilPrompt_loop1_step, Ev.isCancelled, Ev.read, window_via_generated, promptPred]
    by_cases h : cfg.promptP (window (rb ++ c) cfg.depth) = true <;> simp [h]

/-- `ReadUntilPrompt`: the translated loop is `readUntilEv` with `promptPred` -/
theorem generated_ReadUntilPrompt_eq (fuel : Nat) (cfg : Cfg) (evs : List Ev) (hf : evs.length + 1 ≤ fuel) :
    readUntilPrompt fuel cfg evs = (readUntilEv (promptPred cfg) evs []).map RRes.encode := by
  unfold readUntilPrompt
  exact forLoop_readUntilEv _ _ (readUntilPrompt_step fuel cfg) evs [] fuel hf

theorem readUntilExplicit_step (fuel : Nat) (cfg : Cfg) (b : Bytes)
    (hm : cfg.mult = Gen.Channel.inputSearchDepthMultiplier) (hx : cfg.exact = true) :
    StepSpec (echoPred cfg b) (readUntilExplicit_loop1_step fuel cfg b) := by
  refine ⟨?_, ?_, ?_, ?_, ?_⟩
  · intro rb; simp [readUntilExplicit_loop1_step]
  · intro es rb; simp [readUntilExplicit_loop1_step, Ev.isCancelled]
  · intro e es rb; simp [readUntilExplicit_loop1_step, Ev.isCancelled, Ev.read]
  · intro es rb; simp [readUntilExplicit_loop1_step, Ev.isCancelled, Ev.read]
  · intro c es rb
    simp only [readUntilExplicit_loop1_step, Ev.isCancelled, Ev.read, depth_via_generated, window_via_generated,
      echoPred, hm, hx]
    by_cases h : isInfix b (window (rb ++ c)
      (searchDepth Gen.Channel.inputSearchDepthMultiplier cfg.depth b.length)) = true <;> simp [h]

/-- `ReadUntilExplicit`: an empty input returns `nil, nil` at once and consumes nothing (as
`ReadUntilFuzzy` does; before the repair of finding C01-empty-command-exact the loop had no such
exit, see `emptyCommand_prefix_loop_blocks`); otherwise the translated loop is `readUntilEv` with
the exact echo predicate — the search depth is recomputed from the *input* length
(`searchDepth mult depth len(b)`) -/
theorem generated_ReadUntilExplicit_eq (fuel : Nat) (cfg : Cfg) (b : Bytes) (evs : List Ev)
    (hm : cfg.mult = Gen.Channel.inputSearchDepthMultiplier) (hx : cfg.exact = true)
    (hf : evs.length + 1 ≤ fuel) :
    readUntilExplicit fuel cfg evs b =
      if b = [] then some ([], none, evs) else (readUntilEv (echoPred cfg b) evs []).map RRes.encode := by
  unfold readUntilExplicit
  cases b with
  | nil => simp [Go.len]
  | cons x t =>
    have h0 : (Go.len (x :: t) == 0) = false := by simp [Go.len]; omega
    simp only [h0, Bool.false_eq_true, if_false, reduceCtorEq]
    exact forLoop_readUntilEv _ _ (readUntilExplicit_step fuel cfg (x :: t) hm hx) evs [] fuel hf

/-- Negative witness for finding C01-empty-command-exact: the loop as it was before the repair —
`readUntilEv` with the exact echo predicate for *every* input, the empty one included — never
returns on an idle device: however many times it polls an empty queue, it is still polling. (With
the empty input its predicate holds of any text, but it is only tested after a chunk arrived, and
a device echoes nothing for an empty input.) -/
theorem emptyCommand_prefix_loop_blocks (cfg : Cfg) (n : Nat) :
    readUntilEv (echoPred cfg []) (List.replicate n Ev.empty) [] = none := by
  induction n with
  | zero => rfl
  | succ k ih => simpa [List.replicate_succ, readUntilEv] using ih

theorem readUntilFuzzy_step (fuel : Nat) (cfg : Cfg) (b : Bytes)
    (hm : cfg.mult = Gen.Channel.inputSearchDepthMultiplier) (hx : cfg.exact = false) :
    StepSpec (echoPred cfg b) (readUntilFuzzy_loop1_step fuel cfg b) := by
  refine ⟨?_, ?_, ?_, ?_, ?_⟩
  · intro rb; simp [readUntilFuzzy_loop1_step]
  · intro es rb; simp [readUntilFuzzy_loop1_step, Ev.isCancelled]
  · intro e es rb; simp [readUntilFuzzy_loop1_step, Ev.isCancelled, Ev.read]
  · intro es rb; simp [readUntilFuzzy_loop1_step, Ev.isCancelled, Ev.read]
  · intro c es rb
    simp only [readUntilFuzzy_loop1_step, Ev.isCancelled, Ev.read, depth_via_generated, window_via_generated,
      generated_bytesRoughlyContains_eq, echoPred, hm, hx]
    by_cases h : roughlyContains b (window (rb ++ c)
      (searchDepth Gen.Channel.inputSearchDepthMultiplier cfg.depth b.length)) = true <;> simp [h]

/-- `ReadUntilFuzzy`: an empty input returns `nil, nil` at once and consumes nothing; otherwise the
translated loop is `readUntilEv` with the fuzzy echo predicate -/
theorem generated_ReadUntilFuzzy_eq (fuel : Nat) (cfg : Cfg) (b : Bytes) (evs : List Ev)
    (hm : cfg.mult = Gen.Channel.inputSearchDepthMultiplier) (hx : cfg.exact = false)
    (hf : evs.length + 1 ≤ fuel) :
    readUntilFuzzy fuel cfg evs b =
      if b = [] then some ([], none, evs) else (readUntilEv (echoPred cfg b) evs []).map RRes.encode := by
  unfold readUntilFuzzy
  cases b with
  | nil => simp [Go.len]
  | cons x t =>
    have h0 : (Go.len (x :: t) == 0) = false := by simp [Go.len]; omega
    simp only [h0, Bool.false_eq_true, if_false, reduceCtorEq]
    exact forLoop_readUntilEv _ _ (readUntilFuzzy_step fuel cfg (x :: t) hm hx) evs [] fuel hf

theorem readUntilAnyPrompt_step (fuel : Nat) (cfg : Cfg) (prompts : List (Bytes → Bool)) :
    StepSpec (anyPromptPred cfg.depth prompts) (readUntilAnyPrompt_loop1_step fuel cfg prompts) := by
  refine ⟨?_, ?_, ?_, ?_, ?_⟩
  · intro rb; simp [readUntilAnyPrompt_loop1_step]
  · intro es rb; simp [readUntilAnyPrompt_loop1_step, Ev.isCancelled]
  · intro e es rb; simp [readUntilAnyPrompt_loop1_step, Ev.isCancelled, Ev.read]
  · intro es rb; simp [readUntilAnyPrompt_loop1_step, Ev.isCancelled, Ev.read]
  · intro c es rb
    simp only [readUntilAnyPrompt_loop1_step, Ev.isCancelled, Ev.read, window_via_generated, Go.forRange,
      anyPromptPred]
    rw [Go.forRangeFrom_find (fun (p : Bytes → Bool) => p (window (rb ++ c) cfg.depth))
      (fun _ => (some (rb ++ c, (none : Go.Error), es))) prompts 0]
    cases hfind : prompts.find? (fun p => p (window (rb ++ c) cfg.depth)) with
    | none =>
      have : (prompts.any fun p => p (window (rb ++ c) cfg.depth)) = false := by
        simpa [List.find?_eq_none] using hfind
      simp [this]
    | some p =>
      have : (prompts.any fun p => p (window (rb ++ c) cfg.depth)) = true := by
        have h1 := List.find?_some hfind
        have h2 := List.mem_of_find?_eq_some hfind
        simp only [List.any_eq_true]
        exact ⟨p, h2, h1⟩
      simp [this]

/-- `ReadUntilAnyPrompt`: the translated loop (with its inner `range` over the patterns) is
`readUntilEv` with "some pattern matches the search window" -/
theorem generated_ReadUntilAnyPrompt_eq (fuel : Nat) (cfg : Cfg) (prompts : List (Bytes → Bool))
    (evs : List Ev) (hf : evs.length + 1 ≤ fuel) :
    readUntilAnyPrompt fuel cfg prompts evs
      = (readUntilEv (anyPromptPred cfg.depth prompts) evs []).map RRes.encode := by
  unfold readUntilAnyPrompt
  exact forLoop_readUntilEv _ _ (readUntilAnyPrompt_step fuel cfg prompts) evs [] fuel hf

end Scrapli.Chan.C01
