import ScrapliModel.Lemmas.Channel
import ScrapliModel.Generated.Consts
import ScrapliModel.Lemmas.GoSem
import ScrapliModel.Generated.BodiesChannel
import ScrapliModel.Lemmas.BodiesUtil
/-!
# C01 — CLI exchanges return exactly the device's output, aligned per command

Model: `ScrapliModel/Channel.lean`. The theorems quantify over every command list, every device
reaction (`Exchange.echo`, `Exchange.resp`), every way those byte streams are cut into reads
(arbitrary chunk lists, empty chunks included), every search depth / multiplier / matching mode /
strip setting / return sequence, and every prompt matcher (`Cfg.promptP`, `Cfg.stripP` are
parameters). Read delays do not appear: the device is causal, so delays only decide *when* a chunk
is seen, never which chunks exist (DESIGN §3 L2).
-/
namespace Scrapli.Chan.C01
open Scrapli Scrapli.Chan

/-- Chunking insensitivity: two arbitrary segmentations of the same stream make any `ReadUntil*`
return the same bytes, namely the whole stream, when its predicate first holds at the end of it. -/
theorem readUntil_chunking_insensitive (P : Bytes → Bool) (c1 c2 : List Bytes)
    (hsame : c1.flatten = c2.flatten) (hne : c1.flatten ≠ []) (h : ExactAt P c1.flatten) :
    (readUntil P c1 []).map Prod.fst = some c1.flatten ∧
    (readUntil P c2 []).map Prod.fst = some c1.flatten := by
  obtain ⟨t1, h1, _⟩ := readUntil_exact P [] c1 [] rfl hne h
  obtain ⟨t2, h2, _⟩ := readUntil_exact P [] c2 [] rfl (hsame ▸ hne) (hsame ▸ h)
  simp only [List.nil_append, List.append_nil] at h1 h2
  rw [h1, h2, hsame]; simp

/-- what the read leaves in the queue is exactly what followed the stream (plus, at most, chunks
that normalisation emptied): nothing of a later exchange is consumed -/
theorem readUntil_leaves_rest (P : Bytes → Bool) (chunks rest : List Bytes)
    (hne : chunks.flatten ≠ []) (h : ExactAt P chunks.flatten) :
    ∃ r q, readUntil P (chunks ++ rest) [] = some (r, q) ∧ r = chunks.flatten ∧
      q.flatten = rest.flatten := by
  obtain ⟨t, ht, htf⟩ := readUntil_exact P [] chunks rest rfl hne h
  refine ⟨_, _, by simpa using ht, rfl, ?_⟩
  simp [htf]

/-- An exchange is well formed for a queue whose left-over content is `stale` when: the command is
not empty; the echo predicate (exact or fuzzy, on the search window) first holds exactly at the end
of `stale ++ echo`; the prompt predicate (on the search window) first holds exactly at the end of
the response. These are the property's "echoes input", "proper prefixes never look like a prompt"
hypotheses, stated on the very predicates the code evaluates. -/
def WellFormed (cfg : Cfg) (stale : List Bytes) (x : Exchange) : Prop :=
  (stale ++ x.echo).flatten ≠ [] ∧
  ExactAt (echoPred cfg x.cmd) (stale ++ x.echo).flatten ∧
  x.resp.flatten ≠ [] ∧
  ExactAt (promptPred cfg) x.resp.flatten

/-- non-vacuity: a two-chunk echo `r#s|h` of the command `sh` and a two-chunk response
`⏎ok|⏎r#` are well formed for a toy prompt matcher ("window ends in #"), also with the stale
prompt `r#` left in the queue by the login -/
def demoCfg : Cfg :=
  { depth := 20, mult := 2, exact := false, strip := true, ret := [LF],
    promptP := fun w => w.getLast? == some 35, stripP := id }

def demoX1 : Exchange := ⟨[115, 104], [[114, 35, 115], [104]], [[10, 111, 107], [10, 114, 35]]⟩
def demoX2 : Exchange := ⟨[115, 104], [[115], [], [104]], [[10, 111, 107, 10, 114], [35]]⟩

example : WellFormed demoCfg [] demoX1 := by unfold WellFormed; decide +kernel
example : WellFormed demoCfg [[114, 35]] demoX2 := by unfold WellFormed; decide +kernel

/-- One send, possibly with stale bytes in the queue (the recovery clause of C05 reuses this):
the result is the processed response of *this* exchange, the queue is drained, and the device was
sent the command and then one return. -/
theorem sendInput_with_stale (cfg : Cfg) (s : Sess) (x : Exchange) (h : WellFormed cfg s.q x) :
    ∃ s', sendInput cfg s x = some (processOut cfg x.resp.flatten, s') ∧
      s'.q.flatten = [] ∧ s'.writes = s.writes ++ [x.cmd, cfg.ret] := by
  obtain ⟨hne1, he, hne2, hp⟩ := h
  obtain ⟨t1, h1, ht1⟩ := readUntil_exact (echoPred cfg x.cmd) [] (s.q ++ x.echo) [] rfl hne1 he
  simp only [List.nil_append, List.append_nil] at h1
  obtain ⟨t2, h2, ht2⟩ := readUntil_exact (promptPred cfg) t1 x.resp [] ht1 hne2 hp
  simp only [List.append_nil] at h2
  refine ⟨{ q := t2, writes := s.writes ++ [x.cmd] ++ [cfg.ret] }, ?_, ht2, by simp⟩
  unfold sendInput
  simp only [h1, h2]

/-- the same from a clean queue -/
theorem sendInput_exact (cfg : Cfg) (s : Sess) (x : Exchange) (hq : s.q.flatten = [])
    (h : WellFormed cfg [] x) :
    ∃ s', sendInput cfg s x = some (processOut cfg x.resp.flatten, s') ∧
      s'.q.flatten = [] ∧ s'.writes = s.writes ++ [x.cmd, cfg.ret] := by
  apply sendInput_with_stale
  unfold WellFormed at h ⊢
  simpa [hq] using h

/-- THE PROPERTY. For every command list and every device/segmentation that is well formed per
exchange: the i-th send returns the processed output of the i-th exchange (never bytes of another
one), the queue is empty at every operation boundary, and the device received exactly
`cmd₁ ⏎ cmd₂ ⏎ …` in order. -/
theorem sendCommands_exact (cfg : Cfg) (xs : List Exchange) (s : Sess) (hq : s.q.flatten = [])
    (h : ∀ x ∈ xs, WellFormed cfg [] x) :
    ∃ s', sendAll cfg s xs = some (xs.map (fun x => processOut cfg x.resp.flatten), s') ∧
      s'.q.flatten = [] ∧
      s'.writes = s.writes ++ xs.flatMap (fun x => [x.cmd, cfg.ret]) := by
  induction xs generalizing s with
  | nil => exact ⟨s, by simp [sendAll], hq, by simp⟩
  | cons x xs ih =>
    obtain ⟨s1, h1, hq1, hw1⟩ := sendInput_exact cfg s x hq (h x (by simp))
    obtain ⟨s2, h2, hq2, hw2⟩ := ih s1 hq1 (fun y hy => h y (by simp [hy]))
    refine ⟨s2, ?_, hq2, ?_⟩
    · simp only [sendAll, h1, h2, List.map_cons]
    · rw [hw2, hw1]; simp

/-! ## normalisation is segmentation independent -/

/-- dropping CR commutes with any segmentation -/
theorem dropCR_flatten (chunks : List Bytes) :
    (chunks.map dropCR).flatten = dropCR chunks.flatten := by
  induction chunks with
  | nil => rfl
  | cons c cs ih => simp [dropCR, List.filter_append] at ih ⊢; exact ih

/-- for reads that carry no ESC byte the enqueued stream is the CR-free device stream, whatever
the cuts (escape sequences are handled by the `StripOK` side condition, checked per case) -/
theorem normalize_no_esc (strip : Bytes → Bytes) (chunks : List Bytes)
    (h : ∀ c ∈ chunks, (dropCR c).contains ESC = false) :
    (chunks.map (normalizeChunk strip)).flatten = dropCR chunks.flatten := by
  have : chunks.map (normalizeChunk strip) = chunks.map dropCR := by
    apply List.map_congr_left
    intro c hc
    have := h c hc
    simp only [normalizeChunk, this]
    simp
  rw [this, dropCR_flatten]

/-! ## the search window -/

theorem window_short (rb : Bytes) (d : Nat) (h : rb.length ≤ d) : window rb d = rb := by
  simp [window, h]

/-- the window is always a suffix of the buffer: the predicate never sees bytes that were not read -/
theorem window_suffix (rb : Bytes) (d : Nat) : ∃ pre, rb = pre ++ window rb d := by
  unfold window
  split
  · exact ⟨[], rfl⟩
  · simp only
    split
    · split
      · rename_i i _ _
        refine ⟨rb.take (rb.length - d) ++ (rb.drop (rb.length - d)).take i, ?_⟩
        rw [List.append_assoc, List.take_append_drop, List.take_append_drop]
      · exact ⟨rb.take (rb.length - d), (List.take_append_drop _ _).symm⟩
    · exact ⟨rb.take (rb.length - d), (List.take_append_drop _ _).symm⟩

theorem window_length_le (rb : Bytes) (d : Nat) : (window rb d).length ≤ max rb.length d := by
  obtain ⟨pre, h⟩ := window_suffix rb d
  have : rb.length = pre.length + (window rb d).length := by
    conv => lhs; rw [h]
    simp
  omega

/-- "Every line is shorter than the search depth", stated without reference to a line splitter:
every run of `d` consecutive bytes of the buffer contains a line feed. -/
def NoLongLine (rb : Bytes) (d : Nat) : Prop :=
  ∀ i, i + d ≤ rb.length → LF ∈ (rb.drop i).take d

/-- With a search depth larger than every line, the window is the whole buffer or starts exactly
at a line feed of the buffer: a `^`-anchored prompt pattern never sees a line cut in the middle. -/
theorem window_starts_at_line_boundary (rb : Bytes) (d : Nat) (h : NoLongLine rb d) :
    window rb d = rb ∨ ∃ pre rest, rb = pre ++ LF :: rest ∧ window rb d = LF :: rest := by
  unfold window
  split
  · exact Or.inl rfl
  · rename_i hlen
    right
    simp only
    have hd : (rb.drop (rb.length - d)).take d = rb.drop (rb.length - d) := by
      apply List.take_of_length_le
      simp; omega
    have hmem : LF ∈ rb.drop (rb.length - d) := by
      have := h (rb.length - d) (by omega)
      rwa [hd] at this
    cases hidx : indexLF (rb.drop (rb.length - d)) with
    | none => exact absurd hmem ((indexLF_none_iff _).mp hidx)
    | some i =>
      obtain ⟨rest, hr⟩ := indexLF_some _ i hidx
      simp only
      split
      · refine ⟨rb.take (rb.length - d) ++ (rb.drop (rb.length - d)).take i, rest, ?_, hr⟩
        rw [List.append_assoc, ← hr, List.take_append_drop, List.take_append_drop]
      · rename_i hi
        have : i = 0 := by omega
        subst this
        simp only [List.drop_zero] at hr
        exact ⟨rb.take (rb.length - d), rest, by rw [← hr, List.take_append_drop], hr⟩

/-- the search depth used while looking for the echo is never smaller than the prompt search depth
nor than `mult ×` the input length (window ≥ 2× input length for the extracted multiplier) -/
theorem searchDepth_ge (mult depth n : Nat) :
    depth ≤ searchDepth mult depth n ∧ mult * n ≤ searchDepth mult depth n := by
  unfold searchDepth; split <;> omega

/-- obligation on the regenerated constant the statement above relies on -/
theorem multiplier_ge_two : 2 ≤ Gen.Channel.inputSearchDepthMultiplier := by decide

/-! ## output post-processing -/

/-- the fuzzy input matcher is exactly the subsequence relation: the echo is accepted iff the
input's bytes occur in the window in order (extra bytes interleaved by the terminal are tolerated,
missing or reordered bytes are not) -/
theorem roughlyContains_iff (input output : Bytes) :
    roughlyContains input output = true ↔ input.Sublist output :=
  roughlyContains_iff_sublist input output

/-- in particular a verbatim echo is accepted in both matching modes, whatever surrounds it -/
theorem verbatim_echo_accepted (cmd pre post : Bytes) :
    roughlyContains cmd (pre ++ cmd ++ post) = true ∧ isInfix cmd (pre ++ cmd ++ post) = true := by
  constructor
  · rw [roughlyContains_iff]
    exact ((List.sublist_append_right pre cmd).trans (List.sublist_append_left _ post))
  · exact isInfix_append cmd pre post

/-! ## tie to the source: translated bodies = model (regenerated on every run) -/

/-- the body of `getProcessReadBufSearchDepth` as the translator renders it from the current source
(`Generated/BodiesChannel.lean`) computes `searchDepth` with the regenerated multiplier, for all
(non-negative) depths and input lengths -/
theorem generated_getProcessReadBufSearchDepth_eq (depth inputLen : Nat) :
    Gen.Bodies.Channel.getProcessReadBufSearchDepth depth inputLen
      = (searchDepth Gen.Channel.inputSearchDepthMultiplier depth inputLen : Nat) := by
  unfold Gen.Bodies.Channel.getProcessReadBufSearchDepth searchDepth
  simp only [gt_iff_lt, decide_eq_true_eq]
  by_cases h : depth < Gen.Channel.inputSearchDepthMultiplier * inputLen
  · have h' : (depth : Int) < (Gen.Channel.inputSearchDepthMultiplier : Int) * (inputLen : Int) := by
      exact_mod_cast h
    simp [h, h']
  · have h' : ¬ (depth : Int) < (Gen.Channel.inputSearchDepthMultiplier : Int) * (inputLen : Int) := by
      exact_mod_cast h
    simp [h, h']

/-- the body of `processReadBuf` as the translator renders it from the current source never indexes
out of range (`some`) and computes exactly `window`, for every buffer and every depth ≥ 0 -/
theorem generated_processReadBuf_eq (rb : Bytes) (d : Nat) :
    Gen.Bodies.Channel.processReadBuf rb d = some (window rb d) := by
  unfold Gen.Bodies.Channel.processReadBuf window
  by_cases h : rb.length ≤ d
  · have h' : Go.len rb ≤ (d : Int) := by simp only [Go.len]; exact_mod_cast h
    simp [h, h']
  · have h' : ¬ Go.len rb ≤ (d : Int) := by simp only [Go.len]; exact_mod_cast h
    have hsub : Go.len rb - (d : Int) = ((rb.length - d : Nat) : Int) := by
      simp only [Go.len]; omega
    simp only [h, h', decide_false, Bool.false_eq_true, if_false, hsub, Go.slice_from]
    have hok : Go.sliceOK (Go.len rb) ((rb.length - d : Nat) : Int) (Go.len rb) = true :=
      Go.sliceOK_from rb _ (by omega)
    simp only [hok, Bool.not_true, Bool.false_eq_true, if_false]
    generalize rb.drop (rb.length - d) = prb
    cases hi : indexLF prb with
    | none => simp [Go.optIdx]
    | some i =>
      have hlt : i < prb.length := by
        obtain ⟨rest, hr⟩ := indexLF_some _ _ hi
        have := congrArg List.length hr
        simp only [List.length_drop, List.length_cons] at this
        omega
      by_cases hpos : i > 0
      · simp [Go.optIdx, hpos, Go.slice_from, Go.sliceOK_from prb i (by omega)]
      · simp [Go.optIdx, hpos]

/-- outside the model's domain (`d : Nat`): with a negative search depth the translated body fails
its bounds test on every buffer — the code panics (`rb[len(rb)-searchDepth:]`, slice bounds out of
range); `WithPromptSearchDepth` does not validate its argument -/
theorem generated_processReadBuf_negative_depth_panics (rb : Bytes) (d : Int) (h : d < 0) :
    Gen.Bodies.Channel.processReadBuf rb d = none := by
  unfold Gen.Bodies.Channel.processReadBuf
  have h0 : (0 : Int) ≤ Go.len rb := by simp [Go.len]
  have h1 : ¬ Go.len rb ≤ d := by omega
  have h2 : Go.sliceOK (Go.len rb) (Go.len rb - d) (Go.len rb) = false := by
    simp only [Go.sliceOK, Bool.and_eq_false_iff, decide_eq_false_iff_not]
    left; right; omega
  simp [h1, h2]

example : Gen.Bodies.Channel.processReadBuf [97, 98, 99] (-1) = none := by decide

/-- the body of `(*Channel).processOut` as the translator renders it from the current source
(`make` + `range` loop with indexed stores, `bytes.Split/TrimRight/Join/Trim`; `PromptPattern.
ReplaceAll(·, nil)` and `ReturnChar` are the `Cfg` fields) never indexes out of range and computes
`processOut`, for every configuration and every buffer -/
theorem generated_processOut_eq (cfg : Cfg) (b : Bytes) :
    Gen.Bodies.Channel.processOut cfg.ret cfg.stripP b cfg.strip = some (processOut cfg b) := by
  unfold Gen.Bodies.Channel.processOut processOut
  have h0 : (0 : Int) ≤ Go.len (splitLF b) := by simp [Go.len]
  simp only [h0, decide_true, Bool.not_true, Bool.false_eq_true, if_false]
  rw [Go.forRange_set_map (ρ := Bytes) rstripSpaces (splitLF b) ([] : Bytes)]
  cases cfg.strip <;> rfl

/-- the inner loop of `util.BytesRoughlyContains` (`bytesRoughlyContainsIterOutputForInputChar`) as
translated from the current source: never out of range; finds the first occurrence of the byte and
returns what follows it -/
theorem generated_bytesRoughlyContainsIterOutputForInputChar_eq (c : UInt8) (out : Bytes) :
    Gen.Bodies.Util.bytesRoughlyContainsIterOutputForInputChar c out
      = some (match afterFirst c out with | some r => (true, r) | none => (false, out)) :=
  iter_eq c out

/-- the body of `util.BytesRoughlyContains` as translated from the current source (both `range`
loops) never indexes out of range and computes `roughlyContains`, for all inputs -/
theorem generated_bytesRoughlyContains_eq (input output : Bytes) :
    Gen.Bodies.Util.bytesRoughlyContains input output = some (roughlyContains input output) := by
  unfold Gen.Bodies.Util.bytesRoughlyContains roughlyContains Go.forRange
  cases hi : isInfix input output
  · have hl : (Go.len output < Go.len input) ↔ output.length < input.length := by
      simp only [Go.len]; omega
    by_cases h : output.length < input.length
    · simp [hl, h]
    · simp only [hl, h, decide_false, Bool.false_eq_true, if_false, Bool.false_or]
      exact outer_loop input output 0
  · simp

end Scrapli.Chan.C01
