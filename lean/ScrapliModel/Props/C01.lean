import ScrapliModel.Lemmas.Channel
import ScrapliModel.ChannelOps
import ScrapliModel.Generated.Consts
import ScrapliModel.Lemmas.GoSem
import ScrapliModel.Generated.BodiesChannel
import ScrapliModel.Lemmas.BodiesUtil
/-!
# C01 — CLI exchanges return exactly the device's output, aligned per command

Model: `ScrapliModel/Channel.lean`. The theorems quantify over every command list, every device
reaction (`Exchange.echo`, `Exchange.resp`), every way those byte streams are cut into reads
(arbitrary chunk lists, empty chunks included), every search depth / multiplier / matching mode /
strip setting / return sequence, and every prompt matcher (`Cfg.promptP`, `Cfg.stripP` are
parameters). Read delays do not appear: the device is causal, so delays only decide *when* a chunk
is seen, never which chunks exist (DESIGN §3 L2).
-/
namespace Scrapli.Chan.C01
open Scrapli Scrapli.Chan

/-- Chunking insensitivity: two arbitrary segmentations of the same stream make any `ReadUntil*`
return the same bytes, namely the whole stream, when its predicate first holds at the end of it. -/
theorem readUntil_chunking_insensitive (P : Bytes → Bool) (c1 c2 : List Bytes)
    (hsame : c1.flatten = c2.flatten) (hne : c1.flatten ≠ []) (h : ExactAt P c1.flatten) :
    (readUntil P c1 []).map Prod.fst = some c1.flatten ∧
    (readUntil P c2 []).map Prod.fst = some c1.flatten := by
  obtain ⟨t1, h1, _⟩ := readUntil_exact P [] c1 [] rfl hne h
  obtain ⟨t2, h2, _⟩ := readUntil_exact P [] c2 [] rfl (hsame ▸ hne) (hsame ▸ h)
  simp only [List.nil_append, List.append_nil] at h1 h2
  rw [h1, h2, hsame]; simp

/-- what the read leaves in the queue is exactly what followed the stream (plus, at most, chunks
that normalisation emptied): nothing of a later exchange is consumed -/
theorem readUntil_leaves_rest (P : Bytes → Bool) (chunks rest : List Bytes)
    (hne : chunks.flatten ≠ []) (h : ExactAt P chunks.flatten) :
    ∃ r q, readUntil P (chunks ++ rest) [] = some (r, q) ∧ r = chunks.flatten ∧
      q.flatten = rest.flatten := by
  obtain ⟨t, ht, htf⟩ := readUntil_exact P [] chunks rest rfl hne h
  refine ⟨_, _, by simpa using ht, rfl, ?_⟩
  simp [htf]

/-- An exchange is well formed for a queue whose left-over content is `stale` when: the command is
not empty; the echo predicate (exact or fuzzy, on the search window) first holds exactly at the end
of `stale ++ echo`; the prompt predicate (on the search window) first holds exactly at the end of
the response. These are the property's "echoes input", "proper prefixes never look like a prompt"
hypotheses, stated on the very predicates the code evaluates. -/
def WellFormed (cfg : Cfg) (stale : List Bytes) (x : Exchange) : Prop :=
  (stale ++ x.echo).flatten ≠ [] ∧
  ExactAt (echoPred cfg x.cmd) (stale ++ x.echo).flatten ∧
  x.resp.flatten ≠ [] ∧
  ExactAt (promptPred cfg) x.resp.flatten

/-- non-vacuity: a two-chunk echo `r#s|h` of the command `sh` and a two-chunk response
`⏎ok|⏎r#` are well formed for a toy prompt matcher ("window ends in #"), also with the stale
prompt `r#` left in the queue by the login -/
def demoCfg : Cfg :=
  { depth := 20, mult := 2, exact := false, strip := true, ret := [LF],
    promptP := fun w => w.getLast? == some 35, stripP := id }

def demoX1 : Exchange := ⟨[115, 104], [[114, 35, 115], [104]], [[10, 111, 107], [10, 114, 35]]⟩
def demoX2 : Exchange := ⟨[115, 104], [[115], [], [104]], [[10, 111, 107, 10, 114], [35]]⟩

example : WellFormed demoCfg [] demoX1 := by unfold WellFormed; decide +kernel
example : WellFormed demoCfg [[114, 35]] demoX2 := by unfold WellFormed; decide +kernel

/-- One send, possibly with stale bytes in the queue (the recovery clause of C05 reuses this):
the result is the processed response of *this* exchange, the queue is drained, and the device was
sent the command and then one return. -/
theorem sendInput_with_stale (cfg : Cfg) (s : Sess) (x : Exchange) (h : WellFormed cfg s.q x) :
    ∃ s', sendInput cfg s x = some (processOut cfg x.resp.flatten, s') ∧
      s'.q.flatten = [] ∧ s'.writes = s.writes ++ [x.cmd, cfg.ret] := by
  obtain ⟨hne1, he, hne2, hp⟩ := h
  obtain ⟨t1, h1, ht1⟩ := readUntil_exact (echoPred cfg x.cmd) [] (s.q ++ x.echo) [] rfl hne1 he
  simp only [List.nil_append, List.append_nil] at h1
  obtain ⟨t2, h2, ht2⟩ := readUntil_exact (promptPred cfg) t1 x.resp [] ht1 hne2 hp
  simp only [List.append_nil] at h2
  refine ⟨{ q := t2, writes := s.writes ++ [x.cmd] ++ [cfg.ret] }, ?_, ht2, by simp⟩
  unfold sendInput
  simp only [h1, h2]

/-- the same from a clean queue -/
theorem sendInput_exact (cfg : Cfg) (s : Sess) (x : Exchange) (hq : s.q.flatten = [])
    (h : WellFormed cfg [] x) :
    ∃ s', sendInput cfg s x = some (processOut cfg x.resp.flatten, s') ∧
      s'.q.flatten = [] ∧ s'.writes = s.writes ++ [x.cmd, cfg.ret] := by
  apply sendInput_with_stale
  unfold WellFormed at h ⊢
  simpa [hq] using h

/-- THE PROPERTY. For every command list and every device/segmentation that is well formed per
exchange: the i-th send returns the processed output of the i-th exchange (never bytes of another
one), the queue is empty at every operation boundary, and the device received exactly
`cmd₁ ⏎ cmd₂ ⏎ …` in order. -/
theorem sendCommands_exact (cfg : Cfg) (xs : List Exchange) (s : Sess) (hq : s.q.flatten = [])
    (h : ∀ x ∈ xs, WellFormed cfg [] x) :
    ∃ s', sendAll cfg s xs = some (xs.map (fun x => processOut cfg x.resp.flatten), s') ∧
      s'.q.flatten = [] ∧
      s'.writes = s.writes ++ xs.flatMap (fun x => [x.cmd, cfg.ret]) := by
  induction xs generalizing s with
  | nil => exact ⟨s, by simp [sendAll], hq, by simp⟩
  | cons x xs ih =>
    obtain ⟨s1, h1, hq1, hw1⟩ := sendInput_exact cfg s x hq (h x (by simp))
    obtain ⟨s2, h2, hq2, hw2⟩ := ih s1 hq1 (fun y hy => h y (by simp [hy]))
    refine ⟨s2, ?_, hq2, ?_⟩
    · simp only [sendAll, h1, h2, List.map_cons]
    · rw [hw2, hw1]; simp

/-! ## GetPrompt, interim prompt patterns, eager sends (model: `ScrapliModel/ChannelOps.lean`) -/

/-- **Interim prompt patterns.** With `InterimPromptPatterns` the second read of a send completes as
soon as the search window matches the channel's prompt pattern OR one of the interim patterns
(first match in stream order, whichever pattern it is); without them, the prompt pattern only. -/
theorem finalPred_eq (cfg : Cfg) (interim : List (Bytes → Bool)) (rb : Bytes) :
    finalPred cfg interim rb
      = (promptPred cfg rb || interim.any fun p => p (window rb cfg.depth)) := by
  unfold finalPred
  cases interim with
  | nil => simp
  | cons p ps => simp [anyPromptPred, promptPred]

/-- the echo read of a command that is not empty is the plain echo read -/
theorem echoRead_eq (cfg : Cfg) (cmd : Bytes) (q : List Bytes) (h : skipsEcho cmd = false) :
    echoRead cfg cmd q = readUntil (echoPred cfg cmd) q [] := by
  simp [echoRead, h]

/-- without options (and unless the echo read is skipped) the optioned send is the plain send the
theorems above are about -/
theorem sendInputO_default (cfg : Cfg) (s : Sess) (x : Exchange) (h : skipsEcho x.cmd = false) :
    sendInputO cfg {} s x = sendInput cfg s x := by
  unfold sendInputO sendInput finalPred
  simp [echoRead_eq, h]
  rfl

/-- Well-formedness of a send with options, for `stale` bytes left in the queue: as `WellFormed`,
but the answer is judged by the completion predicate the options select (`finalPred`: prompt
pattern or any interim pattern, on the search window), an eager send asks nothing of the answer
(it never reads it), and an empty input asks nothing of the echo (it is not read:
whatever is queued is then part of what the second read sees, `sendPre`). -/
def WellFormedO (cfg : Cfg) (o : SendOpts) (stale : Bytes) (x : Exchange) : Prop :=
  (skipsEcho x.cmd = false →
    stale ++ x.echo.flatten ≠ [] ∧ ExactAt (echoPred cfg x.cmd) (stale ++ x.echo.flatten)) ∧
  (o.eager = false → sendPre cfg stale x ++ x.resp.flatten ≠ [] ∧
    ExactAt (finalPred cfg o.interim) (sendPre cfg stale x ++ x.resp.flatten))

/-- Well-formedness of a `GetPrompt`: the prompt predicate first holds exactly at the end of what
the device emits for the bare return (preceded by whatever was left in the queue). -/
def WellFormedP (cfg : Cfg) (stale : Bytes) (resp : List Bytes) : Prop :=
  stale ++ resp.flatten ≠ [] ∧ ExactAt (promptPred cfg) (stale ++ resp.flatten)

/-- a well-formed plain exchange never has the echo read skipped: an empty input is "seen" in the
empty text (in both matching modes), so its echo predicate cannot first hold at the end of a
non-empty one -/
theorem wellFormed_not_skips (cfg : Cfg) (stale : List Bytes) (x : Exchange)
    (h : WellFormed cfg stale x) : skipsEcho x.cmd = false := by
  cases hs : skipsEcho x.cmd with
  | false => rfl
  | true =>
    exfalso
    simp only [skipsEcho, List.isEmpty_iff] at hs
    obtain ⟨hne, he, _⟩ := h
    have hlen : 0 < (stale ++ x.echo).flatten.length := by
      cases hh : (stale ++ x.echo).flatten with
      | nil => exact absurd hh hne
      | cons a t => simp
    have := he.2 0 hlen
    cases hx : cfg.exact <;> simp [echoPred, hs, hx, window, roughlyContains, isInfix] at this

theorem wellFormedO_plain_iff (cfg : Cfg) (stale : List Bytes) (x : Exchange)
    (hs : skipsEcho x.cmd = false) :
    WellFormedO cfg {} stale.flatten x ↔ WellFormed cfg stale x := by
  unfold WellFormedO WellFormed finalPred sendPre
  simp [List.flatten_append, hs, and_assoc]

theorem wellFormedO_of_wellFormed (cfg : Cfg) (stale : List Bytes) (x : Exchange)
    (h : WellFormed cfg stale x) : WellFormedO cfg {} stale.flatten x :=
  (wellFormedO_plain_iff cfg stale x (wellFormed_not_skips cfg stale x h)).mpr h

/-- interim matcher of the examples: "the window ends in `:`" -/
def demoInterim : List (Bytes → Bool) := [fun w => w.getLast? == some 58]

/-- `sh` answered by `⏎ok⏎?:` (an interim prompt, cut after `⏎ok⏎`), `sh` sent eagerly, a bare
return answered by `⏎r|#`, and the empty command answered by `⏎r#` -/
def demoX3 : Exchange := ⟨[115, 104], [[115], [104]], [[10, 111, 107, 10], [63, 58]]⟩
def demoP : List Bytes := [[10, 114], [35]]
def demoX4 : Exchange := ⟨[], [], [[10, 114, 35]]⟩

example : WellFormedO demoCfg { interim := demoInterim } [] demoX3 := by
  unfold WellFormedO; decide +kernel
example : ¬ ExactAt (promptPred demoCfg) demoX3.resp.flatten := by decide +kernel
example : WellFormedO demoCfg { eager := true } [] demoX1 := by unfold WellFormedO; decide +kernel
example : WellFormedO demoCfg {} demoX1.resp.flatten demoX2 := by unfold WellFormedO; decide +kernel
example : WellFormedP demoCfg [] demoP := by unfold WellFormedP; decide +kernel
example : skipsEcho demoX4.cmd = true ∧ WellFormedO demoCfg {} [] demoX4 := by
  unfold WellFormedO; decide +kernel

/-- One send with options and stale bytes in the queue. Not eager: the result is the processed
answer of *this* exchange — everything up to the first point where the prompt pattern or an interim
pattern matches — and the queue is drained. Eager: the result is `processOut` of nothing and the
queue holds exactly the device's answer, untouched. Either way the device was sent the command and
then one return. (`sendPre` is empty unless the input is empty.) -/
theorem sendInputO_with_stale (cfg : Cfg) (o : SendOpts) (s : Sess) (x : Exchange)
    (h : WellFormedO cfg o s.q.flatten x) :
    ∃ s', sendInputO cfg o s x
        = some (if o.eager then processOut cfg []
            else processOut cfg (sendPre cfg s.q.flatten x ++ x.resp.flatten), s') ∧
      s'.q.flatten = (if o.eager then sendPre cfg s.q.flatten x ++ x.resp.flatten else []) ∧
      s'.writes = s.writes ++ [x.cmd, cfg.ret] := by
  obtain ⟨he, hr⟩ := h
  have hfl : (s.q ++ x.echo).flatten = s.q.flatten ++ x.echo.flatten := by simp
  -- the first read: skipped, or exactly `stale ++ echo`
  have h1 : ∃ r t1, echoRead cfg x.cmd (s.q ++ x.echo) = some (r, t1) ∧
      t1.flatten = sendPre cfg s.q.flatten x := by
    cases hs : skipsEcho x.cmd with
    | true => exact ⟨[], s.q ++ x.echo, by simp [echoRead, hs], by simp [sendPre, hs]⟩
    | false =>
      obtain ⟨hne1, he1⟩ := he hs
      obtain ⟨t1, h1, ht1⟩ := readUntil_exact (echoPred cfg x.cmd) [] (s.q ++ x.echo) [] rfl
        (by rw [hfl]; exact hne1) (by rw [hfl]; exact he1)
      simp only [List.nil_append, List.append_nil] at h1
      exact ⟨_, t1, by rw [echoRead_eq cfg _ _ hs, h1], by simp [sendPre, hs, ht1]⟩
  obtain ⟨r, t1, h1, ht1⟩ := h1
  cases heg : o.eager with
  | false =>
    obtain ⟨hne2, hp⟩ := hr heg
    have hfl2 : (t1 ++ x.resp).flatten = sendPre cfg s.q.flatten x ++ x.resp.flatten := by
      simp [ht1]
    obtain ⟨t2, h2, ht2⟩ := readUntil_exact (finalPred cfg o.interim) [] (t1 ++ x.resp) [] rfl
      (by rw [hfl2]; exact hne2) (by rw [hfl2]; exact hp)
    simp only [List.nil_append, List.append_nil] at h2
    refine ⟨{ q := t2, writes := s.writes ++ [x.cmd] ++ [cfg.ret] }, ?_, by simpa using ht2, by simp⟩
    unfold sendInputO
    simp only [h1, h2, heg, hfl2]
    simp
  | true =>
    refine ⟨{ q := t1 ++ x.resp, writes := s.writes ++ [x.cmd] ++ [cfg.ret] }, ?_, by simp [ht1],
      by simp⟩
    unfold sendInputO
    simp only [h1, heg]
    simp

/-- **The empty command** (in both matching modes, since the repair of finding
C01-empty-command-exact): from a drained queue, with a device that echoes nothing for an empty input
and answers the bare return with a well-formed answer, the send returns that answer processed,
leaves the queue empty and writes the empty input and one return. Before the repair this held in
fuzzy mode only: with `ExactMatchInput` the first read had no exit for an empty input and waited for
an echo that cannot come (`emptyCommand_prefix_loop_blocks` in `Props/C01Body.lean` keeps the old
loop's behaviour as a negative witness). -/
def EmptyCommandCompletes (cfg : Cfg) : Prop :=
  ∀ (s : Sess) (resp : List Bytes), s.q.flatten = [] → resp.flatten ≠ [] →
    ExactAt (promptPred cfg) resp.flatten →
    ∃ s', sendInputO cfg {} s ⟨[], [], resp⟩ = some (processOut cfg resp.flatten, s') ∧
      s'.q.flatten = [] ∧ s'.writes = s.writes ++ [[], cfg.ret]

theorem emptyCommand_completes (cfg : Cfg) : EmptyCommandCompletes cfg := by
  intro s resp hq hne hp
  have hsk : skipsEcho ([] : Bytes) = true := rfl
  have hpre : sendPre cfg s.q.flatten ⟨[], [], resp⟩ = [] := by simp [sendPre, hsk, hq]
  have hw : WellFormedO cfg {} s.q.flatten ⟨[], [], resp⟩ := by
    refine ⟨fun h => ?_, fun _ => ?_⟩
    · rw [hsk] at h; exact absurd h (by simp)
    · rw [hpre]; simp only [List.nil_append]
      exact ⟨hne, by simpa [finalPred] using hp⟩
  obtain ⟨s', h1, h2, h3⟩ := sendInputO_with_stale cfg {} s ⟨[], [], resp⟩ hw
  refine ⟨s', ?_, ?_, h3⟩
  · rw [h1, hpre]; simp
  · rw [h2]; simp

/-- the matching mode does not enter: the empty command runs the same way under `ExactMatchInput`
and without it -/
theorem emptyCommand_mode_independent (cfg : Cfg) (o : SendOpts) (s : Sess) (resp echo : List Bytes)
    (m : Bool) :
    (sendInputO { cfg with exact := m } o s ⟨[], echo, resp⟩).map Prod.fst
      = (sendInputO cfg o s ⟨[], echo, resp⟩).map Prod.fst ∧
    (sendInputO { cfg with exact := m } o s ⟨[], echo, resp⟩).map (·.2.q)
      = (sendInputO cfg o s ⟨[], echo, resp⟩).map (·.2.q) := by
  constructor <;> rfl

/-- **GetPrompt.** With `stale` bytes left in the queue, a well-formed `GetPrompt` returns
`PromptPattern.Find` of exactly `stale ++` what the device emitted for the return, drains the queue
and writes one return — nothing else reaches the device. -/
theorem getPrompt_with_stale (cfg : Cfg) (findP : Bytes → Bytes) (s : Sess) (resp : List Bytes)
    (h : WellFormedP cfg s.q.flatten resp) :
    ∃ s', getPrompt cfg findP s resp = some (findP (s.q.flatten ++ resp.flatten), s') ∧
      s'.q.flatten = [] ∧ s'.writes = s.writes ++ [cfg.ret] := by
  obtain ⟨hne, hp⟩ := h
  have hfl : (s.q ++ resp).flatten = s.q.flatten ++ resp.flatten := by simp
  obtain ⟨t, h1, ht⟩ := readUntil_exact (promptPred cfg) [] (s.q ++ resp) [] rfl
    (by rw [hfl]; exact hne) (by rw [hfl]; exact hp)
  simp only [List.nil_append, List.append_nil] at h1
  refine ⟨{ q := t, writes := s.writes ++ [cfg.ret] }, ?_, ht, rfl⟩
  unfold getPrompt
  simp only [h1, hfl]

/-- the Boolean `exactAtB` decides `ExactAt` -/
theorem exactAtB_iff (P : Bytes → Bool) (S : Bytes) : exactAtB P S = true ↔ ExactAt P S := by
  unfold exactAtB ExactAt
  simp only [Bool.and_eq_true, List.all_eq_true, List.mem_range, Bool.not_eq_true']

/-- **GetPrompt answered from the queue** (the situation right after login, or after anything that
left a complete prompt unread): when the bytes left in the queue end in a prompt and no proper
prefix of them does, `GetPrompt` returns `PromptPattern.Find` of exactly those bytes, writes one
return, and everything the device emits for that return stays queued, untouched, for the next
operation (whose echo read swallows it: `sendInputO_with_stale`). -/
theorem getPrompt_from_queue (cfg : Cfg) (findP : Bytes → Bytes) (s : Sess) (resp : List Bytes)
    (h : promptQueued cfg s.q.flatten = true) :
    ∃ s', getPrompt cfg findP s resp = some (findP s.q.flatten, s') ∧
      s'.q.flatten = resp.flatten ∧ s'.writes = s.writes ++ [cfg.ret] := by
  unfold promptQueued at h
  simp only [Bool.and_eq_true, Bool.not_eq_true', List.isEmpty_eq_false_iff, exactAtB_iff] at h
  obtain ⟨t, h1, ht⟩ := readUntil_exact (promptPred cfg) [] s.q resp rfl h.1 h.2
  simp only [List.nil_append] at h1
  refine ⟨{ q := t ++ resp, writes := s.writes ++ [cfg.ret] }, ?_, by simp [ht], rfl⟩
  unfold getPrompt
  simp only [h1]

/-- well-formedness of one operation for `stale` bytes in the queue -/
def WFOp (cfg : Cfg) (stale : Bytes) : ChanOp → Prop
  | .send o x => WellFormedO cfg o stale x
  | .prompt resp => promptQueued cfg stale = true ∨ WellFormedP cfg stale resp

/-- well-formedness of an operation list: each operation for what its predecessor leaves -/
def WFOps (cfg : Cfg) : Bytes → List ChanOp → Prop
  | _, [] => True
  | st, op :: ops => WFOp cfg st op ∧ WFOps cfg (op.leaves cfg st) ops

theorem runOp_exact (cfg : Cfg) (findP : Bytes → Bytes) (s : Sess) (op : ChanOp)
    (h : WFOp cfg s.q.flatten op) :
    ∃ s', runOp cfg findP s op = some (op.spec cfg findP s.q.flatten, s') ∧
      s'.q.flatten = op.leaves cfg s.q.flatten ∧ s'.writes = s.writes ++ op.writes cfg := by
  cases op with
  | send o x => exact sendInputO_with_stale cfg o s x h
  | prompt resp =>
    cases hq : promptQueued cfg s.q.flatten with
    | true =>
      obtain ⟨s', h1, h2, h3⟩ := getPrompt_from_queue cfg findP s resp hq
      exact ⟨s', by simp only [runOp, h1, ChanOp.spec, hq, if_true], by simp only [h2, ChanOp.leaves, hq, if_true], h3⟩
    | false =>
      have hp : WellFormedP cfg s.q.flatten resp := by
        rcases h with h | h
        · rw [hq] at h; exact absurd h (by simp)
        · exact h
      obtain ⟨s', h1, h2, h3⟩ := getPrompt_with_stale cfg findP s resp hp
      exact ⟨s', by simp [runOp, h1, ChanOp.spec, hq], by simp [h2, ChanOp.leaves, hq], h3⟩

/-- THE PROPERTY over mixed sessions: sends (plain, with interim prompt patterns, eager) and
`GetPrompt`s in any order. If every operation is well formed for what its predecessor leaves in
the queue, the i-th operation returns its own specified result (`ChanOp.spec`: the processed answer
of its own exchange / the prompt found in its own answer or in the prompt left queued), the queue
holds exactly what the last operation is specified to leave, and the device received exactly the
operations' writes in order: `cmd ⏎` per send, one `⏎` per `GetPrompt`. -/
theorem runOps_exact (cfg : Cfg) (findP : Bytes → Bytes) (ops : List ChanOp) (s : Sess)
    (h : WFOps cfg s.q.flatten ops) :
    ∃ s', runOps cfg findP s ops = some (specOps cfg findP s.q.flatten ops, s') ∧
      s'.q.flatten = leavesOps cfg s.q.flatten ops ∧
      s'.writes = s.writes ++ ops.flatMap (ChanOp.writes cfg) := by
  induction ops generalizing s with
  | nil => exact ⟨s, rfl, rfl, by simp⟩
  | cons op ops ih =>
    obtain ⟨s1, h1, hq1, hw1⟩ := runOp_exact cfg findP s op h.1
    obtain ⟨s2, h2, hq2, hw2⟩ := ih s1 (by rw [hq1]; exact h.2)
    refine ⟨s2, ?_, ?_, ?_⟩
    · simp only [runOps, h1, h2, specOps, hq1]
    · rw [hq2, hq1]; rfl
    · rw [hw2, hw1]; simp

theorem sendPre_of_not_skips (cfg : Cfg) (st : Bytes) (x : Exchange)
    (h : skipsEcho x.cmd = false) : sendPre cfg st x = [] := by simp [sendPre, h]

theorem skipsEcho_of_ne (cmd : Bytes) (h : cmd ≠ []) : skipsEcho cmd = false := by
  cases cmd with
  | nil => exact absurd rfl h
  | cons a t => simp [skipsEcho]

/-- a list of plain sends (none of them an empty input) is `sendAll`:
`sendCommands_exact` is the instance of `runOps_exact` without `GetPrompt`, interim patterns and
eager sends -/
theorem runOps_sends (cfg : Cfg) (findP : Bytes → Bytes) (xs : List Exchange) (s : Sess)
    (h : ∀ x ∈ xs, skipsEcho x.cmd = false) :
    runOps cfg findP s (xs.map (ChanOp.send {})) = sendAll cfg s xs := by
  induction xs generalizing s with
  | nil => rfl
  | cons x xs ih =>
    simp only [List.map_cons, runOps, runOp, sendInputO_default cfg s x (h x (by simp)), sendAll]
    cases sendInput cfg s x with
    | none => rfl
    | some r => simp only [ih r.2 (fun y hy => h y (by simp [hy]))]; rfl

theorem promptQueued_nil (cfg : Cfg) : promptQueued cfg [] = false := by simp [promptQueued]

/-- **A `GetPrompt` between two commands**: from a drained queue, `cmd₁`, `GetPrompt`, `cmd₂` return
the processed answer of the first exchange, `PromptPattern.Find` of exactly what the device emitted
for the bare return, and the processed answer of the second exchange; the queue is empty afterwards
and the device received `cmd₁ ⏎ ⏎ cmd₂ ⏎`. -/
theorem getPrompt_between_commands (cfg : Cfg) (findP : Bytes → Bytes) (s : Sess) (x1 x2 : Exchange)
    (resp : List Bytes) (hq : s.q.flatten = []) (h1 : WellFormed cfg [] x1)
    (hp : WellFormedP cfg [] resp) (h2 : WellFormed cfg [] x2) :
    ∃ s', runOps cfg findP s [.send {} x1, .prompt resp, .send {} x2]
        = some ([processOut cfg x1.resp.flatten, findP resp.flatten, processOut cfg x2.resp.flatten], s') ∧
      s'.q.flatten = [] ∧
      s'.writes = s.writes ++ [x1.cmd, cfg.ret, cfg.ret, x2.cmd, cfg.ret] := by
  have hs1 := wellFormed_not_skips cfg [] x1 h1
  have hs2 := wellFormed_not_skips cfg [] x2 h2
  have hw : WFOps cfg s.q.flatten [.send {} x1, .prompt resp, .send {} x2] := by
    rw [hq]
    refine ⟨wellFormedO_of_wellFormed cfg [] x1 h1, Or.inr hp, ?_, trivial⟩
    simp only [ChanOp.leaves]
    exact wellFormedO_of_wellFormed cfg [] x2 h2
  obtain ⟨s', hr, hq', hw'⟩ := runOps_exact cfg findP _ s hw
  refine ⟨s', ?_, ?_, ?_⟩
  · rw [hr, hq]
    simp [specOps, ChanOp.spec, ChanOp.leaves, promptQueued_nil, sendPre_of_not_skips, hs1, hs2]
  · rw [hq', hq]; simp [leavesOps, ChanOp.leaves]
  · rw [hw']; simp [ChanOp.writes]

/-- **`GetPrompt` right after login, then a command** (what a network driver does before its first
send): the device's first prompt `login` sits in the queue. `GetPrompt` returns
`PromptPattern.Find login` and leaves the reaction to its return queued; the command's echo read
swallows that reaction, and the command returns exactly its own exchange's processed answer. The
device received `⏎ cmd ⏎`. -/
theorem getPrompt_after_login_then_send (cfg : Cfg) (findP : Bytes → Bytes) (s : Sess) (x : Exchange)
    (resp : List Bytes) (hl : promptQueued cfg s.q.flatten = true) (hx : WellFormed cfg resp x) :
    ∃ s', runOps cfg findP s [.prompt resp, .send {} x]
        = some ([findP s.q.flatten, processOut cfg x.resp.flatten], s') ∧
      s'.q.flatten = [] ∧ s'.writes = s.writes ++ [cfg.ret, x.cmd, cfg.ret] := by
  have hs := wellFormed_not_skips cfg resp x hx
  have hw : WFOps cfg s.q.flatten [.prompt resp, .send {} x] := by
    refine ⟨Or.inl hl, ?_, trivial⟩
    simp only [ChanOp.leaves, hl, if_true]
    exact wellFormedO_of_wellFormed cfg resp x hx
  obtain ⟨s', hr, hq', hw'⟩ := runOps_exact cfg findP _ s hw
  refine ⟨s', ?_, ?_, ?_⟩
  · rw [hr]; simp [specOps, ChanOp.spec, hl, sendPre_of_not_skips, hs]
  · rw [hq']; simp [leavesOps, ChanOp.leaves]
  · rw [hw']; simp [ChanOp.writes]

/-- **An eager send followed by a plain send**: the eager send returns `processOut` of nothing and
leaves the device's whole answer queued; the following send swallows it together with its own echo
(`stale` = that answer) and returns exactly its own exchange's processed answer. -/
theorem eager_then_send (cfg : Cfg) (findP : Bytes → Bytes) (s : Sess) (x1 x2 : Exchange)
    (hq : s.q.flatten = []) (hc : x1.cmd ≠ []) (h1 : WellFormedO cfg { eager := true } [] x1)
    (h2 : WellFormed cfg x1.resp x2) :
    ∃ s', runOps cfg findP s [.send { eager := true } x1, .send {} x2]
        = some ([processOut cfg [], processOut cfg x2.resp.flatten], s') ∧
      s'.q.flatten = [] ∧ s'.writes = s.writes ++ [x1.cmd, cfg.ret, x2.cmd, cfg.ret] := by
  have hs1 := skipsEcho_of_ne x1.cmd hc
  have hs2 := wellFormed_not_skips cfg x1.resp x2 h2
  have hl : ChanOp.leaves cfg [] (.send { eager := true } x1) = x1.resp.flatten := by
    simp [ChanOp.leaves, sendPre_of_not_skips, hs1]
  have hw : WFOps cfg s.q.flatten [.send { eager := true } x1, .send {} x2] := by
    rw [hq]
    refine ⟨h1, ?_, trivial⟩
    rw [hl]
    exact wellFormedO_of_wellFormed cfg x1.resp x2 h2
  obtain ⟨s', hr, hq', hw'⟩ := runOps_exact cfg findP _ s hw
  refine ⟨s', ?_, ?_, ?_⟩
  · rw [hr]; simp [specOps, ChanOp.spec, sendPre_of_not_skips, hs2]
  · rw [hq']; simp [leavesOps, ChanOp.leaves]
  · rw [hw']; simp [ChanOp.writes]

/-- non-vacuity: an eager send, a plain send over what it left, a send stopped by an interim
prompt, the empty command; and the login prompt `r#` answered from the queue followed by a send -/
example : WFOps demoCfg [] [.send { eager := true } demoX1, .send {} demoX2,
    .send { interim := demoInterim } demoX3, .send {} demoX4] := by
  unfold WFOps WFOps WFOps WFOps WFOps WFOp WellFormedO; decide +kernel
example : promptQueued demoCfg [114, 35] = true ∧ WellFormed demoCfg demoP demoX2 := by
  unfold WellFormed; decide +kernel

/-! ## normalisation is segmentation independent -/

/-- dropping CR commutes with any segmentation -/
theorem dropCR_flatten (chunks : List Bytes) :
    (chunks.map dropCR).flatten = dropCR chunks.flatten := by
  induction chunks with
  | nil => rfl
  | cons c cs ih => simp [dropCR, List.filter_append] at ih ⊢; exact ih

/-- for reads that carry no ESC byte the enqueued stream is the CR-free device stream, whatever
the cuts (escape sequences are handled by the `StripOK` side condition, checked per case) -/
theorem normalize_no_esc (strip : Bytes → Bytes) (chunks : List Bytes)
    (h : ∀ c ∈ chunks, (dropCR c).contains ESC = false) :
    (chunks.map (normalizeChunk strip)).flatten = dropCR chunks.flatten := by
  have : chunks.map (normalizeChunk strip) = chunks.map dropCR := by
    apply List.map_congr_left
    intro c hc
    have := h c hc
    simp only [normalizeChunk, this]
    simp
  rw [this, dropCR_flatten]

/-! ## the search window -/

theorem window_short (rb : Bytes) (d : Nat) (h : rb.length ≤ d) : window rb d = rb := by
  simp [window, h]

/-- the window is always a suffix of the buffer: the predicate never sees bytes that were not read -/
theorem window_suffix (rb : Bytes) (d : Nat) : ∃ pre, rb = pre ++ window rb d := by
  unfold window
  split
  · exact ⟨[], rfl⟩
  · simp only
    split
    · split
      · rename_i i _ _
        refine ⟨rb.take (rb.length - d) ++ (rb.drop (rb.length - d)).take i, ?_⟩
        rw [List.append_assoc, List.take_append_drop, List.take_append_drop]
      · exact ⟨rb.take (rb.length - d), (List.take_append_drop _ _).symm⟩
    · exact ⟨rb.take (rb.length - d), (List.take_append_drop _ _).symm⟩

theorem window_length_le (rb : Bytes) (d : Nat) : (window rb d).length ≤ max rb.length d := by
  obtain ⟨pre, h⟩ := window_suffix rb d
  have : rb.length = pre.length + (window rb d).length := by
    conv => lhs; rw [h]
    simp
  omega

/-- "Every line is shorter than the search depth", stated without reference to a line splitter:
every run of `d` consecutive bytes of the buffer contains a line feed. -/
def NoLongLine (rb : Bytes) (d : Nat) : Prop :=
  ∀ i, i + d ≤ rb.length → LF ∈ (rb.drop i).take d

/-- With a search depth larger than every line, the window is the whole buffer or starts exactly
at a line feed of the buffer: a `^`-anchored prompt pattern never sees a line cut in the middle. -/
theorem window_starts_at_line_boundary (rb : Bytes) (d : Nat) (h : NoLongLine rb d) :
    window rb d = rb ∨ ∃ pre rest, rb = pre ++ LF :: rest ∧ window rb d = LF :: rest := by
  unfold window
  split
  · exact Or.inl rfl
  · rename_i hlen
    right
    simp only
    have hd : (rb.drop (rb.length - d)).take d = rb.drop (rb.length - d) := by
      apply List.take_of_length_le
      simp; omega
    have hmem : LF ∈ rb.drop (rb.length - d) := by
      have := h (rb.length - d) (by omega)
      rwa [hd] at this
    cases hidx : indexLF (rb.drop (rb.length - d)) with
    | none => exact absurd hmem ((indexLF_none_iff _).mp hidx)
    | some i =>
      obtain ⟨rest, hr⟩ := indexLF_some _ i hidx
      simp only
      split
      · refine ⟨rb.take (rb.length - d) ++ (rb.drop (rb.length - d)).take i, rest, ?_, hr⟩
        rw [List.append_assoc, ← hr, List.take_append_drop, List.take_append_drop]
      · rename_i hi
        have : i = 0 := by omega
        subst this
        simp only [List.drop_zero] at hr
        exact ⟨rb.take (rb.length - d), rest, by rw [← hr, List.take_append_drop], hr⟩

/-- the search depth used while looking for the echo is never smaller than the prompt search depth
nor than `mult ×` the input length (window ≥ 2× input length for the extracted multiplier) -/
theorem searchDepth_ge (mult depth n : Nat) :
    depth ≤ searchDepth mult depth n ∧ mult * n ≤ searchDepth mult depth n := by
  unfold searchDepth; split <;> omega

/-- obligation on the regenerated constant the statement above relies on -/
theorem multiplier_ge_two : 2 ≤ Gen.Channel.inputSearchDepthMultiplier := by decide

/-! ## output post-processing -/

/-- the fuzzy input matcher is exactly the subsequence relation: the echo is accepted iff the
input's bytes occur in the window in order (extra bytes interleaved by the terminal are tolerated,
missing or reordered bytes are not) -/
theorem roughlyContains_iff (input output : Bytes) :
    roughlyContains input output = true ↔ input.Sublist output :=
  roughlyContains_iff_sublist input output

/-- in particular a verbatim echo is accepted in both matching modes, whatever surrounds it -/
theorem verbatim_echo_accepted (cmd pre post : Bytes) :
    roughlyContains cmd (pre ++ cmd ++ post) = true ∧ isInfix cmd (pre ++ cmd ++ post) = true := by
  constructor
  · rw [roughlyContains_iff]
    exact ((List.sublist_append_right pre cmd).trans (List.sublist_append_left _ post))
  · exact isInfix_append cmd pre post

/-! ## tie to the source: translated bodies = model (regenerated on every run) -/

/-- the body of `getProcessReadBufSearchDepth` as the translator renders it from the current source
(`Generated/BodiesChannel.lean`) computes `searchDepth` with the regenerated multiplier, for all
(non-negative) depths and input lengths -/
theorem generated_getProcessReadBufSearchDepth_eq (depth inputLen : Nat) :
    Gen.Bodies.Channel.getProcessReadBufSearchDepth depth inputLen
      = (searchDepth Gen.Channel.inputSearchDepthMultiplier depth inputLen : Nat) := by
  unfold Gen.Bodies.Channel.getProcessReadBufSearchDepth searchDepth
  simp only [gt_iff_lt, decide_eq_true_eq]
  by_cases h : depth < Gen.Channel.inputSearchDepthMultiplier * inputLen
  · have h' : (depth : Int) < (Gen.Channel.inputSearchDepthMultiplier : Int) * (inputLen : Int) := by
      exact_mod_cast h
    simp [h, h']
  · have h' : ¬ (depth : Int) < (Gen.Channel.inputSearchDepthMultiplier : Int) * (inputLen : Int) := by
      exact_mod_cast h
    simp [h, h']

/-- the body of `processReadBuf` as the translator renders it from the current source never indexes
out of range (`some`) and computes exactly `window`, for every buffer and every depth ≥ 0 -/
theorem generated_processReadBuf_eq (rb : Bytes) (d : Nat) :
    Gen.Bodies.Channel.processReadBuf rb d = some (window rb d) := by
  unfold Gen.Bodies.Channel.processReadBuf window
  by_cases h : rb.length ≤ d
  · have h' : Go.len rb ≤ (d : Int) := by simp only [Go.len]; exact_mod_cast h
    simp [h, h']
  · have h' : ¬ Go.len rb ≤ (d : Int) := by simp only [Go.len]; exact_mod_cast h
    have hsub : Go.len rb - (d : Int) = ((rb.length - d : Nat) : Int) := by
      simp only [Go.len]; omega
    simp only [h, h', decide_false, Bool.false_eq_true, if_false, hsub, Go.slice_from]
    have hok : Go.sliceOK (Go.len rb) ((rb.length - d : Nat) : Int) (Go.len rb) = true :=
      Go.sliceOK_from rb _ (by omega)
    simp only [hok, Bool.not_true, Bool.false_eq_true, if_false]
    generalize rb.drop (rb.length - d) = prb
    cases hi : indexLF prb with
    | none => simp [Go.optIdx]
    | some i =>
      have hlt : i < prb.length := by
        obtain ⟨rest, hr⟩ := indexLF_some _ _ hi
        have := congrArg List.length hr
        simp only [List.length_drop, List.length_cons] at this
        omega
      by_cases hpos : i > 0
      · simp [Go.optIdx, hpos, Go.slice_from, Go.sliceOK_from prb i (by omega)]
      · simp [Go.optIdx, hpos]

/-- outside the model's domain (`d : Nat`): with a negative search depth the translated body fails
its bounds test on every buffer — the code panics (`rb[len(rb)-searchDepth:]`, slice bounds out of
range); `WithPromptSearchDepth` does not validate its argument -/
theorem generated_processReadBuf_negative_depth_panics (rb : Bytes) (d : Int) (h : d < 0) :
    Gen.Bodies.Channel.processReadBuf rb d = none := by
  unfold Gen.Bodies.Channel.processReadBuf
  have h0 : (0 : Int) ≤ Go.len rb := by simp [Go.len]
  have h1 : ¬ Go.len rb ≤ d := by omega
  have h2 : Go.sliceOK (Go.len rb) (Go.len rb - d) (Go.len rb) = false := by
    simp only [Go.sliceOK, Bool.and_eq_false_iff, decide_eq_false_iff_not]
    left; right; omega
  simp [h1, h2]

example : Gen.Bodies.Channel.processReadBuf [97, 98, 99] (-1) = none := by decide

/-- the body of `(*Channel).processOut` as the translator renders it from the current source
(`make` + `range` loop with indexed stores, `bytes.Split/TrimRight/Join/Trim`; `PromptPattern.
ReplaceAll(·, nil)` and `ReturnChar` are the `Cfg` fields) never indexes out of range and computes
`processOut`, for every configuration and every buffer -/
theorem generated_processOut_eq (cfg : Cfg) (b : Bytes) :
    Gen.Bodies.Channel.processOut cfg.ret cfg.stripP b cfg.strip = some (processOut cfg b) := by
  unfold Gen.Bodies.Channel.processOut processOut
  have h0 : (0 : Int) ≤ Go.len (splitLF b) := by simp [Go.len]
  simp only [h0, decide_true, Bool.not_true, Bool.false_eq_true, if_false]
  rw [Go.forRange_set_map (ρ := Bytes) rstripSpaces (splitLF b) ([] : Bytes)]
  cases cfg.strip <;> rfl

/-- the inner loop of `util.BytesRoughlyContains` (`bytesRoughlyContainsIterOutputForInputChar`) as
translated from the current source: never out of range; finds the first occurrence of the byte and
returns what follows it -/
theorem generated_bytesRoughlyContainsIterOutputForInputChar_eq (c : UInt8) (out : Bytes) :
    Gen.Bodies.Util.bytesRoughlyContainsIterOutputForInputChar c out
      = some (match afterFirst c out with | some r => (true, r) | none => (false, out)) :=
  iter_eq c out

/-- the body of `util.BytesRoughlyContains` as translated from the current source (both `range`
loops) never indexes out of range and computes `roughlyContains`, for all inputs -/
theorem generated_bytesRoughlyContains_eq (input output : Bytes) :
    Gen.Bodies.Util.bytesRoughlyContains input output = some (roughlyContains input output) := by
  unfold Gen.Bodies.Util.bytesRoughlyContains roughlyContains Go.forRange
  cases hi : isInfix input output
  · have hl : (Go.len output < Go.len input) ↔ output.length < input.length := by
      simp only [Go.len]; omega
    by_cases h : output.length < input.length
    · simp [hl, h]
    · simp only [hl, h, decide_false, Bool.false_eq_true, if_false, Bool.false_or]
      exact outer_loop input output 0
  · simp

end Scrapli.Chan.C01
