import ScrapliModel.Lemmas.Auth
import ScrapliModel.AuthTable
import ScrapliModel.Generated.Consts
import ScrapliModel.Generated.SshErrors
import ScrapliModel.Generated.Patterns
import ScrapliModel.Regex
/-!
# C10 — In-channel login succeeds iff the device admits us; attempts are bounded

Model: `ScrapliModel/Auth.lean` (`authSSH`, `authTelnet`, `openChannel`), `AuthTable.lean`
(`sshMessageHandler` over the extracted table). The trace-level theorems quantify over EVERY causal
device (`react : σ → Bytes → σ × List Bytes`, any state type `σ`), every initial content of the
read queue and hence every segmentation into reads (the queue is an arbitrary `List Bytes`, empty
chunks included), every matcher (`Pats`) and every credential/limit configuration (`Cfg`). The
dialogue theorems quantify over every scripted dialogue (any number of emissions, each with an
arbitrary segmentation) that is well formed in the sense of `wf`: no read boundary makes a prefix of
an emission look like a prompt, and every emission ends up classified as what the device meant.
-/
namespace Scrapli.Auth.C10
open Scrapli Scrapli.Chan Scrapli.Auth

/-! ## the credentials go only to their own prompt -/

/-- Every write of the user name / password / passphrase made by `Open` is immediately preceded in
the trace by a delivered buffer that matches the user-name / password / passphrase pattern, carries
exactly that credential, and is flagged redacted; every return follows a credential. For all
flavours, devices, queues (segmentations), matchers. -/
theorem credential_only_to_its_prompt {σ : Type} (fl : Flavour) (P : Pats) (cfg : Cfg)
    (react : σ → Bytes → σ × List Bytes) (d : σ) (q : List Bytes) :
    paired P cfg none (openChannel fl P cfg react d q).trace = true := by
  have inv := loop_invariants P (scanOf fl P cfg) (scanOf_sound fl P cfg) cfg react (fuelOf cfg) d
    ⟨0, 0, 0⟩ q [] (by simp [paired]) (by simp) (by intro w _; cases w <;> simp [Cnt.get])
  simp only [openChannel, login_eq_loop]
  split
  · split
    · exact paired_append P cfg _ _ _ inv.1 (by intro p'; simp [paired])
    · exact inv.1
  · exact paired_append P cfg _ _ _ inv.1 (by intro p'; simp [paired])

/-- what `paired … = true` says, spelled out for an arbitrary position of the trace -/
theorem paired_means (P : Pats) (cfg : Cfg) (t pre post : List Ev) (w : What) (data : Bytes)
    (r : Bool) (h : paired P cfg none t = true) (ht : t = pre ++ .write w data r :: post)
    (hw : w ≠ .ret) :
    ∃ pre' b, pre = pre' ++ [.deliver b] ∧ patOf P w b = true ∧ data = credOf cfg w ∧ r = true := by
  subst ht
  obtain ⟨b, hb, rest⟩ := paired_sound_aux P cfg pre none w data r post h hw
  have hl : pre.getLast? = some (.deliver b) := by
    cases hg : pre.getLast? <;> simp_all
  obtain ⟨pre', rfl⟩ := List.getLast?_eq_some_iff.mp hl
  exact ⟨pre', b, rfl, rest⟩

/-! ## attempts are bounded -/

/-- each credential is written at most `*SeenMax` times per `Open` — for all devices, queues,
matchers; the ssh flavour never writes a user name, the telnet flavour never a passphrase -/
theorem attempts_bounded {σ : Type} (fl : Flavour) (P : Pats) (cfg : Cfg)
    (react : σ → Bytes → σ × List Bytes) (d : σ) (q : List Bytes) :
    let t := (openChannel fl P cfg react d q).trace
    countWrites .user t ≤ cfg.uMax ∧ countWrites .pass t ≤ cfg.pMax ∧
      countWrites .phrase t ≤ cfg.ppMax := by
  have inv := loop_invariants P (scanOf fl P cfg) (scanOf_sound fl P cfg) cfg react (fuelOf cfg) d
    ⟨0, 0, 0⟩ q [] (by simp [paired]) (by simp) (by intro w _; cases w <;> simp [Cnt.get])
  have h3 := inv.2.2.1
  have hu := h3 .user (by simp)
  have hp := h3 .pass (by simp)
  have hpp := h3 .phrase (by simp)
  simp only [countWrites, Cnt.get, maxOf, Nat.add_zero, Nat.zero_add] at hu hp hpp
  simp only [openChannel, login_eq_loop]
  split
  · split
    · simp only [countWrites_append, countWrites, Nat.add_zero]; exact ⟨hu, hp, hpp⟩
    · exact ⟨hu, hp, hpp⟩
  · simp only [countWrites_append, countWrites, Nat.add_zero]; exact ⟨hu, hp, hpp⟩

/-- obligations on the regenerated constants: the property fixes "at most twice" -/
theorem usernameSeenMax_is_two : Gen.Channel.usernameSeenMax = 2 := by decide
theorem passwordSeenMax_is_two : Gen.Channel.passwordSeenMax = 2 := by decide
theorem passphraseSeenMax_is_two : Gen.Channel.passphraseSeenMax = 2 := by decide

/-- the configuration the code runs with: limits are the extracted constants -/
def codeCfg (depth : Nat) (ret user pass phrase : Bytes) : Cfg :=
  { depth := depth, ret := ret, user := user, pass := pass, phrase := phrase,
    uMax := Gen.Channel.usernameSeenMax, pMax := Gen.Channel.passwordSeenMax,
    ppMax := Gen.Channel.passphraseSeenMax }

/-- with the constants of the source: at most two writes of each credential per `Open` -/
theorem attempts_at_most_twice {σ : Type} (fl : Flavour) (P : Pats) (depth : Nat)
    (ret user pass phrase : Bytes) (react : σ → Bytes → σ × List Bytes) (d : σ) (q : List Bytes) :
    let t := (openChannel fl P (codeCfg depth ret user pass phrase) react d q).trace
    countWrites .user t ≤ 2 ∧ countWrites .pass t ≤ 2 ∧ countWrites .phrase t ≤ 2 :=
  attempts_bounded fl P (codeCfg depth ret user pass phrase) react d q

/-- the `>`-comparison after the increment really stops at the limit: the model's fuel
(`uMax + pMax + ppMax + 1` answered prompts) is never exhausted -/
theorem login_never_stuck {σ : Type} (fl : Flavour) (P : Pats) (cfg : Cfg)
    (react : σ → Bytes → σ × List Bytes) (d : σ) (q : List Bytes) :
    (openChannel fl P cfg react d q).outcome ≠ .stuck := by
  have h := loop_not_stuck (scanOf fl P cfg) cfg react (fuelOf cfg) d ⟨0, 0, 0⟩ q []
    (Nat.zero_le _) (Nat.zero_le _) (Nat.zero_le _) (by simp [fuelOf])
  simp only [openChannel, login_eq_loop]
  split
  · split <;> simp
  · rename_i o hne
    intro hs
    simp only at hs
    exact h hs

/-! ## every failure closes the transport; a success leaves it open -/

theorem failure_closes_transport {σ : Type} (fl : Flavour) (P : Pats) (cfg : Cfg)
    (react : σ → Bytes → σ × List Bytes) (d : σ) (q : List Bytes) :
    let r := openChannel fl P cfg react d q
    (r.outcome ≠ .ok → r.closed = true ∧ r.trace.getLast? = some .close ∧ countClose r.trace = 1) ∧
    (r.outcome = .ok → r.closed = false ∧ countClose r.trace = 0) := by
  have inv := loop_invariants P (scanOf fl P cfg) (scanOf_sound fl P cfg) cfg react (fuelOf cfg) d
    ⟨0, 0, 0⟩ q [] (by simp [paired]) (by simp) (by intro w _; cases w <;> simp [Cnt.get])
  have hc := countClose_login _ inv.2.1
  simp only [openChannel, login_eq_loop]
  split
  · split
    · simp [countClose_append, hc, countClose]
    · simp [hc]
  · rename_i o hne
    refine ⟨fun _ => ⟨rfl, by simp, by simp [countClose_append, hc, countClose]⟩, ?_⟩
    intro h
    simp only at h
    exact absurd h hne

/-- with auth bypass (or a transport without in-channel authentication) `Open` writes nothing —
no credential leaves the client whatever the device shows — succeeds, leaves the transport open and
leaves every byte the device sent in the queue for the first operation -/
theorem no_auth_is_inert {σ : Type} (d : σ) (q : List Bytes) :
    (openNoAuth d q).trace = [] ∧ (openNoAuth d q).outcome = .ok ∧
    (openNoAuth d q).closed = false ∧ (openNoAuth d q).queue = q := ⟨rfl, rfl, rfl, rfl⟩

/-! ## what login read stays available -/

/-- On success the bytes the login loop consumed since the last credential (they end in the
device's prompt: the prompt pattern matches them) are put back at the head of the queue, in front
of whatever arrived later; so the first prompt search (`ReadUntilPrompt`, as in `GetPrompt`) returns
them at once, provided they fit the search depth. -/
theorem login_bytes_requeued {σ : Type} (fl : Flavour) (P : Pats) (cfg : Cfg)
    (react : σ → Bytes → σ × List Bytes) (d : σ) (q : List Bytes)
    (h : (openChannel fl P cfg react d q).outcome = .ok) :
    ∃ b rest, P.promptP b = true ∧ (login fl P cfg react d q).buf = b ∧
      (login fl P cfg react d q).queue = rest ∧
      (b ≠ [] → (openChannel fl P cfg react d q).queue = b :: rest ∧
        (b.length ≤ cfg.depth →
          readUntil (fun rb => P.promptP (window rb cfg.depth)) (b :: rest) [] = some (b, rest))) := by
  have inv := loop_invariants P (scanOf fl P cfg) (scanOf_sound fl P cfg) cfg react (fuelOf cfg) d
    ⟨0, 0, 0⟩ q [] (by simp [paired]) (by simp) (by intro w _; cases w <;> simp [Cnt.get])
  have hok : (login fl P cfg react d q).outcome = .ok := by
    simp only [openChannel] at h
    split at h
    · assumption
    · rename_i o hne
      simp only at h
      exact absurd h hne
  rw [login_eq_loop] at hok ⊢
  have hp := inv.2.2.2 hok
  refine ⟨_, _, hp, rfl, rfl, ?_⟩
  intro hne
  have hlen : (loop (scanOf fl P cfg) cfg react (fuelOf cfg) d ⟨0, 0, 0⟩ q []).buf.length > 0 := by
    cases hb : (loop (scanOf fl P cfg) cfg react (fuelOf cfg) d ⟨0, 0, 0⟩ q []).buf with
    | nil => exact absurd hb hne
    | cons x t => simp
  constructor
  · simp only [openChannel, login_eq_loop, hok, hlen, if_true]
  · intro hd
    have hw : window (loop (scanOf fl P cfg) cfg react (fuelOf cfg) d ⟨0, 0, 0⟩ q []).buf cfg.depth =
        (loop (scanOf fl P cfg) cfg react (fuelOf cfg) d ⟨0, 0, 0⟩ q []).buf := by
      simp [window, hd]
    simp only [readUntil, List.nil_append, hw, hp, if_true]

/-! ## success iff the device admits us -/

/-- THE PROPERTY for dialogues. For every flavour, matcher, configuration and every scripted
dialogue (greeting `first`, then one emission per received line) that is well formed as segmented:
the outcome of `Open` is exactly what the specification computes from the device's own account of
the dialogue (`spec`: shell prompt → success; a credential asked once more than its limit → auth
error; ssh failure text → connection error; silence → timeout), the device received exactly the
credential lines the specification lists (each credential at its own prompt, in order), and the
transport is closed iff `Open` failed. -/
theorem open_succeeds_iff_admitted (fl : Flavour) (P : Pats) (cfg : Cfg) (first : Stage)
    (rest : List Stage) (hwf : wfOf fl P cfg first rest = true) :
    let r := openScript fl P cfg first rest
    let want := spec cfg 0 0 0 first.kind (rest.map (·.kind))
    r.outcome = want ∧
    credLines r.trace = specLines cfg 0 0 0 first.kind (rest.map (·.kind)) ∧
    (r.closed = true ↔ want ≠ .ok) := by
  have hs := loop_script (stopOf fl P cfg) (clsOf fl P) (scanOf fl P cfg) (scanOf_reads fl P cfg) cfg
    (fuelOf cfg) rest ⟨0, 0, 0⟩ first.chunks first.kind [] hwf (Nat.zero_le _) (Nat.zero_le _)
    (Nat.zero_le _) (by simp [fuelOf])
  simp only [credLines, List.nil_append] at hs
  obtain ⟨ho, hl⟩ := hs
  simp only [openScript, openChannel, login_eq_loop]
  split
  · rename_i hok
    rw [hok] at ho
    split
    · refine ⟨ho, ?_, ?_⟩
      · simpa [credLines_append, credLines] using hl
      · simp [← ho]
    · exact ⟨ho, hl, by simp [← ho]⟩
  · rename_i o hne
    refine ⟨ho, ?_, ?_⟩
    · simpa [credLines_append, credLines] using hl
    · simp only [true_iff]
      rw [← ho]
      exact hne

/-- "the device admits us", in words: `spec … = ok` iff the dialogue is a run of credential
prompts, each credential asked for at most its limit (twice), followed by a shell prompt -/
theorem admitted_iff (cfg : Cfg) (k : Kind) (rest : List Kind) :
    spec cfg 0 0 0 k rest = .ok ↔
      ∃ asks tail, k :: rest = asks ++ .prompt :: tail ∧ (∀ a ∈ asks, a.isAsk = true) ∧
        asks.count .user ≤ cfg.uMax ∧ asks.count .pass ≤ cfg.pMax ∧
        asks.count .phrase ≤ cfg.ppMax := by
  have := specL_ok_iff cfg (k :: rest) 0 0 0 (Nat.zero_le _) (Nat.zero_le _) (Nat.zero_le _)
  simpa [specL] using this

/-- one prompt too many → authentication error: after credential prompts within their limits, a
prompt for a credential that was already asked for `limit` times -/
theorem third_prompt_is_auth_error (cfg : Cfg) (asks tail : List Kind) (a : Kind)
    (hall : ∀ x ∈ asks, x.isAsk = true)
    (hu : asks.count .user ≤ cfg.uMax) (hp : asks.count .pass ≤ cfg.pMax)
    (hpp : asks.count .phrase ≤ cfg.ppMax)
    (hover : (a = .user ∧ asks.count .user = cfg.uMax) ∨ (a = .pass ∧ asks.count .pass = cfg.pMax) ∨
      (a = .phrase ∧ asks.count .phrase = cfg.ppMax)) :
    specL cfg 0 0 0 (asks ++ a :: tail) = .auth := by
  rw [specL_asks cfg asks _ 0 0 0 hall (by omega) (by omega) (by omega)]
  rcases hover with ⟨rfl, h⟩ | ⟨rfl, h⟩ | ⟨rfl, h⟩
  · simp [specL_cons, spec_user, h]
  · simp [specL_cons, spec_pass, h]
  · simp [specL_cons, spec_phrase, h]

/-- ssh failure text → connection error, silence → timeout, shell prompt → success, after any run
of credential prompts within their limits -/
theorem terminal_outcomes (cfg : Cfg) (asks tail : List Kind)
    (hall : ∀ x ∈ asks, x.isAsk = true)
    (hu : asks.count .user ≤ cfg.uMax) (hp : asks.count .pass ≤ cfg.pMax)
    (hpp : asks.count .phrase ≤ cfg.ppMax) :
    specL cfg 0 0 0 (asks ++ .err :: tail) = .connection ∧
    specL cfg 0 0 0 (asks ++ .quiet :: tail) = .timeout ∧
    specL cfg 0 0 0 (asks ++ []) = .timeout ∧
    specL cfg 0 0 0 (asks ++ .prompt :: tail) = .ok := by
  refine ⟨?_, ?_, ?_, ?_⟩ <;>
    rw [specL_asks cfg asks _ 0 0 0 hall (by omega) (by omega) (by omega)] <;>
    simp [specL, spec]

/-! ## segmentation insensitivity of one login read -/

/-- Text-level statement behind `wf`: let `S` be the text of an emission (after what was left in
the queue). If from position `k0` on every prefix of `S` makes the loop's stop test fire and is
classified as `K` (the prompt is complete at `k0`; trailing blanks do not spoil it), then for any two
segmentations of `S` none of whose read boundaries before `k0` fires the test, both reads stop, at
buffers that are prefixes of `S` of length ≥ `k0`, both classified `K` — the loop takes the same
action whatever the segmentation. -/
theorem scan_segmentation_insensitive (stop : Bytes → Bool) (cls : Bytes → Kind) (K : Kind)
    (c1 c2 rest1 rest2 : List Bytes) (k0 : Nat)
    (hsame : c1.flatten = c2.flatten) (hk0 : 0 < k0) (hk1 : k0 ≤ c1.flatten.length)
    (hlate : ∀ k, k0 ≤ k → k ≤ c1.flatten.length →
      stop (c1.flatten.take k) = true ∧ cls (c1.flatten.take k) = K)
    (he1 : ∀ i, 1 ≤ i → i ≤ c1.length → (c1.take i).flatten.length < k0 →
      stop (c1.take i).flatten = false)
    (he2 : ∀ i, 1 ≤ i → i ≤ c2.length → (c2.take i).flatten.length < k0 →
      stop (c2.take i).flatten = false) :
    ∃ b1 q1 b2 q2, readUntil stop (c1 ++ rest1) [] = some (b1, q1 ++ rest1) ∧
      readUntil stop (c2 ++ rest2) [] = some (b2, q2 ++ rest2) ∧
      cls b1 = K ∧ cls b2 = K ∧ b1 ++ q1.flatten = c1.flatten ∧ b2 ++ q2.flatten = c1.flatten ∧
      k0 ≤ b1.length ∧ k0 ≤ b2.length := by
  obtain ⟨i, hi1, hi2, hi3, hi4⟩ := readUntil_stops stop c1 rest1 [] k0 (by simpa using hk0)
    (by simpa using hk1) (by simpa using he1) (by intro k a b; simpa using (hlate k a (by simpa using b)).1)
  obtain ⟨j, hj1, hj2, hj3, hj4⟩ := readUntil_stops stop c2 rest2 [] k0 (by simpa using hk0)
    (by simpa [← hsame] using hk1) (by simpa using he2)
    (by intro k a b; rw [← hsame] at b ⊢; simpa using (hlate k a (by simpa using b)).1)
  simp only [List.nil_append] at hi3 hi4 hj3 hj4
  have e1 : (c1.take i).flatten = c1.flatten.take (c1.take i).flatten.length := by
    conv => rhs; rw [← List.take_append_drop i c1, List.flatten_append]
    simp
  have e2 : (c2.take j).flatten = c1.flatten.take (c2.take j).flatten.length := by
    rw [hsame]
    conv => rhs; rw [← List.take_append_drop j c2, List.flatten_append]
    simp
  have l1 : (c1.take i).flatten.length ≤ c1.flatten.length := by
    conv => rhs; rw [← List.take_append_drop i c1, List.flatten_append]
    simp
  have l2 : (c2.take j).flatten.length ≤ c1.flatten.length := by
    rw [hsame]
    conv => rhs; rw [← List.take_append_drop j c2, List.flatten_append]
    simp
  refine ⟨_, _, _, _, hi4, hj4, ?_, ?_, ?_, ?_, hi3, hj3⟩
  · rw [e1]; exact (hlate _ hi3 l1).2
  · rw [e2]; exact (hlate _ hj3 l2).2
  · rw [← List.flatten_append, List.take_append_drop]
  · rw [← List.flatten_append, List.take_append_drop, hsame]

/-! ## the ssh failure-message table (regenerated from `sshMessageHandler`) -/

/-- the extractor understood the whole function -/
theorem table_fully_parsed : Gen.SshErrors.unparsed = [] := by decide

/-- a recognised failure message is reported as a CONNECTION error -/
theorem table_error_class : Gen.SshErrors.errClass = "ErrConnectionError" := by decide

/-- the failure texts the property lists are recognised by the extracted table, in the spelling
OpenSSH prints them (case-insensitively), even when the regex component never matches -/
theorem listed_failures_recognised :
    let rx : String → Bytes → Bool := fun _ _ => false
    -- "Host key verification failed."
    sshErrGen rx [72,111,115,116,32,107,101,121,32,118,101,114,105,102,105,99,97,116,105,111,110,32,102,97,105,108,101,100,46] = true ∧
    -- "Connection timed out"
    sshErrGen rx [67,111,110,110,101,99,116,105,111,110,32,116,105,109,101,100,32,111,117,116] = true ∧
    -- "Operation timed out"
    sshErrGen rx [79,112,101,114,97,116,105,111,110,32,116,105,109,101,100,32,111,117,116] = true ∧
    -- "No route to host"
    sshErrGen rx [78,111,32,114,111,117,116,101,32,116,111,32,104,111,115,116] = true ∧
    -- "no matching key exchange method found."
    sshErrGen rx [110,111,32,109,97,116,99,104,105,110,103,32,107,101,121,32,101,120,99,104,97,110,103,101,32,109,101,116,104,111,100,32,102,111,117,110,100,46] = true ∧
    -- "no matching cipher found."
    sshErrGen rx [110,111,32,109,97,116,99,104,105,110,103,32,99,105,112,104,101,114,32,102,111,117,110,100,46] = true ∧
    -- "no matching host key type found."
    sshErrGen rx [110,111,32,109,97,116,99,104,105,110,103,32,104,111,115,116,32,107,101,121,32,116,121,112,101,32,102,111,117,110,100,46] = true ∧
    -- "Bad configuration option: foo"
    sshErrGen rx [66,97,100,32,99,111,110,102,105,103,117,114,97,116,105,111,110,32,111,112,116,105,111,110,58,32,102,111,111] = true ∧
    -- "WARNING: UNPROTECTED PRIVATE KEY FILE!"
    sshErrGen rx [87,65,82,78,73,78,71,58,32,85,78,80,82,79,84,69,67,84,69,68,32,80,82,73,86,65,84,69,32,75,69,89,32,70,73,76,69,33] = true ∧
    -- "Could not resolve hostname h"
    sshErrGen rx [67,111,117,108,100,32,110,111,116,32,114,101,115,111,108,118,101,32,104,111,115,116,110,97,109,101,32,104] = true ∧
    -- "Permission denied (publickey)."
    sshErrGen rx [80,101,114,109,105,115,115,105,111,110,32,100,101,110,105,101,100,32,40,112,117,98,108,105,99,107,101,121,41,46] = true := by
  decide +kernel

/-- the regex component can only add errors: whatever pattern matcher is plugged in, a text
recognised without it stays recognised -/
theorem table_mono (rx : String → Bytes → Bool) (b : Bytes)
    (h : sshErrGen (fun _ _ => false) b = true) : sshErrGen rx b = true := by
  simp only [sshErrGen, sshErrOf] at h ⊢
  generalize (if Gen.SshErrors.lowered = true then toLowerAscii b else b) = nb at h ⊢
  cases hr : List.find? (fun r => r.triggers.any fun t => isInfix t nb) Gen.SshErrors.table with
  | none => simp [hr] at h
  | some r =>
    simp only [hr] at h ⊢
    unfold rowErrs at h ⊢
    cases hm : r.appendRx <;> simp_all

/-! ## the prompt spellings the property names are accepted by the extracted patterns -/

/-- obligations on the regenerated regex terms (kernel evaluation of the regex engine): the
spellings of the login prompts the property lists match their own pattern — also behind a banner
and with a trailing blank — and a banner line that merely contains `login:` / `password:` mid-line,
or another prompt, does not -/
theorem spellings_accepted :
    -- username 'Username:'
    Rx.isMatch Gen.Rx.Channel.«username» [85,115,101,114,110,97,109,101,58] = true ∧
    -- username 'Username: '
    Rx.isMatch Gen.Rx.Channel.«username» [85,115,101,114,110,97,109,101,58,32] = true ∧
    -- username 'login:'
    Rx.isMatch Gen.Rx.Channel.«username» [108,111,103,105,110,58] = true ∧
    -- username 'login: '
    Rx.isMatch Gen.Rx.Channel.«username» [108,111,103,105,110,58,32] = true ∧
    -- username 'Welcome\nrouter login: '
    Rx.isMatch Gen.Rx.Channel.«username» [87,101,108,99,111,109,101,10,114,111,117,116,101,114,32,108,111,103,105,110,58,32] = true ∧
    -- password 'Password:'
    Rx.isMatch Gen.Rx.Channel.«password» [80,97,115,115,119,111,114,100,58] = true ∧
    -- password 'Password: '
    Rx.isMatch Gen.Rx.Channel.«password» [80,97,115,115,119,111,114,100,58,32] = true ∧
    -- password "admin@host's password:"
    Rx.isMatch Gen.Rx.Channel.«password» [97,100,109,105,110,64,104,111,115,116,39,115,32,112,97,115,115,119,111,114,100,58] = true ∧
    -- password "admin@host's password: "
    Rx.isMatch Gen.Rx.Channel.«password» [97,100,109,105,110,64,104,111,115,116,39,115,32,112,97,115,115,119,111,114,100,58,32] = true ∧
    -- password 'motd\nPassword: '
    Rx.isMatch Gen.Rx.Channel.«password» [109,111,116,100,10,80,97,115,115,119,111,114,100,58,32] = true ∧
    -- passphrase "Enter passphrase for key '/x':"
    Rx.isMatch Gen.Rx.Channel.«passphrase» [69,110,116,101,114,32,112,97,115,115,112,104,114,97,115,101,32,102,111,114,32,107,101,121,32,39,47,120,39,58] = true ∧
    -- passphrase "Enter passphrase for key '/home/u/.ssh/id_ed25519': "
    Rx.isMatch Gen.Rx.Channel.«passphrase» [69,110,116,101,114,32,112,97,115,115,112,104,114,97,115,101,32,102,111,114,32,107,101,121,32,39,47,104,111,109,101,47,117,47,46,115,115,104,47,105,100,95,101,100,50,53,53,49,57,39,58,32] = true ∧
    -- promptPattern 'router#'
    Rx.isMatch Gen.Rx.Channel.«promptPattern» [114,111,117,116,101,114,35] = true ∧
    -- promptPattern 'banner line\nr1> '
    Rx.isMatch Gen.Rx.Channel.«promptPattern» [98,97,110,110,101,114,32,108,105,110,101,10,114,49,62,32] = true ∧
    -- promptPattern 'user@box:/$'
    Rx.isMatch Gen.Rx.Channel.«promptPattern» [117,115,101,114,64,98,111,120,58,47,36] = true ∧
    -- username 'Last login: Tue Sep 30 from 10.0.0.1\n'
    Rx.isMatch Gen.Rx.Channel.«username» [76,97,115,116,32,108,111,103,105,110,58,32,84,117,101,32,83,101,112,32,51,48,32,102,114,111,109,32,49,48,46,48,46,48,46,49,10] = false ∧
    -- username 'Password: '
    Rx.isMatch Gen.Rx.Channel.«username» [80,97,115,115,119,111,114,100,58,32] = false ∧
    -- password '*** password: will expire ***\n'
    Rx.isMatch Gen.Rx.Channel.«password» [42,42,42,32,112,97,115,115,119,111,114,100,58,32,119,105,108,108,32,101,120,112,105,114,101,32,42,42,42,10] = false ∧
    -- password 'login: '
    Rx.isMatch Gen.Rx.Channel.«password» [108,111,103,105,110,58,32] = false ∧
    -- promptPattern 'Welcome to the lab\n'
    Rx.isMatch Gen.Rx.Channel.«promptPattern» [87,101,108,99,111,109,101,32,116,111,32,116,104,101,32,108,97,98,10] = false ∧
    -- promptPattern 'Password: '
    Rx.isMatch Gen.Rx.Channel.«promptPattern» [80,97,115,115,119,111,114,100,58,32] = false ∧
    -- promptPattern 'login:'
    Rx.isMatch Gen.Rx.Channel.«promptPattern» [108,111,103,105,110,58] = false := by
  decide +kernel

/-! ## the hypotheses are satisfiable: concrete dialogues with toy matchers -/

section examples

/-- toy matchers on single marker bytes: `#`=35 prompt, `U`=85 user, `P`=80 password, `K`=75
passphrase, `!`=33 ssh failure; each looks at the LAST byte only except the failure marker -/
def toyP : Pats :=
  { promptP := fun b => b.getLast? == some 35, userP := fun b => b.getLast? == some 85,
    passP := fun b => b.getLast? == some 80, phraseP := fun b => b.getLast? == some 75,
    sshErr := fun b => b.contains 33 }

def toyCfg : Cfg :=
  { depth := 1000, ret := [10], user := [117], pass := [112], phrase := [107],
    uMax := 2, pMax := 2, ppMax := 2 }

/-- telnet: banner cut in two reads, `U`, echo + `P`, rejection: `U` again, `P` again, shell:
well formed, succeeds, and the device got user, pass, user, pass -/
example :
    let first : Stage := ⟨.user, [[98, 97], [110, 10, 85]]⟩
    let rest : List Stage := [⟨.pass, [[117, 10], [80]]⟩, ⟨.user, [[10, 85]]⟩, ⟨.pass, [[10, 80]]⟩,
      ⟨.prompt, [[10, 114], [35]]⟩]
    wfOf .telnet toyP toyCfg first rest = true ∧
    (openScript .telnet toyP toyCfg first rest).outcome = .ok ∧
    credLines (openScript .telnet toyP toyCfg first rest).trace =
      [(.user, [117]), (.pass, [112]), (.user, [117]), (.pass, [112])] := by decide

/-- ssh: passphrase, password, password, password (third time) → auth error, transport closed -/
example :
    let first : Stage := ⟨.phrase, [[75]]⟩
    let rest : List Stage := [⟨.pass, [[10, 80]]⟩, ⟨.pass, [[10], [80]]⟩, ⟨.pass, [[10, 80]]⟩,
      ⟨.quiet, []⟩]
    wfOf .ssh toyP toyCfg first rest = true ∧
    (openScript .ssh toyP toyCfg first rest).outcome = .auth ∧
    (openScript .ssh toyP toyCfg first rest).closed = true := by decide

/-- the bound is per open, whatever comes in between: user, password, password (the device re-asks on
its own), user, password — the THIRD password prompt is refused with an auth error although a
user-name prompt came in between; the device got the password exactly twice; transport closed -/
example :
    let first : Stage := ⟨.user, [[85]]⟩
    let rest : List Stage := [⟨.pass, [[117, 10, 80]]⟩, ⟨.pass, [[10, 80]]⟩, ⟨.user, [[10], [85]]⟩,
      ⟨.pass, [[117, 10, 80]]⟩, ⟨.prompt, [[10, 114, 35]]⟩]
    wfOf .telnet toyP toyCfg first rest = true ∧
    spec toyCfg 0 0 0 first.kind (rest.map (·.kind)) = .auth ∧
    (openScript .telnet toyP toyCfg first rest).outcome = .auth ∧
    (openScript .telnet toyP toyCfg first rest).closed = true ∧
    countWrites .pass (openScript .telnet toyP toyCfg first rest).trace = 2 ∧
    credLines (openScript .telnet toyP toyCfg first rest).trace =
      [(.user, [117]), (.pass, [112]), (.pass, [112]), (.user, [117])] := by decide

/-- ssh: failure text → connection error; silence after the password → timeout -/
example :
    wfOf .ssh toyP toyCfg ⟨.err, [[115, 33, 10]]⟩ [] = true ∧
    (openScript .ssh toyP toyCfg ⟨.err, [[115, 33, 10]]⟩ []).outcome = .connection ∧
    wfOf .ssh toyP toyCfg ⟨.pass, [[80]]⟩ [⟨.quiet, [[10, 120]]⟩] = true ∧
    (openScript .ssh toyP toyCfg ⟨.pass, [[80]]⟩ [⟨.quiet, [[10, 120]]⟩]).outcome = .timeout := by
  decide

/-- a segmentation that cuts a banner so that its prefix looks like a prompt is NOT well formed
(banner `aUb`, cut after `U`), and the code does then answer the pseudo-prompt -/
example :
    wfOf .telnet toyP toyCfg ⟨.prompt, [[97, 85], [98, 10, 35]]⟩ [] = false ∧
    credLines (openScript .telnet toyP toyCfg ⟨.prompt, [[97, 85], [98, 10, 35]]⟩ []).trace =
      [(.user, [117])] := by decide

/-- hypotheses of `scan_segmentation_insensitive` hold for `xP ` (prompt, then a blank) cut two
ways, with a stop test that tolerates the trailing blank (`k0 = 2`) -/
example :
    let stop : Bytes → Bool := fun b => b == [120, 80] || b == [120, 80, 32]
    let c1 : List Bytes := [[120], [80], [32]]
    let c2 : List Bytes := [[120, 80, 32]]
    c1.flatten = c2.flatten ∧ (∀ k, k < 4 → 2 ≤ k → stop (c1.flatten.take k) = true) ∧
    (∀ i, i < 4 → 1 ≤ i → (c1.take i).flatten.length < 2 → stop (c1.take i).flatten = false) ∧
    (∀ i, i < 2 → 1 ≤ i → (c2.take i).flatten.length < 2 → stop (c2.take i).flatten = false) := by
  decide

end examples

end Scrapli.Auth.C10
