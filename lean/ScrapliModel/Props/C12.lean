import ScrapliModel.Lemmas.Interactive
/-!
# C12 — Interactive dialogues are paced by the device; secrets go only to their prompt

Model: `ScrapliModel/Interactive.lean` (on top of the channel layer of C01). Every theorem
quantifies over the device (`σ`, `dev`: any causal state machine, including the way its output is
cut into reads), the initial queue content, the event list, the complete patterns and every
pattern predicate. A run is recorded as one `Seg` per processed event; `Run.trace` is the flat
interleaving of `write` and `deliver` events (`Seg.trace`: input write, echo deliveries, return
write, response deliveries).
-/
namespace Scrapli.Inter.C12
open Scrapli Scrapli.Chan Scrapli.Inter

variable {σ : Type}

/-! ## pacing -/

/-- Whenever a further input `g'` was written, the previous event's return had been written and the
bytes delivered after that return (and before the new input) matched — as `ReadUntilAnyPrompt`
evaluates it — the previous event's expected response (the prompt when it has none) or a complete
pattern, and no complete pattern matched them as a whole. -/
theorem input_after_expected_response (cfg : Cfg) (complete : List (Bytes → Bool)) (dev : Dev σ)
    (evs : List Event) (s : St σ) (pre : List Seg) (g g' : Seg) (post : List Seg)
    (h : (sendInteractive cfg complete dev evs s).segs = pre ++ g :: g' :: post) :
    ∃ e e', evs[pre.length]? = some e ∧ evs[pre.length + 1]? = some e' ∧
      g.input = e.input ∧ g'.input = e'.input ∧ g'.hidden = e'.hidden ∧
      g.ret = some cfg.ret ∧ RespMatched cfg complete e g.resp.flatten ∧
      ¬ Completed complete g.resp.flatten := by
  simp only [sendInteractive] at h
  obtain ⟨e, s1, l1, he, hl1, hg, hc⟩ := loop_seg_at cfg complete dev evs s [] pre g _ h
  have h' : (loop cfg complete dev evs s []).segs = (pre ++ [g]) ++ g' :: post := by simp [h]
  obtain ⟨e', s2, l2, he', _, hg', _⟩ := loop_seg_at cfg complete dev evs s [] _ g' _ h'
  simp only [List.length_append, List.length_cons, List.length_nil] at he'
  have hlt : pre.length + 1 < evs.length := by
    rcases Nat.lt_or_ge (pre.length + 1) evs.length with h | h
    · exact h
    · rw [List.getElem?_eq_none (by omega)] at he'; simp at he'
  have hl : l1 = false := hl1.mpr hlt
  have hcont := hc (by simp)
  have hok := step_ok cfg complete dev l1 e s1 (by rw [hcont]; simp)
  refine ⟨e, e', he, he', ?_, ?_, ?_, ?_, ?_, ?_⟩
  · rw [hg]; exact step_input ..
  · rw [hg']; exact step_input ..
  · rw [hg']; exact step_hidden ..
  · rw [hg]; exact hok.1
  · rw [hg]; exact hok.2.1
  · rw [hg]; exact step_cont cfg complete dev l1 e s1 hcont hl

/-- Early completion: once the bytes delivered after an event's return match a complete pattern
(and the event is not the last one — for the last one there is nothing further anyway), no further
input is written. -/
theorem no_input_after_completion (cfg : Cfg) (complete : List (Bytes → Bool)) (dev : Dev σ)
    (evs : List Event) (s : St σ) (pre : List Seg) (g : Seg) (post : List Seg)
    (h : (sendInteractive cfg complete dev evs s).segs = pre ++ g :: post)
    (hc : Completed complete g.resp.flatten) : post = [] := by
  cases post with
  | nil => rfl
  | cons g' post' =>
    obtain ⟨_, _, _, _, _, _, _, _, _, hn⟩ :=
      input_after_expected_response cfg complete dev evs s pre g g' post' h
    exact absurd hc hn

/-- With complete patterns that are sound on the search window (`WindowSound`), the match that
licensed the next input is the event's own expected response (or the prompt). -/
theorem input_after_own_response (cfg : Cfg) (complete : List (Bytes → Bool)) (dev : Dev σ)
    (evs : List Event) (s : St σ) (pre : List Seg) (g g' : Seg) (post : List Seg)
    (hw : WindowSound cfg complete)
    (h : (sendInteractive cfg complete dev evs s).segs = pre ++ g :: g' :: post) :
    ∃ e, evs[pre.length]? = some e ∧
      (e.resp.getD cfg.promptP) (window g.resp.flatten cfg.depth) = true := by
  obtain ⟨e, _, he, _, _, _, _, _, hm, hn⟩ :=
    input_after_expected_response cfg complete dev evs s pre g g' post h
  refine ⟨e, he, ?_⟩
  simp only [RespMatched, anyPred, List.any_append, List.any_cons, List.any_nil, Bool.or_false,
    Bool.or_eq_true] at hm
  rcases hm with hm | hm
  · exfalso
    apply hn
    simp only [List.any_eq_true] at hm
    obtain ⟨p, hp, hpw⟩ := hm
    simp only [Completed, List.any_eq_true]
    exact ⟨p, hp, hw p hp _ hpw⟩
  · exact hm

/-! ## echo handling -/

/-- For every processed event: a hidden input, or one without expected response, is followed by
its return at once — no echo read, no delivery between input and return. For a visible input with
an expected response the return is written only after the echo read completed on exactly the
chunks delivered in between (`EchoSeen`). -/
theorem hidden_not_awaited (cfg : Cfg) (complete : List (Bytes → Bool)) (dev : Dev σ)
    (evs : List Event) (s : St σ) (pre : List Seg) (g : Seg) (post : List Seg)
    (h : (sendInteractive cfg complete dev evs s).segs = pre ++ g :: post) :
    ∃ e, evs[pre.length]? = some e ∧ g.input = e.input ∧ g.hidden = e.hidden ∧
      ((e.hidden = true ∨ e.resp.isSome = false) → g.echo = [] ∧ g.ret = some cfg.ret) ∧
      ((e.hidden = false ∧ e.resp.isSome = true) → g.ret = some cfg.ret →
        EchoSeen cfg e.input g.echo) ∧
      (g.ret = none ∨ g.ret = some cfg.ret) := by
  simp only [sendInteractive] at h
  obtain ⟨e, s1, l1, he, _, hg, _⟩ := loop_seg_at cfg complete dev evs s [] pre g _ h
  refine ⟨e, he, ?_, ?_, ?_, ?_, ?_⟩
  · rw [hg]; exact step_input ..
  · rw [hg]; exact step_hidden ..
  · intro hh
    rw [hg]
    apply step_unawaited
    rcases hh with hh | hh <;> simp [echoAwaited, hh]
  · intro hh hr
    rw [hg] at hr ⊢
    exact step_echo cfg complete dev l1 e s1 (by simp [echoAwaited, hh.1, hh.2]) hr
  · rw [hg]; exact step_ret_cases ..

/-- A plain command (`SendInput`), eager or not, with or without interim prompts: the run is one
segment, and its return is written only after the echo read completed. -/
theorem plain_return_after_echo (cfg : Cfg) (eager : Bool) (interim : List (Bytes → Bool))
    (dev : Dev σ) (s : St σ) (cmd : Bytes) :
    ∃ g, (sendInput cfg eager interim dev s cmd).segs = [g] ∧ g.input = cmd ∧ g.hidden = false ∧
      (g.ret = none ∨ g.ret = some cfg.ret) ∧
      (g.ret = some cfg.ret → EchoSeen cfg cmd g.echo) ∧
      (eager = true → g.resp = []) := by
  unfold sendInput
  dsimp only
  split
  · exact ⟨_, rfl, rfl, rfl, Or.inl rfl, by simp, fun _ => rfl⟩
  · rename_i h1
    have hs := echoRead_seen cfg cmd (s.write dev cmd).q (by simpa using h1)
    split
    · exact ⟨_, rfl, rfl, rfl, Or.inr rfl, fun _ => hs, fun _ => rfl⟩
    · rename_i h2
      exact ⟨_, rfl, rfl, rfl, Or.inr rfl, fun _ => hs, fun h => absurd h h2⟩

/-! ## the result -/

theorem loop_result (cfg : Cfg) (complete : List (Bytes → Bool)) (dev : Dev σ)
    (evs : List Event) (s : St σ) (b x : Bytes)
    (h : (loop cfg complete dev evs s b).res = some x) :
    x = b ++ deliveredOf (loop cfg complete dev evs s b).trace := by
  induction evs generalizing s b with
  | nil => simp [loop, Run.trace, deliveredOf] at h ⊢; exact h.symm
  | cons e es ih =>
    simp only [loop, Run.trace] at h ⊢
    have hseg : ∀ o : StepOut σ, o.seg.ret = some cfg.ret →
        deliveredOf o.seg.trace = o.seg.echo.flatten ++ o.seg.resp.flatten := by
      intro o hr
      simp [Seg.trace, hr, deliveredOf]
    split at h
    · simp at h
    · rename_i hd
      have hok := step_ok cfg complete dev es.isEmpty e s (by rw [hd]; simp)
      simp only [Option.some.injEq] at h
      simp only [hd, List.flatMap_cons, List.flatMap_nil, List.append_nil]
      rw [hseg _ hok.1, ← hok.2.2, h]
    · rename_i hc
      have hok := step_ok cfg complete dev es.isEmpty e s (by rw [hc]; simp)
      have := ih _ _ h
      simp only [hc, List.flatMap_cons, deliveredOf_append]
      rw [hseg _ hok.1, ← hok.2.2, this]
      simp [Run.trace, List.append_assoc]

/-- The result of a successful `SendInteractive` is the post-processing (`processOut`, prompt kept)
of **everything delivered during the operation**, in order: every chunk that any of its reads
dequeued — echoes and responses of all processed events — and nothing else. -/
theorem result_is_whole_dialogue (cfg : Cfg) (complete : List (Bytes → Bool)) (dev : Dev σ)
    (evs : List Event) (s : St σ) (x : Bytes)
    (h : (sendInteractive cfg complete dev evs s).res = some x) :
    x = processOut (outCfg cfg) (deliveredOf (sendInteractive cfg complete dev evs s).trace) := by
  simp only [sendInteractive, Option.map_eq_some_iff] at h
  obtain ⟨y, hy, hx⟩ := h
  have := loop_result cfg complete dev evs s [] y hy
  simp only [List.nil_append] at this
  rw [← hx, this]
  rfl

end Scrapli.Inter.C12
