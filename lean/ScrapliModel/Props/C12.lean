import ScrapliModel.Lemmas.Interactive
import ScrapliModel.Generated.C12
/-!
# C12 — Interactive dialogues are paced by the device; secrets go only to their prompt

Model: `ScrapliModel/Interactive.lean` (on top of the channel layer of C01). Every theorem
quantifies over the device (`σ`, `dev`: any causal state machine, including the way its output is
cut into reads), the initial queue content, the event list, the complete patterns and every
pattern predicate. A run is recorded as one `Seg` per processed event; `Run.trace` is the flat
interleaving of `write` and `deliver` events (`Seg.trace`: input write, echo deliveries, return
write, response deliveries).

* pacing: `input_after_expected_response`, `no_input_after_completion`, `input_after_own_response`
  (under `WindowSound`), `writes_follow_script`, and the flat-trace form `every_write_licensed`;
* echo: `hidden_not_awaited`, `plain_return_after_echo` (plain `SendInput`, eager or not);
* result: `result_is_whole_dialogue`;
* escalation: `secret_only_after_password_prompt`, `secret_after_escalate_prompt` (under
  `WindowSound`), `secret_never_at_level_prompt`;
* tie to the source: `escalate_source_shape`, `escalate_model_shape` (regenerated facts);
* completeness for well-formed dialogues under every segmentation: `dialogue_exact`.
-/
namespace Scrapli.Inter.C12
open Scrapli Scrapli.Chan Scrapli.Inter

variable {σ : Type}

/-! ## pacing -/

/-- Whenever a further input `g'` was written, the previous event's return had been written and the
bytes delivered after that return (and before the new input) matched — as `ReadUntilAnyPrompt`
evaluates it — the previous event's expected response (the prompt when it has none) or a complete
pattern, and no complete pattern matched them as a whole. -/
theorem input_after_expected_response (cfg : Cfg) (complete : List (Bytes → Bool)) (dev : Dev σ)
    (evs : List Event) (s : St σ) (pre : List Seg) (g g' : Seg) (post : List Seg)
    (h : (sendInteractive cfg complete dev evs s).segs = pre ++ g :: g' :: post) :
    ∃ e e', evs[pre.length]? = some e ∧ evs[pre.length + 1]? = some e' ∧
      g.input = e.input ∧ g'.input = e'.input ∧ g'.hidden = e'.hidden ∧
      g.ret = some cfg.ret ∧ RespMatched cfg complete e g.resp.flatten ∧
      ¬ Completed complete g.resp.flatten := by
  simp only [sendInteractive] at h
  obtain ⟨e, s1, l1, he, hl1, hg, hc⟩ := loop_seg_at cfg complete dev evs s [] pre g _ h
  have h' : (loop cfg complete dev evs s []).segs = (pre ++ [g]) ++ g' :: post := by simp [h]
  obtain ⟨e', s2, l2, he', _, hg', _⟩ := loop_seg_at cfg complete dev evs s [] _ g' _ h'
  simp only [List.length_append, List.length_cons, List.length_nil] at he'
  have hlt : pre.length + 1 < evs.length := by
    rcases Nat.lt_or_ge (pre.length + 1) evs.length with h | h
    · exact h
    · rw [List.getElem?_eq_none (by omega)] at he'; simp at he'
  have hl : l1 = false := hl1.mpr hlt
  have hcont := hc (by simp)
  have hok := step_ok cfg complete dev l1 e s1 (by rw [hcont]; simp)
  refine ⟨e, e', he, he', ?_, ?_, ?_, ?_, ?_, ?_⟩
  · rw [hg]; exact step_input ..
  · rw [hg']; exact step_input ..
  · rw [hg']; exact step_hidden ..
  · rw [hg]; exact hok.1
  · rw [hg]; exact hok.2.1
  · rw [hg]; exact step_cont cfg complete dev l1 e s1 hcont hl

/-- Early completion: once the bytes delivered after an event's return match a complete pattern
(and the event is not the last one — for the last one there is nothing further anyway), no further
input is written. -/
theorem no_input_after_completion (cfg : Cfg) (complete : List (Bytes → Bool)) (dev : Dev σ)
    (evs : List Event) (s : St σ) (pre : List Seg) (g : Seg) (post : List Seg)
    (h : (sendInteractive cfg complete dev evs s).segs = pre ++ g :: post)
    (hc : Completed complete g.resp.flatten) : post = [] := by
  cases post with
  | nil => rfl
  | cons g' post' =>
    obtain ⟨_, _, _, _, _, _, _, _, _, hn⟩ :=
      input_after_expected_response cfg complete dev evs s pre g g' post' h
    exact absurd hc hn

/-- With complete patterns that are sound on the search window (`WindowSound`), the match that
licensed the next input is the event's own expected response (or the prompt). -/
theorem input_after_own_response (cfg : Cfg) (complete : List (Bytes → Bool)) (dev : Dev σ)
    (evs : List Event) (s : St σ) (pre : List Seg) (g g' : Seg) (post : List Seg)
    (hw : WindowSound cfg complete)
    (h : (sendInteractive cfg complete dev evs s).segs = pre ++ g :: g' :: post) :
    ∃ e, evs[pre.length]? = some e ∧
      (e.resp.getD cfg.promptP) (window g.resp.flatten cfg.depth) = true := by
  obtain ⟨e, _, he, _, _, _, _, _, hm, hn⟩ :=
    input_after_expected_response cfg complete dev evs s pre g g' post h
  refine ⟨e, he, ?_⟩
  simp only [RespMatched, anyPred, List.any_append, List.any_cons, List.any_nil, Bool.or_false,
    Bool.or_eq_true] at hm
  rcases hm with hm | hm
  · exfalso
    apply hn
    simp only [List.any_eq_true] at hm
    obtain ⟨p, hp, hpw⟩ := hm
    simp only [Completed, List.any_eq_true]
    exact ⟨p, hp, hw p hp _ hpw⟩
  · exact hm

/-! ## order of writes -/

theorem seg_writes (g : Seg) :
    writesOf g.trace = g.input :: (match g.ret with | none => [] | some r => [r]) := by
  cases hr : g.ret <;> simp [Seg.trace, hr, writesOf]

theorem loop_writes (cfg : Cfg) (complete : List (Bytes → Bool)) (dev : Dev σ)
    (evs : List Event) (s : St σ) (b : Bytes) :
    writesOf (loop cfg complete dev evs s b).trace <+: evs.flatMap fun e => [e.input, cfg.ret] := by
  induction evs generalizing s b with
  | nil => simp [loop, Run.trace, writesOf]
  | cons e es ih =>
    have hi := step_input cfg complete dev es.isEmpty e s
    have hone : ∀ l : List Bytes,
        writesOf (stepEvent cfg complete dev es.isEmpty e s).seg.trace <+: e.input :: cfg.ret :: l := by
      intro l
      rw [seg_writes, hi]
      rcases step_ret_cases cfg complete dev es.isEmpty e s with hr | hr <;> rw [hr]
      · exact ⟨cfg.ret :: l, rfl⟩
      · exact ⟨l, rfl⟩
    simp only [loop, Run.trace, List.flatMap_cons]
    split
    · simpa using hone _
    · simpa using hone _
    · rename_i hc
      have hok := step_ok cfg complete dev es.isEmpty e s (by rw [hc]; simp)
      simp only [List.flatMap_cons, writesOf_append, seg_writes, hi, hok.1, List.cons_append,
        List.nil_append]
      have := ih (stepEvent cfg complete dev es.isEmpty e s).st
        (b ++ (stepEvent cfg complete dev es.isEmpty e s).b)
      simp only [Run.trace] at this
      obtain ⟨t, ht⟩ := this
      exact ⟨t, by simp [← ht]⟩

/-- What is written, in order, is a prefix of `input₁ ⏎ input₂ ⏎ …`: inputs are never reordered,
repeated or skipped, and each return follows its own input. -/
theorem writes_follow_script (cfg : Cfg) (complete : List (Bytes → Bool)) (dev : Dev σ)
    (evs : List Event) (s : St σ) :
    writesOf (sendInteractive cfg complete dev evs s).trace <+:
      evs.flatMap fun e => [e.input, cfg.ret] :=
  loop_writes cfg complete dev evs s []


/-! ## echo handling -/

/-- For every processed event: a hidden input, or one without expected response, is followed by
its return at once — no echo read, no delivery between input and return. For a visible input with
an expected response the return is written only after the echo read completed on exactly the
chunks delivered in between (`EchoSeen`). -/
theorem hidden_not_awaited (cfg : Cfg) (complete : List (Bytes → Bool)) (dev : Dev σ)
    (evs : List Event) (s : St σ) (pre : List Seg) (g : Seg) (post : List Seg)
    (h : (sendInteractive cfg complete dev evs s).segs = pre ++ g :: post) :
    ∃ e, evs[pre.length]? = some e ∧ g.input = e.input ∧ g.hidden = e.hidden ∧
      ((e.hidden = true ∨ e.resp.isSome = false) → g.echo = [] ∧ g.ret = some cfg.ret) ∧
      ((e.hidden = false ∧ e.resp.isSome = true) → g.ret = some cfg.ret →
        EchoSeen cfg e.input g.echo) ∧
      (g.ret = none ∨ g.ret = some cfg.ret) := by
  simp only [sendInteractive] at h
  obtain ⟨e, s1, l1, he, _, hg, _⟩ := loop_seg_at cfg complete dev evs s [] pre g _ h
  refine ⟨e, he, ?_, ?_, ?_, ?_, ?_⟩
  · rw [hg]; exact step_input ..
  · rw [hg]; exact step_hidden ..
  · intro hh
    rw [hg]
    apply step_unawaited
    rcases hh with hh | hh <;> simp [echoAwaited, hh]
  · intro hh hr
    rw [hg] at hr ⊢
    exact step_echo cfg complete dev l1 e s1 (by simp [echoAwaited, hh.1, hh.2]) hr
  · rw [hg]; exact step_ret_cases ..

/-- A plain command (`SendInput`), eager or not, with or without interim prompts: the run is one
segment, and its return is written only after the echo read completed. -/
theorem plain_return_after_echo (cfg : Cfg) (eager : Bool) (interim : List (Bytes → Bool))
    (dev : Dev σ) (s : St σ) (cmd : Bytes) :
    ∃ g, (sendInput cfg eager interim dev s cmd).segs = [g] ∧ g.input = cmd ∧ g.hidden = false ∧
      (g.ret = none ∨ g.ret = some cfg.ret) ∧
      (g.ret = some cfg.ret → EchoSeen cfg cmd g.echo) ∧
      (eager = true → g.resp = []) := by
  unfold sendInput
  dsimp only
  split
  · exact ⟨_, rfl, rfl, rfl, Or.inl rfl, by simp, fun _ => rfl⟩
  · rename_i h1
    have hs := echoRead_seen cfg cmd (s.write dev cmd).q (by simpa using h1)
    split
    · exact ⟨_, rfl, rfl, rfl, Or.inr rfl, fun _ => hs, fun _ => rfl⟩
    · rename_i h2
      exact ⟨_, rfl, rfl, rfl, Or.inr rfl, fun _ => hs, fun h => absurd h h2⟩

/-! ## the same on the flat trace -/

/-- FLAT-TRACE FORM. Every write of every `SendInteractive` trace is licensed by what precedes it
in the trace: it is the very first event; or it is a return, directly preceded by its input and the
deliveries `E` of the completed echo read (none when no echo read is due); or it is a further input,
directly preceded by a return and deliveries `D` that matched the expected response / prompt / a
complete pattern of some event while no complete pattern matched `D` as a whole. -/
theorem every_write_licensed (cfg : Cfg) (complete : List (Bytes → Bool)) (dev : Dev σ)
    (evs : List Event) (s : St σ) (pre post : List Ev) (x : Bytes) (r : Bool)
    (h : (sendInteractive cfg complete dev evs s).trace = pre ++ Ev.write x r :: post) :
    pre = [] ∨
    (∃ pre' y ry E, pre = pre' ++ Ev.write y ry :: dels E ∧ x = cfg.ret ∧ r = false ∧
      (E = [] ∨ EchoSeen cfg y E)) ∨
    (∃ pre' D e, e ∈ evs ∧ pre = pre' ++ Ev.write cfg.ret false :: dels D ∧
      RespMatched cfg complete e D.flatten ∧ ¬ Completed complete D.flatten) := by
  simp only [Run.trace] at h
  obtain ⟨lp, g, ls, p0, s0, e1, e2, e3, _⟩ := flatMap_split Seg.trace _ pre post _ h
  rcases seg_trace_split g p0 s0 x r e2 with ⟨hp0, _, _⟩ | ⟨rt, hret, hp0, hx, hr, _⟩
  · -- an input write
    subst hp0
    rcases List.eq_nil_or_concat lp with hnil | ⟨lp', gp, hlp⟩
    · left; simp [e3, hnil]
    · right; right
      subst hlp
      have hsegs : (sendInteractive cfg complete dev evs s).segs = lp' ++ gp :: g :: ls := by
        simp [e1]
      obtain ⟨e, _, he, _, _, _, _, hgret, hm, hn⟩ :=
        input_after_expected_response cfg complete dev evs s lp' gp g ls hsegs
      refine ⟨lp'.flatMap Seg.trace ++ Ev.write gp.input gp.hidden :: dels gp.echo, gp.resp, e,
        List.mem_of_getElem? he, ?_, hm, hn⟩
      rw [e3]
      simp [Seg.trace, hgret]
  · -- a return
    right; left
    obtain ⟨e, _, hi, _, hun, haw, hrc⟩ := hidden_not_awaited cfg complete dev evs s lp g ls e1
    have hrt : rt = cfg.ret := by
      rcases hrc with h0 | h0
      · rw [h0] at hret; simp at hret
      · rw [h0] at hret; simpa using hret.symm
    refine ⟨lp.flatMap Seg.trace, g.input, g.hidden, g.echo, by rw [e3, hp0], by rw [hx, hrt], hr, ?_⟩
    by_cases hh : e.hidden = true ∨ e.resp.isSome = false
    · exact Or.inl (hun hh).1
    · right
      rw [hi]
      apply haw
      · simp only [not_or, Bool.not_eq_true, Bool.not_eq_false] at hh
        exact hh
      · rw [hret, hrt]


/-! ## the result -/

theorem loop_result (cfg : Cfg) (complete : List (Bytes → Bool)) (dev : Dev σ)
    (evs : List Event) (s : St σ) (b x : Bytes)
    (h : (loop cfg complete dev evs s b).res = some x) :
    x = b ++ deliveredOf (loop cfg complete dev evs s b).trace := by
  induction evs generalizing s b with
  | nil => simp [loop, Run.trace, deliveredOf] at h ⊢; exact h.symm
  | cons e es ih =>
    simp only [loop, Run.trace] at h ⊢
    have hseg : ∀ o : StepOut σ, o.seg.ret = some cfg.ret →
        deliveredOf o.seg.trace = o.seg.echo.flatten ++ o.seg.resp.flatten := by
      intro o hr
      simp [Seg.trace, hr, deliveredOf]
    split at h
    · simp at h
    · rename_i hd
      have hok := step_ok cfg complete dev es.isEmpty e s (by rw [hd]; simp)
      simp only [Option.some.injEq] at h
      simp only [hd, List.flatMap_cons, List.flatMap_nil, List.append_nil]
      rw [hseg _ hok.1, ← hok.2.2, h]
    · rename_i hc
      have hok := step_ok cfg complete dev es.isEmpty e s (by rw [hc]; simp)
      have := ih _ _ h
      simp only [hc, List.flatMap_cons, deliveredOf_append]
      rw [hseg _ hok.1, ← hok.2.2, this]
      simp [Run.trace, List.append_assoc]

/-- The result of a successful `SendInteractive` is the post-processing (`processOut`, prompt kept)
of **everything delivered during the operation**, in order: every chunk that any of its reads
dequeued — echoes and responses of all processed events — and nothing else. -/
theorem result_is_whole_dialogue (cfg : Cfg) (complete : List (Bytes → Bool)) (dev : Dev σ)
    (evs : List Event) (s : St σ) (x : Bytes)
    (h : (sendInteractive cfg complete dev evs s).res = some x) :
    x = processOut (outCfg cfg) (deliveredOf (sendInteractive cfg complete dev evs s).trace) := by
  simp only [sendInteractive, Option.map_eq_some_iff] at h
  obtain ⟨y, hy, hx⟩ := h
  have := loop_result cfg complete dev evs s [] y hy
  simp only [List.nil_append] at this
  rw [← hx, this]
  rfl

/-! ## privilege escalation -/

/-- shape of an authenticated escalation: one or two segments -/
theorem escalate_segs (cfg : Cfg) (prev target : Level) (secret : Bytes) (dev : Dev σ) (s : St σ)
    (ha : target.escalateAuth = true) (hs : secret ≠ []) :
    let r := escalate cfg prev target secret dev s
    (∃ g0, r.segs = [g0] ∧ g0.input = target.escalate ∧ g0.hidden = false) ∨
    (∃ g0 g1, r.segs = [g0, g1] ∧ g0.input = target.escalate ∧ g0.hidden = false ∧
      g1.input = secret ∧ g1.hidden = true ∧ g1.echo = [] ∧
      g0.ret = some cfg.ret ∧
      RespMatched (escCfg cfg) (escalateComplete prev target)
        { input := target.escalate, resp := target.escalatePrompt, hidden := false }
        g0.resp.flatten ∧
      ¬ Completed (escalateComplete prev target) g0.resp.flatten) := by
  intro r
  have hr : r = sendInteractive (escCfg cfg) (escalateComplete prev target) dev
      (escalateEvents target secret) s := by
    simp only [r, escalate, ha, Bool.not_true, Bool.false_or]
    have : secret.isEmpty = false := by cases secret <;> simp_all
    simp [this]
  have hlen : r.segs.length ≤ 2 := by
    rw [hr]; exact loop_segs_length _ _ _ (escalateEvents target secret) _ _
  have hne : r.segs ≠ [] := by
    rw [hr]; exact loop_segs_ne_nil _ _ _ _ _ _ _
  match hsegs : r.segs with
  | [] => exact absurd hsegs hne
  | [g0] =>
    left
    rw [hr] at hsegs
    obtain ⟨e, he, hi, hh, _⟩ := hidden_not_awaited _ _ dev _ s [] g0 [] (by simpa using hsegs)
    simp only [escalateEvents, List.length_nil, List.getElem?_cons_zero, Option.some.injEq] at he
    subst he
    exact ⟨g0, rfl, hi, hh⟩
  | [g0, g1] =>
    right
    rw [hr] at hsegs
    obtain ⟨e, he, hi, hh, _⟩ := hidden_not_awaited _ _ dev _ s [] g0 [g1] (by simpa using hsegs)
    obtain ⟨e1, he1, hi1, hh1, hu1, _⟩ :=
      hidden_not_awaited _ _ dev _ s [g0] g1 [] (by simpa using hsegs)
    obtain ⟨e', e1', he', _, _, _, _, hret, hm, hn⟩ :=
      input_after_expected_response _ _ dev _ s [] g0 g1 [] (by simpa using hsegs)
    simp only [escalateEvents, List.length_nil, List.getElem?_cons_zero, Option.some.injEq] at he he'
    simp only [escalateEvents, List.length_cons, List.length_nil, Nat.zero_add,
      List.getElem?_cons_succ, List.getElem?_cons_zero, Option.some.injEq] at he1
    subst he he' he1
    exact ⟨g0, g1, rfl, hi, hh, hi1, hh1, (hu1 (Or.inl rfl)).1, hret, hm, hn⟩
  | _ :: _ :: _ :: _ => rw [hsegs] at hlen; simp at hlen

/-- THE SECRET CLAUSE. In every trace of `escalate` — any device, any segmentation, any queue
content — a redacted write (the only one is the secondary secret) occurs only in this position:
escalate command, deliveries, return, deliveries `D`, **secret**; where `D`, the bytes delivered
since the escalate command's return, matched (on the search window) the escalate prompt or a level
pattern, and neither the previous nor the target level pattern matches `D`. -/
theorem secret_only_after_password_prompt (cfg : Cfg) (prev target : Level) (secret : Bytes)
    (dev : Dev σ) (s : St σ) (pre post : List Ev) (x : Bytes)
    (h : (escalate cfg prev target secret dev s).trace = pre ++ Ev.write x true :: post) :
    target.escalateAuth = true ∧ secret ≠ [] ∧ x = secret ∧
    ∃ E D, pre = Ev.write target.escalate false :: (dels E ++ Ev.write cfg.ret false :: dels D) ∧
      RespMatched (escCfg cfg) (escalateComplete prev target)
        { input := target.escalate, resp := target.escalatePrompt, hidden := false } D.flatten ∧
      prev.pattern D.flatten = false ∧ target.pattern D.flatten = false := by
  have hmem : Ev.write x true ∈ (escalate cfg prev target secret dev s).trace := by
    rw [h]; simp
  by_cases hauth : target.escalateAuth = true ∧ secret ≠ []
  · obtain ⟨ha, hs⟩ := hauth
    refine ⟨ha, hs, ?_⟩
    rcases escalate_segs cfg prev target secret dev s ha hs with
      ⟨g0, hsegs, _, hh⟩ | ⟨g0, g1, hsegs, hi0, hh0, hi1, hh1, he1, hret, hm, hn⟩
    · exfalso
      simp only [Run.trace, hsegs, List.flatMap_cons, List.flatMap_nil, List.append_nil] at hmem
      have := isRed_seg_visible g0 hh _ hmem
      simp [isRed] at this
    · simp only [Run.trace, hsegs, List.flatMap_cons, List.flatMap_nil, List.append_nil] at h
      obtain ⟨t, ht, htn⟩ := isRed_seg_tail g1
      rw [ht, hi1, hh1] at h
      obtain ⟨e1, e2, _⟩ := split_unique isRed pre post g0.trace t _ _ h.symm rfl
        (isRed_seg_visible g0 hh0) htn
      simp only [Ev.write.injEq, and_true] at e2
      refine ⟨e2, g0.echo, g0.resp, ?_, hm, ?_⟩
      · rw [e1]; simp [Seg.trace, hret, hi0, hh0]
      · simpa [Completed, escalateComplete] using hn
  · exfalso
    have hcond : (!target.escalateAuth || secret.isEmpty) = true := by
      by_cases ha : target.escalateAuth = true
      · have : secret = [] := by
          by_cases hs : secret = []
          · exact hs
          · exact absurd ⟨ha, hs⟩ hauth
        simp [this]
      · simp [ha]
    simp only [escalate, hcond, if_true] at hmem
    obtain ⟨g, hsegs, _, hh, _⟩ :=
      plain_return_after_echo (escCfg cfg) false [] dev s target.escalate
    simp only [Run.trace, hsegs, List.flatMap_cons, List.flatMap_nil, List.append_nil] at hmem
    have := isRed_seg_visible g hh _ hmem
    simp [isRed] at this

/-- With level patterns that are sound on the search window, what licensed the secret is the
escalate prompt itself (the prompt pattern when the level defines none): it matched the search
window of the bytes delivered since the escalate command's return. -/
theorem secret_after_escalate_prompt (cfg : Cfg) (prev target : Level) (secret : Bytes)
    (dev : Dev σ) (s : St σ) (pre post : List Ev) (x : Bytes)
    (hw : WindowSound cfg (escalateComplete prev target))
    (h : (escalate cfg prev target secret dev s).trace = pre ++ Ev.write x true :: post) :
    ∃ E D, pre = Ev.write target.escalate false :: (dels E ++ Ev.write cfg.ret false :: dels D) ∧
      (target.escalatePrompt.getD cfg.promptP) (window D.flatten cfg.depth) = true ∧
      prev.pattern D.flatten = false ∧ target.pattern D.flatten = false := by
  obtain ⟨_, _, _, E, D, hpre, hm, hp, ht⟩ :=
    secret_only_after_password_prompt cfg prev target secret dev s pre post x h
  refine ⟨E, D, hpre, ?_, hp, ht⟩
  simp only [RespMatched, anyPred, escalateComplete, List.cons_append, List.nil_append,
    List.any_cons, List.any_nil, Bool.or_false, Bool.or_eq_true] at hm
  have hd : (escCfg cfg).depth = cfg.depth := rfl
  have hpp : (escCfg cfg).promptP = cfg.promptP := rfl
  rw [hd, hpp] at hm
  rcases hm with hm | hm | hm
  · have := hw prev.pattern (by simp [escalateComplete]) _ hm
    rw [hp] at this; simp at this
  · have := hw target.pattern (by simp [escalateComplete]) _ hm
    rw [ht] at this; simp at this
  · exact hm

/-- If what the device shows after the escalate command is the target prompt or the previous
prompt (it granted or refused the level without asking) the secret is never written: the trace has
no redacted write at all. -/
theorem secret_never_at_level_prompt (cfg : Cfg) (prev target : Level) (secret : Bytes)
    (dev : Dev σ) (s : St σ) (g0 : Seg) (rest : List Seg)
    (hsegs : (escalate cfg prev target secret dev s).segs = g0 :: rest)
    (hshown : prev.pattern g0.resp.flatten = true ∨ target.pattern g0.resp.flatten = true) :
    ∀ x, Ev.write x true ∉ (escalate cfg prev target secret dev s).trace := by
  intro x hmem
  obtain ⟨pre, post, hsplit⟩ := List.append_of_mem hmem
  obtain ⟨ha, hs, _⟩ :=
    secret_only_after_password_prompt cfg prev target secret dev s pre post x hsplit
  rcases escalate_segs cfg prev target secret dev s ha hs with
    ⟨g0', hsegs', _, hh⟩ | ⟨g0', g1, hsegs', _, _, _, _, _, _, _, hn⟩
  · simp only [Run.trace, hsegs', List.flatMap_cons, List.flatMap_nil, List.append_nil] at hmem
    have := isRed_seg_visible g0' hh _ hmem
    simp [isRed] at this
  · rw [hsegs'] at hsegs
    simp only [List.cons.injEq] at hsegs
    rw [hsegs.1] at hn
    apply hn
    simp only [Completed, escalateComplete, List.any_cons, List.any_nil, Bool.or_false,
      Bool.or_eq_true]
    exact hshown

/-! ## the network driver's SendInteractive -/

/-- `network.Driver.SendInteractive`, for every acquisition procedure: when acquiring the level
fails, the trace is the acquisition's own trace — not one byte of the dialogue is written; when it
succeeds, the trace is the acquisition's trace followed by exactly the trace of the generic
`SendInteractive` run on the state the acquisition left, so every theorem above (pacing, echo
handling, completion, result) holds of that suffix. -/
theorem net_dialogue_only_after_level (acquire : St σ → Run σ) (cfg : Cfg)
    (complete : List (Bytes → Bool)) (dev : Dev σ) (evs : List Event) (s : St σ) :
    ((acquire s).res = none →
      netSendInteractive acquire cfg complete dev evs s = acquire s) ∧
    ((acquire s).res.isSome = true →
      (netSendInteractive acquire cfg complete dev evs s).trace =
        (acquire s).trace ++ (sendInteractive cfg complete dev evs (acquire s).st).trace ∧
      (netSendInteractive acquire cfg complete dev evs s).res =
        (sendInteractive cfg complete dev evs (acquire s).st).res) := by
  constructor
  · intro h
    simp [netSendInteractive, h]
  · intro h
    obtain ⟨x, hx⟩ := Option.isSome_iff_exists.mp h
    simp [netSendInteractive, hx, Run.trace]

/-- … in particular every write after the acquisition is licensed as in `every_write_licensed`. -/
theorem net_every_write_licensed (acquire : St σ → Run σ) (cfg : Cfg)
    (complete : List (Bytes → Bool)) (dev : Dev σ) (evs : List Event) (s : St σ)
    (hok : (acquire s).res.isSome = true) (pre post : List Ev) (x : Bytes) (r : Bool)
    (h : (netSendInteractive acquire cfg complete dev evs s).trace =
      (acquire s).trace ++ pre ++ Ev.write x r :: post) :
    pre = [] ∨
    (∃ pre' y ry E, pre = pre' ++ Ev.write y ry :: dels E ∧ x = cfg.ret ∧ r = false ∧
      (E = [] ∨ EchoSeen cfg y E)) ∨
    (∃ pre' D e, e ∈ evs ∧ pre = pre' ++ Ev.write cfg.ret false :: dels D ∧
      RespMatched cfg complete e D.flatten ∧ ¬ Completed complete D.flatten) := by
  have h2 := ((net_dialogue_only_after_level acquire cfg complete dev evs s).2 hok).1
  rw [h2, List.append_assoc, List.append_cancel_left_eq] at h
  exact every_write_licensed cfg complete dev evs (acquire s).st pre post x r h

/-! ## tie to the source: the event list `escalate` builds -/

/-- Obligation on the regenerated facts (go/ast over driver/network/acquirepriv.go): `escalate`
builds exactly two events — the escalate command, visible, answered by the escalate prompt; then
the secondary secret, **hidden**, answered by the target level's pattern — and passes the previous
and the target level pattern, in this order, as complete patterns. -/
theorem escalate_source_shape :
    Gen.C12.escalateEvents =
      [("p.Escalate", "p.EscalatePrompt", false), ("d.AuthSecondary", "p.Pattern", true)] ∧
    Gen.C12.escalateComplete = ["d.PrivilegeLevels[p.PreviousPriv].patternRe", "p.patternRe"] := by
  decide

/-- Obligation on the regenerated facts (go/ast over driver/network/sendinteractive.go): the network
driver's `SendInteractive` parses its options, acquires the level, returns at once when that
failed, and only then calls the generic driver's `SendInteractive` — the order
`netSendInteractive` models. -/
theorem net_interactive_source_shape :
    Gen.C12.netInteractiveCalls = ["NewOperation", "d.AcquirePriv", "d.Driver.SendInteractive"] ∧
    Gen.C12.netInteractiveGuarded = true := by
  decide

/-- the model's `escalateEvents` / `escalateComplete` have that shape: inputs, hidden flags and
which response goes with which event, for every level and secret -/
theorem escalate_model_shape (prev target : Level) (secret : Bytes) :
    (escalateEvents target secret).map (fun e => (e.input, e.hidden)) =
      [(target.escalate, false), (secret, true)] ∧
    (escalateEvents target secret).map (fun e => e.hidden) =
      Gen.C12.escalateEvents.map (fun e => e.2.2) ∧
    (escalateEvents target secret).length = Gen.C12.escalateEvents.length ∧
    (escalateComplete prev target).length = Gen.C12.escalateComplete.length := by
  refine ⟨rfl, ?_, ?_, ?_⟩ <;> simp [escalateEvents, escalateComplete, Gen.C12.escalateEvents,
    Gen.C12.escalateComplete]

/-! ## satisfiable-hypothesis instances -/

/-- prompt = the buffer ends in `#` -/
def exPrompt : Bytes → Bool := fun w => w.getLast? == some 35
/-- level patterns: ends in `>` / ends in `#`; password question: contains `Password:` -/
def exExec : Bytes → Bool := fun w => w.getLast? == some 62
def exPriv : Bytes → Bool := fun w => w.getLast? == some 35
def exPass : Bytes → Bool := isInfix [80, 97, 115, 115, 119, 111, 114, 100, 58]

def exCfg : Cfg :=
  { depth := 1000, mult := 2, exact := false, strip := true, ret := [10],
    promptP := exPrompt, stripP := id }

def exEnable : Bytes := [101, 110, 97, 98, 108, 101]
def exSecret : Bytes := [115, 51, 99]
def exPrev : Level := { pattern := exExec, escalate := [], escalateAuth := false, escalatePrompt := none }
def exTarget : Level :=
  { pattern := exPriv, escalate := exEnable, escalateAuth := true, escalatePrompt := some exPass }

/-- a device that asks: echo of `enable` in two reads, `\nPassword:` in two reads, nothing for
    the secret, `\nr1#` after its return -/
def exAsks : St (List (List Bytes)) :=
  { q := [], d := [[[101, 110, 97], [98, 108, 101]], [[10, 80, 97, 115, 115], [119, 111, 114, 100, 58]], [],
                   [[10, 114, 49, 35]]] }
/-- a device that grants the level without asking -/
def exGrants : St (List (List Bytes)) :=
  { q := [], d := [[[101, 110, 97, 98, 108, 101]], [[10, 114, 49], [35]]] }

def exG0 : Seg :=
  { input := exEnable, hidden := false, echo := [[101, 110, 97], [98, 108, 101]], ret := some [10],
    resp := [[10, 80, 97, 115, 115], [119, 111, 114, 100, 58]] }
def exG1 : Seg :=
  { input := exSecret, hidden := true, echo := [], ret := some [10], resp := [[10, 114, 49, 35]] }

/-- the hypotheses of `input_after_expected_response`, `hidden_not_awaited`,
`secret_only_after_password_prompt` are satisfiable: the asking device yields two segments, and the
trace has the redacted write right after the password question was delivered -/
example : (escalate exCfg exPrev exTarget exSecret scriptDev exAsks).segs = [] ++ exG0 :: exG1 :: [] := by
  decide +kernel

example : (escalate exCfg exPrev exTarget exSecret scriptDev exAsks).trace =
    [Ev.write exEnable false, Ev.deliver [101, 110, 97], Ev.deliver [98, 108, 101], Ev.write [10] false,
     Ev.deliver [10, 80, 97, 115, 115], Ev.deliver [119, 111, 114, 100, 58]] ++
    Ev.write exSecret true :: [Ev.write [10] false, Ev.deliver [10, 114, 49, 35]] := by
  decide +kernel

/-- … and `sendInteractive` itself on the same two events (the hypothesis shape of the general
theorems) -/
example : (sendInteractive (escCfg exCfg) (escalateComplete exPrev exTarget) scriptDev
    (escalateEvents exTarget exSecret) exAsks).segs = [] ++ exG0 :: exG1 :: [] := by
  decide +kernel

/-- the hypotheses of `no_input_after_completion` and `secret_never_at_level_prompt` are
satisfiable: the granting device shows the target prompt, the run ends after one segment -/
example : (escalate exCfg exPrev exTarget exSecret scriptDev exGrants).segs =
    { input := exEnable, hidden := false, echo := [[101, 110, 97, 98, 108, 101]], ret := some [10],
      resp := [[10, 114, 49], [35]] } :: [] ∧
    exTarget.pattern ([[10, 114, 49], [35]] : List Bytes).flatten = true ∧
    Completed (escalateComplete exPrev exTarget) ([[10, 114, 49], [35]] : List Bytes).flatten := by
  refine ⟨by decide +kernel, by decide +kernel, ?_⟩
  unfold Completed
  decide +kernel

/-- `result_is_whole_dialogue`: a successful run -/
example : (escalate exCfg exPrev exTarget exSecret scriptDev exAsks).res =
    some [101, 110, 97, 98, 108, 101, 10, 80, 97, 115, 115, 119, 111, 114, 100, 58, 10, 114, 49, 35] := by
  decide +kernel

/-- `WindowSound` (hypothesis of `input_after_own_response`) is satisfiable: it holds of every
"contains this text" pattern, for every search depth -/
example (cfg : Cfg) (needle : Bytes) : WindowSound cfg [isInfix needle] :=
  windowSound_isInfix cfg needle

/-! ## completeness for well-formed dialogues, every segmentation -/

theorem loop_exact (cfg : Cfg) (complete : List (Bytes → Bool)) (evs : List Event) (ts : List Turn)
    (h : DialogueOK cfg complete evs ts) (q0 : List Bytes) (rest : List (List Bytes)) (b : Bytes)
    (hq : q0.flatten = []) :
    let r := loop cfg complete scriptDev evs { q := q0, d := script ts ++ rest } b
    r.res = some (b ++ (ts.flatMap fun t => t.echo.flatten ++ t.resp.flatten)) ∧
    r.st.q.flatten = [] ∧ r.st.d = rest ∧
    writesOf r.trace = evs.flatMap (fun e => [e.input, cfg.ret]) ∧
    r.segs.length = evs.length := by
  induction evs generalizing ts q0 b with
  | nil =>
    cases ts with
    | nil => simp [loop, script, Run.trace, writesOf, hq]
    | cons _ _ => simp [DialogueOK] at h
  | cons e es ih =>
    cases ts with
    | nil => simp [DialogueOK] at h
    | cons t ts' =>
      obtain ⟨ht, hrest⟩ := h
      have hs : script (t :: ts') ++ rest = t.echo :: t.resp :: (script ts' ++ rest) := by
        simp [script]
      rw [hs]
      obtain ⟨h1, h2, h3, h4, h5⟩ := stepEvent_exact cfg complete es.isEmpty e t q0 (script ts' ++ rest) hq ht
      intro r
      have hr : r = loop cfg complete scriptDev (e :: es)
          { q := q0, d := t.echo :: t.resp :: (script ts' ++ rest) } b := rfl
      simp only [loop] at hr
      have hin := step_input cfg complete scriptDev es.isEmpty e
        { q := q0, d := t.echo :: t.resp :: (script ts' ++ rest) }
      generalize stepEvent cfg complete scriptDev es.isEmpty e
        { q := q0, d := t.echo :: t.resp :: (script ts' ++ rest) } = o at h1 h2 h3 h4 h5 hr hin
      obtain ⟨oout, oseg, ⟨oq, od⟩, ob⟩ := o
      simp only at h1 h2 h3 h4 h5 hr hin
      subst h1 h3 h4
      simp only at hr
      obtain ⟨i1, i2, i3, i4, i5⟩ := ih ts' hrest oq (b ++ (t.echo.flatten ++ t.resp.flatten)) h2
      rw [hr]
      refine ⟨?_, i2, i3, ?_, ?_⟩
      · simp only [i1, List.flatMap_cons, List.append_assoc]
      · simp only [Run.trace, List.flatMap_cons, writesOf_append, seg_writes, h5, hin] at i4 ⊢
        rw [i4]
      · simp [i5]

/-- COMPLETENESS, FOR EVERY SEGMENTATION. Against a device that plays a well-formed dialogue
(`DialogueOK`: for every event, the echo predicate and the response predicate first hold exactly at
the end of what the device emits for them, and no turn but possibly the last shows a complete
pattern) — however the device's output is cut into reads (the chunk lists are arbitrary; only their
concatenations are constrained), whatever empty chunks are left in the queue — `SendInteractive`
processes every event: it writes `input₁ ⏎ … inputₙ ⏎`, returns the post-processed concatenation of
everything the device emitted, and leaves the queue drained and the device at the end of the
script. -/
theorem dialogue_exact (cfg : Cfg) (complete : List (Bytes → Bool)) (evs : List Event)
    (ts : List Turn) (h : DialogueOK cfg complete evs ts) (q0 : List Bytes)
    (rest : List (List Bytes)) (hq : q0.flatten = []) :
    let r := sendInteractive cfg complete scriptDev evs { q := q0, d := script ts ++ rest }
    r.res = some (processOut (outCfg cfg) (ts.flatMap fun t => t.echo.flatten ++ t.resp.flatten)) ∧
    r.st.q.flatten = [] ∧ r.st.d = rest ∧
    writesOf r.trace = evs.flatMap (fun e => [e.input, cfg.ret]) ∧
    r.segs.length = evs.length := by
  obtain ⟨h1, h2, h3, h4, h5⟩ := loop_exact cfg complete evs ts h q0 rest [] hq
  intro r
  refine ⟨?_, h2, h3, h4, h5⟩
  simp only [r, sendInteractive, h1, Option.map_some, List.nil_append]

/-- the hypothesis is satisfiable: the asking device of the examples above, cut as there -/
example : DialogueOK (escCfg exCfg) (escalateComplete exPrev exTarget)
    (escalateEvents exTarget exSecret)
    [⟨[[101, 110, 97], [98, 108, 101]], [[10, 80, 97, 115, 115], [119, 111, 114, 100, 58]]⟩,
     ⟨[], [[10, 114, 49, 35]]⟩] := by
  refine ⟨?_, ?_, trivial⟩ <;> unfold TurnOK Completed <;> decide +kernel

end Scrapli.Inter.C12
