import ScrapliModel.Lemmas.Options
/-!
# C19 — Driver options land on their target regardless of order; user options win

Property theorems only. Model: `ScrapliModel/Options.lean`. The option table (`Gen.Options.spec`:
asserted target type, assigned fields, set/append, value source, error returns, validation
order), the struct fields with their constructor defaults, and the platform option-name table
(`Gen.PlatformOptions.entries`) are regenerated from the source on every run
(`go/cmd/extract/gen_c19.go`); the obligations below are re-checked against them.
-/
namespace Scrapli.Options.C19
open Scrapli Scrapli.Gen.Options Scrapli.Options

/-! ## obligations on the regenerated tables -/

def optKeys (o : Opt) : List Field := (spec o).writes.map (·.field)

/-- the pairs of options documented to share a setting: a logger can be given or defaulted; the
private-key option also carries the passphrase; an ssh config / known-hosts file can be named or
taken from the system default locations -/
def documentedOverlap (a b : Opt) : Bool :=
  let p := fun (x y : Opt) =>
    (x == .WithLogger && y == .WithDefaultLogger) ||
    (x == .WithAuthPrivateKey && y == .WithAuthPassphrase) ||
    (x == .WithSSHConfigFile && y == .WithSSHConfigFileSystem) ||
    (x == .WithSSHKnownHostsFile && y == .WithSSHKnownHostsFileSystem)
  p a b || p b a

/-- `option_frame`, table part: distinct options assign disjoint sets of fields, except the documented pairs. -/
theorem option_frame_table (a b : Opt) (hab : a ≠ b) (hdoc : documentedOverlap a b = false) :
    ∀ f, f ∈ optKeys a → f ∉ optKeys b := by
  have h : allOpts.all (fun a => allOpts.all fun b =>
      a == b || documentedOverlap a b || (optKeys a).all fun f => !(optKeys b).contains f) = true := by
    decide +kernel
  have h1 := forall_opt_of_all (forall_opt_of_all h a) b
  simp only [Bool.or_eq_true, beq_iff_eq, hab, hdoc, false_or, List.all_eq_true,
    Bool.not_eq_true', Bool.false_eq_true] at h1
  intro f hf hb
  have := h1 f hf
  simp [hb] at this

/-- every field an option assigns is a field of the one object type it asserts: an option never
touches an object that is not its target -/
theorem options_land_on_their_target (o : Opt) (w : Write) (hw : w ∈ (spec o).writes) :
    (spec o).targets = [w.field.target] :=
  targets_of_write hw

/-- the setting each option names (by its name and documentation) -/
def namedSettings : List (Opt × List Field) := [
  (.WithAuthBypass, [.channel_Channel_AuthBypass]),
  (.WithAuthNoStrictKey, [.transport_SSHArgs_StrictKey]),
  (.WithAuthPassphrase, [.transport_SSHArgs_PrivateKeyPassPhrase]),
  (.WithAuthPassword, [.transport_Args_Password]),
  (.WithAuthPrivateKey, [.transport_SSHArgs_PrivateKeyPath, .transport_SSHArgs_PrivateKeyPassPhrase]),
  (.WithAuthSecondary, [.network_Driver_AuthSecondary]),
  (.WithAuthUsername, [.transport_Args_User]),
  (.WithChannelLog, [.channel_Channel_ChannelLog]),
  (.WithCustomTransport, [.transport_Args_UserImplementation]),
  (.WithDefaultDesiredPriv, [.network_Driver_DefaultDesiredPriv]),
  (.WithDefaultLogger, [.generic_Driver_Logger]),
  (.WithFailedWhenContains, [.generic_Driver_FailedWhenContains]),
  (.WithFileTransportFile, [.transport_File_F]),
  (.WithLogger, [.generic_Driver_Logger]),
  (.WithNetconfExcludeHeader, [.netconf_Driver_ExcludeHeader]),
  (.WithNetconfForceSelfClosingTags, [.netconf_Driver_ForceSelfClosingTags]),
  (.WithNetconfPreferredVersion, [.netconf_Driver_PreferredVersion]),
  (.WithNetworkOnClose, [.network_Driver_OnClose]),
  (.WithNetworkOnOpen, [.network_Driver_OnOpen]),
  (.WithOnClose, [.generic_Driver_OnClose]),
  (.WithOnOpen, [.generic_Driver_OnOpen]),
  (.WithPassphrasePattern, [.channel_Channel_PassphrasePattern]),
  (.WithPasswordPattern, [.channel_Channel_PasswordPattern]),
  (.WithPort, [.transport_Args_Port]),
  (.WithPrivilegeLevels, [.network_Driver_PrivilegeLevels]),
  (.WithPromptPattern, [.channel_Channel_PromptPattern]),
  (.WithPromptSearchDepth, [.channel_Channel_PromptSearchDepth]),
  (.WithReadDelay, [.channel_Channel_ReadDelay]),
  (.WithReturnChar, [.channel_Channel_ReturnChar]),
  (.WithSSHConfigFile, [.transport_SSHArgs_ConfigFile]),
  (.WithSSHConfigFileSystem, [.transport_SSHArgs_ConfigFile]),
  (.WithSSHKnownHostsFile, [.transport_SSHArgs_KnownHostsFile]),
  (.WithSSHKnownHostsFileSystem, [.transport_SSHArgs_KnownHostsFile]),
  (.WithStandardTransportExtraCiphers, [.transport_Standard_ExtraCiphers]),
  (.WithStandardTransportExtraKexs, [.transport_Standard_ExtraKexs]),
  (.WithSystemTransportOpenArgs, [.transport_System_ExtraArgs]),
  (.WithSystemTransportOpenArgsOverride, [.transport_System_OpenArgs]),
  (.WithSystemTransportOpenBin, [.transport_System_OpenBin]),
  (.WithTermHeight, [.transport_Args_TermHeight]),
  (.WithTermWidth, [.transport_Args_TermWidth]),
  (.WithTimeoutOps, [.channel_Channel_TimeoutOps]),
  (.WithTimeoutSocket, [.transport_Args_TimeoutSocket]),
  (.WithTransportReadSize, [.transport_Args_ReadSize]),
  (.WithTransportType, [.generic_Driver_TransportType]),
  (.WithUsernamePattern, [.channel_Channel_UsernamePattern]),
  (.logging_WithFormatter, [.logging_Instance_Formatter]),
  (.logging_WithLevel, [.logging_Instance_Level]),
  (.logging_WithLogger, [.logging_Instance_Loggers]),
  (.withNetconfConnection, [.transport_SSHArgs_NetconfConnection])]

/-- the additive options (extra ssh arguments, loggers); every other option replaces -/
def additiveOptions : List Opt := [.WithSystemTransportOpenArgs, .logging_WithLogger]

/-- every option assigns exactly the setting it names, from its own argument (value options) or a
constant (flag options), replacing — or, for the additive options, appending -/
theorem options_write_their_named_setting :
    namedSettings.all (fun p =>
      optKeys p.1 == p.2 &&
      (spec p.1).writes.all (fun w => (w.mode == .append) == additiveOptions.contains p.1)) = true := by
  decide +kernel

/-- the flag options assign the constant their name says -/
theorem flag_options_write_their_constant :
    ((spec .WithAuthBypass).writes.map (·.src) == [.const tokTrue]) &&
    ((spec .WithAuthNoStrictKey).writes.map (·.src) == [.const [102,97,108,115,101]]) &&
    ((spec .WithNetconfExcludeHeader).writes.map (·.src) == [.const tokTrue]) &&
    ((spec .WithNetconfForceSelfClosingTags).writes.map (·.src) == [.const tokTrue]) = true := by
  decide +kernel

/-- the documented values of the validated options are accepted: transport types system / standard
/ telnet (and file), NETCONF versions 1.0 / 1.1, log levels info / debug / critical -/
theorem documented_values_are_valid :
    ((spec .WithTransportType).valid == some [Gen.Transport.SystemTransport, Gen.Transport.StandardTransport,
        Gen.Transport.TelnetTransport, Gen.Transport.FileTransport]) &&
    ((spec .WithNetconfPreferredVersion).valid == some [[49,46,48], [49,46,49]]) &&
    ((spec .logging_WithLevel).valid == some [[105,110,102,111], [100,101,98,117,103], [99,114,105,116,105,99,97,108]]) = true := by
  decide +kernel

/-- options that take a value write that value (not something else) -/
theorem value_options_write_their_argument :
    allOpts.all (fun o => (spec o).writes.all fun w =>
      match w.src with
      | .param i => i < (spec o).params.length
      | .derived i => i < (spec o).params.length
      | .const _ => (spec o).params.isEmpty
      | .fresh => (spec o).params.isEmpty) = true := by
  decide +kernel

/-! ## `option_frame`: an option changes only its own fields, only on its own target -/

/-- One option closure applied to one object: every field the option does not name, and every
field of any other object type, is left exactly as it was. -/
theorem option_frame (T : Target) (o : OptInst) (c c' : Config) (h : applyOpt T c o = .ok c')
    (f : Field) (hf : f ∉ keys o ∨ f.target ≠ T) : c' f = c f := by
  cases hfail : failsOn T o with
  | some e => simp [applyOpt, hfail] at h
  | none =>
    rw [applyOpt_ok c hfail] at h
    cases h
    show List.foldl stepVal (c f) (writesTo T f o) = c f
    rcases hf with hf | hf
    · rw [writesTo_nil_of_not_key hf]; rfl
    · rw [writesTo_nil_of_target_ne o hf]; rfl

example : applyOpt .transport_Args defaults { opt := .WithPort, args := [[[50,48,50,50]]] } =
    .ok (setField defaults .transport_Args_Port [[50,48,50,50]]) := by
  unfold applyOpt; simp [failsOn, applies, spec, errOf, argValid]
  funext f; simp [applyWrites, applyWrite, setField, valueOf]

/-! ## `option_value_verbatim`: the value lands verbatim on its target -/

/-- table obligation: the regenerated row of every option (assigned fields, set/append, value
source) is the expected one. A normalising step in the source — any function applied to the
argument other than a Go type conversion, or a re-assignment of the parameter — turns `.param i`
into `.derived i` / `.fresh` in the regenerated table and breaks this. -/
theorem option_rows_as_expected : changedOptionRows = [] := by decide +kernel

/-- table obligation: every platform option name builds the expected option from a value of the
documented type through the declared conversion only (bare value, `regexp.MustCompile(value)`,
seconds→duration); a helper or `strings.TrimSpace` around the value regenerates as `.other`. -/
theorem platform_rows_as_expected : changedPlatformRows = [] := by decide +kernel

theorem expected_row_holds {o : Opt} {ws : List Write} (h : (o, ws) ∈ expectedRows) :
    (spec o).writes = ws := by
  have h0 := option_rows_as_expected
  unfold changedOptionRows at h0
  have h1 : (expectedRows.filter fun p => (spec p.1).writes != p.2) = [] := by
    simpa using h0
  rw [List.filter_eq_nil_iff] at h1
  have := h1 (o, ws) h
  simpa using this

/-- no expected row assigns the same field twice -/
theorem expected_rows_fields_distinct :
    expectedRows.all (fun p => p.2.all fun w => p.2.filter (·.field = w.field) == [w]) = true := by
  decide +kernel

/-- **The value lands verbatim.** For every option of the (regenerated = expected) table and every
field it assigns from its i-th argument: applying the option, built from any value, to an object
of its target type leaves exactly that value in the field (replacing options), respectively the
previous content followed by exactly that value (additive options) — no trimming, case folding
or other normalisation, for values of any content and length. -/
theorem option_value_verbatim (o : Opt) (ws : List Write) (hrow : (o, ws) ∈ expectedRows)
    (w : Write) (hw : w ∈ ws) (i : Nat) (hsrc : w.src = .param i)
    (oi : OptInst) (hoi : oi.opt = o) (T : Target) (hT : applies T oi = true)
    (c c' : Config) (h : applyOpt T c oi = .ok c') :
    c' w.field = match w.mode with
      | .set => oi.args.getD i []
      | .append => c w.field ++ oi.args.getD i [] := by
  have hspec : (spec oi.opt).writes = ws := by rw [hoi]; exact expected_row_holds hrow
  have hd := List.all_eq_true.1 (List.all_eq_true.1 expected_rows_fields_distinct (o, ws) hrow) w hw
  have hd' : ws.filter (·.field = w.field) = [w] := by simpa using hd
  cases hfail : failsOn T oi with
  | some e => simp [applyOpt, hfail] at h
  | none =>
    rw [applyOpt_ok c hfail] at h
    cases h
    show List.foldl stepVal (c w.field) (writesTo T w.field oi) = _
    simp only [writesTo, hT, if_true, hspec, hd', List.map_cons, List.map_nil, List.foldl_cons,
      List.foldl_nil, stepVal, valueOf, hsrc]
    cases w.mode <;> rfl

example : (Opt.WithAuthUsername, [(⟨.transport_Args_User, .set, .param 0⟩ : Write)]) ∈ expectedRows := by
  decide +kernel

/-! ## `ignored_is_silent` -/

/-- An option applied to an object that is not its target returns the ignored sentinel (which the
constructors skip): no error, nothing changes. (An option that validates its argument before
looking at the object — `validateFirst` — must carry a valid argument.) -/
theorem ignored_is_silent (T : Target) (o : OptInst) (c : Config)
    (hT : applies T o = false) (hv : (spec o.opt).validateFirst = true → errOf (spec o.opt) o = none) :
    applyOpt T c o = .ok c := by
  have hfail : failsOn T o = none := by
    unfold failsOn
    simp only [hT, Bool.or_false]
    split
    · rename_i h; exact hv h
    · rfl
  simp [applyOpt, hfail, hT]

example : applies .transport_Args { opt := .WithPromptSearchDepth, args := [[[49]]] } = false := by decide

/-- A whole pass over an object no option of the list targets is the identity. -/
theorem ignored_pass_is_identity (T : Target) (opts : List OptInst) (c : Config)
    (hT : ∀ o ∈ opts, applies T o = false) (hv : AllValid opts) : pass T opts c = .ok c := by
  rw [pass_valid c hv]
  congr 1
  funext f
  apply fieldAfter_of_no_writes
  intro o ho
  simp [writesTo, hT o ho]

/-- Options that do not apply to any object a constructor builds never make it fail: with no
failing option in the list, `generic.NewDriver` succeeds whatever the options target. -/
theorem construct_generic_succeeds (opts : List OptInst) (c : Config) (hv : AllValid opts) :
    ∃ c', construct .generic opts c = .ok c' :=
  ⟨_, constructGeneric_valid c (validOn_of_allValid _ hv)⟩

/-! ## `options_commute` -/

/-- Order independence, all constructors: a list of pairwise compatible options (pairwise disjoint
written fields — in particular duplicate-free — and not failing with different error classes) may
be permuted arbitrarily; the constructor returns the same result (same configuration, or the same
error). No bound on the length of the list. -/
theorem options_commute (k : Ctor) {l₁ l₂ : List OptInst} (p : l₁.Perm l₂)
    (hp : l₁.Pairwise Compat) (hnc : ∀ o ∈ l₁, Compat o netconfConnectionOpt) (c : Config) :
    construct k l₁ c = construct k l₂ c := by
  have hg : ∀ {m₁ m₂ : List OptInst}, m₁.Perm m₂ → m₁.Pairwise Compat → ∀ c,
      constructGeneric m₁ c = constructGeneric m₂ c := by
    intro m₁ m₂ p hp c
    have hpass : ∀ T c, pass T m₁ c = pass T m₂ c := fun T c => pass_perm T p hp c
    have hpasses : ∀ ts c, passes ts m₁ c = passes ts m₂ c := fun ts c => passes_perm ts p hp c
    simp only [constructGeneric, hpass, hpasses]
  cases k with
  | generic => exact hg p hp c
  | network =>
    simp only [construct, constructNetwork, hg p hp c, pass_perm _ p hp]
  | netconf =>
    have p' : (l₁ ++ [netconfConnectionOpt]).Perm (l₂ ++ [netconfConnectionOpt]) := p.append_right _
    have hp' : (l₁ ++ [netconfConnectionOpt]).Pairwise Compat := by
      rw [List.pairwise_append]
      refine ⟨hp, by simp, ?_⟩
      intro a ha b hb
      simp only [List.mem_singleton] at hb
      subst hb
      exact hnc a ha
    simp only [construct, constructNetconf, hg p' hp' c, pass_perm _ p' hp']
  | logging => exact pass_perm _ p hp c

/-- The compatibility hypothesis is satisfiable by long mixed lists. -/
example : [ ({ opt := .WithPort, args := [[[50,50]]] } : OptInst),
            { opt := .WithTransportType, args := [[Gen.Transport.TelnetTransport]] },
            { opt := .WithSystemTransportOpenArgs, args := [[[45,118]]] },
            { opt := .WithPromptSearchDepth, args := [[[49]]] },
            { opt := .WithAuthPrivateKey, args := [[[107]], [[112]]] } ].Pairwise Compat := by
  simp only [List.pairwise_cons, List.mem_cons, List.not_mem_nil, or_false, forall_eq_or_imp, forall_eq]
  simp [Compat, disjointKeys, keys, spec, errOf, argValid]

/-- Every public option is compatible with the internal option `netconf.NewDriver` appends, as
soon as it does not fail. -/
theorem public_options_compat_netconf (o : OptInst) (hint : (spec o.opt).internal = false)
    (hv : errOf (spec o.opt) o = none) : Compat o netconfConnectionOpt := by
  have h : allOpts.all (fun a => (spec a).internal ||
      (optKeys a).all fun f => !(optKeys .withNetconfConnection).contains f) = true := by
    decide +kernel
  have h1 := forall_opt_of_all h o.opt
  rw [hint] at h1
  refine ⟨?_, ?_⟩
  · simpa [disjointKeys, keys, optKeys, netconfConnectionOpt] using h1
  · intro ea eb ha
    rw [hv] at ha
    cases ha

/-! ## `last_wins`, `additive_accumulate_in_order` -/

/-- Within one object: the value of a field is the value of the last option that replaces it
(whatever came before, including appends), if nothing after it writes the field. -/
theorem last_wins (T : Target) (l₁ : List OptInst) (o : OptInst) (l₂ : List OptInst) (f : Field)
    (v v0 : Val) (pre : List (Mode × Val))
    (hw : writesTo T f o = pre ++ [(Mode.set, v)]) (hlast : ∀ o' ∈ l₂, writesTo T f o' = []) :
    fieldAfter T (l₁ ++ o :: l₂) f v0 = v := by
  rw [fieldAfter_append, fieldAfter_cons, hw, foldl_stepVal_last_set]
  exact fieldAfter_of_no_writes _ hlast

example : writesTo .transport_Args .transport_Args_Port { opt := .WithPort, args := [[[50,50]]] }
    = [] ++ [(Mode.set, [[50,50]])] := by
  simp [writesTo, applies, spec, valueOf]

/-- Within one object: if every write to a field is an append, the field ends up as its initial
value followed by all appended values in list order. -/
theorem additive_accumulate_in_order (T : Target) (opts : List OptInst) (f : Field) (v0 : Val)
    (h : ∀ mv ∈ opts.flatMap (writesTo T f), mv.1 = Mode.append) :
    fieldAfter T opts f v0 = v0 ++ ((opts.flatMap (writesTo T f)).map (·.2)).flatten :=
  foldl_stepVal_append_only _ h v0

/-- The additive options of the generated table only ever append, so the hypothesis of
`additive_accumulate_in_order` holds for the fields they name whenever no other option names them. -/
theorem additive_fields_only_appended :
    allOpts.all (fun o => (spec o).writes.all fun w =>
      !(w.field == .transport_System_ExtraArgs || w.field == .logging_Instance_Loggers) || w.mode == .append) = true := by
  decide +kernel

/-! ## constructor level: every setting of the built driver -/

/-- `generic.NewDriver`, all settings at once: if no option fails, the constructor succeeds and
every field of every object it builds holds what the options naming that field leave there when
applied in list order to the default (so: last replacement wins, appends accumulate in order,
untouched fields keep their default), and the fields of objects it does not build are untouched.
Which transport objects are built is itself decided by the options (`genericReached`). -/
theorem generic_settings (opts : List OptInst) (c : Config) (hv : AllValid opts) :
    ∃ c', construct .generic opts c = .ok c' ∧
      (∀ f, f ≠ .generic_Driver_Logger →
        c' f = if f.target ∈ genericReached opts c then fieldAfter f.target opts f (c f) else c f) ∧
      c' .generic_Driver_Logger =
        fillLogger .generic_Driver_Logger (afterPass .generic_Driver opts c) .generic_Driver_Logger :=
  constructGeneric_field c (validOn_of_allValid _ hv)

/-- All four constructors, all settings at once, any option list of any length: when no option
fails, the driver that comes back is exactly the declarative one — every field of every object
that is built holds what the options naming it leave there in list order starting from the
default (last replacement wins, appends accumulate), every other field keeps its default, the
network driver derives its prompt pattern from the privilege levels (and demands them), the
NETCONF driver takes transport type and logger from the generic driver and uses the NETCONF
delimiter as prompt. -/
theorem construct_eq_spec_reached (k : Ctor) (opts : List OptInst) (c : Config)
    (hv : ValidOn (reached k opts c) (effective k opts)) : construct k opts c = specConfig k opts c := by
  cases k with
  | generic => exact constructGeneric_eq_spec c hv
  | network => exact constructNetwork_eq_spec c hv
  | netconf => exact constructNetconf_eq_spec c hv
  | logging => exact pass_validOn c (hv .logging_Instance (by simp [reached]))

/-- the weaker hypothesis follows from "no option fails anywhere" -/
theorem construct_eq_spec (k : Ctor) (opts : List OptInst) (c : Config)
    (hv : AllValid (effective k opts)) : construct k opts c = specConfig k opts c :=
  construct_eq_spec_reached k opts c (validOn_of_allValid _ hv)

/-- **Options that do not apply are ignored even when their value is bad.** An option that would
fail on its own target (an ssh config / known-hosts file that does not exist) does not make a
constructor fail when that target is never built — telnet, file or custom transport: the driver
comes back, exactly as the declarative reading says, and nothing of that option lands. -/
theorem failing_option_for_unbuilt_object_is_ignored (k : Ctor) (opts : List OptInst) (c : Config)
    (hv : ValidOn (reached k opts c) (effective k opts)) :
    ∃ r, construct k opts c = r ∧ r = specConfig k opts c :=
  ⟨_, rfl, construct_eq_spec_reached k opts c hv⟩

/-- the hypothesis is satisfiable with a failing ssh option on a telnet driver -/
example : ValidOn (reached .generic
      [{ opt := .WithTransportType, args := [[Gen.Transport.TelnetTransport]] },
       { opt := .WithSSHConfigFile, args := [[[47, 120]]], envOk := false }] defaults)
    (effective .generic
      [{ opt := .WithTransportType, args := [[Gen.Transport.TelnetTransport]] },
       { opt := .WithSSHConfigFile, args := [[[47, 120]]], envOk := false }]) := by
  rw [← validOnB_iff]
  decide +kernel

example : AllValid (effective .netconf [{ opt := .WithPort, args := [[[50,50]]] }]) := by
  intro o ho
  simp [effective, netconfConnectionOpt] at ho
  rcases ho with h | h <;> subst h <;> decide

/-! ## `construct_pure`: constructors are functions of the option list -/

/-- a session: several constructions in a row (each with its own constructor and platform
options) all handed the same caller-owned user option list -/
def session (steps : List (Ctor × List OptInst)) (user : List OptInst) (c : Config) :
    List (Except Err Config) :=
  steps.map fun s => construct s.1 (s.2 ++ user) c

/-- Constructing is pure: what a construction returns depends only on its own constructor,
platform options and the option list — not on how many drivers were built from the same list
before it, nor by which constructors. (In the model this holds by construction; in Go it is the
claim that a constructor neither keeps state nor writes through the caller's slice, which the
`reuse` class of the correspondence checks on the real code, together with the caller's slice
being element-wise unchanged.) -/
theorem construct_pure (before : List (Ctor × List OptInst)) (k : Ctor) (plat user : List OptInst)
    (c : Config) :
    (session (before ++ [(k, plat)]) user c).getLast? = some (construct k (plat ++ user) c) := by
  simp [session]

/-- constructing twice from the same list gives the same configuration -/
theorem construct_twice_same (k : Ctor) (opts : List OptInst) (c : Config) :
    session [(k, []), (k, [])] opts c = [construct k opts c, construct k opts c] := by
  simp [session]

/-! ## `user_overrides_platform` -/

/-- Platform options first, user options after: for every field, the user's options act on what
the platform's options left. -/
theorem user_after_platform (T : Target) (plat user : List OptInst) (f : Field) (v0 : Val) :
    fieldAfter T (plat ++ user) f v0 = fieldAfter T user f (fieldAfter T plat f v0) :=
  fieldAfter_append T plat user f v0

/-- A setting the user names by a replacing option has the user's (last) value, whatever the
platform definition says about it. -/
theorem user_overrides_platform (T : Target) (plat u₁ : List OptInst) (o : OptInst) (u₂ : List OptInst)
    (f : Field) (v v0 : Val) (pre : List (Mode × Val))
    (hw : writesTo T f o = pre ++ [(Mode.set, v)]) (hlast : ∀ o' ∈ u₂, writesTo T f o' = []) :
    fieldAfter T (plat ++ (u₁ ++ o :: u₂)) f v0 = v := by
  rw [← List.append_assoc]
  exact last_wins T (plat ++ u₁) o u₂ f v v0 pre hw hlast

/-- … through the real constructor: `platform.NewPlatform` hands `platformOptions ++ userOptions`
to `generic.NewDriver`; for every field of an object that gets built, a user option replacing it
(the last of the user's options naming it) determines the value of the driver that comes back. -/
theorem user_overrides_platform_generic (plat u₁ : List OptInst) (o : OptInst) (u₂ : List OptInst)
    (c : Config) (f : Field) (v : Val) (pre : List (Mode × Val))
    (hv : AllValid (plat ++ (u₁ ++ o :: u₂)))
    (hf : f ≠ .generic_Driver_Logger)
    (hreach : f.target ∈ genericReached (plat ++ (u₁ ++ o :: u₂)) c)
    (hw : writesTo f.target f o = pre ++ [(Mode.set, v)]) (hlast : ∀ o' ∈ u₂, writesTo f.target f o' = []) :
    ∃ c', construct .generic (plat ++ (u₁ ++ o :: u₂)) c = .ok c' ∧ c' f = v := by
  refine ⟨_, construct_eq_spec .generic _ c hv, ?_⟩
  show specGeneric _ c f = v
  unfold specGeneric
  simp only [hf, if_false, hreach, if_true]
  exact user_overrides_platform f.target plat u₁ o u₂ f v (c f) pre hw hlast

/-- the hypotheses are satisfiable: a platform `port` option overridden by the user's `WithPort` -/
example : ∃ c', construct .generic
      ([{ opt := .WithPort, args := [[[50,48,50,50]]] }] ++ ([] ++ ({ opt := .WithPort, args := [[[56,48]]] } : OptInst) :: []))
      defaults = .ok c' ∧ c' .transport_Args_Port = [[56,48]] := by
  apply user_overrides_platform_generic _ _ _ _ _ _ _ []
  · intro o ho
    simp at ho
    rcases ho with h | h <;> subst h <;> decide
  · decide
  · have : Field.transport_Args_Port.target = Target.transport_Args := rfl
    simp [genericReached, this]
  · have : Field.transport_Args_Port.target = Target.transport_Args := rfl
    simp [writesTo, applies, spec, valueOf, this]
  · simp

/-- An additive setting named by both has the platform's values first, then the user's, in order. -/
theorem user_appends_after_platform (T : Target) (plat user : List OptInst) (f : Field) (v0 : Val)
    (h : ∀ mv ∈ (plat ++ user).flatMap (writesTo T f), mv.1 = Mode.append) :
    fieldAfter T (plat ++ user) f v0 =
      v0 ++ ((plat.flatMap (writesTo T f)).map (·.2)).flatten ++ ((user.flatMap (writesTo T f)).map (·.2)).flatten := by
  rw [additive_accumulate_in_order T _ f v0 h]
  simp [List.flatMap_append, List.append_assoc]

/-! ## `invalid_is_badoption` -/

/-- only bad-option errors can come out of the first loop of `generic.NewDriver` (over the driver
itself), as long as creating the default logger does not fail -/
theorem first_pass_errors_are_badoption (o : OptInst) (e : Err)
    (hlog : o.opt = .WithDefaultLogger → o.envOk = true)
    (h : failsOn .generic_Driver o = some e) : e = .badOption := by
  have ht : allOpts.all (fun a =>
      !((spec a).validateFirst || (spec a).targets.contains .generic_Driver) ||
      (a == .WithDefaultLogger || !(spec a).otherErr) && ((spec a).valid.isNone || (spec a).badOption)) = true := by
    decide +kernel
  have h1 := forall_opt_of_all ht o.opt
  unfold failsOn applies at h
  simp only at h
  split at h
  · rename_i hc
    rw [hc] at h1
    simp only [Bool.not_true, Bool.false_or, Bool.and_eq_true, Bool.or_eq_true, beq_iff_eq,
      Bool.not_eq_true'] at h1
    unfold errOf at h
    split at h
    · rename_i hav
      have hsome : (spec o.opt).valid.isNone = false := by
        unfold argValid at hav
        cases hvv : (spec o.opt).valid with
        | none => simp [hvv] at hav
        | some _ => rfl
      rcases h1.2 with h2 | h2
      · rw [hsome] at h2; cases h2
      · rw [h2] at h; simpa using h.symm
    · split at h
      · rename_i henv
        rcases h1.1 with h2 | h2
        · have := hlog h2
          simp [this] at henv
        · rw [h2] at h
          split at h
          · simpa using h.symm
          · simp at h
      · cases h
  · cases h

/-- An invalid transport type, or an invalid NETCONF version (checked before the target
assertion, so through every constructor), makes every driver constructor fail with a bad-option
error — wherever the option stands in the list and whatever else the list holds. -/
theorem invalid_is_badoption (k : Ctor) (hk : k ≠ .logging) (opts : List OptInst) (c : Config) (o : OptInst)
    (ho : o ∈ opts)
    (hopt : o.opt = .WithTransportType ∨ o.opt = .WithNetconfPreferredVersion)
    (hbad : argValid (spec o.opt) o = false)
    (hlog : ∀ o' ∈ opts, o'.opt = .WithDefaultLogger → o'.envOk = true) :
    construct k opts c = .error .badOption := by
  -- the option fails on the generic driver object
  have hfail : failsOn .generic_Driver o = some .badOption := by
    rcases hopt with h | h <;>
      · unfold failsOn applies errOf
        rw [h] at hbad ⊢
        simp only [spec] at hbad ⊢
        simp [hbad]
  -- the first pass of generic.NewDriver fails with bad-option for any list containing o
  have hpass : ∀ (m : List OptInst), o ∈ m → (∀ o' ∈ m, o'.opt = .WithDefaultLogger → o'.envOk = true) →
      ∀ c, pass .generic_Driver m c = .error .badOption := by
    intro m hm hl c
    induction m generalizing c with
    | nil => cases hm
    | cons a m ih =>
      unfold pass
      rw [List.foldlM_cons]
      cases hfa : failsOn .generic_Driver a with
      | some e =>
        have := first_pass_errors_are_badoption a e (hl a (by simp)) hfa
        subst this
        simp [applyOpt, hfa]
        rfl
      | none =>
        rw [applyOpt_ok c hfa]
        have hm' : o ∈ m := by
          rcases List.mem_cons.1 hm with h | h
          · subst h; rw [hfail] at hfa; cases hfa
          · exact h
        exact ih hm' (fun o' ho' => hl o' (by simp [ho'])) _
  have hgen : ∀ (m : List OptInst), o ∈ m → (∀ o' ∈ m, o'.opt = .WithDefaultLogger → o'.envOk = true) →
      ∀ c, constructGeneric m c = .error .badOption := by
    intro m hm hl c
    unfold constructGeneric
    rw [hpass m hm hl c]
    rfl
  cases k with
  | generic => exact hgen opts ho hlog c
  | network =>
    simp only [construct, constructNetwork, hgen opts ho hlog c]
    rfl
  | netconf =>
    have hl' : ∀ o' ∈ opts ++ [netconfConnectionOpt], o'.opt = .WithDefaultLogger → o'.envOk = true := by
      intro o' ho' h
      rcases List.mem_append.1 ho' with h1 | h1
      · exact hlog o' h1 h
      · simp only [List.mem_singleton] at h1
        subst h1; rfl
    simp only [construct, constructNetconf, hgen _ (List.mem_append_left _ ho) hl' c]
    rfl
  | logging => exact absurd rfl hk

example : argValid (spec .WithTransportType) { opt := .WithTransportType, args := [[[120]]] } = false := by
  decide

/-- An invalid log level makes `logging.NewInstance` fail with a bad-option error. -/
theorem invalid_log_level_is_badoption (l₁ l₂ : List OptInst) (c : Config) (o : OptInst)
    (hopt : o.opt = .logging_WithLevel) (hbad : argValid (spec o.opt) o = false)
    (h₁ : ∀ o' ∈ l₁, failsOn .logging_Instance o' = none) :
    construct .logging (l₁ ++ o :: l₂) c = .error .badOption := by
  apply pass_error l₁ o l₂ c .badOption h₁
  unfold failsOn applies errOf
  rw [hopt] at hbad ⊢
  simp only [spec] at hbad ⊢
  simp [hbad]

/-! ## effect where the option acts: system transport argv, platform variants -/

/-- The override option decides the whole command line: with `WithSystemTransportOpenArgsOverride`
the spawned argv is exactly the given list (plus the NETCONF subsystem request), whatever port,
user, key or extra arguments are configured. -/
theorem argv_override (host : Bytes) (c : Config) (h : c .transport_System_OpenArgs ≠ []) :
    argvOfConfig host c = c .transport_System_OpenArgs ++
      (if c .transport_SSHArgs_NetconfConnection == [tokTrue] then [b!"-s", b!"netconf"] else []) := by
  unfold argvOfConfig SshCfg.systemArgv
  simp only [h, ne_eq, not_false_eq_true, if_true]
  split <;> simp

/-- Without an override the command line starts `host -p <port>` and ends with the accumulated
extra arguments (`WithSystemTransportOpenArgs` / platform `transport-system-open-args`, in
order), followed only by `-s netconf` for a NETCONF driver. -/
theorem argv_carries_port_and_extra_args (host : Bytes) (c : Config)
    (h : c .transport_System_OpenArgs = []) :
    ∃ mid, argvOfConfig host c =
      [host, b!"-p", SshCfg.fmtInt (valInt (c .transport_Args_Port))] ++ mid ++
        c .transport_System_ExtraArgs ++
        (if c .transport_SSHArgs_NetconfConnection == [tokTrue] then [b!"-s", b!"netconf"] else []) := by
  unfold argvOfConfig SshCfg.systemArgv SshCfg.buildOpenArgs
  simp only [h, ne_eq, not_true_eq_false, if_false]
  refine ⟨[b!"-o", b!"ConnectTimeout=" ++ SshCfg.fmtInt (SshCfg.timeoutSeconds (valInt (c .transport_Args_TimeoutSocket))),
      b!"-o", b!"ServerAliveInterval=" ++ SshCfg.fmtInt (SshCfg.timeoutSeconds (valInt (c .transport_Args_TimeoutSocket))),
      b!"-o", b!"EscapeChar=none"]
    ++ (if valStr (c .transport_Args_User) ≠ [] then [b!"-l", valStr (c .transport_Args_User)] else [])
    ++ (if (c .transport_SSHArgs_StrictKey == [tokTrue]) = true then
          [b!"-o", b!"StrictHostKeyChecking=yes"]
          ++ (if valStr (c .transport_SSHArgs_KnownHostsFile) ≠ [] then
                [b!"-o", b!"UserKnownHostsFile=" ++ valStr (c .transport_SSHArgs_KnownHostsFile)] else [])
        else [b!"-o", b!"StrictHostKeyChecking=no", b!"-o", b!"UserKnownHostsFile=/dev/null"])
    ++ (if valStr (c .transport_SSHArgs_ConfigFile) ≠ [] then [b!"-F", valStr (c .transport_SSHArgs_ConfigFile)]
        else [b!"-F", b!"/dev/null"])
    ++ (if valStr (c .transport_SSHArgs_PrivateKeyPath) ≠ [] then [b!"-i", valStr (c .transport_SSHArgs_PrivateKeyPath)]
        else []), ?_⟩
  split <;> simp [List.append_assoc]

/-- `NewPlatformVariant`: the variant replaces what it sets, everything else — in particular the
whole `options:` block — stays the default's. -/
theorem variant_merge (p v : PlatformDef) :
    (mergeVariant p v).options = p.options ∧
    (v.failedWhenContains ≠ [] → (mergeVariant p v).failedWhenContains = v.failedWhenContains) ∧
    (v.failedWhenContains = [] → (mergeVariant p v).failedWhenContains = p.failedWhenContains) ∧
    (v.privilegeLevels ≠ [] → (mergeVariant p v).privilegeLevels = v.privilegeLevels) ∧
    (v.privilegeLevels = [] → (mergeVariant p v).privilegeLevels = p.privilegeLevels) ∧
    (v.defaultDesiredPriv ≠ [] → (mergeVariant p v).defaultDesiredPriv = v.defaultDesiredPriv) ∧
    (v.defaultDesiredPriv = [] → (mergeVariant p v).defaultDesiredPriv = p.defaultDesiredPriv) ∧
    (∀ t, v.onOpen = some t → (mergeVariant p v).onOpen = some t) ∧
    (v.onOpen = none → (mergeVariant p v).onOpen = p.onOpen) := by
  refine ⟨rfl, ?_, ?_, ?_, ?_, ?_, ?_, ?_, ?_⟩ <;> intro h <;> simp_all [mergeVariant]

/-! ## `platform_option_names_total` -/
open Scrapli.Gen.PlatformOptions in
/-- Every option name the platform package recognises builds an option function that exists,
accepts the Go dynamic type `yaml.v3` produces for a value of the documented type (so a value of
the documented type never panics), and the documented type fits the option's parameter. -/
theorem platform_option_names_total :
    entries.all (fun e =>
      match e.opt with
      | none => false
      | some o =>
        if e.documented == "" then (spec o).params.isEmpty && e.conv == .none
        else
          (match documentedGoType e.documented with
           | some t => e.asserted.contains t
           | none => false) &&
          (match e.conv with
           | .direct => (spec o).params == [if e.documented == "an array of strings" then "[]string" else
                (documentedGoType e.documented).getD ""]
           | .regexp => e.documented == "a string" && (spec o).params == ["*regexp.Regexp"]
           | .seconds => e.documented == "a float" && (spec o).params == ["time.Duration"]
           | _ => false)) = true := by
  decide +kernel

open Scrapli.Gen.PlatformOptions in
/-- every documented platform option name builds the option function for the setting it names -/
theorem platform_names_build_their_option :
    [("port", Opt.WithPort), ("auth-bypass", .WithAuthBypass), ("auth-strict-key", .WithAuthNoStrictKey),
     ("prompt-pattern", .WithPromptPattern), ("username-pattern", .WithUsernamePattern),
     ("password-pattern", .WithPasswordPattern), ("passphrase-pattern", .WithPassphrasePattern),
     ("return-char", .WithReturnChar), ("read-delay", .WithReadDelay), ("timeout-ops", .WithTimeoutOps),
     ("transport-type", .WithTransportType), ("read-size", .WithTransportReadSize),
     ("transport-pty-height", .WithTermHeight), ("transport-pty-width", .WithTermWidth),
     ("transport-system-open-args", .WithSystemTransportOpenArgs)].all
      (fun p => entries.any fun e => e.nameS == p.1 && e.opt == some p.2) = true := by
  decide +kernel

open Scrapli.Gen.PlatformOptions in
/-- … consequently the model of the options block never panics on a value of the documented type. -/
theorem platform_value_of_documented_type_accepted (name : Bytes) (v : YVal) (e : Entry)
    (he : findEntry name = some e) (hdoc : e.documented ≠ "")
    (hv : documentedGoType e.documented = some v.goType) :
    ∃ oi, platformOpt name v = some oi ∧ oi.args = [renderY v e.conv] := by
  have hmem : e ∈ entries := List.mem_of_find?_eq_some he
  have h := List.all_eq_true.1 platform_option_names_total e hmem
  unfold platformOpt
  rw [he]
  cases ho : e.opt with
  | none => simp [ho] at h
  | some o =>
    have hd : (e.documented == "") = false := by simpa using hdoc
    simp only [ho, hd, hv] at h ⊢
    simp only [Bool.false_eq_true, if_false, Bool.and_eq_true] at h ⊢
    have hc : e.asserted.contains v.goType = true := h.1
    simp only [hc, if_true]
    exact ⟨_, rfl, rfl⟩

open Scrapli.Gen.PlatformOptions in
/-- The options block as the code translates it is the options block the property demands
(`platformOptSpec`: accept exactly the documented type), whenever the latter is defined. -/
theorem platformOpt_meets_spec (name : Bytes) (v : YVal) (oi : OptInst)
    (h : platformOptSpec name v = some oi) : platformOpt name v = some oi := by
  unfold platformOptSpec at h
  cases he : findEntry name with
  | none => simp [he] at h
  | some e =>
    have hmem : e ∈ entries := List.mem_of_find?_eq_some he
    have ht := List.all_eq_true.1 platform_option_names_total e hmem
    unfold platformOpt
    simp only [he] at h ⊢
    cases ho : e.opt with
    | none => simp [ho] at h
    | some o =>
      simp only [ho] at h ht ⊢
      by_cases hd : (e.documented == "") = true
      · simpa [hd] using h
      · simp only [hd, if_false, Bool.false_eq_true] at h ht ⊢
        by_cases hv : (documentedGoType e.documented == some v.goType) = true
        · have hv' : documentedGoType e.documented = some v.goType := by simpa using hv
          simp only [hv, if_true] at h
          simp only [hv', Bool.and_eq_true] at ht
          simp only [ht.1, if_true]
          exact h
        · simp [hv] at h

/-- Platform side: a string / int / list value of the documented type reaches the option as
exactly that value (`oi.args = [value]`), for every recognised name; with
`platform_rows_as_expected` the only thing in between is the declared conversion. -/
theorem platform_value_verbatim (name : Bytes) (v : YVal) (oi : OptInst)
    (h : platformOptSpec name v = some oi) (hne : oi.args ≠ []) (hflt : ∀ b n, v ≠ .flt b n) :
    platformOpt name v = some oi ∧
      oi.args = [match v with
        | .str s => [s] | .int d => [d] | .lst xs => xs
        | .bool b => [if b then tokTrue else [102,97,108,115,101]] | _ => []] := by
  refine ⟨platformOpt_meets_spec name v oi h, ?_⟩
  unfold platformOptSpec at h
  cases he : findEntry name with
  | none => simp [he] at h
  | some e =>
    simp only [he] at h
    cases ho : e.opt with
    | none => simp [ho] at h
    | some o =>
      simp only [ho] at h
      split at h
      · cases h; exact absurd rfl hne
      · split at h
        · cases h
          cases v with
          | flt b n => exact absurd rfl (hflt b n)
          | str s => cases e.conv <;> rfl
          | int d => cases e.conv <;> rfl
          | lst xs => cases e.conv <;> rfl
          | bool b => cases e.conv <;> rfl
          | null => cases e.conv <;> rfl
        · cases h

/-- `netconf.NewDriver` hands the logger of the generic driver it is built from to the NETCONF
driver (so `WithLogger` / `WithDefaultLogger` land on the driver the user gets back). -/
theorem netconf_driver_takes_generic_logger :
    Field.defaultExpr .netconf_Driver_Logger = "gd.Logger" := by
  decide

end Scrapli.Options.C19
