import ScrapliModel.Lemmas.Callbacks
import ScrapliModel.Generated.BodiesCallbacks
/-!
# C18 — Callback sends fire the right callback on the right trigger

Model: `ScrapliModel/Callbacks.lean` (`step`/`run` mirror `handleCallbacks`/`executeCallback`;
`check` mirrors `Callback.check` with the repaired not-contains guard, `checkAsIs` the source as it
stands; `trigger` is the property's wording). All theorems quantify over every callback list
(contains / not-contains / abstract regex predicate / sensitivity / once / complete / reset-output /
next-timeout / failing function), every loop state (hence every history), and every arrival
history: any device dialogue, cut into reads in any way, with empty polls and arbitrary timing.
-/
namespace Scrapli.Cb.C18
open Scrapli Scrapli.Cb

/-! ## the trigger predicate -/

/-- The repaired `Callback.check` computes exactly the trigger the property states. -/
theorem check_is_trigger (cb : Callback) (b : Bytes) : check cb b = trigger cb b :=
  check_eq_trigger cb b

/-- F10, in general: as the source stands, a callback with a not-contains text fires exactly when
its positive condition holds and the output DOES contain the not-contains text. -/
theorem checkAsIs_inverted (cb : Callback) (b : Bytes) (h : cb.notContains ≠ []) :
    checkAsIs cb b = (positive cb b && isInfix cb.notContainsB (cb.view b)) :=
  checkAsIs_set cb b h

/-- … and therefore disagrees with the property's trigger whenever the positive condition holds. -/
theorem checkAsIs_wrong_when_positive (cb : Callback) (b : Bytes) (h : cb.notContains ≠ [])
    (hp : positive cb b = true) : checkAsIs cb b = !trigger cb b := by
  have hne : cb.notContains.isEmpty = false := by
    cases hc : cb.notContains with
    | nil => exact absurd hc h
    | cons _ _ => rfl
  rw [checkAsIs_set cb b h]
  simp [trigger, forbidden, hp, hne]

/-- without a not-contains text the source's check is the property's trigger -/
theorem checkAsIs_ok_without_notContains (cb : Callback) (b : Bytes) (h : cb.notContains = []) :
    checkAsIs cb b = trigger cb b := checkAsIs_unset cb b h

/-- case-insensitive by default: a case-insensitive callback's trigger depends on the output only
through its folded form, so outputs that differ in letter case only trigger alike (the pattern is
applied to the folded text: it must be written in lower case or carry its own case flag) -/
theorem trigger_ignores_case (cb : Callback) (h : cb.insensitive = true) (b b' : Bytes)
    (hf : fold b = fold b') : trigger cb b = trigger cb b' := by
  simp [trigger, positive, forbidden, Callback.view, h, hf]

/-- THE TRIGGER LOOKS AT THE FOLD OF THE WHOLE ACCUMULATED OUTPUT: for a case-insensitive callback
(the `NewCallback` default) every comparison is made against `fold acc`, the lower-casing of the
complete accumulation — not against any text assembled from separately folded reads. -/
theorem trigger_on_whole_fold (cb : Callback) (h : cb.insensitive = true) (acc : Bytes) :
    trigger cb acc =
      (((!cb.contains.isEmpty && isInfix (fold cb.contains) (fold acc)) || (cb.hasRe && cb.re (fold acc))) &&
        !(!cb.notContains.isEmpty && isInfix (fold cb.notContains) (fold acc))) := by
  simp [trigger, positive, forbidden, Callback.view, Callback.containsB, Callback.notContainsB, h]

/-- … and that matters: lower-casing is not compatible with cutting. `É` (C3 89) folds to `é`
(C3 A9), but its two bytes folded separately give two U+FFFD, in which `é` does not occur. A loop
that folded each read on its own would never see a trigger whose character straddles two reads. -/
theorem fold_not_chunkwise :
    fold [195, 137] = [195, 169] ∧ fold [195] ++ fold [137] = runeError ++ runeError ∧
    isInfix [195, 169] (fold [195] ++ fold [137]) = false := by decide

/-- a case-sensitive callback (struct literal without `Insensitive`) looks at the raw output -/
theorem trigger_sensitive_raw (cb : Callback) (h : cb.insensitive = false) (b : Bytes) :
    trigger cb b = (((!cb.contains.isEmpty && isInfix cb.contains b) || (cb.hasRe && cb.re b)) &&
      !(!cb.notContains.isEmpty && isInfix cb.notContains b)) := by
  simp [trigger, positive, forbidden, Callback.view, Callback.containsB, Callback.notContainsB, h]

/-! ## one arrival, from any state (= after any history) -/

/-- `first_triggered_runs`: whenever the accumulation (output since the last reset plus this
arrival) satisfies some callback's trigger before the stage deadline, the callback executed is the
first such in list order and its function receives exactly that accumulation — the only
exception being a once-callback that already ran, for which the operation returns the once error
without running anything. -/
theorem first_triggered_runs (cbs : List Callback) (s : St) (a : Arrival)
    (ht : s.el + a.gap < s.t) (h : ∃ cb ∈ cbs, trigger cb (s.acc ++ a.data) = true) :
    ∃ i cb, cbs[i]? = some cb ∧ IsFirst trigger cbs i (s.acc ++ a.data) ∧
      ((cb.once = true ∧ i ∈ s.fired ∧ step check cbs s a = .done s.fired none .onceError) ∨
       (¬(cb.once = true ∧ i ∈ s.fired) ∧
          (step check cbs s a).event = some (i, s.acc ++ a.data))) := by
  have hck : check = trigger := by funext cb b; exact check_eq_trigger cb b
  obtain ⟨i, hf⟩ := exists_isFirst_of_exists h
  obtain ⟨cb, hcb, htr, hmin⟩ := hf
  refine ⟨i, cb, hcb, ⟨cb, hcb, htr, hmin⟩, ?_⟩
  rw [hck, step_fire trigger cbs s a ht i cb hcb ⟨cb, hcb, htr, hmin⟩]
  by_cases ho : cb.once = true ∧ i ∈ s.fired
  · left
    refine ⟨ho.1, ho.2, ?_⟩
    simp [execute, ho.1, ho.2]
  · right
    refine ⟨ho, ?_⟩
    have : (cb.once && s.fired.contains i) = false := by
      cases hco : cb.once <;> simp_all
    unfold execute
    simp only [this]
    cases cb.fnErr <;> cases cb.complete <;> simp [StepRes.event]

/-- `none_runs_without_trigger` (one arrival): while no trigger holds on the accumulation, no
callback runs, nothing is returned, and the loop just keeps the accumulated bytes. -/
theorem none_runs_without_trigger_step (cbs : List Callback) (s : St) (a : Arrival)
    (ht : s.el + a.gap < s.t) (h : ∀ cb ∈ cbs, trigger cb (s.acc ++ a.data) = false) :
    step check cbs s a =
      .cont { s with el := s.el + a.gap, acc := s.acc ++ a.data, full := s.full ++ a.data } none := by
  have hck : check = trigger := by funext cb b; exact check_eq_trigger cb b
  rw [hck]; exact step_quiet trigger cbs s a ht h

/-- the stage deadline: an arrival that comes at or after the stage's timeout is never looked at -/
theorem deadline_is_timeout (cbs : List Callback) (s : St) (a : Arrival) (rest : List Arrival)
    (h : s.t ≤ s.el + a.gap) :
    (run check cbs s (a :: rest)).outcome = .timeout ∧ (run check cbs s (a :: rest)).events = [] := by
  simp [run, step_late check cbs s a h]

/-! ## whole runs -/

/-- no trigger holds on any accumulation reached along `l`, starting from `acc` -/
def Quiet (cbs : List Callback) : Bytes → List Arrival → Prop
  | _, [] => True
  | acc, a :: rest => (∀ cb ∈ cbs, trigger cb (acc ++ a.data) = false) ∧ Quiet cbs (acc ++ a.data) rest

/-- `Quiet` says what it should: every non-empty prefix of the arrivals yields an accumulation on
which no trigger holds -/
theorem quiet_iff_prefixes (cbs : List Callback) (acc : Bytes) (l : List Arrival) :
    Quiet cbs acc l ↔ ∀ k, k < l.length → ∀ cb ∈ cbs, trigger cb (acc ++ flat (l.take (k + 1))) = false := by
  induction l generalizing acc with
  | nil => simp [Quiet]
  | cons a rest ih =>
    simp only [Quiet, ih]
    constructor
    · rintro ⟨h0, hr⟩ k hk cb hcb
      cases k with
      | zero => simpa [flat] using h0 cb hcb
      | succ k =>
        have := hr k (by simpa using hk) cb hcb
        simpa [flat, List.append_assoc] using this
    · intro h
      refine ⟨fun cb hcb => by simpa [flat] using h 0 (by simp) cb hcb, fun k hk cb hcb => ?_⟩
      have := h (k + 1) (by simpa using hk) cb hcb
      simpa [flat, List.append_assoc] using this

/-- the state after a quiet prefix: time advanced, bytes appended, nothing else changed -/
def advance (s : St) (pre : List Arrival) : St :=
  { s with el := s.el + gaps pre, acc := s.acc ++ flat pre, full := s.full ++ flat pre }

/-- `none_runs_without_trigger` (any history): along a prefix of arrivals on which no trigger ever
holds and which fits in the stage's timeout, no callback runs; the operation continues with
exactly the accumulated bytes. -/
theorem none_runs_without_trigger (cbs : List Callback) (s : St) (pre rest : List Arrival)
    (ht : s.el + gaps pre < s.t) (hq : Quiet cbs s.acc pre) :
    run check cbs s (pre ++ rest) = run check cbs (advance s pre) rest := by
  induction pre generalizing s with
  | nil => simp [advance, gaps, flat]
  | cons a pre ih =>
    simp only [gaps] at ht
    obtain ⟨h0, hr⟩ := hq
    have hstep := none_runs_without_trigger_step cbs s a (by omega) h0
    simp only [List.cons_append, run, hstep, Option.toList, List.nil_append]
    rw [ih _ (by simp; omega) hr]
    simp [advance, gaps, flat, Nat.add_assoc, List.append_assoc]

/-- … in particular a dialogue on which no trigger ever holds ends in a timeout with no callback run -/
theorem silent_dialogue_times_out (cbs : List Callback) (s : St) (l : List Arrival)
    (hq : Quiet cbs s.acc l) :
    (run check cbs s l).events = [] ∧ (run check cbs s l).outcome = .timeout := by
  induction l generalizing s with
  | nil => simp [run]
  | cons a l ih =>
    by_cases ht : s.el + a.gap < s.t
    · have hstep := none_runs_without_trigger_step cbs s a ht hq.1
      simp only [run, hstep, Option.toList, List.nil_append]
      exact ih _ hq.2
    · exact ⟨(deadline_is_timeout cbs s a l (by omega)).2, (deadline_is_timeout cbs s a l (by omega)).1⟩

/-- `first_triggered_runs` (any history, any segmentation): if the arrivals are `pre ++ a :: post`,
no trigger held during `pre`, the deadline is not reached, and at `a` the accumulation satisfies
some trigger, then the next thing that happens is the execution of the first triggered callback on
the accumulation `acc ++ pre ++ a` (or the once error). -/
theorem first_fire_after_quiet_prefix (cbs : List Callback) (s : St) (pre post : List Arrival)
    (a : Arrival) (ht : s.el + gaps pre + a.gap < s.t) (hq : Quiet cbs s.acc pre)
    (h : ∃ cb ∈ cbs, trigger cb (s.acc ++ flat pre ++ a.data) = true) :
    run check cbs s (pre ++ a :: post) = run check cbs (advance s pre) (a :: post) ∧
    ∃ i cb, cbs[i]? = some cb ∧ IsFirst trigger cbs i (s.acc ++ flat pre ++ a.data) ∧
      ((cb.once = true ∧ i ∈ s.fired ∧ (run check cbs s (pre ++ a :: post)).outcome = .onceError ∧
          (run check cbs s (pre ++ a :: post)).events = []) ∨
       (¬(cb.once = true ∧ i ∈ s.fired) ∧
          (run check cbs s (pre ++ a :: post)).events.head? = some (i, s.acc ++ flat pre ++ a.data))) := by
  have h1 := none_runs_without_trigger cbs s pre (a :: post) (by omega) hq
  refine ⟨h1, ?_⟩
  have hs := first_triggered_runs cbs (advance s pre) a (by simp [advance]; omega) (by simpa [advance] using h)
  obtain ⟨i, cb, hcb, hf, hcase⟩ := hs
  refine ⟨i, cb, hcb, by simpa [advance] using hf, ?_⟩
  rw [h1]
  rcases hcase with ⟨ho, hm, hst⟩ | ⟨hno, hev⟩
  · left
    refine ⟨ho, by simpa [advance] using hm, ?_, ?_⟩ <;> simp [run_done post hst]
  · right
    refine ⟨by simpa [advance] using hno, ?_⟩
    have hacc : (advance s pre).acc = s.acc ++ flat pre := rfl
    cases hst : step check cbs (advance s pre) a with
    | done f ev o =>
      simp only [hst, StepRes.event] at hev
      rw [run_done post hst, hev, hacc]; rfl
    | cont s' ev =>
      simp only [hst, StepRes.event] at hev
      rw [run_cont post hst, hev, hacc]; rfl

/-- a quiet prefix can be merged with the arrival that follows it: the run is the one in which all
those bytes came in a single read -/
theorem quiet_prefix_merges (cbs : List Callback) (s : St) (pre post : List Arrival) (a : Arrival)
    (ht : s.el + gaps pre < s.t) (hq : Quiet cbs s.acc pre) :
    run check cbs s (pre ++ a :: post) =
      run check cbs s (⟨gaps pre + a.gap, flat pre ++ a.data⟩ :: post) := by
  rw [none_runs_without_trigger cbs s pre (a :: post) ht hq]
  have hst : step check cbs (advance s pre) a = step check cbs s ⟨gaps pre + a.gap, flat pre ++ a.data⟩ :=
    step_congr check cbs _ _ _ _ rfl rfl (by simp [advance, Nat.add_assoc])
      (by simp [advance, List.append_assoc]) (by simp [advance, List.append_assoc])
  simp only [run, hst]

/-- `first_fire_segmentation_independent`: for a fixed accumulated text the outcome does not depend
on how the device's bytes were cut into reads. Two histories that deliver the same bytes in the same
time — cut anywhere, also inside a multi-byte character — and in which no trigger holds before the
last read of that text, produce the same run: the same callback fires with the same argument, and
everything after it is the same. -/
theorem first_fire_segmentation_independent (cbs : List Callback) (s : St)
    (pre1 pre2 post : List Arrival) (a1 a2 : Arrival)
    (hbytes : flat pre1 ++ a1.data = flat pre2 ++ a2.data)
    (htime : gaps pre1 + a1.gap = gaps pre2 + a2.gap)
    (ht1 : s.el + gaps pre1 < s.t) (ht2 : s.el + gaps pre2 < s.t)
    (hq1 : Quiet cbs s.acc pre1) (hq2 : Quiet cbs s.acc pre2) :
    run check cbs s (pre1 ++ a1 :: post) = run check cbs s (pre2 ++ a2 :: post) := by
  rw [quiet_prefix_merges cbs s pre1 post a1 ht1 hq1, quiet_prefix_merges cbs s pre2 post a2 ht2 hq2,
    hbytes, htime]

/-- in particular a text delivered in any quiet segmentation behaves as if it came in one read -/
theorem segmentation_vs_single_read (cbs : List Callback) (s : St) (pre post : List Arrival) (a : Arrival)
    (ht : s.el + gaps pre < s.t) (hq : Quiet cbs s.acc pre) :
    (run check cbs s (pre ++ a :: post)).events.head? =
      (run check cbs s (⟨gaps pre + a.gap, flat pre ++ a.data⟩ :: post)).events.head? := by
  rw [quiet_prefix_merges cbs s pre post a ht hq]

/-- every callback that runs anywhere in a run is the first in list order whose trigger holds on
the argument it receives -/
theorem events_first_triggered (cbs : List Callback) (s : St) (l : List Arrival) :
    ∀ e ∈ (run check cbs s l).events, IsFirst trigger cbs e.1 e.2 := by
  have hck : check = trigger := by funext cb b; exact check_eq_trigger cb b
  rw [hck]
  induction l generalizing s with
  | nil => simp [run]
  | cons a l ih =>
    intro e he
    rcases step_cases trigger cbs s a with ⟨_, hst⟩ | ⟨_, _, hst⟩ | ⟨_, i, cb, hcb, hfirst, hst⟩
    · rw [run_done l hst] at he; simp at he
    · rw [run_cont l hst] at he
      exact ih _ e (by simpa using he)
    · rcases execute_cases s i cb (s.acc ++ a.data) (s.full ++ a.data) with
        ⟨_, _, hx⟩ | ⟨_, _, hx⟩ | ⟨_, _, _, hx⟩ | ⟨_, _, _, hx⟩
      · rw [run_done l (hst.trans hx)] at he; simp at he
      · rw [run_done l (hst.trans hx)] at he; simp at he; subst he; exact hfirst
      · rw [run_done l (hst.trans hx)] at he; simp at he; subst he; exact hfirst
      · rw [run_cont l (hst.trans hx)] at he
        simp only [Option.toList, List.singleton_append, List.mem_cons] at he
        rcases he with he | he
        · subst he; exact hfirst
        · exact ih _ e he

/-- The events cut a prefix of the arrival history into consecutive non-empty segments; each
event's argument is the output accumulated since the last reset: the previous argument (dropped if
that callback resets the output) followed by the bytes of its own segment. -/
inductive Segs (cbs : List Callback) : Bytes → List Arrival → List Event → Prop
  | nil (acc : Bytes) (l : List Arrival) : Segs cbs acc l []
  | cons (acc : Bytes) (seg rest : List Arrival) (i : Nat) (cb : Callback) (evs : List Event) :
      seg ≠ [] → cbs[i]? = some cb →
      Segs cbs (if cb.resetOutput then [] else acc ++ flat seg) rest evs →
      Segs cbs acc (seg ++ rest) ((i, acc ++ flat seg) :: evs)

theorem Segs.single (cbs : List Callback) (acc : Bytes) (a : Arrival) (l : List Arrival) (i : Nat)
    (cb : Callback) (evs : List Event) (hcb : cbs[i]? = some cb)
    (h : Segs cbs (if cb.resetOutput then [] else acc ++ a.data) l evs) :
    Segs cbs acc (a :: l) ((i, acc ++ a.data) :: evs) := by
  have := Segs.cons acc [a] l i cb evs (by simp) hcb (by simpa [flat] using h)
  simpa [flat] using this

/-- every callback function receives the output accumulated since the last reset, for every
history and segmentation -/
theorem events_receive_accumulation (cbs : List Callback) (s : St) (l : List Arrival) :
    Segs cbs s.acc l (run check cbs s l).events := by
  induction l generalizing s with
  | nil => exact .nil _ _
  | cons a l ih =>
    rcases step_cases check cbs s a with ⟨_, hst⟩ | ⟨_, _, hst⟩ | ⟨_, i, cb, hcb, hfirst, hst⟩
    · rw [run_done l hst]; exact .nil _ _
    · -- no trigger: extend the first segment of the continuation by `a`
      rw [run_cont l hst]
      simp only [Option.toList, List.nil_append]
      have := ih { s with el := s.el + a.gap, acc := s.acc ++ a.data, full := s.full ++ a.data }
      generalize (run check cbs _ l).events = evs at this
      cases this with
      | nil => exact .nil _ _
      | cons _ seg rest i cb evs' hne hcb htail =>
        have h2 : Segs cbs s.acc ((a :: seg) ++ rest) ((i, s.acc ++ flat (a :: seg)) :: evs') := by
          apply Segs.cons _ _ _ _ cb _ (by simp) hcb
          simpa [flat, List.append_assoc] using htail
        simpa [flat, List.append_assoc] using h2
    · rcases execute_cases s i cb (s.acc ++ a.data) (s.full ++ a.data) with
        ⟨_, _, hx⟩ | ⟨_, _, hx⟩ | ⟨_, _, _, hx⟩ | ⟨_, _, _, hx⟩
      · rw [run_done l (hst.trans hx)]; exact .nil _ _
      · rw [run_done l (hst.trans hx)]
        exact Segs.single cbs s.acc a l i cb [] hcb (.nil _ _)
      · rw [run_done l (hst.trans hx)]
        exact Segs.single cbs s.acc a l i cb [] hcb (.nil _ _)
      · rw [run_cont l (hst.trans hx)]
        exact Segs.single cbs s.acc a l i cb _ hcb (ih (nextSt s i cb _ _))

/-- `once_never_twice`: a callback marked once runs at most once in an operation, and not at all
if its `triggered` flag was already set (e.g. by an earlier operation with the same objects);
once it ran, its flag stays set in the callback object. -/
theorem once_never_twice (cbs : List Callback) (s : St) (l : List Arrival) (i : Nat) (cb : Callback)
    (hcb : cbs[i]? = some cb) (ho : cb.once = true) :
    ((run check cbs s l).events.filter (fun e => e.1 == i)).length ≤ (if i ∈ s.fired then 0 else 1) ∧
    (((run check cbs s l).events.filter (fun e => e.1 == i)).length = 1 → i ∈ (run check cbs s l).fired) ∧
    (i ∈ s.fired → i ∈ (run check cbs s l).fired) := by
  induction l generalizing s with
  | nil => simp [run]
  | cons a l ih =>
    rcases step_cases check cbs s a with ⟨_, hst⟩ | ⟨_, _, hst⟩ | ⟨_, k, cbk, hcbk, hfirst, hst⟩
    · rw [run_done l hst]; simp
    · rw [run_cont l hst]
      simp only [Option.toList, List.nil_append]
      exact ih _
    · by_cases hki : k = i
      · subst hki
        have hcc : cbk = cb := by rw [hcbk] at hcb; exact Option.some.inj hcb
        subst hcc
        rcases execute_cases s k cbk (s.acc ++ a.data) (s.full ++ a.data) with
          ⟨_, hm, hx⟩ | ⟨hno, _, hx⟩ | ⟨hno, _, _, hx⟩ | ⟨hno, _, _, hx⟩
        · rw [run_done l (hst.trans hx)]; simp [hm]
        · have hm : k ∉ s.fired := fun hm => hno ⟨ho, hm⟩
          rw [run_done l (hst.trans hx)]; simp [hm, nextSt, ho]
        · have hm : k ∉ s.fired := fun hm => hno ⟨ho, hm⟩
          rw [run_done l (hst.trans hx)]; simp [hm, nextSt, ho]
        · have hm : k ∉ s.fired := fun hm => hno ⟨ho, hm⟩
          rw [run_cont l (hst.trans hx)]
          have := ih (nextSt s k cbk (s.acc ++ a.data) (s.full ++ a.data))
          have hin : k ∈ (nextSt s k cbk (s.acc ++ a.data) (s.full ++ a.data)).fired := by
            simp [nextSt, ho]
          simp only [hin, if_true, Nat.le_zero_eq, List.length_eq_zero_iff, true_implies] at this
          simp [hm, this.1, this.2.2]
      · have hne : (k == i) = false := by simpa using hki
        have hmem : ∀ acc' full', (i ∈ (nextSt s k cbk acc' full').fired) ↔ i ∈ s.fired := by
          intro _ _
          cases hko : cbk.once <;> simp [nextSt, hko, Ne.symm hki]
        rcases execute_cases s k cbk (s.acc ++ a.data) (s.full ++ a.data) with
          ⟨_, hm, hx⟩ | ⟨hno, _, hx⟩ | ⟨hno, _, _, hx⟩ | ⟨hno, _, _, hx⟩
        · rw [run_done l (hst.trans hx)]; simp
        · rw [run_done l (hst.trans hx)]
          simp only [Option.toList, List.filter_cons, hne]
          simp [hmem]
        · rw [run_done l (hst.trans hx)]
          simp only [Option.toList, List.filter_cons, hne]
          simp [hmem]
        · rw [run_cont l (hst.trans hx)]
          simp only [Option.toList, List.singleton_append, List.filter_cons, hne]
          have := ih (nextSt s k cbk (s.acc ++ a.data) (s.full ++ a.data))
          simp only [hmem] at this
          simpa using this

/-- `complete_returns_whole_dialogue`: when the operation completes, the returned bytes are the
whole dialogue — everything that arrived since the start of the operation up to and including the
arrival that triggered the completing callback, regardless of resets — and the last callback run
is one marked complete. -/
theorem complete_returns_whole_dialogue (cbs : List Callback) (s : St) (l : List Arrival) (out : Bytes)
    (h : (run check cbs s l).outcome = .complete out) :
    ∃ pre post, l = pre ++ post ∧ pre ≠ [] ∧ out = s.full ++ flat pre ∧
      ∃ i arg cb, (run check cbs s l).events.getLast? = some (i, arg) ∧ cbs[i]? = some cb ∧
        cb.complete = true := by
  induction l generalizing s with
  | nil => simp [run] at h
  | cons a l ih =>
    rcases step_cases check cbs s a with ⟨_, hst⟩ | ⟨_, _, hst⟩ | ⟨_, i, cb, hcb, hfirst, hst⟩
    · rw [run_done l hst] at h; simp at h
    · rw [run_cont l hst] at h ⊢
      obtain ⟨pre, post, hl, hne, hout, hlast⟩ := ih _ h
      refine ⟨a :: pre, post, by simp [hl], by simp, by simp [hout, flat, List.append_assoc], ?_⟩
      simpa using hlast
    · rcases execute_cases s i cb (s.acc ++ a.data) (s.full ++ a.data) with
        ⟨_, _, hx⟩ | ⟨_, _, hx⟩ | ⟨_, _, hc, hx⟩ | ⟨_, _, _, hx⟩
      · rw [run_done l (hst.trans hx)] at h; simp at h
      · rw [run_done l (hst.trans hx)] at h; simp at h
      · rw [run_done l (hst.trans hx)] at h ⊢
        simp only [Outcome.complete.injEq] at h
        exact ⟨[a], l, rfl, by simp, by simp [← h, flat], i, s.acc ++ a.data, cb, by simp, hcb, hc⟩
      · rw [run_cont l (hst.trans hx)] at h ⊢
        obtain ⟨pre, post, hl, hne, hout, j, arg, cbj, hlast, hcbj, hcj⟩ := ih _ h
        refine ⟨a :: pre, post, by simp [hl], by simp,
          by simp [hout, nextSt, flat, List.append_assoc], j, arg, cbj, ?_, hcbj, hcj⟩
        simp only [Option.toList, List.singleton_append]
        rw [List.getLast?_cons_of_ne_nil]
        · exact hlast
        · intro hnil; rw [hnil] at hlast; simp at hlast

/-- a triggered callback marked complete ends the operation at once with the full output -/
theorem complete_ends_operation (cbs : List Callback) (s : St) (a : Arrival) (rest : List Arrival)
    (i : Nat) (cb : Callback) (ht : s.el + a.gap < s.t) (hcb : cbs[i]? = some cb)
    (hf : IsFirst trigger cbs i (s.acc ++ a.data)) (hc : cb.complete = true)
    (hfn : cb.fnErr = false) (ho : ¬(cb.once = true ∧ i ∈ s.fired)) :
    (run check cbs s (a :: rest)).outcome = .complete (s.full ++ a.data) ∧
    (run check cbs s (a :: rest)).events = [(i, s.acc ++ a.data)] := by
  have hck : check = trigger := by funext cb b; exact check_eq_trigger cb b
  rw [hck]
  have hst := step_fire trigger cbs s a ht i cb hcb hf
  rcases execute_cases s i cb (s.acc ++ a.data) (s.full ++ a.data) with
    ⟨h1, h2, _⟩ | ⟨_, h, _⟩ | ⟨_, _, _, hx⟩ | ⟨_, _, h, _⟩
  · exact absurd ⟨h1, h2⟩ ho
  · simp [hfn] at h
  · rw [run_done rest (hst.trans hx)]; simp
  · simp [hc] at h

/-- `no_completion_is_timeout`: an operation in which no callback marked complete runs, and which
does not stop on the once error or on an error of a user function, ends with a timeout error —
whatever the dialogue. -/
theorem no_completion_is_timeout (cbs : List Callback) (s : St) (l : List Arrival)
    (hnc : ∀ e ∈ (run check cbs s l).events, ∀ cb, cbs[e.1]? = some cb → cb.complete = false)
    (h1 : (run check cbs s l).outcome ≠ .onceError) (h2 : (run check cbs s l).outcome ≠ .fnError) :
    (run check cbs s l).outcome = .timeout := by
  cases ho : (run check cbs s l).outcome with
  | timeout => rfl
  | onceError => exact absurd ho h1
  | fnError => exact absurd ho h2
  | complete out =>
    obtain ⟨_, _, _, _, _, i, arg, cb, hlast, hcb, hc⟩ :=
      complete_returns_whole_dialogue cbs s l out ho
    have := hnc (i, arg) (List.mem_of_getLast? hlast) cb hcb
    simp [hc] at this

/-- without any complete callback (and no once / failing callbacks) every dialogue times out -/
theorem no_complete_callback_always_times_out (cbs : List Callback) (s : St) (l : List Arrival)
    (hc : ∀ cb ∈ cbs, cb.complete = false ∧ cb.once = false ∧ cb.fnErr = false) :
    (run check cbs s l).outcome = .timeout := by
  induction l generalizing s with
  | nil => simp [run]
  | cons a l ih =>
    rcases step_cases check cbs s a with ⟨_, hst⟩ | ⟨_, _, hst⟩ | ⟨_, i, cb, hcb, hfirst, hst⟩
    · rw [run_done l hst]
    · rw [run_cont l hst]; exact ih _
    · have hh := hc cb (List.mem_of_getElem? hcb)
      rcases execute_cases s i cb (s.acc ++ a.data) (s.full ++ a.data) with
        ⟨h, _, _⟩ | ⟨_, h, _⟩ | ⟨_, _, h, _⟩ | ⟨_, _, _, hx⟩
      · simp [hh.2.1] at h
      · simp [hh.2.2] at h
      · simp [hh.1] at h
      · rw [run_cont l (hst.trans hx)]; exact ih _

/-! ## the hypotheses are satisfiable; concrete instances -/

/-- `hello` / not `bad`, the F10 witness (case-insensitive, as `NewCallback` builds it) -/
def cbHello : Callback :=
  { contains := [104, 101, 108, 108, 111], notContains := [98, 97, 100], hasRe := false,
    re := fun _ => false, insensitive := true, resetOutput := true, once := false,
    complete := true, nextTimeout := 0, fnErr := false }

/-- `hello world`, `Hello bad world` -/
def helloWorld : Bytes := [104, 101, 108, 108, 111, 32, 119, 111, 114, 108, 100]
def helloBadWorld : Bytes := [72, 101, 108, 108, 111, 32, 98, 97, 100, 32, 119, 111, 114, 108, 100]

/-- the property's trigger and the repaired check fire on `hello world` and not on
`Hello bad world`; the source as it stands does the opposite (F10) -/
example : trigger cbHello helloWorld = true ∧ trigger cbHello helloBadWorld = false ∧
    check cbHello helloWorld = true ∧ check cbHello helloBadWorld = false ∧
    checkAsIs cbHello helloWorld = false ∧ checkAsIs cbHello helloBadWorld = true := by decide

/-- `HELLO` and `hello` fold alike (hypothesis of `trigger_ignores_case`) -/
example : fold [72, 69, 76, 76, 79] = fold [104, 101, 108, 108, 111] := by decide

/-- `café` / `CAFÉ` with the `É` cut between two reads: the prefix `CAF\xC3` is quiet, and the whole
text triggers (hypotheses of `first_fire_segmentation_independent` for the two cuts `CAF\xC3|\x89` and
`CA|F\xC3\x89`) -/
def cbCafe : Callback :=
  { cbHello with contains := [99, 97, 102, 195, 169], notContains := [] }

example : Quiet [cbCafe] [] [⟨0, [67, 65, 70, 195]⟩] ∧ Quiet [cbCafe] [] [⟨0, [67, 65]⟩] ∧
    flat [⟨0, [67, 65, 70, 195]⟩] ++ [137] = flat [⟨0, [67, 65]⟩] ++ [70, 195, 137] ∧
    trigger cbCafe [67, 65, 70, 195, 137] = true := by
  refine ⟨⟨?_, trivial⟩, ⟨?_, trivial⟩, by decide, by decide⟩ <;>
    (intro cb hcb; simp at hcb; subst hcb; decide)

/-- hypotheses of `first_triggered_runs` / `complete_ends_operation` hold for a concrete case -/
example : (St.init [] 100).el + (Arrival.mk 3 helloWorld).gap < (St.init [] 100).t ∧
    (∃ cb ∈ [cbHello], trigger cb ((St.init [] 100).acc ++ (Arrival.mk 3 helloWorld).data) = true) :=
  ⟨by decide, cbHello, by simp, by decide⟩

/-- a quiet prefix followed by a trigger: `hel` then `lo world` in a second read -/
example : Quiet [cbHello] [] [⟨1, [104, 101, 108]⟩] ∧
    trigger cbHello ([] ++ flat [⟨1, [104, 101, 108]⟩] ++ [108, 111]) = true := by
  refine ⟨⟨?_, trivial⟩, by decide⟩
  intro cb hcb; simp at hcb; subst hcb; decide

/-- a complete run: two reads, the second one completes and the whole dialogue comes back -/
example : (run check [cbHello] (St.init [] 100) [⟨1, [104, 101, 108]⟩, ⟨1, [108, 111]⟩]).outcome =
    .complete [104, 101, 108, 108, 111] := by decide

/-- a once callback that does not reset the output fires again on the next (empty) poll: once error -/
example : (run check [{ cbHello with complete := false, once := true, resetOutput := false }]
    (St.init [] 100) [⟨1, helloWorld⟩, ⟨1, []⟩]).outcome = .onceError := by decide

/-! ## the whole operation and its faults -/

/-- without faults the operation is the callback loop from the initial state: every theorem above
applies to `SendWithCallbacks` itself -/
theorem sendOp_no_faults (cbs : List Callback) (fired : List Nat) (timeout : Nat) (input : Bytes)
    (l : List Arrival) :
    (sendOp check cbs fired timeout input ⟨false, false, none⟩ l).events =
        (run check cbs (St.init fired timeout) l).events ∧
    (sendOp check cbs fired timeout input ⟨false, false, none⟩ l).outcome =
        .loop (run check cbs (St.init fired timeout) l).outcome ∧
    (sendOp check cbs fired timeout input ⟨false, false, none⟩ l).fired =
        (run check cbs (St.init fired timeout) l).fired := by
  simp [sendOp]

/-- a refused operation option or a failing input write: no callback runs, nothing is consumed,
the once flags are untouched, and (for the option error) nothing was written -/
theorem setup_fault_runs_nothing (cbs : List Callback) (fired : List Nat) (timeout : Nat) (input : Bytes)
    (f : OpFaults) (l : List Arrival) (h : f.optErr = true ∨ (input ≠ [] ∧ f.writeFails = true)) :
    (sendOp check cbs fired timeout input f l).events = [] ∧
    (sendOp check cbs fired timeout input f l).fired = fired ∧
    (sendOp check cbs fired timeout input f l).wrote = false ∧
    ((sendOp check cbs fired timeout input f l).outcome = .optionError ∨
     (sendOp check cbs fired timeout input f l).outcome = .writeError) := by
  unfold sendOp
  by_cases ho : f.optErr = true
  · simp [ho]
  · rcases h with h | ⟨hne, hw⟩
    · exact absurd h ho
    · have : input.isEmpty = false := by cases input <;> simp_all
      simp [ho, hw, this]

/-- a history during which the operation keeps polling ends, if nothing else arrives, in a timeout -/
theorem finalState_some_timeout (cbs : List Callback) (s s' : St) (l : List Arrival)
    (h : finalState check cbs s l = some s') : (run check cbs s l).outcome = .timeout := by
  induction l generalizing s with
  | nil => simp [run]
  | cons a l ih =>
    unfold finalState at h
    cases hst : step check cbs s a with
    | done f ev o => simp [hst] at h
    | cont s1 ev =>
      simp only [hst] at h
      rw [run_cont l hst]
      exact ih s1 h

/-- a poll error ends the operation with that error: the callbacks that ran before it ran exactly
as in the undisturbed dialogue (same callbacks, same arguments, same once flags), none runs after
it; an error that would come only after the operation has returned, or after the stage deadline,
changes nothing -/
theorem read_error_ends_operation (cbs : List Callback) (fired : List Nat) (timeout : Nat)
    (input : Bytes) (l : List Arrival) (gap : Nat) :
    let r := sendOp check cbs fired timeout input ⟨false, false, some gap⟩ l
    let u := run check cbs (St.init fired timeout) l
    r.events = u.events ∧ r.fired = u.fired ∧
    (∀ s', finalState check cbs (St.init fired timeout) l = some s' → s'.el + gap < s'.t →
        r.outcome = .readError) ∧
    (finalState check cbs (St.init fired timeout) l = none → r.outcome = .loop u.outcome) ∧
    (∀ s', finalState check cbs (St.init fired timeout) l = some s' → s'.t ≤ s'.el + gap →
        r.outcome = .loop .timeout) := by
  simp only [sendOp]
  cases hfs : finalState check cbs (St.init fired timeout) l with
  | none => simp
  | some s' =>
    have hto := finalState_some_timeout cbs _ s' l hfs
    by_cases hd : s'.t ≤ s'.el + gap
    · simp [hd, hto]
      try omega
    · simp [hd]
      try omega

/-- concrete instance: `hel` arrives, then the transport fails: read error, no callback ran -/
example : (sendOp check [cbHello] [] 100 [120] ⟨false, false, some 1⟩ [⟨1, [104, 101, 108]⟩]).outcome =
    .readError := by decide

/-! ## tie to the source: translated body = model (regenerated on every run) -/

/-- the body of `(*Callback).check` as the translator renders it from the current source
(`Generated/BodiesCallbacks.lean`; the regex match and the cached folded strings are the fields
`re`, `containsB`, `notContainsB`) is `check`, for every callback and every text -/
theorem generated_check_eq (cb : Callback) (b : Bytes) :
    Gen.Bodies.Callbacks.check cb b = check cb b := by
  unfold Gen.Bodies.Callbacks.check check Callback.view
  have e1 : (cb.contains != ([] : Bytes)) = !cb.contains.isEmpty := by cases cb.contains <;> rfl
  have e2 : (cb.notContains != ([] : Bytes)) = !cb.notContains.isEmpty := by
    cases cb.notContains <;> rfl
  simp only [e1, e2]

end Scrapli.Cb.C18
