import ScrapliModel.Lemmas.RegexSound
import ScrapliModel.Lemmas.RegexLine
import ScrapliModel.Generated.Patterns
/-!
# RX — the regex engine against a declarative match relation

Property theorems only. Model: `ScrapliModel/Regex.lean` (the executable engine `Rx.m`, `matchAt`,
`searchFrom`, `find`, `isMatch`, `findAll`, `replaceAll`). Specification:
`ScrapliModel/RegexSpec.lean` (`Rx.Matches re p q`: rune-level, position-aware, no captures, no
priorities, no greediness). Proofs: `ScrapliModel/Lemmas/RegexSound.lean`.

What is covered: the engine never reports a span the relation does not allow (soundness, for every
fuel), and with the fuel `find` uses it reports a match whenever the relation allows one
(completeness; *which* of the allowed matches is reported — leftmost-first priorities, greediness,
captures — is not specified by the relation and stays covered by the differential test against
Go's `regexp`).
-/
namespace Scrapli.Rx.RX
open Scrapli Scrapli.Rx

/-! ## Soundness (any fuel) -/

/-- Engine soundness in continuation form: whatever the fuel, captures and continuation, a result
of the engine comes from a match allowed by the relation followed by a successful continuation. -/
theorem engine_sound (f : Nat) (re : Re) (p : Pos) (c : Caps)
    (k : Pos → Caps → Option (Pos × Caps)) (x : Pos × Caps) (h : m f re p c k = some x) :
    ∃ q c', Matches re p q ∧ k q c' = some x :=
  m_sound f re p c k x h

/-- A match reported at `p` is allowed by the relation. -/
theorem matchAt_sound (re : Re) (fuel : Nat) (p q : Pos) (c : Caps)
    (h : matchAt re fuel p = some (q, c)) : Matches re p q :=
  Rx.matchAt_sound h

/-- `find` reports `(a, e)` only if the regex matches `s` from a rune-boundary position at offset
`a` to a position at offset `e`; both are positions of `s`. -/
theorem find_sound (re : Re) (s : Bytes) (a e : Nat) (c : Caps) (h : find re s = some (a, e, c)) :
    ∃ p q, RuneReach (Pos.start s) p ∧ p.Of s ∧ q.Of s ∧ p.off = a ∧ q.off = e ∧ Matches re p q :=
  Rx.find_sound h

/-- `isMatch re s = true` only if some span of `s` matches. -/
theorem isMatch_sound (re : Re) (s : Bytes) (h : isMatch re s = true) :
    ∃ p q, RuneReach (Pos.start s) p ∧ p.Of s ∧ q.Of s ∧ Matches re p q :=
  Rx.isMatch_sound h

/-! ## Completeness (fuel ≥ `Re.need`) -/

/-- Engine completeness in continuation form: if the relation allows a match from `p` to `q`, the
continuation accepts `q` and the fuel covers `Re.need re (bytes left)`, the engine succeeds. The
star's progress check is harmless: empty iterations are dropped from the derivation. -/
theorem engine_complete (re : Re) (p q : Pos) (h : Matches re p q) (f : Nat)
    (hf : re.need p.after.length ≤ f) (c : Caps) (k : Pos → Caps → Option (Pos × Caps))
    (hk : ∀ c', (k q c').isSome = true) : (m f re p c k).isSome = true :=
  m_complete h f hf c k hk

/-- With enough fuel `matchAt` answers exactly "does some match start at `p`". -/
theorem matchAt_complete (re : Re) (p : Pos) (fuel : Nat) (hf : re.need p.after.length ≤ fuel) :
    (matchAt re fuel p).isSome = true ↔ ∃ q, Matches re p q :=
  matchAt_isSome_iff hf

/-- the relation is inhabited and the fuel hypothesis satisfiable: `ab*` on `abb`, `(a|b)+$` on a
two-byte rune -/
example : (∃ q, Matches (.cat (.lit 97) (.star (.lit 98) true)) (Pos.start [97, 98, 98]) q) ∧
    (∃ q, Matches (.cat (.plus (.alt (.lit 233) (.lit 98)) false) .eot) (Pos.start [195, 169, 98]) q) :=
  ⟨(matchAt_isSome_iff (fuel := 50) (by decide)).mp (by decide +kernel),
   (matchAt_isSome_iff (fuel := 50) (by decide)).mp (by decide +kernel)⟩

/-- The fuel `find` / `findAll` / `isMatch` pass to the engine is enough at every position. -/
theorem fuel_sufficient (re : Re) (s : Bytes) (n : Nat) (h : n ≤ s.length) :
    re.need n ≤ fuelFor re s :=
  fuelFor_ge_need re s h

/-- `isMatch` is exactly "some span of `s`, starting on a rune boundary, matches". -/
theorem isMatch_iff (re : Re) (s : Bytes) :
    isMatch re s = true ↔ ∃ p q, RuneReach (Pos.start s) p ∧ Matches re p q :=
  Rx.isMatch_iff re s

/-- **Leftmost.** The match `find` reports starts at the smallest rune-boundary offset at which
the relation allows any match (the "leftmost" half of Go's leftmost-first rule). -/
theorem find_leftmost (re : Re) (s : Bytes) (a e : Nat) (c : Caps)
    (h : find re s = some (a, e, c)) (p q : Pos) (hr : RuneReach (Pos.start s) p)
    (hM : Matches re p q) : a ≤ p.off :=
  Rx.find_leftmost h hr hM

/-- `find` fails exactly when no span matches. -/
theorem find_none_iff (re : Re) (s : Bytes) :
    find re s = none ↔ ¬ ∃ p q, RuneReach (Pos.start s) p ∧ Matches re p q :=
  find_eq_none_iff re s

/-! ## Shape of matches -/

/-- A match ends at a position of the same text, reached from its start by advancing over whole
runes; offsets grow accordingly. -/
theorem match_shape (re : Re) (p q : Pos) (h : Matches re p q) :
    RuneReach p q ∧ (∃ n, n ≤ p.after.length ∧ q = p.advance n) ∧ p.off ≤ q.off ∧
      q.off + q.after.length = p.off + p.after.length :=
  ⟨h.runeReach, h.advance, h.off_le, h.total⟩

/-- A regex that cannot consume a line feed (no `(?s).`, no `\n` literal, no class containing
`\n`) matches only spans free of line feeds. -/
theorem noLF_span (re : Re) (p q : Pos) (h : Matches re p q) (hn : re.noLF = true) :
    ∀ b ∈ p.span q, b ≠ LF :=
  h.noLF_span hn

/-- **Line patterns are line-local.** If `find` reports a match `(a, e)` of `(?m)^body$` where
`body` cannot consume a line feed, then `s[a:e]` is exactly one complete line of `s`: it is
delimited by line feeds or the text ends, contains no line feed, and is a member of `splitLF s`. -/
theorem match_within_line (body : Re) (s : Bytes) (a e : Nat) (c : Caps) (hn : body.noLF = true)
    (h : find (.cat .bol (.cat body .eol)) s = some (a, e, c)) :
    ∃ pre line post, s = pre ++ line ++ post ∧ a = pre.length ∧ e = pre.length + line.length ∧
      (∀ b ∈ line, b ≠ LF) ∧ (pre = [] ∨ ∃ pre', pre = pre' ++ [LF]) ∧
      (post = [] ∨ ∃ post', post = LF :: post') ∧ line ∈ splitLF s := by
  obtain ⟨pre, line, post, hs, ha, he, hl, hpre, hpost⟩ := find_line hn h
  exact ⟨pre, line, post, hs, ha, he, hl, hpre, hpost, hs ▸ mem_splitLF_of_delimited hl hpre hpost⟩

/-- the hypotheses of `match_within_line` are satisfiable by an extracted pattern: the NETCONF 1.1
end-of-message pattern `(?m)^##$` has this shape and its body cannot consume a line feed -/
example : Gen.Rx.Netconf.v1Dot1Delim = .cat .bol (.cat (.cat (.lit 35) (.lit 35)) .eol) ∧
    (Re.cat (.lit 35) (.lit 35)).noLF = true ∧
    find Gen.Rx.Netconf.v1Dot1Delim [97, 10, 35, 35, 10, 98] = some (2, 4, []) := by
  refine ⟨rfl, rfl, ?_⟩
  decide +kernel

/-- The 1.1 end-of-message pattern only ever matches a complete line `##`: line-locality of the
regex framing that finding F2 is about, for the pattern as it is in the source now. -/
theorem v1Dot1Delim_line (s : Bytes) (a e : Nat) (c : Caps)
    (h : find Gen.Rx.Netconf.v1Dot1Delim s = some (a, e, c)) :
    ∃ pre line post, s = pre ++ line ++ post ∧ a = pre.length ∧ e = pre.length + line.length ∧
      (∀ b ∈ line, b ≠ LF) ∧ (pre = [] ∨ ∃ pre', pre = pre' ++ [LF]) ∧
      (post = [] ∨ ∃ post', post = LF :: post') ∧ line ∈ splitLF s :=
  match_within_line (.cat (.lit 35) (.lit 35)) s a e c rfl h

/-- **`isMatch` of a line pattern is line-local**: for `(?m)^body$` where `body` cannot consume a
line feed and contains no text anchor (`\A`, `\z`), the pattern matches a text iff it matches one
of the text's lines taken alone. This is the `LineLocal` hypothesis of DESIGN §3 as a theorem about
the engine. -/
theorem isMatch_line_local (body : Re) (hn : body.noLF = true) (hna : body.noTextAnchor = true)
    (s : Bytes) :
    isMatch (.cat .bol (.cat body .eol)) s = true ↔
      ∃ l ∈ splitLF s, isMatch (.cat .bol (.cat body .eol)) l = true :=
  isMatch_line_iff hn hna s

example : (Re.cat (.lit 35) (.lit 35)).noLF = true ∧ (Re.cat (.lit 35) (.lit 35)).noTextAnchor = true ∧
    isMatch (.cat .bol (.cat (.cat (.lit 35) (.lit 35)) .eol)) [97, 10, 35, 35, 10, 98] = true ∧
    isMatch (.cat .bol (.cat (.cat (.lit 35) (.lit 35)) .eol)) [97, 35, 35, 10, 98] = false := by
  refine ⟨rfl, rfl, ?_, ?_⟩ <;> decide +kernel

/-- The NETCONF 1.1 end-of-message regex `(?m)^##$`, as extracted from the source, matches a text
iff one of its lines is exactly `##` (the regex framing finding F2 is about). -/
theorem v1Dot1Delim_iff (s : Bytes) :
    isMatch Gen.Rx.Netconf.v1Dot1Delim s = true ↔ [HASH, HASH] ∈ splitLF s := by
  have hshape : Gen.Rx.Netconf.v1Dot1Delim = .cat .bol (.cat (.cat (.lit 35) (.lit 35)) .eol) := rfl
  rw [hshape, isMatch_line_iff rfl rfl]
  constructor
  · rintro ⟨l, hmem, h⟩
    obtain ⟨_, _, _, hl, _, _⟩ := splitLF_mem hmem
    obtain ⟨p, q, _, ha, hqa, hM⟩ := isMatch_line_whole rfl hl h
    cases hM with
    | cat h1 h2 =>
      obtain ⟨b1, hb1, e1⟩ := h1.lit_ascii (by decide)
      obtain ⟨b2, hb2, e2⟩ := h2.lit_ascii (by decide)
      have h1' : b1 = HASH := UInt8.toNat_inj.mp (by rw [hb1]; rfl)
      have h2' : b2 = HASH := UInt8.toNat_inj.mp (by rw [hb2]; rfl)
      have : l = [HASH, HASH] := by rw [← ha, e1, e2, hqa, h1', h2']
      rw [← this]; exact hmem
  · intro hmem
    exact ⟨_, hmem, by decide +kernel⟩

/-! ## `findAll` and `replaceAll` -/

/-- The spans `findAll` reports are in order, do not overlap and lie inside the subject. -/
theorem findAll_spans (re : Re) (s : Bytes) : SpansIn s.length 0 (findAll re s) :=
  Rx.findAll_spans re s

example : findAll (.plus (.lit 98) true) [97, 98, 98, 97, 98] = [(1, 3, []), (4, 5, [])] ∧
    replaceAll (.plus (.lit 98) true) [97, 98, 98, 97, 98] [] = [97, 97] := by
  constructor <;> decide +kernel

/-- `ReplaceAll(s, "")` only removes bytes. -/
theorem replaceAll_sublist (re : Re) (s : Bytes) : (replaceAll re s []).Sublist s :=
  replaceAll_nil_sublist re s

end Scrapli.Rx.RX
