import ScrapliModel.Lemmas.Failed
import ScrapliModel.Lemmas.FailedText
import ScrapliModel.Lemmas.FailedFault
import ScrapliModel.Lemmas.FileLines
import ScrapliModel.Generated.C13FileLines
import ScrapliModel.Lemmas.GoSem
import ScrapliModel.Generated.BodiesFailed
/-!
# C13 — Failure marking and stop-on-failed follow the configured failure strings

Property theorems only. Model: `ScrapliModel/Failed.lean` (mirrors `util/strings.go`,
`response/response.go`, `response/multi.go`, `driver/generic/sendcommand.go`,
`driver/generic/sendcommands.go`, `driver/network/sendconfig.go`). The generated constant
`Gen.Generic.defaultStopOnFailed` (regenerated from `driver/generic/operation.go` on every run)
enters through `newOperation`.

All theorems quantify over every device (`Dev σ`, any state type: the answer to a command may
depend on the whole history), every initial device state, every command list, every pair of
driver-level / operation-level failure lists and both settings of stop-on-failed.

Domain: `NoEmpty` — no *empty* failure string is in force. An empty failure string is a substring
of every output; `util.StringContainsAnySubStrs` then returns `""`, which its caller cannot tell
from "nothing found", so the entry marks nothing and hides every entry after it
(`empty_failure_string_masks`). The property does not speak about that degenerate configuration.
-/
namespace Scrapli.Failed.C13
open Scrapli Scrapli.Failed

/-! ## a response is failed exactly when its output contains a failure string in force -/

/-- `Record`: the response is marked failed iff one of its failure strings occurs in the output
(`s <:+: b` is `∃ pre post, b = pre ++ s ++ post`), the output is stored unchanged, and the error
names the input, the output and a failure string that does occur. -/
theorem failed_iff_contains (strs : List Bytes) (c b : Bytes) (hdom : NoEmpty strs) :
    (((newResponse c strs).record b).failed.isSome = true ↔ ∃ s ∈ strs, s <:+: b) ∧
    ((newResponse c strs).record b).result = b ∧
    (∀ f, ((newResponse c strs).record b).failed = some f →
      ∃ s ∈ strs, s <:+: b ∧ f = .op { input := c, output := b, errStr := s }) := by
  refine ⟨?_, mkResp_result strs c b, ?_⟩
  · have := mkResp_failed_isSome strs c b
    unfold mkResp at this
    rw [this, marks_eq_failedBy _ _ hdom, failedBy_iff]
  · intro f hf
    have h := mkResp_failed strs c b
    unfold mkResp at h
    rw [h] at hf
    split at hf
    · rename_i hm
      rcases firstSubStr_mem_or_nil b strs with e | ⟨hmem, hin⟩
      · simp [marks, e] at hm
      · exact ⟨_, hmem, (isInfix_iff _ _).mp hin, by simpa using hf.symm⟩
    · cases hf

example : NoEmpty [ofStr "% Invalid", ofStr "Error"] := by decide +kernel
example : ((newResponse (ofStr "sh x") [ofStr "% Invalid", ofStr "Error"]).record
    (ofStr "foo\n% Invalid input")).failed.isSome = true := by decide +kernel
example : ((newResponse (ofStr "sh x") [ofStr "% Invalid", ofStr "Error"]).record
    (ofStr "foo\n% invalid input")).failed.isSome = false := by decide +kernel

/-- What the code does outside the domain (documented, not demanded): an empty failure string
marks nothing and hides everything listed after it, whatever the output contains. -/
theorem empty_failure_string_masks (pre post : List Bytes) (c b : Bytes)
    (hpre : ∀ s ∈ pre, ¬ s <:+: b) :
    ((newResponse c (pre ++ [] :: post)).record b).failed = none := by
  have h := mkResp_failed (pre ++ [] :: post) c b
  unfold mkResp at h
  rw [h]
  have : firstSubStr b (pre ++ [] :: post) = [] :=
    firstSubStr_masked b pre post (fun s hs => by
      have := hpre s hs
      rw [← isInfix_iff] at this
      simpa using this)
  simp [marks, this]

/-- …and even then the code never marks an output that contains none of the strings. -/
theorem never_marks_without_match (strs : List Bytes) (c b : Bytes)
    (h : ((newResponse c strs).record b).failed.isSome = true) : ∃ s ∈ strs, s <:+: b := by
  have := mkResp_failed_isSome strs c b
  unfold mkResp at this
  rw [this] at h
  exact (failedBy_iff _ _).mp (marks_imp_failedBy _ _ h)

/-! ## the operation's list replaces the driver's exactly when it is non-empty -/

/-- The response `sendCommand` returns carries the list in force and is marked by it: the
operation's list when that is non-empty (whatever the driver's list says), else the driver's. The
command is transmitted once and the device's answer is the recorded result. -/
theorem op_list_overrides_when_nonempty {σ : Type} (dev : Dev σ) (drv opStrs : List Bytes) (stop : Bool)
    (s : Sess σ) (c : Bytes) :
    let r := (sendCommand dev drv ⟨opStrs, stop⟩ s c).1
    let inForce := if opStrs = [] then drv else opStrs
    r.fwc = inForce ∧ r.input = c ∧ r.result = (dev s.dev c).2 ∧
    (sendCommand dev drv ⟨opStrs, stop⟩ s c).2.2.log = s.log ++ [c] ∧
    (NoEmpty inForce → (r.failed.isSome = true ↔ ∃ x ∈ inForce, x <:+: (dev s.dev c).2)) := by
  intro r inForce
  have he : effective opStrs drv = inForce := by
    unfold effective
    cases opStrs <;> simp [inForce]
  have hr : r = mkResp inForce c (dev s.dev c).2 := by
    simp only [r, sendCommand_eq, he]
  refine ⟨?_, ?_, ?_, ?_, ?_⟩
  · rw [hr, mkResp_fwc]
  · rw [hr, mkResp_input]
  · rw [hr, mkResp_result]
  · simp only [sendCommand_eq]
  · intro hdom
    rw [hr, mkResp_failed_isSome, marks_eq_failedBy _ _ hdom, failedBy_iff]

/-- driver says "Error", operation says "% Invalid": an output with only "Error" is not failed -/
example : (sendCommand (σ := Unit) (fun _ _ => ((), ofStr "Error: x")) [ofStr "Error"]
    ⟨[ofStr "% Invalid"], false⟩ ⟨(), []⟩ (ofStr "cmd")).1.failed.isSome = false := by decide +kernel
example : (sendCommand (σ := Unit) (fun _ _ => ((), ofStr "Error: x")) [ofStr "Error"]
    ⟨[], false⟩ ⟨(), []⟩ (ofStr "cmd")).1.failed.isSome = true := by decide +kernel

/-! ## operation options reach the generic driver wherever they stand in the call -/

/-- Obligations on the regenerated loop shapes (`Generated/C13OptionLoops.lean`): in each of the four
`NewOperation` constructors, which all receive the same option list of a call, the loop over the
options goes on to the next option after one that applied and after one that answered
`util.ErrIgnoredOption`, and its only other exit is `return nil, err` for a real error — no
`break`, no other return. -/
theorem generic_option_loop_shape : Gen.C13OptionLoops.generic = OptLoop.good := by decide
theorem channel_option_loop_shape : Gen.C13OptionLoops.channel = OptLoop.good := by decide
theorem network_option_loop_shape : Gen.C13OptionLoops.network = OptLoop.good := by decide
theorem netconf_option_loop_shape : Gen.C13OptionLoops.netconf = OptLoop.good := by decide

/-- For every option list of a call (any number of `WithFailedWhenContains`, `WithStopOnFailed` and
options of other layers, in any order) without an erroring option, `generic.NewOperation` succeeds
and yields exactly what the caller asked for: the failure strings of the *last*
`WithFailedWhenContains` (none: the empty list, so the driver's apply) and stop-on-failed iff a
`WithStopOnFailed` is present — the same as for the list with every foreign option removed, i.e.
wherever the foreign options stand. It is the `newOperation` all other theorems are stated for. -/
theorem op_options_position_independent (opts : List OpOpt) (h : OpOpt.bad ∉ opts) :
    newOperationL opts = some { fwc := (lastFwc opts).getD [], stop := hasStop opts } ∧
    newOperationL (opts.filter (· != .foreign)) = newOperationL opts ∧
    lastFwc (opts.filter (· != .foreign)) = lastFwc opts ∧
    hasStop (opts.filter (· != .foreign)) = hasStop opts ∧
    newOperationL opts = some (newOperation (lastFwc opts) (hasStop opts)) := by
  have closed : ∀ l : List OpOpt, OpOpt.bad ∉ l →
      newOperationL l = some { fwc := (lastFwc l).getD [], stop := hasStop l } := by
    intro l hl
    unfold newOperationL
    rw [generic_option_loop_shape, run_good_eq_foldl _ _ hl]
    have := foldl_updOp l { fwc := [], stop := Gen.Generic.defaultStopOnFailed }
    congr 1
    cases hfold : l.foldl updOp { fwc := [], stop := Gen.Generic.defaultStopOnFailed } with
    | mk f s =>
      rw [hfold] at this
      simp only [Gen.Generic.defaultStopOnFailed, Bool.false_or] at this
      rw [this.1, this.2]
  have hf : OpOpt.bad ∉ opts.filter (· != .foreign) := fun hm => h (List.mem_filter.mp hm).1
  refine ⟨closed opts h, ?_, lastFwc_filter_foreign opts, hasStop_filter_foreign opts, ?_⟩
  · rw [closed _ hf, closed opts h, lastFwc_filter_foreign, hasStop_filter_foreign]
  · rw [closed opts h]
    congr 1
    cases hl : lastFwc opts <;> cases hs : hasStop opts <;>
      simp [newOperation, Gen.Generic.defaultStopOnFailed]

/-- foreign options before, between and after; two `WithFailedWhenContains` (the last wins) -/
example : newOperationL [.foreign, .fwc [ofStr "x"], .foreign, .stop, .fwc [ofStr "E"], .foreign]
    = some { fwc := [ofStr "E"], stop := true } := by decide +kernel
example : OpOpt.bad ∉ [OpOpt.foreign, .fwc [ofStr "x"], .foreign, .stop] := by decide

/-- an erroring option makes the constructor fail wherever it stands (nothing is sent then) -/
theorem op_options_error_fails (pre post : List OpOpt) (h : OpOpt.bad ∉ pre) :
    newOperationL (pre ++ .bad :: post) = none := by
  unfold newOperationL
  rw [generic_option_loop_shape]
  generalize ({ fwc := [], stop := Gen.Generic.defaultStopOnFailed } : Op) = o
  induction pre generalizing o with
  | nil => simp [OptLoop.run, applyOpOpt, OptLoop.good]
  | cons x xs ih =>
    have hxs : OpOpt.bad ∉ xs := fun hm => h (List.mem_cons_of_mem _ hm)
    have hx : x ≠ .bad := fun e => h (by simp [e])
    cases x with
    | fwc l => simpa [OptLoop.run, applyOpOpt, OptLoop.good] using ih hxs _
    | stop => simpa [OptLoop.run, applyOpOpt, OptLoop.good] using ih hxs _
    | foreign => simpa [OptLoop.run, applyOpOpt, OptLoop.good] using ih hxs _
    | bad => exact absurd rfl hx

/-! ## the aggregate -/

/-! `Recorded r` (Lemmas): `r` is as `Record` produces it — not failed, or failed with an
`*OperationError` (never a `*MultiOperationError`). -/
theorem recorded_mkResp (eff : List Bytes) (c b : Bytes) : Recorded (mkResp eff c b) := by
  intro es h
  rw [mkResp_failed] at h
  split at h <;> cases h

/-- Appending any members one by one to a fresh multi-response: it is failed iff one of them is. -/
theorem multi_failed_iff_any_member (rs : List Resp) (hrec : ∀ r ∈ rs, Recorded r) :
    (rs.foldl Multi.append Multi.empty).failed.isSome = true ↔ ∃ r ∈ rs, r.failed.isSome = true := by
  rw [foldl_append_empty]
  simp only [aggregate]
  have key : (opErrs rs).isEmpty = false ↔ ∃ r ∈ rs, r.failed.isSome = true := by
    induction rs with
    | nil => simp [opErrs]
    | cons r rs ih =>
      have ih' := ih (fun x hx => hrec x (List.mem_cons_of_mem _ hx))
      have hr := hrec r List.mem_cons_self
      simp only [opErrs, List.filterMap_cons] at ih' ⊢
      cases hf : r.failed with
      | none => simp [opOf, hf, ih']
      | some f =>
        cases f with
        | multi es => exact absurd hf (hr es)
        | op e => simp [opOf, hf]
  split
  · rename_i h
    simp only [Option.isSome_none, Bool.false_eq_true, false_iff]
    intro hex
    have := key.mpr hex
    simp [h] at this
  · rename_i h
    simp only [Option.isSome_some, true_iff]
    exact key.mp (by simpa using h)

example : ∀ r ∈ [mkResp [ofStr "E"] (ofStr "a") (ofStr "ok"), mkResp [ofStr "E"] (ofStr "b") (ofStr "E!")],
    Recorded r := by
  intro r hr
  simp only [List.mem_cons, List.mem_nil_iff, or_false] at hr
  rcases hr with h | h <;> subst h <;> exact recorded_mkResp _ _ _

/-- Why `Recorded` is assumed: `AppendResponse` only looks for an `*OperationError`. A member that
carries some other error (e.g. a collapsed `SendConfig` response, whose error is a
`*MultiOperationError`) is kept but not counted. No code path of the drivers appends such a member. -/
example : (Multi.empty.append { input := [], result := [], fwc := [], failed := some (.multi []) }).failed = none := rfl

/-- The multi-response keeps every member in order, and its error lists exactly the errors of the
failed members, in member order (and is a `*MultiOperationError`, never anything else). -/
theorem multi_lists_exactly_failed_members (rs : List Resp) (hrec : ∀ r ∈ rs, Recorded r) :
    (rs.foldl Multi.append Multi.empty).responses = rs ∧
    (∀ f, (rs.foldl Multi.append Multi.empty).failed = some f →
      ∃ es, f = .multi es ∧ es.map (fun e => some (Failure.op e)) = (rs.filter (·.failed.isSome)).map (·.failed)) := by
  rw [foldl_append_empty]
  refine ⟨rfl, ?_⟩
  intro f hf
  simp only [aggregate] at hf
  split at hf
  · cases hf
  · exact ⟨opErrs rs, by simpa using hf.symm, opErrs_map rs hrec⟩

/-! ## what the errors say (`response/errors.go`) -/

/-- Obligations on the regenerated formats (`Generated/C13ErrorText.lean`): the operation error has
one `%s` for each of input, matched string and output; the multi error uses the single-error text
exactly for one listed operation and otherwise has one `%d` for the number of listed operations. -/
theorem op_error_format_verbs (a b c : Bytes) :
    verbsMatch (parseFmt Gen.C13ErrorText.opErrorFormat) [.s a, .s b, .s c] = true := by rfl
theorem multi_error_format_verbs (a b c : Bytes) (k : Nat) :
    Gen.C13ErrorText.multiOneWhenLen = some 1 ∧
    verbsMatch (parseFmt Gen.C13ErrorText.multiOneFormat) [.s a, .s b, .s c] = true ∧
    verbsMatch (parseFmt Gen.C13ErrorText.multiManyFormat) [.n k] = true := ⟨rfl, rfl, rfl⟩

/-- The text of an operation error names the input, the matched failure string and the output. -/
theorem op_error_text_names (e : OpErr) :
    e.input <:+: e.text ∧ e.errStr <:+: e.text ∧ e.output <:+: e.text := by
  have h := (render_contains _ _ (op_error_format_verbs e.input e.errStr e.output)).1
  unfold OpErr.text
  rw [opErrArgs_eq]
  exact ⟨h _ (by simp), h _ (by simp), h _ (by simp)⟩

/-- The text of a multi error: with exactly one listed operation it is that operation's own text;
otherwise it states the number of listed operations (in decimal) — which, by
`multi_lists_exactly_failed_members`, is the number of failed members. -/
theorem multi_error_text (es : List OpErr) :
    (∀ e, es = [e] → multiText es = e.text) ∧
    (es.length ≠ 1 → decDigits es.length <:+: multiText es) := by
  constructor
  · intro e he
    subst he
    unfold multiText OpErr.text
    rw [(multi_error_format_verbs [] [] [] 0).1, multiOneArgs_eq, opErrArgs_eq]
    rfl
  · intro hne
    unfold multiText
    rw [(multi_error_format_verbs [] [] [] 0).1]
    have : (some 1 == some es.length) = false := by
      simp only [beq_eq_false_iff_ne, ne_eq, Option.some.injEq]
      omega
    rw [this, multiManyArgs_eq]
    exact (render_contains _ _ (multi_error_format_verbs [] [] [] es.length).2.2).2 _ (by simp)

example : (OpErr.mk (ofStr "sh x") (ofStr "% Invalid input") (ofStr "% Invalid")).text =
    ofStr "operation error from input 'sh x'. matched error sub-string '% Invalid'. full output: '% Invalid input'" := by
  decide +kernel
example : multiText [⟨ofStr "a", ofStr "E1", ofStr "E"⟩, ⟨ofStr "b", ofStr "E2", ofStr "E"⟩] =
    ofStr "operation error from multiple inputs. 2 indicated errors" := by decide +kernel

/-- `JoinedResult` of a multi-response is the members' results joined by line feeds; the collapsed
`SendConfig` response carries exactly that. -/
theorem joined_result_is_collapse_result (config : Bytes) (m : Multi) :
    (collapse config m).result = m.joinedResult ∧
    m.joinedResult = joinLF (m.responses.map (·.result)) := ⟨rfl, rfl⟩

/-! ## stop-on-failed -/

/-- `SendCommands` over any device, from any device state, for any non-empty command list:
* the commands transmitted to the device (the session log) are exactly the first `n` commands, in
  order, and exactly their responses are returned, each carrying the device's own answer and marked
  failed iff that answer contains a failure string in force;
* without stop-on-failed `n` is the whole list: every command is sent;
* with stop-on-failed no returned response except the last is failed, and if anything was withheld
  (`n < cmds.length`) the last returned response is failed — i.e. `n` ends at the first failed one;
* the aggregate is failed iff a returned member is, and lists exactly those. -/
theorem stop_on_failed_prefix {σ : Type} (dev : Dev σ) (drv opStrs : List Bytes) (stop : Bool)
    (d0 : σ) (log0 : List Bytes) (cmds : List Bytes) (hne : cmds ≠ [])
    (hdom : NoEmpty (effective opStrs drv)) :
    ∃ (m : Multi) (s' : Sess σ) (n : Nat),
      sendCommands dev drv ⟨opStrs, stop⟩ ⟨d0, log0⟩ cmds = (some m, s') ∧
      0 < n ∧ n ≤ cmds.length ∧
      s'.log = log0 ++ cmds.take n ∧
      m.responses.map (·.input) = cmds.take n ∧
      m.responses.map (·.result) = (answers dev d0 cmds).take n ∧
      (∀ r ∈ m.responses, r.fwc = effective opStrs drv ∧
        (r.failed.isSome = true ↔ ∃ x ∈ effective opStrs drv, x <:+: r.result)) ∧
      (stop = false → n = cmds.length) ∧
      (stop = true → ∀ i, i + 1 < n →
        failedBy (effective opStrs drv) ((answers dev d0 cmds).getD i []) = false) ∧
      (stop = true → n < cmds.length →
        failedBy (effective opStrs drv) ((answers dev d0 cmds).getD (n - 1) []) = true) ∧
      (m.failed.isSome = true ↔ ∃ r ∈ m.responses, r.failed.isSome = true) ∧
      (∀ f, m.failed = some f → ∃ es, f = .multi es ∧
        es.map (fun e => some (Failure.op e)) = (m.responses.filter (·.failed.isSome)).map (·.failed)) := by
  have hmf : (fun b => marks (effective opStrs drv) b) = failedBy (effective opStrs drv) :=
    funext fun b => marks_eq_failedBy _ b hdom
  have hmf' : marks (effective opStrs drv) = failedBy (effective opStrs drv) := hmf
  have hlen := answers_length dev d0 cmds
  have hchar := sendCommands_char dev drv ⟨opStrs, stop⟩ ⟨d0, log0⟩ cmds hne
  simp only [hmf'] at hchar
  refine ⟨_, _, sentCount stop ((answers dev d0 cmds).map (failedBy (effective opStrs drv))),
    hchar, ?_, ?_, rfl, ?_, ?_, ?_, ?_, ?_, ?_, ?_, ?_⟩
  · apply sentCount_pos
    intro h
    have : (answers dev d0 cmds).length = 0 := by simpa using congrArg List.length h
    rw [hlen] at this
    exact hne (List.length_eq_zero_iff.mp this)
  · have := sentCount_le stop ((answers dev d0 cmds).map (failedBy (effective opStrs drv)))
    simpa [hlen] using this
  · -- inputs
    generalize sentCount stop _ = n
    have : ∀ (cs outs : List Bytes), cs.length = outs.length →
        (List.zipWith (mkResp (effective opStrs drv)) cs outs).map (·.input) = cs := by
      intro cs
      induction cs with
      | nil => intro outs _; simp
      | cons c cs ih =>
        intro outs h
        cases outs with
        | nil => simp at h
        | cons o outs => simp [mkResp_input, ih outs (by simpa using h)]
    exact this _ _ (by simp [hlen])
  · generalize sentCount stop _ = n
    have : ∀ (cs outs : List Bytes), cs.length = outs.length →
        (List.zipWith (mkResp (effective opStrs drv)) cs outs).map (·.result) = outs := by
      intro cs
      induction cs with
      | nil => intro outs h; cases outs <;> simp_all
      | cons c cs ih =>
        intro outs h
        cases outs with
        | nil => simp at h
        | cons o outs => simp [mkResp_result, ih outs (by simpa using h)]
    exact this _ _ (by simp [hlen])
  · intro r hr
    obtain ⟨c, b, rfl⟩ : ∃ c b, r = mkResp (effective opStrs drv) c b := by
      simp only [List.mem_iff_getElem, List.getElem_zipWith] at hr
      obtain ⟨i, hi, rfl⟩ := hr
      exact ⟨_, _, rfl⟩
    refine ⟨mkResp_fwc _ _ _, ?_⟩
    rw [mkResp_failed_isSome, mkResp_result, marks_eq_failedBy _ _ hdom, failedBy_iff]
  · intro hs; subst hs
    simp [sentCount, hlen]
  · intro hs i hi; subst hs
    have hsp := (firstTrue_spec ((answers dev d0 cmds).map (failedBy (effective opStrs drv)))).1 i
      (by simp only [sentCount, if_true] at hi; omega)
    simp only [List.getElem?_map, Option.map_eq_some_iff] at hsp
    obtain ⟨b, hb, hfb⟩ := hsp
    simp [List.getD, hb, hfb]
  · intro hs hn; subst hs
    simp only [sentCount, if_true, List.length_map, hlen] at hn ⊢
    have hft : firstTrue ((answers dev d0 cmds).map (failedBy (effective opStrs drv))) <
        ((answers dev d0 cmds).map (failedBy (effective opStrs drv))).length := by
      simp only [List.length_map, hlen]; omega
    have hsp := (firstTrue_spec _).2 hft
    have e : min cmds.length (firstTrue ((answers dev d0 cmds).map (failedBy (effective opStrs drv))) + 1) - 1
        = firstTrue ((answers dev d0 cmds).map (failedBy (effective opStrs drv))) := by omega
    rw [e]
    simp only [List.getElem?_map, Option.map_eq_some_iff] at hsp
    obtain ⟨b, hb, hfb⟩ := hsp
    simp [List.getD, hb, hfb]
  · have hrec : ∀ r ∈ List.zipWith (mkResp (effective opStrs drv))
        (cmds.take (sentCount stop ((answers dev d0 cmds).map (failedBy (effective opStrs drv)))))
        ((answers dev d0 cmds).take (sentCount stop ((answers dev d0 cmds).map (failedBy (effective opStrs drv))))),
        Recorded r := by
      intro r hr
      simp only [List.mem_iff_getElem, List.getElem_zipWith] at hr
      obtain ⟨i, hi, rfl⟩ := hr
      exact recorded_mkResp _ _ _
    have := multi_failed_iff_any_member _ hrec
    rw [foldl_append_empty] at this
    exact this
  · have hrec : ∀ r ∈ List.zipWith (mkResp (effective opStrs drv))
        (cmds.take (sentCount stop ((answers dev d0 cmds).map (failedBy (effective opStrs drv)))))
        ((answers dev d0 cmds).take (sentCount stop ((answers dev d0 cmds).map (failedBy (effective opStrs drv))))),
        Recorded r := by
      intro r hr
      simp only [List.mem_iff_getElem, List.getElem_zipWith] at hr
      obtain ⟨i, hi, rfl⟩ := hr
      exact recorded_mkResp _ _ _
    have := (multi_lists_exactly_failed_members _ hrec).2
    rw [foldl_append_empty] at this
    exact this

example : NoEmpty (effective [] [ofStr "E"]) := by decide +kernel

/-- three commands, the second fails: with stop-on-failed two are transmitted, without it three -/
example : (sendCommands (σ := Nat) (fun i _ => (i + 1, if i == 1 then ofStr "E!" else ofStr "ok")) [ofStr "E"]
    ⟨[], true⟩ ⟨0, []⟩ [ofStr "a", ofStr "b", ofStr "c"]).2.log = [ofStr "a", ofStr "b"] := by decide +kernel
example : (sendCommands (σ := Nat) (fun i _ => (i + 1, if i == 1 then ofStr "E!" else ofStr "ok")) [ofStr "E"]
    ⟨[], false⟩ ⟨0, []⟩ [ofStr "a", ofStr "b", ofStr "c"]).2.log = [ofStr "a", ofStr "b", ofStr "c"] := by
  decide +kernel

/-- "Without it every command is sent" also covers *not giving the option*: an operation built
without `WithStopOnFailed` does not stop. Depends on the regenerated constant
`defaultStopOnFailed`. -/
theorem default_sends_all {σ : Type} (dev : Dev σ) (drv : List Bytes) (opFwc : Option (List Bytes))
    (s : Sess σ) (cmds : List Bytes) :
    (newOperation opFwc false).stop = false ∧ (newOperation opFwc true).stop = true ∧
    (newOperation opFwc false).fwc = opFwc.getD [] ∧ (newOperation opFwc true).fwc = opFwc.getD [] ∧
    (sendCommands dev drv (newOperation opFwc false) s cmds).2.log = s.log ++ cmds := by
  have h1 : (newOperation opFwc false).stop = false := by
    cases opFwc <;> simp [newOperation, Gen.Generic.defaultStopOnFailed]
  refine ⟨h1, ?_, ?_, ?_, ?_⟩
  · cases opFwc <;> simp [newOperation]
  · cases opFwc <;> simp [newOperation]
  · cases opFwc <;> simp [newOperation]
  · cases cmds with
    | nil => simp [sendCommands_nil]
    | cons c cs =>
      rw [sendCommands_char _ _ _ _ _ (by simp)]
      simp [h1, sentCount, answers_length]

/-! ## when the channel returns an error in the middle of a list -/

/-- `SendCommands` over a device that may leave a command unanswered (`DevE`; an unanswered command
= `Channel.SendInput` returned an error). With `k` the first command that would go unanswered and
`n` the number of commands the stop-on-failed rule would send:
* if the unanswered command lies within those `n` (`k < n`), the call returns the error and no
  response object, the unanswered command was the last one transmitted (`k + 1` in all) — nothing
  after it is sent;
* otherwise the error is never met and the call behaves as over an answering device: the first `n`
  commands are transmitted and answered, and exactly their responses are returned. -/
theorem channel_error_aborts {σ : Type} (dev : DevE σ) (drv opStrs : List Bytes) (stop : Bool)
    (d0 : σ) (log0 : List Bytes) (cmds : List Bytes) (hne : cmds ≠ []) :
    (firstNone (answersE dev d0 cmds) <
        sentCount stop ((answersE dev d0 cmds).map (flagE (effective opStrs drv))) →
      ∃ s', sendCommandsE dev drv ⟨opStrs, stop⟩ ⟨d0, log0⟩ cmds = (.chanErr, s') ∧
        s'.log = log0 ++ cmds.take (firstNone (answersE dev d0 cmds) + 1)) ∧
    (sentCount stop ((answersE dev d0 cmds).map (flagE (effective opStrs drv))) ≤
        firstNone (answersE dev d0 cmds) →
      ∃ m s', sendCommandsE dev drv ⟨opStrs, stop⟩ ⟨d0, log0⟩ cmds = (.ok m, s') ∧
        s'.log = log0 ++ cmds.take (sentCount stop ((answersE dev d0 cmds).map (flagE (effective opStrs drv)))) ∧
        m.responses.map (·.input) =
          cmds.take (sentCount stop ((answersE dev d0 cmds).map (flagE (effective opStrs drv)))) ∧
        m.responses.map (fun r => some r.result) =
          (answersE dev d0 cmds).take (sentCount stop ((answersE dev d0 cmds).map (flagE (effective opStrs drv))))) := by
  have hchar := sendCommandsE_char dev drv ⟨opStrs, stop⟩ ⟨d0, log0⟩ cmds hne
  rw [sendUniformE_spec] at hchar
  have hlen := answersE_length dev d0 cmds
  constructor
  · intro hk
    simp only [hk, if_true] at hchar
    exact ⟨_, hchar, rfl⟩
  · intro hk
    have hnk : ¬ firstNone (answersE dev d0 cmds) <
        sentCount stop ((answersE dev d0 cmds).map (flagE (effective opStrs drv))) := by omega
    simp only [hnk, if_false] at hchar
    have hfold := foldl_append_empty (respsE (effective opStrs drv)
        (cmds.take (sentCount stop ((answersE dev d0 cmds).map (flagE (effective opStrs drv)))))
        ((answersE dev d0 cmds).take (sentCount stop ((answersE dev d0 cmds).map (flagE (effective opStrs drv))))))
    rw [hfold] at hchar
    have hl : (cmds.take (sentCount stop ((answersE dev d0 cmds).map (flagE (effective opStrs drv))))).length =
        ((answersE dev d0 cmds).take (sentCount stop ((answersE dev d0 cmds).map (flagE (effective opStrs drv))))).length := by
      simp [hlen]
    refine ⟨_, _, hchar, rfl, respsE_input _ _ _ hl, ?_⟩
    show (respsE _ _ _).map (fun r => some r.result) = _
    have hres := respsE_result (effective opStrs drv) _ _ hl
    have hmap : (respsE (effective opStrs drv)
        (cmds.take (sentCount stop ((answersE dev d0 cmds).map (flagE (effective opStrs drv)))))
        ((answersE dev d0 cmds).take (sentCount stop ((answersE dev d0 cmds).map (flagE (effective opStrs drv)))))).map
          (fun r => some r.result) =
        ((answersE dev d0 cmds).take (sentCount stop ((answersE dev d0 cmds).map (flagE (effective opStrs drv))))).map
          (fun o => some (o.getD [])) := by
      have := congrArg (List.map some) hres
      simpa [List.map_map, Function.comp_def] using this
    rw [hmap]
    apply List.ext_getElem?
    intro i
    simp only [List.getElem?_map, List.getElem?_take]
    split
    · rename_i hi
      obtain ⟨b, hb⟩ := (firstNone_spec (answersE dev d0 cmds)).1 i (by omega)
      simp [hb]
    · simp

/-- three commands, the second is never answered: it is the last one transmitted -/
example : (fun x : SendRes × Sess Nat => (x.1, x.2.log))
    (sendCommandsE (σ := Nat) (fun i _ => (i + 1, if i == 1 then none else some (ofStr "ok"))) []
      ⟨[], false⟩ ⟨0, []⟩ [ofStr "a", ofStr "b", ofStr "c"]) = (.chanErr, [ofStr "a", ofStr "b"]) := by
  decide +kernel

/-- …unless stop-on-failed ends the list before it is reached -/
example : (sendCommandsE (σ := Nat) (fun i _ => (i + 1, if i == 1 then none else some (ofStr "E"))) [ofStr "E"]
    ⟨[], true⟩ ⟨0, []⟩ [ofStr "a", ofStr "b", ofStr "c"]).2.log = [ofStr "a"] := by decide +kernel

/-- Over a device that answers everything the error-aware model is the plain one, so every theorem
above applies to it. -/
theorem answering_device_no_error {σ : Type} (dev : Dev σ) (drv : List Bytes) (op : Op) (s : Sess σ)
    (cmds : List Bytes) :
    sendCommandsE (liftDev dev) drv op s cmds =
      (match sendCommands dev drv op s cmds with
       | (some m, s') => (.ok m, s')
       | (none, s') => (.noop, s')) := by
  cases cmds with
  | nil => rfl
  | cons c cs =>
    have hne : c :: cs ≠ [] := by simp
    rw [sendCommandsE_char _ _ _ _ _ hne, sendUniformE_lift, sendCommands_eq]
    have hl : (c :: cs).getLast? = some ((c :: cs).getLast hne) := List.getLast?_eq_some_getLast hne
    have hd : (c :: cs).dropLast ++ [(c :: cs).getLast hne] = c :: cs := List.dropLast_concat_getLast hne
    rw [hl]
    simp only [sendLoop_then_last, hd, Multi.empty]

/-! ## the from-file variants: the commands are the lines of the file -/

/-- Obligation on the regenerated source fact (`Generated/C13FileLines.lean`): `util.LoadFileLines`
reads with a `bufio.Scanner` split by `bufio.ScanLines`, default buffer, appending `scanner.Text()`,
and by no other reader (`ReadLine`, `ReadString`, … have different line semantics: `ReadLine` hands
out a long line in pieces). This is what `FileLines.fileLines` models. -/
theorem loadFileLines_reads_with_scanner :
    Gen.C13FileLines.found = true ∧ Gen.C13FileLines.usesScanner = true ∧
    Gen.C13FileLines.splitFunc = "bufio.ScanLines" ∧ Gen.C13FileLines.otherReaders = [] ∧
    Gen.C13FileLines.setsBuffer = false ∧ Gen.C13FileLines.appendsScannerText = true := by decide

/-- Every list of lines (any number, any bytes but LF, none ending in CR, each shorter than the
scanner's 65536-byte buffer — 4096, 4097, 6000, 65535 bytes all included) written to a file one per
line is read back exactly: the commands of a from-file operation are the lines of the file. -/
theorem file_lines_are_the_commands (ls : List Bytes)
    (hlf : ∀ l ∈ ls, LF ∉ l) (hcr : ∀ l ∈ ls, l.getLast? ≠ some CR)
    (hfit : ∀ l ∈ ls, l.length < FileLines.maxTok) :
    FileLines.fileLines (FileLines.writeLines ls) = ls := by
  unfold FileLines.fileLines
  rw [FileLines.rawLines_writeLines ls hlf, FileLines.fitting_all _ _ hfit]
  induction ls with
  | nil => rfl
  | cons l t ih =>
    simp only [List.map_cons]
    rw [ih (fun x hx => hlf x (List.mem_cons_of_mem _ hx)) (fun x hx => hcr x (List.mem_cons_of_mem _ hx))
      (fun x hx => hfit x (List.mem_cons_of_mem _ hx))]
    have : FileLines.dropCR l = l := by
      unfold FileLines.dropCR
      simp [hcr l (by simp)]
    rw [this]

example : FileLines.fileLines (ofStr "show x\r\n\n  tab\there \nlast") =
    [ofStr "show x", [], ofStr "  tab\there ", ofStr "last"] := by decide +kernel

/-- What the code does beyond the domain (documented, not demanded): at the first line that does
not fit the scanner's buffer the reading stops *silently* — that line and every line after it are
dropped and no error is returned (`LoadFileLines` never consults `scanner.Err()`). -/
theorem oversized_line_truncates_silently (pre : List Bytes) (l : Bytes) (post : List Bytes)
    (hlf : ∀ x ∈ pre ++ l :: post, LF ∉ x) (hpre : ∀ x ∈ pre, x.length < FileLines.maxTok)
    (hl : FileLines.maxTok ≤ l.length) :
    FileLines.fileLines (FileLines.writeLines (pre ++ l :: post)) = pre.map FileLines.dropCR := by
  unfold FileLines.fileLines
  rw [FileLines.rawLines_writeLines _ hlf, FileLines.fitting_stops _ pre l post hpre hl]

/-! ## the collapsed config response -/

/-- `SendConfig`: the collapsed response is failed iff the multi-response is (it carries the very
same error, listing the same members), its result is the members' results joined by LF, and its
input is the whole config. -/
theorem collapse_preserves_failed (config : Bytes) (m : Multi) :
    (collapse config m).failed = m.failed ∧
    ((collapse config m).failed.isSome = true ↔ m.failed.isSome = true) ∧
    (collapse config m).result = joinLF (m.responses.map (·.result)) ∧
    (collapse config m).input = config := ⟨rfl, Iff.rfl, rfl, rfl⟩

/-- "A collapsed config response reports the same", unconditionally: for EVERY device, config,
driver-level and operation-level failure list (strings with line feeds, empty strings, anything)
and stop-on-failed setting, `SendConfig` is exactly `SendCommands` over the config's lines followed
by `collapse`: same device state and transmitted lines, and the collapsed response carries the
multi-response's verdict (the very same error, hence failed iff the multi-response is failed,
listing the same members). In particular the verdict is never re-derived from the joined output —
a failure string that only appears across the joint of two outputs fails neither. -/
theorem collapse_agrees_with_multi {σ : Type} (dev : Dev σ) (drv : List Bytes) (op : Op)
    (s : Sess σ) (config : Bytes) :
    ∃ (m : Multi) (r : Resp) (s' : Sess σ),
      sendCommands dev drv op s (splitLF config) = (some m, s') ∧
      sendConfig dev drv op s config = (some r, s') ∧
      r.failed = m.failed ∧
      (r.failed.isSome = true ↔ m.failed.isSome = true) ∧
      (r.failed.isSome = true ↔ ∃ x ∈ m.responses, x.failed.isSome = true) ∧
      r.result = joinLF (m.responses.map (·.result)) := by
  have hchar := sendCommands_char dev drv op s (splitLF config) (splitLF_ne_nil config)
  refine ⟨_, collapse config _, _, hchar, ?_, rfl, Iff.rfl, ?_, rfl⟩
  · simp only [sendConfig, hchar]
  · show (aggregate _).isSome = true ↔ _
    have hrec : ∀ r ∈ List.zipWith (mkResp (effective op.fwc drv))
        ((splitLF config).take (sentCount op.stop ((answers dev s.dev (splitLF config)).map (marks (effective op.fwc drv)))))
        ((answers dev s.dev (splitLF config)).take (sentCount op.stop ((answers dev s.dev (splitLF config)).map (marks (effective op.fwc drv))))),
        Recorded r := by
      intro r hr
      simp only [List.mem_iff_getElem, List.getElem_zipWith] at hr
      obtain ⟨i, hi, rfl⟩ := hr
      exact recorded_mkResp _ _ _
    have := multi_failed_iff_any_member _ hrec
    rw [foldl_append_empty] at this
    exact this

/-- the straddling case: the failure string "a\nb" occurs in the joined output "x a\nb y" but in no
member; the multi-response is not failed and neither is the collapsed response -/
example : (sendConfig (σ := Nat) (fun i _ => (i + 1, if i == 0 then ofStr "x a" else ofStr "b y"))
    [ofStr "a\nb"] ⟨[], false⟩ ⟨0, []⟩ (ofStr "l1\nl2")).1.map (·.failed) = some none := by decide +kernel

/-- End to end: `SendConfig` sends the lines of the config under the same prefix rule as
`SendCommands` and is failed iff one of the transmitted lines' answers contains a failure string
in force. If moreover no failure string contains a line feed, that is the case iff the collapsed
result *itself* contains one (so the collapsed response also satisfies `failed_iff_contains`). -/
theorem sendConfig_failed_iff {σ : Type} (dev : Dev σ) (drv opStrs : List Bytes) (stop : Bool)
    (d0 : σ) (log0 : List Bytes) (config : Bytes) (hdom : NoEmpty (effective opStrs drv)) :
    ∃ (r : Resp) (s' : Sess σ) (n : Nat),
      sendConfig dev drv ⟨opStrs, stop⟩ ⟨d0, log0⟩ config = (some r, s') ∧
      s'.log = log0 ++ (splitLF config).take n ∧
      r.input = config ∧
      r.result = joinLF ((answers dev d0 (splitLF config)).take n) ∧
      r.fwc = effective opStrs drv ∧
      (r.failed.isSome = true ↔
        ∃ o ∈ (answers dev d0 (splitLF config)).take n, ∃ x ∈ effective opStrs drv, x <:+: o) ∧
      (NoLF (effective opStrs drv) →
        (r.failed.isSome = true ↔ ∃ x ∈ effective opStrs drv, x <:+: r.result)) := by
  obtain ⟨m, s', n, hsend, hpos, hle, hlog, hin, hres, hmem, -, -, -, hagg, -⟩ :=
    stop_on_failed_prefix dev drv opStrs stop d0 log0 (splitLF config) (splitLF_ne_nil config) hdom
  have hfailed : (collapse config m).failed.isSome = true ↔
      ∃ o ∈ (answers dev d0 (splitLF config)).take n, ∃ x ∈ effective opStrs drv, x <:+: o := by
    show m.failed.isSome = true ↔ _
    rw [hagg, ← hres]
    constructor
    · rintro ⟨r, hr, hf⟩
      exact ⟨r.result, List.mem_map.mpr ⟨r, hr, rfl⟩, ((hmem r hr).2).mp hf⟩
    · rintro ⟨o, ho, hx⟩
      obtain ⟨r, hr, rfl⟩ := List.mem_map.mp ho
      exact ⟨r, hr, ((hmem r hr).2).mpr hx⟩
  refine ⟨collapse config m, s', n, ?_, hlog, rfl, ?_, ?_, hfailed, ?_⟩
  · simp only [sendConfig, hsend]
  · show joinLF (m.responses.map (·.result)) = _
    rw [hres]
  · show (match m.responses with | r :: _ => r.fwc | [] => []) = _
    cases hm : m.responses with
    | nil =>
      have : (m.responses.map (·.input)).length = n := by
        rw [hin, List.length_take]; omega
      simp [hm] at this; omega
    | cons r rs => exact (hmem r (by simp [hm])).1
  · intro hnolf
    rw [hfailed]
    show _ ↔ ∃ x ∈ effective opStrs drv, x <:+: joinLF (m.responses.map (·.result))
    rw [hres]
    constructor
    · rintro ⟨o, ho, x, hx, hxo⟩
      refine ⟨x, hx, ?_⟩
      rw [← isInfix_iff, isInfix_joinLF _ _ (hdom x hx) (hnolf x hx), List.any_eq_true]
      exact ⟨o, ho, (isInfix_iff _ _).mpr hxo⟩
    · rintro ⟨x, hx, hxj⟩
      rw [← isInfix_iff, isInfix_joinLF _ _ (hdom x hx) (hnolf x hx), List.any_eq_true] at hxj
      obtain ⟨o, ho, hxo⟩ := hxj
      exact ⟨o, ho, x, hx, (isInfix_iff _ _).mp hxo⟩

example : NoLF (effective [] [ofStr "% Invalid", ofStr "Error"]) := by decide +kernel

/-- The `NoLF` hypothesis is needed: a failure string with a line feed can appear at a joint of the
collapsed result although no member contains it; the collapsed response then "reports the same" as
the multi-response (not failed), as the property demands. -/
example : (sendConfig (σ := Nat) (fun i _ => (i + 1, if i == 0 then ofStr "x a" else ofStr "b y"))
    [ofStr "a\nb"] ⟨[], false⟩ ⟨0, []⟩ (ofStr "l1\nl2")).1.map (fun r => (r.failed.isSome, isInfix (ofStr "a\nb") r.result))
    = some (false, true) := by decide +kernel

/-! ## tie to the source: translated bodies = model (regenerated on every run) -/

/-- the `range` loop of `util.StringContainsAnySubStrs` as the translator renders it from the current
source (`Generated/BodiesFailed.lean`) is `firstSubStr`, for every text and every list -/
theorem generated_stringContainsAnySubStrs_eq (s : Bytes) (l : List Bytes) :
    Gen.Bodies.Failed.stringContainsAnySubStrs s l = firstSubStr s l := by
  unfold Gen.Bodies.Failed.stringContainsAnySubStrs Go.forRange
  rw [Go.forRangeFrom_find (fun ss => isInfix ss s) (fun ss => ss)]
  induction l with
  | nil => simp [firstSubStr]
  | cons a l ih =>
    simp only [List.find?, firstSubStr]
    cases h : isInfix a s <;> simp [ih]

/-- the body of `(*Response).Record` as the translator renders it from the current source
(`Generated/BodiesFailed.lean`; the two time stamps are declared not modelled): `RawResult` and
`Result` become the recorded bytes and `Failed` is set exactly as `Resp.record` says (an
`OperationError` with the input, the output and the first failure string found; untouched when
none is found), for every response and every output -/
theorem generated_record_eq (r : Resp) (raw0 b : Bytes) :
    Gen.Bodies.Failed.record r.input r.fwc raw0 r.result r.failed b
      = (b, (r.record b).result, (r.record b).failed) := by
  unfold Gen.Bodies.Failed.record Resp.record
  simp only [generated_stringContainsAnySubStrs_eq]
  cases h : firstSubStr b r.fwc <;> simp

end Scrapli.Failed.C13
