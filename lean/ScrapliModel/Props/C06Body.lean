import ScrapliModel.Props.C01Body
/-!
# C06 — the `ReadUntil*` loops as the source reads now, under a loss

`Props/C01Body` proves each translated loop of `channel/read.go` equal to `readUntilEv`. The loss-level
consequences: whichever loop an operation (and its options: `ExactMatchInput` → `ReadUntilExplicit`,
default → `ReadUntilFuzzy`, `InterimPromptPatterns` → `ReadUntilAnyPrompt`, otherwise
`ReadUntilPrompt`) is in, the first `Channel.Read` that reports the loss ends it with that very
error at that very iteration, and no loop ever reports success across an error.
-/
namespace Scrapli.Chan.C06
open Scrapli Scrapli.Chan Scrapli.Chan.C01 Gen.Bodies.Read

/-- events that do not end a loop: empty polls and chunks that do not complete `P` -/
def Quiet (P : Bytes → Bool) (rb : Bytes) (pre : List Ev) : Prop :=
  (∀ e ∈ pre, e = .empty ∨ ∃ c, e = .chunk c) ∧
  ∀ k, 0 < k → k ≤ pre.length → P (rb ++ evBytes (pre.take k)) = false

theorem readUntilPrompt_returns_loss (fuel : Nat) (cfg : Cfg) (e : String) (pre rest : List Ev)
    (hq : Quiet (promptPred cfg) [] pre) (hf : (pre ++ .err e :: rest).length + 1 ≤ fuel) :
    readUntilPrompt fuel cfg (pre ++ .err e :: rest) = some ([], some e, rest) := by
  rw [generated_ReadUntilPrompt_eq fuel cfg _ hf, readUntilEv_err_after _ e pre rest [] hq.1 hq.2]; rfl

theorem readUntilAnyPrompt_returns_loss (fuel : Nat) (cfg : Cfg) (prompts : List (Bytes → Bool))
    (e : String) (pre rest : List Ev) (hq : Quiet (anyPromptPred cfg.depth prompts) [] pre)
    (hf : (pre ++ .err e :: rest).length + 1 ≤ fuel) :
    readUntilAnyPrompt fuel cfg prompts (pre ++ .err e :: rest) = some ([], some e, rest) := by
  rw [generated_ReadUntilAnyPrompt_eq fuel cfg prompts _ hf, readUntilEv_err_after _ e pre rest [] hq.1 hq.2]; rfl

/-- `ExactMatchInput`: the echo loop reports the loss exactly like the others -/
theorem readUntilExplicit_returns_loss (fuel : Nat) (cfg : Cfg) (b : Bytes) (e : String)
    (pre rest : List Ev) (hb : b ≠ []) (hm : cfg.mult = Gen.Channel.inputSearchDepthMultiplier)
    (hx : cfg.exact = true)
    (hq : Quiet (echoPred cfg b) [] pre) (hf : (pre ++ .err e :: rest).length + 1 ≤ fuel) :
    readUntilExplicit fuel cfg (pre ++ .err e :: rest) b = some ([], some e, rest) := by
  rw [generated_ReadUntilExplicit_eq fuel cfg b _ hm hx hf, if_neg hb,
    readUntilEv_err_after _ e pre rest [] hq.1 hq.2]; rfl

theorem readUntilFuzzy_returns_loss (fuel : Nat) (cfg : Cfg) (b : Bytes) (e : String)
    (pre rest : List Ev) (hb : b ≠ []) (hm : cfg.mult = Gen.Channel.inputSearchDepthMultiplier)
    (hx : cfg.exact = false) (hq : Quiet (echoPred cfg b) [] pre)
    (hf : (pre ++ .err e :: rest).length + 1 ≤ fuel) :
    readUntilFuzzy fuel cfg (pre ++ .err e :: rest) b = some ([], some e, rest) := by
  rw [generated_ReadUntilFuzzy_eq fuel cfg b _ hm hx hf, if_neg hb,
    readUntilEv_err_after _ e pre rest [] hq.1 hq.2]; rfl

/-- no loop reports success across an error: a successful call consumed only empty polls and chunks -/
theorem no_loop_succeeds_across_a_loss (P : Bytes → Bool) (evs : List Ev) (rb r : Bytes) (rest : List Ev)
    (h : readUntilEv P evs rb = some (.ok r, rest)) :
    ∃ pre, evs = pre ++ rest ∧ ∀ ev ∈ pre, ∀ e, ev ≠ .err e := by
  obtain ⟨pre, h1, h2⟩ := readUntilEv_success_clean P evs rb r rest h
  refine ⟨pre, h1, fun ev hev e heq => ?_⟩
  rcases h2 ev hev with h3 | ⟨c, h3⟩ <;> (rw [h3] at heq; cases heq)

/-- the hypotheses are satisfiable: two quiet events, then the loss -/
example : Quiet (fun b => b == [1, 2, 3]) [] [.chunk [1], .empty] := by
  refine ⟨?_, ?_⟩
  · intro e he
    simp at he
    rcases he with rfl | rfl
    · exact Or.inr ⟨[1], rfl⟩
    · exact Or.inl rfl
  intro k h1 h2
  have : k = 1 ∨ k = 2 := by simp at h2; omega
  rcases this with rfl | rfl <;> decide

end Scrapli.Chan.C06
