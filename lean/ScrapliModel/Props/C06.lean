import ScrapliModel.Lemmas.Loss
import ScrapliModel.Lemmas.LossGen
import ScrapliModel.Lemmas.LossNc
import ScrapliModel.Lemmas.LossNcEcho
import ScrapliModel.Lemmas.Channel
import ScrapliModel.Generated.Consts
import ScrapliModel.Generated.C06ReadLoop
import ScrapliModel.ChannelEv
/-!
# C06 — Connection loss surfaces as an error, never as a hang or a truncated success

Model: `ScrapliModel/Loss.lean`. The theorems quantify over

* every operation, as a program of `write` / `read P` phases (`SendInput`, `GetPrompt`,
  `SendInteractive` with any number of events, the NETCONF capability exchange, and any
  concatenation of them such as the network driver's implicit `AcquirePriv` + command),
* every device reaction and every way it is cut into reads (chunk lists, empty chunks included),
* every loss point (`St.left`: the number of bytes the transport still delivers — no bound),
* both read-side loss kinds (`eof`, persistent `err`) and the write-side one (`wleft`),
* every interleaving of the read goroutine and the operation (`List Actor`); "promptly" is stated
  in ticks (one step of each goroutine per tick, in either order),
* every completion predicate (`P : Bytes → Bool`, in particular the regex matchers).

`DoomedSt s o` is "the loss point lies before completion": some read's predicate fires on no
prefix that can still be obtained, the reads before it completing exactly. `Exact U prog` is C01's
well-formedness for a program (every read completes exactly when it has consumed everything emitted
so far); with `Starved s o` (fewer bytes obtainable than the lossless run needs, for a fresh
operation `k < need 0 prog`) it implies `DoomedSt` (`doomed_of_exact_starved`).
-/
namespace Scrapli.Loss.C06
open Scrapli Scrapli.Chan Scrapli.Loss

/-- state before an operation when the connection will be lost after `k` more bytes -/
def fresh (k : Nat) (kind : Kind) : St :=
  { pending := [], left := k, kind := kind, wleft := none, q := [], rd := .running, lost := false }

def start (prog : List Phase) : Op := { prog := prog, rb := [], outs := [] }

/-! ## loss_yields_error -/

/-- Safety half. `DoomedSt s o` = the loss strikes before completion: with the bytes the operation
holds plus those the transport will still deliver, some read's completion predicate fires on no
obtainable prefix (the reads before it completing exactly). Then no interleaving whatsoever makes
the operation report success. -/
theorem loss_never_ok (sched : List Actor) (s s' : St) (o : Op) (outs : List Bytes)
    (hD : DoomedSt s o) : run sched s o ≠ (s', .inr (.ok outs)) :=
  inv_never_ok doomed_stepInv sched s s' o outs hD

/-- THE PROPERTY (operation in flight). Whatever happened during the first `pre` ticks: if by then
a transport read has reported the loss (`lost`) and the operation is still in flight, it returns
an error within `maxAdjWrites + 1` further ticks — it does not wait for its deadline, and it never
returns `ok`. -/
theorem loss_yields_error (pre post : List Bool) (s s1 : St) (o o1 : Op)
    (hD : DoomedSt s o) (hL : LostArmed s)
    (hpre : run (ticks pre) s o = (s1, .inl o1)) (hlost : s1.lost = true)
    (hpost : maxAdjWrites o.prog < post.length) :
    ∃ s' e, run (ticks (pre ++ post)) s o = (s', .inr (.error e)) := by
  obtain ⟨a1, a2, _, pfx, hpfx⟩ := run_keeps doomed_stepInv (ticks pre) s s1 o o1 hD hpre
  rw [ticks_append, run_append, hpre]
  simp only
  apply inv_armed_returns doomed_stepInv (ticks post) s1 o1 (a2 hL hlost) a1
  rw [opCount_ticks]
  have h1 := adjWrites_le_max o1.prog
  have h2 := maxAdjWrites_suffix pfx o1.prog
  rw [← hpfx] at h2
  omega

/-- … in particular "time of loss + 2 ticks" for every operation that never issues two writes in
a row (`SendInput`, `GetPrompt`, visible `SendInteractive` events). -/
theorem loss_yields_error_two_ticks (pre : List Bool) (b1 b2 : Bool) (s s1 : St) (o o1 : Op)
    (hD : DoomedSt s o) (hL : LostArmed s) (hw : maxAdjWrites o.prog ≤ 1)
    (hpre : run (ticks pre) s o = (s1, .inl o1)) (hlost : s1.lost = true) :
    ∃ s' e, run (ticks (pre ++ [b1, b2])) s o = (s', .inr (.error e)) :=
  loss_yields_error pre [b1, b2] s s1 o o1 hD hL hpre hlost (by simp; omega)

/-- the exact form: every read completes exactly at the end of its part of the exchange and the
loss leaves fewer bytes than the lossless run consumes -/
theorem doomed_of_exact_starved (s : St) (o : Op) (hE : Exact (unread s o) o.prog)
    (hJ : Starved s o) : DoomedSt s o :=
  doomed_of_exact _ _ _ hE hJ

/-- the same from the start of an operation on a clean channel: loss after `k` bytes, `k` smaller
than what the lossless run consumes -/
theorem loss_yields_error_fresh (k : Nat) (kind : Kind) (prog : List Phase) (pre post : List Bool)
    (s1 : St) (o1 : Op) (hE : Exact [] prog) (hk : k < need 0 prog)
    (hpre : run (ticks pre) (fresh k kind) (start prog) = (s1, .inl o1)) (hlost : s1.lost = true)
    (hpost : maxAdjWrites prog < post.length) :
    (∃ s' e, run (ticks (pre ++ post)) (fresh k kind) (start prog) = (s', .inr (.error e))) ∧
    ∀ sched s' outs, run sched (fresh k kind) (start prog) ≠ (s', .inr (.ok outs)) := by
  have hD : DoomedSt (fresh k kind) (start prog) := by
    apply doomed_of_exact_starved
    · simpa [unread, fresh, start] using hE
    · simp [Starved, budget, unread, fresh, start]; exact hk
  have hL : LostArmed (fresh k kind) := by simp [LostArmed, fresh]
  exact ⟨loss_yields_error pre post _ s1 _ o1 hD hL hpre hlost hpost,
    fun sched s' outs => loss_never_ok sched _ s' _ outs hD⟩

/-! ## the read path every operation goes through (tied to the source by generated facts) -/

/-- OBLIGATION: `Channel.Read` consults `Errs` and then the read-loop-exited flag before it
dequeues — the order `chRead` models (a dequeue-first `Read` hands stale bytes to operations after
the loss; a `Read` without the flag never reports an end-of-stream). -/
theorem channel_read_consults_errs_then_flag :
    Gen.C06ReadLoop.readOrder = ["errs", "exited", "dequeue"] := by decide

/-- OBLIGATION: each of the four `ReadUntil*` loops takes its bytes through `c.Read()` and nothing
else (`ReadAll` consults `Errs` only — `readAllOrder` — so a loop built on it would not see an
end-of-stream; `Q.Dequeue` directly would see no loss at all). -/
theorem readUntil_loops_read_through_Read :
    Gen.C06ReadLoop.readSources = [("ReadUntilAnyPrompt", "c.Read"), ("ReadUntilExplicit", "c.Read"),
      ("ReadUntilFuzzy", "c.Read"), ("ReadUntilPrompt", "c.Read")] := by decide

/-- the event one `Channel.Read` produces for the source-translated loops of `ChannelEv` -/
def evOf : RR → Ev
  | .err e => .err (match e with | .transport => "transport" | .connection => "connection" | .write => "write")
  | .nil => .empty
  | .data c => .chunk c

/-- BRIDGE to the loops as written (`readUntilEv`, to which `Props/C01Body` proves the translated
`ReadUntil*` bodies equal): one step of a `read P` phase of this model is exactly one iteration of
`readUntilEv P` on the event `Channel.Read` produced — an error ends the loop with that error, a
completing chunk ends it with the buffer, anything else leaves it polling. -/
theorem read_phase_is_one_loop_iteration (s : St) (P : Bytes → Bool) (rest : List Phase) (rb : Bytes)
    (outs : List Bytes) :
    (match ostep s { prog := .read P :: rest, rb := rb, outs := outs } with
      | (_, .inr (.error e)) => readUntilEv P [evOf (chRead s).1] rb = some (.err (match e with
          | .transport => "transport" | .connection => "connection" | .write => "write"), [])
      | (_, .inr (.ok _)) => False
      | (_, .inl o') =>
        if o'.prog.length = rest.length then
          ∃ r, readUntilEv P [evOf (chRead s).1] rb = some (.ok r, []) ∧ o'.outs = outs ++ [r]
        else readUntilEv P [evOf (chRead s).1] rb = none) := by
  unfold ostep
  simp only
  rcases h : chRead s with ⟨rr, s'⟩
  cases rr with
  | err e => cases e <;> simp [evOf, readUntilEv]
  | nil => simp [evOf, readUntilEv]
  | data c =>
    by_cases hP : P (rb ++ c) = true
    · simp [evOf, readUntilEv, hP]
    · simp [evOf, readUntilEv, hP]

/-! ## every non-EOF error VALUE is a loss (tied to the source by a generated fact) -/

/-- OBLIGATION on the regenerated fact: the only branches of `Channel.read`'s error block that leave
before the hand-over are `done` closed and `errors.Is(err, io.EOF)`, both returning, and the
hand-over is there. A "retry silently" branch for some class of error values breaks this. -/
theorem read_loop_exceptions_exact :
    Gen.C06ReadLoop.exceptions = [("<-c.done", "exit"), ("errors.Is(err, io.EOF)", "exit")] ∧
    Gen.C06ReadLoop.handOverPresent = true := by
  decide

/-- the read loop's classification is `eof | other` on the error value: every value that is not
`io.EOF` is handed over (timeout-class `net.Error`s, values whose text says "EOF", … included), every
EOF value makes the loop return — evaluated on the extracted branch list -/
theorem every_non_eof_value_is_handed_over (v : EVal) :
    (v.isEOF = false → handedOver Gen.C06ReadLoop.exceptions Gen.C06ReadLoop.handOverPresent v = true) ∧
    (v.isEOF = true → exitsOn Gen.C06ReadLoop.exceptions v = true) := by
  rcases v with ⟨e, t, x⟩
  cases e <;> cases t <;> cases x <;> decide

/-- `loss_yields_error` for every error value: whatever the transport's persistent read error is
(EIO, ECONNRESET, ETIMEDOUT, EAGAIN, deadline exceeded, "unexpected EOF", …) the model's loss kind is
`kindOf v`, there is no third, silently retried class, and the operation in flight errors promptly
and never succeeds. -/
theorem loss_yields_error_every_value (v : EVal) (k : Nat) (prog : List Phase) (pre post : List Bool)
    (s1 : St) (o1 : Op) (hE : Exact [] prog) (hk : k < need 0 prog)
    (hpre : run (ticks pre) (fresh k (kindOf v)) (start prog) = (s1, .inl o1)) (hlost : s1.lost = true)
    (hpost : maxAdjWrites prog < post.length) :
    (v.isEOF = false → kindOf v = .err ∧
      handedOver Gen.C06ReadLoop.exceptions Gen.C06ReadLoop.handOverPresent v = true) ∧
    (∃ s' e, run (ticks (pre ++ post)) (fresh k (kindOf v)) (start prog) = (s', .inr (.error e))) ∧
    ∀ sched s' outs, run sched (fresh k (kindOf v)) (start prog) ≠ (s', .inr (.ok outs)) := by
  refine ⟨fun h => ⟨by simp [kindOf, h], (every_non_eof_value_is_handed_over v).1 h⟩, ?_⟩
  exact loss_yields_error_fresh k (kindOf v) prog pre post s1 o1 hE hk hpre hlost hpost

/-- e.g. ETIMEDOUT: a `net.Error` with `Timeout() = true` that is not EOF is handed over -/
example : handedOver Gen.C06ReadLoop.exceptions Gen.C06ReadLoop.handOverPresent
    { isEOF := false, netTimeout := true, eofText := false } = true := by decide

/-! ## later_ops_error -/

/-- Once the transport delivers nothing more (`left = 0`: after EOF, or under a persistent read
error) every later operation whose completion needs bytes beyond what is already queued returns an
error: never `ok`, and within `maxAdjWrites + 2` ticks (one for the read goroutine to notice). -/
theorem later_ops_error (ord : List Bool) (s : St) (o : Op) (h0 : s.left = 0)
    (hD : DoomedSt s o) (hlen : maxAdjWrites o.prog + 2 ≤ ord.length) :
    (∃ s' e, run (ticks ord) s o = (s', .inr (.error e))) ∧
    ∀ sched s' outs, run sched s o ≠ (s', .inr (.ok outs)) := by
  refine ⟨?_, fun sched s' outs => loss_never_ok sched s s' o outs hD⟩
  cases ord with
  | nil => simp at hlen
  | cons b rest =>
    have hrest : maxAdjWrites o.prog < rest.length := by simp at hlen; omega
    have hsplit : ticks (b :: rest) = (if b then [Actor.rdr, .op] else [.op, .rdr]) ++ ticks rest := by
      simp [ticks]
    rw [hsplit]
    cases b with
    | true =>
      show ∃ s' e, run (Actor.op :: ticks rest) (rstep s) o = (s', .inr (.error e))
      apply inv_armed_returns doomed_stepInv _ (rstep s) o (rstep_arms s h0)
        (doomed_stepInv.rdr s o hD)
      have := adjWrites_le_max o.prog
      simp only [opCount, opCount_ticks]; omega
    | false =>
      show ∃ s' e, (match ostep s o with
        | (s', .inl o') => run (Actor.rdr :: ticks rest) s' o'
        | (s', .inr r) => (s', .inr r)) = (s', .inr (.error e))
      rcases hs : ostep s o with ⟨s2, o2 | r⟩
      · show ∃ s' e, run (ticks rest) (rstep s2) o2 = (s', .inr (.error e))
        have b1 := doomed_stepInv.op s s2 o o2 hD hs
        obtain ⟨pfx, hpfx⟩ := ostep_suffix s s2 o o2 hs
        apply inv_armed_returns doomed_stepInv _ (rstep s2) o2
          (rstep_arms s2 (by rw [ostep_left s s2 o o2 hs]; exact h0)) (doomed_stepInv.rdr s2 o2 b1)
        have h1 := adjWrites_le_max o2.prog
        have h2 := maxAdjWrites_suffix pfx o2.prog
        rw [← hpfx] at h2
        rw [opCount_ticks]; omega
      · simp only
        rcases ostep_inr s s2 o r hs with ⟨hp, _, _⟩ | ⟨_, _, _, _, _, hr⟩ | ⟨_, _, e, _, _, hr⟩
        · exact absurd hp (doomed_stepInv.ne s o hD)
        · exact ⟨s2, .write, by rw [hr]⟩
        · exact ⟨s2, e, by rw [hr]⟩

/-- EVERY QUEUE CONTENT. Once the read goroutine has noticed the loss (it has exited after EOF, or
is blocked handing over the error), an operation that still has a `ReadUntil*` ahead of it returns
an error within `maxAdjWrites + 1` ticks and never returns `ok` — with no hypothesis at all on what
is sitting in the queue: bytes received before the loss, even a complete prompt or a complete
NETCONF message, are never handed to a later operation (`Channel.Read` looks at `Errs` and at
`readLoopExited` before it dequeues). -/
theorem later_ops_error_any_queue (ord : List Bool) (s : St) (o : Op) (ha : Armed s)
    (hr : hasRead o.prog = true) (hlen : maxAdjWrites o.prog < ord.length) :
    (∃ s' e, run (ticks ord) s o = (s', .inr (.error e))) ∧
    ∀ sched s' outs, run sched s o ≠ (s', .inr (.ok outs)) := by
  refine ⟨?_, fun sched s' outs => inv_never_ok armedRead_stepInv sched s s' o outs ⟨ha, hr⟩⟩
  apply inv_armed_returns armedRead_stepInv (ticks ord) s o ha ⟨ha, hr⟩
  have := adjWrites_le_max o.prog
  rw [opCount_ticks]; omega

/-- … and after EOF this holds for the whole rest of the session: the goroutine stays exited
through every operation, so each later operation meets the hypotheses above again, whatever the
queue holds and whatever earlier operations did. -/
theorem eof_is_forever (sched : List Actor) (s : St) (o : Op) (h : s.rd = .exited) :
    (run sched s o).1.rd = .exited ∧ Armed (run sched s o).1 :=
  ⟨exited_run sched s o h, Or.inr (exited_run sched s o h)⟩

/-- idle loss with a complete prompt already queued: `GetPrompt` would be satisfied by the stale
bytes, yet it returns `ErrConnectionError`, under either tick order; the stale bytes stay unread -/
example :
    let isPrompt : Bytes → Bool := fun b => b == [10, 114, 35]          -- "\nr#"
    let s : St := rstep { fresh 0 .eof with q := [[10, 114, 35]] }      -- EOF noticed while idle
    Armed s ∧ hasRead [Phase.write [10] [], .read isPrompt] = true ∧
    (match run (ticks [true, true]) s (start [.write [10] [], .read isPrompt]) with
      | (s', .inr (.error e)) => e == .connection && s'.q == [[10, 114, 35]]
      | _ => false) = true ∧
    (match run (ticks [false, false]) s (start [.write [10] [], .read isPrompt]) with
      | (_, .inr (.error e)) => e == .connection
      | _ => false) = true := by
  refine ⟨Or.inr (by decide), rfl, by decide, by decide⟩

/-- the dead transport stays dead: nothing an operation or the read goroutine does brings bytes back -/
theorem loss_is_permanent (sched : List Actor) (s s1 : St) (o o1 : Op) (h0 : s.left = 0)
    (hD : DoomedSt s o) (hr : run sched s o = (s1, .inl o1)) : s1.left = 0 :=
  (run_keeps doomed_stepInv sched s s1 o o1 hD hr).2.2.1 h0

/-! ## on-open / on-close step sequences of platform-built drivers -/

/-- OBLIGATION on the regenerated fact (go/ast over platform/onx.go): in every on-X step loop no case
arm binds the step's error with `:=` (which would shadow the loop's `err`), and the loop tests
`err` right after the switch and returns it. -/
theorem onx_loops_propagate_errors :
    Gen.C06ReadLoop.onxLoops = [("asGenericOnX", [], true), ("asNetworkOnX", [], true)] := by decide

/-- `onx_loss_propagates`: the first failing step's error is the result of the whole on-X function,
reached in the state that step left behind — no later step runs (so `Open` / the on-close function
reports the loss that struck during that step). -/
theorem onx_loss_propagates {σ ε : Type} (pre post : List (σ → σ × Option ε)) (f : σ → σ × Option ε)
    (s s1 s2 : σ) (e : ε) (hpre : onxSeq pre s = (s1, none)) (hf : f s1 = (s2, some e)) :
    onxSeq (pre ++ f :: post) s = (s2, some e) := by
  induction pre generalizing s with
  | nil =>
    simp only [onxSeq] at hpre
    obtain ⟨h1, _⟩ := Prod.mk.inj hpre
    subst h1
    simp [onxSeq, hf]
  | cons g gs ih =>
    simp only [List.cons_append, onxSeq] at hpre ⊢
    rcases hg : g s with ⟨sg, eg⟩
    rw [hg] at hpre
    cases eg with
    | some x => simp at hpre
    | none => simp only at hpre ⊢; exact ih sg hpre

/-- and a sequence reports success only if every step succeeded -/
theorem onx_success_means_all_steps_ok {σ ε : Type} (steps : List (σ → σ × Option ε)) (s s' : σ)
    (h : onxSeq steps s = (s', none)) :
    ∀ pre f post, steps = pre ++ f :: post → ∀ s1, onxSeq pre s = (s1, none) → (f s1).2 = none := by
  intro pre f post hsplit s1 hpre
  cases hf : (f s1).2 with
  | none => rfl
  | some e =>
    have := onx_loss_propagates pre post f s s1 (f s1).1 e hpre (by rw [← hf])
    rw [← hsplit, h] at this
    simp at this

/-- NEGATIVE WITNESS for the shadowed variant: a step that fails (the loss) but whose error is bound
with `:=` lets the sequence go on and report success -/
theorem onx_shadowing_hides_the_loss :
    onxSeqShadow [(false, fun (n : Nat) => (n + 1, (none : Option String))),
                  (true, fun n => (n + 1, some "connection lost")),
                  (false, fun n => (n + 1, none))] 0 = (3, none) ∧
    onxSeq [fun (n : Nat) => (n + 1, (none : Option String)), fun n => (n + 1, some "connection lost"),
            fun n => (n + 1, none)] 0 = (2, some "connection lost") := by
  decide

/-! ## operations built on other operations -/

/-- `composed_loss_propagates`: if some element operation fails (the loss struck during it) after the
earlier ones succeeded, the composite returns that error — not a result, partial or otherwise — in the
state that element left; no later element runs. -/
theorem composed_loss_propagates {σ ε α : Type} (pre post : List (σ → σ × (ε ⊕ α))) (f : σ → σ × (ε ⊕ α))
    (s s1 s2 : σ) (rs : List α) (e : ε) (hpre : composed pre s = (s1, .inr rs)) (hf : f s1 = (s2, .inl e)) :
    composed (pre ++ f :: post) s = (s2, .inl e) := by
  induction pre generalizing s rs with
  | nil =>
    simp only [composed] at hpre
    obtain ⟨h1, _⟩ := Prod.mk.inj hpre
    subst h1
    simp [composed, hf]
  | cons g gs ih =>
    simp only [List.cons_append, composed] at hpre ⊢
    rcases hg : g s with ⟨sg, eg | ag⟩
    · rw [hg] at hpre; simp at hpre
    · rw [hg] at hpre
      simp only at hpre ⊢
      rcases hc : composed gs sg with ⟨sc, ec | rc⟩
      · rw [hc] at hpre; simp at hpre
      · rw [hc] at hpre
        simp only at hpre
        obtain ⟨h1, _⟩ := Prod.mk.inj hpre
        subst h1
        rw [ih sg rc hc]

/-- never a success after a loss, and never a truncated one: a composite that reports success returns
exactly one result per element -/
theorem composed_success_is_complete {σ ε α : Type} (ops : List (σ → σ × (ε ⊕ α))) (s s' : σ)
    (rs : List α) (h : composed ops s = (s', .inr rs)) : rs.length = ops.length := by
  induction ops generalizing s s' rs with
  | nil => simp [composed] at h; simp [← h.2]
  | cons g gs ih =>
    simp only [composed] at h
    rcases hg : g s with ⟨sg, eg | ag⟩
    · rw [hg] at h; simp at h
    · rw [hg] at h
      simp only at h
      rcases hc : composed gs sg with ⟨sc, ec | rc⟩
      · rw [hc] at h; simp at h
      · rw [hc] at h
        simp only at h
        obtain ⟨_, h2⟩ := Prod.mk.inj h
        have : rs = ag :: rc := (Sum.inr.inj h2).symm
        rw [this, List.length_cons, ih sg sc rc hc, List.length_cons]

/-- NEGATIVE WITNESS: handing back the gathered part with the error and letting the wrapper keep it
turns "second of three config lines lost" into a success with one result -/
theorem partial_result_hides_the_loss :
    composedPartial [fun (n : Nat) => (n + 1, (.inr "ok1" : String ⊕ String)),
                     fun n => (n + 1, .inl "connection lost"), fun n => (n + 1, .inr "ok3")] 0
      = (2, .inr ["ok1"]) ∧
    composed [fun (n : Nat) => (n + 1, (.inr "ok1" : String ⊕ String)),
              fun n => (n + 1, .inl "connection lost"), fun n => (n + 1, .inr "ok3")] 0
      = (2, .inl "connection lost") := by
  decide

/-! ## the loss is permanent across failed re-opens -/

/-- OBLIGATION on the regenerated fact: the `readLoopExited.Store(…)` sites of package channel never
clear the flag before a transport open has succeeded and the new read loop is started (today there
is no clearing site at all: the only writer is the deferred `Store(true)` of the read loop). -/
theorem flag_is_not_cleared_early : policyOf Gen.C06ReadLoop.flagStores ≠ .early := by decide

/-- `loss_is_permanent_across_failed_reopen`. After a loss (`flag` set), whatever the caller does on
the same `Channel` — `Open()` that fails in the transport, `Close()`, further losses, operations, in
any order and number — every operation is refused with an error until an `Open()` whose transport
open SUCCEEDS; for every clearing policy except "early". -/
theorem loss_is_permanent_across_failed_reopen (p : ClearAt) (hp : p ≠ .early) (c : Conn)
    (hf : c.flag = true) (evs : List SEv) (hno : SEv.openOk ∉ evs) :
    ∀ b ∈ (srun p c evs).2, b = true := by
  induction evs generalizing c with
  | nil => simp [srun]
  | cons e es ih =>
    have hno' : SEv.openOk ∉ es := fun h => hno (List.mem_cons_of_mem _ h)
    cases e with
    | lossEof =>
      simp only [srun, sstep]
      apply ih _ _ hno'
      split <;> simp [hf]
    | openFail =>
      simp only [srun, sstep]
      exact ih _ (by simp [hp, hf]) hno'
    | openOk => exact absurd (List.mem_cons_self) hno
    | close =>
      simp only [srun, sstep]
      apply ih _ _ hno'
      split <;> simp [hf]
    | op =>
      simp only [srun, sstep]
      intro b hb
      rcases List.mem_cons.mp hb with h | h
      · rw [h, hf]
      · exact ih c hf hno' b h

/-- … in particular for the policy the source has now -/
theorem loss_is_permanent_in_the_source (c : Conn) (hf : c.flag = true) (evs : List SEv)
    (hno : SEv.openOk ∉ evs) :
    ∀ b ∈ (srun (policyOf Gen.C06ReadLoop.flagStores) c evs).2, b = true :=
  loss_is_permanent_across_failed_reopen _ flag_is_not_cleared_early c hf evs hno

/-- NEGATIVE WITNESS: with the flag cleared at the start of `Open`, "loss, failed re-open, operation"
lets the operation through (to the stale queue / to a wait for its full timeout): no read loop is
running and nothing will ever set the flag again. -/
theorem early_clear_breaks_permanence :
    srun .early { flag := false, loop := true } [.lossEof, .op, .openFail, .op] =
      ({ flag := false, loop := false }, [true, false]) ∧
    policyOf [("Open", "false", "before-transport-open"), ("read", "true", "deferred")] = .early := by
  decide

/-- what "refused at once" means in the channel model: with the flag set (`rd = exited`) every
operation that has to read errors, whatever the queue holds (`later_ops_error_any_queue`) -/
example : policyOf Gen.C06ReadLoop.flagStores = .never := by decide

/-! ## no_truncated_success -/

/-- For every loss point, loss kind and interleaving: if the operation reports success at all, the
buffers its reads return are exactly those of the lossless run — nothing is cut short. -/
theorem no_truncated_success (sched : List Actor) (s s' : St) (o : Op) (outs : List Bytes)
    (hE : Exact (unread s o) o.prog) (hr : run sched s o = (s', .inr (.ok outs))) :
    outs = o.outs ++ ideal (unread s o) o.prog := by
  obtain ⟨s1, o1, _, _, a3, a4⟩ := run_result sched s s' o _ hE hr
  rcases ostep_inr s1 s' o1 _ a4 with ⟨hp, hres, _⟩ | ⟨_, _, _, _, _, h⟩ | ⟨_, _, _, _, _, h⟩
  · rw [hp] at a3
    simp [ideal] at a3
    rw [← a3]
    exact Res.ok.inj hres
  · simp at h
  · simp at h

/-- `SendInput` under C01's well-formedness hypothesis, for every loss point and interleaving: a
success returns the two buffers of the lossless exchange (so `processOut` of the second is exactly
the result C01's `sendInput_with_stale` proves), and a loss before the last byte of the response
never yields success. -/
theorem sendInput_no_truncated_success (cfg : Cfg) (x : Exchange) (stale : List Bytes)
    (k : Nat) (kind : Kind) (w : Option Nat) (sched : List Actor) (s' : St) (outs : List Bytes)
    (hwf : ExactAt (echoPred cfg x.cmd) (stale ++ x.echo).flatten ∧ ExactAt (promptPred cfg) x.resp.flatten)
    (hr : run sched { fresh k kind with q := stale, wleft := w } (start (sendInputProg cfg x)) = (s', .inr (.ok outs))) :
    outs = [(stale ++ x.echo).flatten, x.resp.flatten] ∧
    (stale ++ x.echo).flatten.length + x.resp.flatten.length ≤ stale.flatten.length + k := by
  have hE : Exact (unread { fresh k kind with q := stale, wleft := w } (start (sendInputProg cfg x)))
      (start (sendInputProg cfg x)).prog := by
    simp only [unread, fresh, start, sendInputProg, Exact, List.flatten_nil, List.append_nil,
      List.nil_append]
    simpa using hwf
  constructor
  · have := no_truncated_success sched _ s' _ outs hE hr
    simpa [unread, fresh, start, sendInputProg, ideal] using this
  · apply Nat.le_of_not_lt
    intro hlt
    apply loss_never_ok sched _ s' _ outs (doomed_of_exact_starved _ _ hE _) hr
    simp only [Starved, budget, unread, fresh, start, sendInputProg, need, List.flatten_nil,
      List.append_nil, List.nil_append, List.length_nil, List.length_append, List.flatten_append] at hlt ⊢
    omega

/-! ## write errors -/

/-- If the transport stops accepting bytes before the operation has written what it has to write,
no interleaving makes the operation report success … -/
theorem write_loss_never_ok (sched : List Actor) (s s' : St) (o : Op) (outs : List Bytes)
    (w : Nat) (hw : s.wleft = some w) (hlt : w < wneed o.prog) :
    run sched s o ≠ (s', .inr (.ok outs)) :=
  wstarved_never_ok sched s s' o outs ⟨w, hw, hlt⟩

/-- … the failing write itself returns the error in the same step (no waiting at all), and from
then on the transport accepts nothing: every later operation that writes a byte fails as well. -/
theorem write_loss_immediate (s : St) (b : Bytes) (react : List Bytes) (rest : List Phase)
    (rb : Bytes) (outs : List Bytes) (w : Nat) (hw : s.wleft = some w) (hlt : w < b.length) :
    ∃ s', ostep s { prog := .write b react :: rest, rb := rb, outs := outs } = (s', .inr (.error .write)) ∧
      s'.wleft = some 0 ∧
      ∀ sched o s'' outs', 0 < wneed o.prog → run sched s' o ≠ (s'', .inr (.ok outs')) := by
  have hf : chWrite s b react = (false, { s with wleft := some 0 }) := by
    unfold chWrite
    rw [hw]
    simp only
    rw [if_neg (by omega)]
  refine ⟨{ s with wleft := some 0 }, ?_, rfl, ?_⟩
  · simp only [ostep, hf]
  · intro sched o s'' outs' hpos
    exact wstarved_never_ok sched _ s'' o outs' ⟨0, rfl, hpos⟩


/-! ## NETCONF: `Driver.read` forwarding and `sendRPC` -/

/-- Safety half for an RPC. `NInv`: the delimiter matcher fires on no prefix of the reply stream that
can still be delivered (e.g. it first fires exactly at the end of the complete reply and the loss
strikes before that many bytes can arrive: `ninv_of_exact`), and nothing is stored under the RPC's
message-id. Then no interleaving of the three goroutines and no resolution of the `select`
makes `sendRPC` return a reply. -/
theorem nc_loss_never_ok (msgP : Bytes → Bool) (idOf : Bytes → Nat) (echoRest : Bytes → Option Bytes) (sched : List NActor)
    (n n' : NSt) (r : Rpc) (outs : List Bytes) (h : NInv msgP n r) :
    nrun msgP idOf echoRest sched n r ≠ (n', .inr (.ok outs)) := by
  intro hr
  obtain ⟨e, he⟩ := nrun_result msgP idOf echoRest sched n n' r _ h hr
  simp at he

/-- Safety for an RPC over ANY transport, echoing or not (`Driver.read`'s `</rpc>` branch): if feeding
`Driver.read` the chunks that can still be delivered never makes it store a message (`feedSafe`: every
buffer on which the delimiter matcher fires is an echoed request, which is discarded), no interleaving
and no `select` resolution makes `sendRPC` return a reply. Subsumes `nc_loss_never_ok` chunk-wise. -/
theorem nc_loss_never_ok_any_transport (msgP : Bytes → Bool) (idOf : Bytes → Nat)
    (echoRest : Bytes → Option Bytes) (sched : List NActor) (n n' : NSt) (r : Rpc) (outs : List Bytes)
    (h : NInvF msgP echoRest n r) :
    nrun msgP idOf echoRest sched n r ≠ (n', .inr (.ok outs)) := by
  intro hr
  obtain ⟨e, he⟩ := nrunF_result msgP idOf echoRest sched n n' r _ h hr
  simp at he

/-- the full promptness statement for the echoing case (kept as a `Prop`; proved today only from the
moment the echo has been discarded, where `NInv` holds again and `nc_loss_yields_error` applies — the
promptness lemmas are stated over `NInv`, not yet over `NInvF`) -/
def nc_echo_loss_yields_error_full : Prop :=
  ∀ (msgP : Bytes → Bool) (idOf : Bytes → Nat) (echoRest : Bytes → Option Bytes) (pre : List Nat) (t1 : Nat)
    (post : List Nat) (n n1 : NSt) (r r1 : Rpc), NInvF msgP echoRest n r → NLostArmed n →
    nrun msgP idOf echoRest (nticks pre) n r = (n1, .inl r1) → n1.ch.lost = true →
    r.writes.length < post.length →
    ∃ n' e, nrun msgP idOf echoRest (nticks (pre ++ t1 :: post)) n r = (n', .inr (.error e))

/-- the echo hypotheses are satisfiable: the request [9,9,7] comes back (7 = delimiter, 9 marks a
request), then 2 of the 3 reply bytes [1,2,7]; the echo is discarded, the reply never completes -/
example :
    let msgP : Bytes → Bool := fun b => b.contains 7
    let echoRest : Bytes → Option Bytes := fun b => if b.contains 9 then some (b.dropWhile (· != 7)).tail else none
    let n : NSt := { ch := { fresh 5 .eof with pending := [[9, 9, 7], [1, 2, 7]] }, nb := [], fwd := none, store := [] }
    let r : Rpc := { writes := [], mid := 101 }
    NInvF msgP echoRest n r ∧
    (match nrun msgP (fun _ => 101) echoRest (nticks [0, 0, 0, 0, 0]) n r with
      | (_, .inr (.error e)) => e == .connection
      | _ => false) = true := by
  refine ⟨⟨by decide, rfl⟩, by decide⟩

/-- THE PROPERTY for an RPC in flight: if after `pre` ticks a transport read has reported the loss
and `sendRPC` has not returned, it returns an error within `1 + (remaining writes + 1)` further
ticks — for an RPC already waiting in its `select` that is "time of loss + 2 ticks" (one for
`Driver.read` to pick the error up, one for the `select`). It never waits for its timer. -/
theorem nc_loss_yields_error (msgP : Bytes → Bool) (idOf : Bytes → Nat) (echoRest : Bytes → Option Bytes) (pre : List Nat) (t1 : Nat)
    (post : List Nat) (n n1 : NSt) (r r1 : Rpc) (h : NInv msgP n r) (hl : NLostArmed n)
    (hpre : nrun msgP idOf echoRest (nticks pre) n r = (n1, .inl r1)) (hlost : n1.ch.lost = true)
    (hpost : r.writes.length < post.length) :
    ∃ n' e, nrun msgP idOf echoRest (nticks (pre ++ t1 :: post)) n r = (n', .inr (.error e)) := by
  have hsplit : nticks (pre ++ t1 :: post) = nticks pre ++ (ntick t1 ++ nticks post) := by
    simp [nticks]
  rw [hsplit, nrun_append, hpre]
  simp only
  obtain ⟨i1, i2, _⟩ := nrun_inv msgP idOf echoRest (nticks pre) n n1 r r1 h hpre
  have harm := nrun_lostArmed msgP idOf echoRest (nticks pre) n n1 r r1 h hl hpre hlost
  obtain ⟨a, b, hab, _⟩ := ntick_split t1
  rw [hab, List.append_assoc, List.cons_append]
  apply narmed_returns msgP idOf echoRest a (b ++ nticks post) n1 r1 i1 harm
  rw [rpcCount_append, rpcCount_nticks]
  omega

/-- later RPCs: with a dead transport (`left = 0`) every RPC whose reply is not already complete in
the buffers returns an error, never a reply; one more tick than above because the channel's read
goroutine may first have to notice. -/
theorem nc_later_ops_error (msgP : Bytes → Bool) (idOf : Bytes → Nat) (echoRest : Bytes → Option Bytes) (t0 t1 : Nat) (post : List Nat)
    (n : NSt) (r : Rpc) (h : NInv msgP n r) (h0 : n.ch.left = 0)
    (hpost : r.writes.length < post.length) :
    (∃ n' e, nrun msgP idOf echoRest (nticks (t0 :: t1 :: post)) n r = (n', .inr (.error e))) ∧
    ∀ sched n' outs, nrun msgP idOf echoRest sched n r ≠ (n', .inr (.ok outs)) := by
  refine ⟨?_, fun sched n' outs => nc_loss_never_ok msgP idOf echoRest sched n n' r outs h⟩
  have hsplit : nticks (t0 :: t1 :: post) = ntick t0 ++ (ntick t1 ++ nticks post) := by
    simp [nticks]
  rw [hsplit, nrun_append]
  rcases h0r : nrun msgP idOf echoRest (ntick t0) n r with ⟨n1, r1 | res⟩
  · simp only
    obtain ⟨i1, i2, _⟩ := nrun_inv msgP idOf echoRest (ntick t0) n n1 r r1 h h0r
    obtain ⟨a0, b0, hab0⟩ := ntick_split_rdr t0
    have harm : NArmed n1 := nrun_arms msgP idOf echoRest a0 b0 n n1 r r1 h h0 (by rw [← hab0]; exact h0r)
    obtain ⟨a, b, hab, _⟩ := ntick_split t1
    rw [hab, List.append_assoc, List.cons_append]
    apply narmed_returns msgP idOf echoRest a (b ++ nticks post) n1 r1 i1 harm
    rw [rpcCount_append, rpcCount_nticks]
    omega
  · simp only
    obtain ⟨e, he⟩ := nrun_result msgP idOf echoRest (ntick t0) n n1 r res h h0r
    exact ⟨n1, e, by rw [he]⟩

/-- NETCONF hypotheses are satisfiable: a 6-byte reply cut into two reads, the connection lost after
4 bytes; `sendRPC` (already waiting in its `select`) returns the error, whatever the tick orders -/
example :
    let msgP : Bytes → Bool := fun b => b == [1, 2, 3, 4, 5, 6]
    let n : NSt := { ch := { fresh 4 .eof with pending := [[1, 2, 3], [4, 5, 6]] }, nb := [], fwd := none, store := [] }
    let r : Rpc := { writes := [], mid := 101 }
    NInv msgP n r ∧ NLostArmed n ∧
    (match nrun msgP (fun _ => 101) (fun _ => none) (nticks [0, 3, 5, 1, 2]) n r with
      | (_, .inr (.error e)) => e == .connection
      | _ => false) = true := by
  refine ⟨ninv_of_exact _ _ _ ⟨by decide, by decide⟩ (by decide) rfl, by simp [NLostArmed, fresh], by decide⟩

/-! ## facts about the concrete operations -/

theorem sendInput_adj (cfg : Cfg) (x : Exchange) : maxAdjWrites (sendInputProg cfg x) = 1 := rfl
theorem getPrompt_adj (cfg : Cfg) (r : List Bytes) : maxAdjWrites (getPromptProg cfg r) = 1 := rfl
theorem sendInput_need (cfg : Cfg) (x : Exchange) :
    need 0 (sendInputProg cfg x) = x.echo.flatten.length + x.resp.flatten.length := by
  simp [sendInputProg, need]
theorem getPrompt_need (cfg : Cfg) (r : List Bytes) :
    need 0 (getPromptProg cfg r) = r.flatten.length := by
  simp [getPromptProg, need]
/-- the NETCONF capability exchange needs the whole server hello, and nothing after it -/
theorem ncOpen_need (P : Bytes → Bool) (hello ret : Bytes) (u : Nat) :
    need u (ncOpenProg P hello ret) = u := by
  simp [ncOpenProg, need]

/-! ## the hypotheses are satisfiable (no vacuity) -/

private def pEq (t : Bytes) : Bytes → Bool := fun b => b == t

/-- a two-read program over a reaction cut into three reads; loss after 2 of the 5 needed bytes -/
example :
    let prog : List Phase := [.write [7] [[1], [2, 3]], .read (pEq [1, 2, 3]), .write [10] [[4, 5]], .read (pEq [4, 5])]
    Exact [] prog ∧ need 0 prog = 5 ∧ Starved (fresh 2 .err) (start prog) ∧ LostArmed (fresh 2 .err) ∧
    maxAdjWrites prog = 1 := by
  refine ⟨⟨⟨by decide, by decide⟩, ⟨by decide, by decide⟩, trivial⟩, rfl, ?_, ?_, rfl⟩
  · simp [Starved, budget, unread, fresh, start, need]
  · simp [LostArmed, fresh]

/-- `DoomedSt` does not need exactness: a prompt-like predicate that already holds one byte before
the end of the reply (trailing blank); the loss after 2 of 4 bytes is still "before completion" -/
example :
    let P : Bytes → Bool := fun b => b == [1, 2, 3] || b == [1, 2, 3, 4]
    DoomedSt (fresh 2 .eof) (start [.write [10] [[1, 2], [3, 4]], .read P]) := by
  simp only [DoomedSt, fresh, start, unread, budget, Doomed]
  left
  decide

/-- and the run itself: after 3 ticks the loss has been reported and the operation is still in
flight (the premises of `loss_yields_error`), after 5 it has returned the transport's error -/
example :
    let prog : List Phase := [.write [7] [[1], [2, 3]], .read (pEq [1, 2, 3]), .write [10] [[4, 5]], .read (pEq [4, 5])]
    (match run (ticks [false, false, false]) (fresh 2 .err) (start prog) with
      | (s1, .inl _) => s1.lost
      | _ => false) = true ∧
    (match run (ticks [false, false, false, true, true]) (fresh 2 .err) (start prog) with
      | (_, .inr (.error e)) => e == .transport
      | _ => false) = true := by
  decide

/-- the same with EOF: the operation gets `ErrConnectionError` -/
example :
    let prog : List Phase := [.write [7] [[1], [2, 3]], .read (pEq [1, 2, 3]), .write [10] [[4, 5]], .read (pEq [4, 5])]
    (match run (ticks [true, true, true, true]) (fresh 2 .eof) (start prog) with
      | (_, .inr (.error e)) => e == .connection
      | _ => false) = true := by
  decide

/-- without a loss in range the same program succeeds with the lossless buffers -/
example :
    let prog : List Phase := [.write [7] [[1], [2, 3]], .read (pEq [1, 2, 3]), .write [10] [[4, 5]], .read (pEq [4, 5])]
    (match run (ticks (List.replicate 8 true)) (fresh 5 .eof) (start prog) with
      | (_, .inr (.ok outs)) => outs == [[1, 2, 3], [4, 5]]
      | _ => false) = true := by
  decide

end Scrapli.Loss.C06
