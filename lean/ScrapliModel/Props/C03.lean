import ScrapliModel.Lemmas.Request
import ScrapliModel.Lemmas.SelfClose
import ScrapliModel.Generated.C03Embedding
import ScrapliModel.Lemmas.GoSem
import ScrapliModel.Generated.BodiesRequest
import ScrapliModel.Lemmas.BodiesRequest
/-!
# C03 — NETCONF requests on the wire are correctly framed and carry the caller's content

Property theorems only. Model: `ScrapliModel/Netconf/Request.lean` (mirrors
`driver/netconf/message.go`, `rpc.go`, `capabilities.go`, `driver.go: buildPayload`). Constants
(`xmlHeader`, `v1Dot0Delim`, `v1Dot0Caps`, `v1Dot1Caps`, `initialMessageID`, `emptyTagPattern`,
`DefaultReturnChar`) come from `Generated/Consts.lean`, regenerated from the source on every run.

The XML-content clause of the property (the rpc element denotes the caller's operation and
arguments) is a specification checked by correspondence only: `encoding/xml` is not modelled, the
marshalled rpc element is a parameter (`body`) of every theorem below.
-/
namespace Scrapli.Netconf.C03
open Scrapli Scrapli.Netconf Scrapli.Netconf.Req

abbrev delim : Bytes := Gen.Netconf.v1Dot0Delim

/-! ## obligations on regenerated constants -/

/-- the channel writes a single LF as its return: in 1.1 that LF is the first byte of the next
chunk header, in 1.0 it is white space between documents -/
theorem ret_is_lf : ret = [LF] := by decide

/-- the hello text of each version without its end-of-message marker -/
def helloXml (v : Version) : Bytes := (clientHello v).take ((clientHello v).length - delim.length)

/-- each client hello is `xml ++ ]]>]]>` and the marker does not occur earlier in it -/
theorem clientHello_shape (v : Version) :
    clientHello v = helloXml v ++ delim ∧ isInfix delim (helloXml v ++ delim.dropLast) = false := by
  cases v <;> decide +kernel

theorem delim_ne_nil : delim ≠ [] := by decide

/-! ## the strict decoder recovers every request from the session's byte stream -/

/-- which reported inputs a strict peer can recover, per framing:
* 1.1 (RFC 6242): non-empty and shorter than 2³² bytes (the RFC's maximum chunk size; the code
  always sends a message as ONE chunk);
* 1.0 (RFC 4742): does not begin with white space, and `]]>]]>` occurs neither inside it nor
  straddling its end (a message ending in `]]>` is ambiguous under 1.0 framing itself). -/
def LegalRaws : Version → List Bytes → Prop
  | .v11, rs => Legal11 rs
  | .v10, rs => Legal10 delim rs

/-- the XML the response reports as its input (`Response.Input`) for each request of a session -/
def raws (v : Version) (sc nh : Bool) (bodies : List Bytes) : List Bytes :=
  bodies.map fun b => (serialize v sc nh b).1

theorem wire_eq_hello (v : Version) (sc nh : Bool) (bodies : List Bytes) :
    wire v sc nh bodies = helloXml v ++ delim ++ (LF :: (bodies.map (sendOne v sc nh)).flatten) := by
  unfold wire
  rw [ret_is_lf]
  conv => lhs; rw [(clientHello_shape v).1]
  simp

theorem sendOne11_eq (sc nh : Bool) (b : Bytes) :
    sendOne .v11 sc nh b =
      HASH :: (decDigits (serialize .v11 sc nh b).1.length ++ LF :: ((serialize .v11 sc nh b).1 ++ [LF, HASH, HASH]))
        ++ [LF] ++ [LF] := by
  simp only [sendOne, serialize, ret_is_lf]

theorem sendOne10_eq (sc nh : Bool) (b : Bytes) :
    sendOne .v10 sc nh b = (serialize .v10 sc nh b).1 ++ (delim ++ [LF]) := by
  simp only [sendOne, serialize, ret_is_lf, List.append_nil, List.append_assoc]

/-- **strictDecode_wire.** For every session (any number of requests, any marshalled bodies, both
versions, both options) the strict RFC decoder turns the bytes handed to the transport back into
exactly the list of reported inputs. In 1.1 this says in particular that every chunk size is the
exact byte count of its message and that the second return supplies the LF that must precede the
next chunk header. -/
theorem strictDecode_wire (v : Version) (sc nh : Bool) (bodies : List Bytes)
    (h : LegalRaws v (raws v sc nh bodies)) :
    strictDecode v (wire v sc nh bodies) = some (raws v sc nh bodies) := by
  have hs := splitOn_first delim (helloXml v) (LF :: (bodies.map (sendOne v sc nh)).flatten)
    delim_ne_nil (clientHello_shape v).2
  unfold strictDecode strictDecodeFull
  rw [wire_eq_hello, hs]
  cases v with
  | v11 =>
    have e : LF :: (bodies.map (sendOne .v11 sc nh)).flatten
        = ((raws .v11 sc nh bodies).map frame1).flatten ++ [LF] := by
      rw [← regroup11, raws, List.map_map]
      congr 2
    simp only [e]
    rw [msgs11_frames _ _ h (by
      have := frames_length (raws .v11 sc nh bodies)
      simp only [List.length_append, List.length_cons, List.length_nil]; omega)]
    rfl
  | v10 =>
    have e : LF :: (bodies.map (sendOne .v10 sc nh)).flatten
        = [LF] ++ ((raws .v10 sc nh bodies).map (fun r => r ++ (delim ++ [LF]))).flatten := by
      have e2 : bodies.map (sendOne .v10 sc nh)
          = (raws .v10 sc nh bodies).map (fun r => r ++ (delim ++ [LF])) := by
        rw [raws, List.map_map]
        apply List.map_congr_left
        intro b _
        exact sendOne10_eq sc nh b
      rw [e2]; rfl
    simp only [e]
    rw [msgs10_frames delim delim_ne_nil _ _ [LF] (by intro x hx; simp at hx; subst hx; decide) h (by
      have := frames10_length delim (raws .v10 sc nh bodies)
      simp only [List.length_append, List.length_cons, List.length_nil]; omega)]
    rfl


/-- non-vacuity: a two-request 1.1 session whose bodies contain '#', LF, "##" lines, multi-byte
UTF-8 and a whitespace-only element satisfies the hypothesis (with the rewrite on) -/
example : LegalRaws .v11 (raws .v11 true false
    [[60,97,62,10,35,35,10,195,169,60,47,97,62], [60,98,62,32,60,47,98,62]]) := by
  intro r hr
  simp only [raws, List.map_cons, List.map_nil, List.mem_cons, List.mem_nil_iff, or_false] at hr
  rcases hr with rfl | rfl <;> exact ⟨by decide +kernel, by decide +kernel⟩

/-- non-vacuity for 1.0 (no header, rewrite on) -/
example : LegalRaws .v10 (raws .v10 true true
    [[60,97,62,93,93,62,195,169,60,47,97,62], [60,98,62,32,60,47,98,62]]) := by
  intro r hr
  simp only [raws, List.map_cons, List.map_nil, List.mem_cons, List.mem_nil_iff, or_false] at hr
  rcases hr with rfl | rfl <;> exact ⟨by decide +kernel, by decide +kernel⟩

/-- the strict decoder is strict: without the second return the second 1.1 message has no LF
before its `#`, and the stream is rejected -/
theorem strictDecode_rejects_missing_return :
    strictDecode .v11 (clientHello .v11 ++ [LF] ++
      ((serialize .v11 false true [60,97,47,62]).2 ++ [LF]) ++
      ((serialize .v11 false true [60,98,47,62]).2 ++ [LF])) = none := by
  decide +kernel

/-- … and a chunk size that counts characters instead of bytes (here 5 for the 6 bytes of
`<é/>` + LF) is rejected as well -/
theorem strictDecode_rejects_char_count :
    strictDecode .v11 (clientHello .v11 ++ [LF] ++
      [35, 53, 10, 60, 195, 169, 47, 62, 10, 10, 35, 35, 10, 10]) = none := by
  decide +kernel

/-! ## framing is a function of the reported input only -/

/-- RFC framing of one reported input, as `serialize` applies it -/
def framing : Version → Bytes → Bytes
  | .v10, raw => raw ++ delim
  | .v11, raw => HASH :: (decDigits raw.length ++ LF :: (raw ++ [LF, HASH, HASH]))

theorem serialize_framed (v : Version) (sc nh : Bool) (body : Bytes) :
    (serialize v sc nh body).2 = framing v (serialize v sc nh body).1 := by
  cases v <;> rfl

/-- with both options off the reported input is the marshalled rpc after the declaration -/
theorem serialize_plain (v : Version) (body : Bytes) :
    (serialize v false false body).1 = Gen.Netconf.xmlHeader ++ body
    ∧ (serialize v false true body).1 = body := ⟨rfl, rfl⟩

/-! ## omitting the declaration changes only the declaration -/

/-- the body starts with an opening tag (every marshalled rpc does) -/
def StartsTag (body : Bytes) : Prop := ∃ c rest, body = LTc :: c :: rest ∧ c ≠ SLc

/-- obligation on the regenerated constant: the declaration is one `<…>` tag without inner `<`/`>` -/
theorem xmlHeader_shape :
    Gen.Netconf.xmlHeader = LTc :: ((Gen.Netconf.xmlHeader.drop 1).dropLast ++ [GTc])
    ∧ (∀ b ∈ (Gen.Netconf.xmlHeader.drop 1).dropLast, b ≠ GTc)
    ∧ (∀ b ∈ (Gen.Netconf.xmlHeader.drop 1).dropLast ++ [GTc], b ≠ LTc) := by
  decide +kernel

theorem fsc_header (body : Bytes) (h : StartsTag body) :
    forceSelfClosing (Gen.Netconf.xmlHeader ++ body)
      = Gen.Netconf.xmlHeader ++ forceSelfClosing body := by
  obtain ⟨e, hgt, hlt⟩ := xmlHeader_shape
  obtain ⟨c, rest, rfl, hc⟩ := h
  generalize (Gen.Netconf.xmlHeader.drop 1).dropLast = tag at e hgt hlt
  rw [e]
  have hm : matchAt (tag ++ GTc :: (LTc :: c :: rest)) = none :=
    matchAt_no_close tag _ LTc c rest hgt (by simp [List.dropWhile, isWs, LTc]) (by simp [hc])
  have : LTc :: (tag ++ [GTc]) ++ LTc :: c :: rest = LTc :: (tag ++ GTc :: (LTc :: c :: rest)) := by simp
  rw [this, fsc_lt_none _ hm]
  have : tag ++ GTc :: (LTc :: c :: rest) = (tag ++ [GTc]) ++ (LTc :: c :: rest) := by simp
  rw [this, fsc_append_noLT _ _ hlt]
  simp

/-- **header_only_prefix.** `WithNetconfExcludeHeader` removes exactly the XML declaration from
the reported input (and hence from the framed bytes, by `serialize_framed`); with the rewrite off
this holds for every body, with the rewrite on for every body that starts with an opening tag. -/
theorem header_only_prefix (v : Version) (sc : Bool) (body : Bytes)
    (h : sc = true → StartsTag body) :
    (serialize v sc false body).1 = Gen.Netconf.xmlHeader ++ (serialize v sc true body).1 := by
  cases sc with
  | false => rfl
  | true =>
    show forceSelfClosing (Gen.Netconf.xmlHeader ++ body) = _ ++ forceSelfClosing body
    exact fsc_header body (h rfl)

example : StartsTag (rpcBody 101 [60,103,101,116,47,62]) := ⟨114, _, rfl, by decide⟩

/-! ## the self-closing rewrite -/

/-- obligation on the regenerated constant: the scanner `matchAt` was derived by hand from exactly
this pattern, `<([^>/]+?)(\s+[^>]+?)?>\s*</([\w-]+)>`; if the pattern changes the derivation has to
be redone -/
theorem emptyTagPattern_pinned : Gen.Netconf.emptyTagPattern =
    [60,40,91,94,62,47,93,43,63,41,40,92,115,43,91,94,62,93,43,63,41,63,62,92,115,42,60,47,40,91,
     92,119,45,93,43,41,62] := by decide

/-- **forceSelfClosing_spec.** The output differs from the input only in that some occurrences of
`<n a…>ws</n>` — same name `n` made of `[\w-]`, white-space-only content, attribute text not
ending in `/` — have been replaced by `<n a…/>`. Every other byte (elements with content,
mismatched open/close pairs, already self-closed elements, text) is kept. -/
theorem forceSelfClosing_spec (s : Bytes) : Rewrites s (forceSelfClosing s) :=
  scan_rewrites s.length s

/-- **forceSelfClosing_idempotent.** Rewriting twice is rewriting once, for every byte string
(holds for the repaired function only: the code as it is turns `<a  x></a> </a>` into
`<a  x/> </a>` and then into `<a  x//>`). -/
theorem forceSelfClosing_idempotent (s : Bytes) :
    forceSelfClosing (forceSelfClosing s) = forceSelfClosing s := fsc_idem s

/-- … and the rewrite does happen for an empty element that follows tag-free text -/
theorem forceSelfClosing_closes (pre n a ws post : Bytes) (hpre : ∀ b ∈ pre, b ≠ LTc)
    (h : EmptyElem n a ws) :
    forceSelfClosing (pre ++ LTc :: (n ++ a ++ GTc :: (ws ++ LTc :: SLc :: (n ++ GTc :: post))))
      = pre ++ LTc :: (n ++ a ++ SLc :: GTc :: forceSelfClosing post) := by
  have hm := matchAt_emptyElem n a ws n post h.name_ne h.name_word h.attrs_shape h.attrs_noGT
    h.ws_space h.name_ne h.name_word
  rw [fsc_append_noLT _ _ hpre, fsc_lt_some _ _ hm]
  have : Match.eligible ⟨n, a, ws, n, post⟩ = true := by
    simp only [Match.eligible, beq_self_eq_true, Bool.true_and, bne_iff_ne, ne_eq]
    exact h.attrs_open
  simp [this, Match.closed]

example : EmptyElem [97] [32, 120, 61, 34, 49, 34] [32, 10] :=
  ⟨by decide, by decide, Or.inr ⟨32, _, rfl, by decide, by decide⟩, by decide, by decide, by decide⟩

/-- an open/close pair with different names is kept as it is -/
theorem forceSelfClosing_keeps_mismatch (pre n a ws c post : Bytes) (hpre : ∀ b ∈ pre, b ≠ LTc)
    (h : EmptyElem n a ws) (hc : c ≠ []) (hcw : ∀ b ∈ c, isWordDash b = true) (hne : n ≠ c) :
    forceSelfClosing (pre ++ LTc :: (n ++ a ++ GTc :: (ws ++ LTc :: SLc :: (c ++ GTc :: post))))
      = pre ++ LTc :: (n ++ a ++ GTc :: (ws ++ LTc :: SLc :: (c ++ GTc :: forceSelfClosing post))) := by
  have hm := matchAt_emptyElem n a ws c post h.name_ne h.name_word h.attrs_shape h.attrs_noGT
    h.ws_space hc hcw
  rw [fsc_append_noLT _ _ hpre, fsc_lt_some _ _ hm]
  have : Match.eligible ⟨n, a, ws, c, post⟩ = false := by
    simp [Match.eligible, hne]
  simp [this, Match.full]

/-- (repair) an element that is already self-closed, `<n a…/>`, directly followed by a closing tag
of the same name (its parent's) is kept; the code as it is rewrites it to `<n a…//>` -/
theorem forceSelfClosing_keeps_selfclosed (pre n a ws post : Bytes) (hpre : ∀ b ∈ pre, b ≠ LTc)
    (hn : n ≠ []) (hw : ∀ b ∈ n, isWordDash b = true)
    (ha : ∃ w r, a = w :: r ∧ isWs w = true) (hgt : ∀ b ∈ a, b ≠ GTc)
    (hws : ∀ b ∈ ws, isWs b = true) :
    forceSelfClosing (pre ++ LTc :: (n ++ (a ++ [SLc]) ++ GTc :: (ws ++ LTc :: SLc :: (n ++ GTc :: post))))
      = pre ++ LTc :: (n ++ (a ++ [SLc]) ++ GTc :: (ws ++ LTc :: SLc :: (n ++ GTc :: forceSelfClosing post))) := by
  obtain ⟨w, r, rfl, hw'⟩ := ha
  have hm := matchAt_emptyElem n (w :: r ++ [SLc]) ws n post hn hw
    (Or.inr ⟨w, r ++ [SLc], rfl, hw', by simp⟩)
    (by intro b hb; simp only [List.mem_append, List.mem_singleton] at hb
        rcases hb with hb | rfl
        · exact hgt b hb
        · decide) hws hn hw
  rw [fsc_append_noLT _ _ hpre, fsc_lt_some _ _ hm]
  have : Match.eligible ⟨n, w :: r ++ [SLc], ws, n, post⟩ = false := by
    have hl : (w :: r ++ [SLc]).getLast? = some SLc := List.getLast?_concat ..
    simp only [Match.eligible, hl, beq_self_eq_true, bne_self_eq_false, Bool.and_false]
  rw [this]
  simp [Match.full]

/-- the defect witness, on the model of the code as it is and on the repaired model -/
theorem nested_same_name_witness :
    forceSelfClosingAsIs [60,97,62,60,97,32,120,61,34,49,34,47,62,60,47,97,62]
        = [60,97,62,60,97,32,120,61,34,49,34,47,47,62]
    ∧ forceSelfClosing [60,97,62,60,97,32,120,61,34,49,34,47,62,60,47,97,62]
        = [60,97,62,60,97,32,120,61,34,49,34,47,62,60,47,97,62] := by
  decide +kernel

/-- an element with non-white-space text content is kept -/
theorem forceSelfClosing_keeps_content (pre tag text n post : Bytes) (x : UInt8) (text' : Bytes)
    (hpre : ∀ b ∈ pre, b ≠ LTc) (htag : ∀ b ∈ tag, b ≠ GTc ∧ b ≠ LTc)
    (htext : ∀ b ∈ text, b ≠ LTc) (hx : text.dropWhile isWs = x :: text')
    (hn : ∀ b ∈ n, b ≠ LTc) :
    forceSelfClosing (pre ++ LTc :: (tag ++ GTc :: (text ++ LTc :: SLc :: (n ++ GTc :: post))))
      = pre ++ LTc :: (tag ++ GTc :: (text ++ LTc :: SLc :: (n ++ GTc :: forceSelfClosing post))) := by
  have hxl : x ≠ LTc := htext x (by
    have : x ∈ text.dropWhile isWs := by rw [hx]; simp
    exact (List.dropWhile_sublist _).subset this)
  have hdw : (text ++ LTc :: SLc :: (n ++ GTc :: post)).dropWhile isWs
      = x :: (text' ++ LTc :: SLc :: (n ++ GTc :: post)) := by
    have e : text = text.takeWhile isWs ++ x :: text' := by
      conv => lhs; rw [← List.takeWhile_append_dropWhile (p := isWs) (l := text), hx]
    have hxw : isWs x = false := dropWhile_head_false hx
    conv => lhs; rw [e]
    simp only [List.append_assoc, List.cons_append]
    exact dropWhile_all_append _ x _ (takeWhile_all _ _) hxw
  have hm : matchAt (tag ++ GTc :: (text ++ LTc :: SLc :: (n ++ GTc :: post))) = none := by
    cases ht : text' ++ LTc :: SLc :: (n ++ GTc :: post) with
    | nil => simp at ht
    | cons y r' =>
      rw [ht] at hdw
      exact matchAt_no_close tag _ x y r' (fun b hb => (htag b hb).1) hdw (by simp [hxl])
  rw [fsc_append_noLT _ _ hpre, fsc_lt_none _ hm]
  have e1 : tag ++ GTc :: (text ++ LTc :: SLc :: (n ++ GTc :: post))
      = (tag ++ GTc :: text) ++ LTc :: (SLc :: (n ++ GTc :: post)) := by simp
  rw [e1, fsc_append_noLT (tag ++ GTc :: text) _ (by
    intro b hb
    simp only [List.mem_append, List.mem_cons] at hb
    rcases hb with hb | rfl | hb
    · exact (htag b hb).2
    · decide
    · exact htext b hb)]
  rw [fsc_lt_none _ (matchAt_slash _)]
  have e2 : SLc :: (n ++ GTc :: post) = (SLc :: (n ++ [GTc])) ++ post := by simp
  rw [e2, fsc_append_noLT _ _ (by
    intro b hb
    simp only [List.mem_cons, List.mem_append, List.mem_nil_iff, or_false] at hb
    rcases hb with rfl | hb | rfl
    · decide
    · exact hn b hb
    · decide)]
  simp

/-- text without any `/` is untouched -/
theorem forceSelfClosing_id_of_noSlash (s : Bytes) (h : ∀ b ∈ s, b ≠ SLc) :
    forceSelfClosing s = s := fsc_id_of_noSlash s h


/-! ## message-ids -/

theorem sessionBodies_getElem? (first : Nat) (inners : List Bytes) (k : Nat) (hk : k < inners.length) :
    (sessionBodies first inners)[k]? = some (rpcBody (first + k) inners[k]) := by
  induction inners generalizing first k with
  | nil => simp at hk
  | cons i is ih =>
    cases k with
    | zero => simp [sessionBodies]
    | succ k =>
      simp only [sessionBodies, List.getElem?_cons_succ, List.getElem_cons_succ]
      rw [ih (first + 1) k (by simpa using hk)]
      congr 2; omega

/-- the part of the rpc opening tag before `message-id="` -/
def rpcPre : Bytes := rpcOpenPrefix.take (rpcOpenPrefix.length - msgIdKey.length)

theorem rpcOpenPrefix_shape :
    rpcOpenPrefix = rpcPre ++ msgIdKey
    ∧ isInfix msgIdKey (rpcPre ++ msgIdKey.dropLast) = false
    ∧ isInfix msgIdKey ((Gen.Netconf.xmlHeader ++ rpcPre) ++ msgIdKey.dropLast) = false
    ∧ rpcOpenPrefix = LTc :: rpcOpenPrefix.drop 1
    ∧ (∀ b ∈ rpcOpenPrefix.drop 1, b ≠ GTc ∧ b ≠ LTc) := by
  decide +kernel

theorem rpcBody_startsTag (id : Nat) (inner : Bytes) : StartsTag (rpcBody id inner) :=
  ⟨114, _, rfl, by decide⟩

/-- with the rewrite on, the rpc opening tag up to and including the message-id survives -/
theorem fsc_rpcBody_prefix (id : Nat) (inner : Bytes) :
    ∃ tail, forceSelfClosing (rpcBody id inner) = rpcOpenPrefix ++ (decDigits id ++ 34 :: tail) := by
  obtain ⟨_, _, _, e, hp⟩ := rpcOpenPrefix_shape
  have hd : ∀ b ∈ decDigits id, b ≠ GTc ∧ b ≠ LTc := by
    intro b hb
    have h1 := isDigit_ne b GTc (decDigits_all_digits id b hb) (by decide)
    have h2 := isDigit_ne b LTc (decDigits_all_digits id b hb) (by decide)
    exact ⟨by simpa using h1, by simpa using h2⟩
  have htag : ∀ b ∈ rpcOpenPrefix.drop 1 ++ (decDigits id ++ [34]), b ≠ GTc ∧ b ≠ LTc := by
    intro b hb
    simp only [List.mem_append, List.mem_singleton] at hb
    rcases hb with hb | hb | rfl
    · exact hp b hb
    · exact hd b hb
    · decide
  obtain ⟨tail, ht⟩ := fsc_tag_prefix (rpcOpenPrefix.drop 1 ++ (decDigits id ++ [34]))
    (inner ++ rpcClose) (fun b hb => (htag b hb).1) (fun b hb => (htag b hb).2)
  refine ⟨tail, ?_⟩
  have eb : rpcBody id inner
      = LTc :: (rpcOpenPrefix.drop 1 ++ (decDigits id ++ [34]) ++ GTc :: (inner ++ rpcClose)) := by
    unfold rpcBody
    conv => lhs; rw [e]
    simp
  rw [eb, ht]
  conv => rhs; rw [e]
  simp

/-- the message-id can be read back from the reported input under every option combination -/
theorem msgIdOf_serialize (v : Version) (sc nh : Bool) (id : Nat) (inner : Bytes) :
    msgIdOf (serialize v sc nh (rpcBody id inner)).1 = some id := by
  obtain ⟨e, h1, h2, _, _⟩ := rpcOpenPrefix_shape
  have plain : ∀ tail, msgIdOf (rpcOpenPrefix ++ (decDigits id ++ 34 :: tail)) = some id := by
    intro tail; rw [e]; exact msgIdOf_prefix rpcPre tail id h1
  have withHdr : ∀ tail, msgIdOf (Gen.Netconf.xmlHeader ++ (rpcOpenPrefix ++ (decDigits id ++ 34 :: tail))) = some id := by
    intro tail
    rw [e]
    have := msgIdOf_prefix (Gen.Netconf.xmlHeader ++ rpcPre) tail id h2
    simpa using this
  obtain ⟨tail, ht⟩ := fsc_rpcBody_prefix id inner
  cases sc <;> cases nh
  · exact withHdr _
  · exact plain _
  · show msgIdOf (forceSelfClosing (Gen.Netconf.xmlHeader ++ rpcBody id inner)) = some id
    rw [fsc_header _ (rpcBody_startsTag id inner), ht]
    exact withHdr tail
  · show msgIdOf (forceSelfClosing (rpcBody id inner)) = some id
    rw [ht]; exact plain tail

/-- **msgid_in_request.** In every session the k-th request (k = 0, 1, …) is the serialisation of
an rpc element whose message-id is `initialMessageID + k`, and that id can be read back from the
reported input whatever the options. -/
theorem msgid_in_request (v : Version) (sc nh : Bool) (inners : List Bytes) (k : Nat)
    (hk : k < inners.length) :
    (raws v sc nh (sessionBodies Gen.Netconf.initialMessageID inners))[k]?
        = some (serialize v sc nh (rpcBody (Gen.Netconf.initialMessageID + k) inners[k])).1
    ∧ msgIdOf (serialize v sc nh (rpcBody (Gen.Netconf.initialMessageID + k) inners[k])).1
        = some (Gen.Netconf.initialMessageID + k) := by
  refine ⟨?_, msgIdOf_serialize v sc nh _ _⟩
  simp only [raws, List.getElem?_map, sessionBodies_getElem? _ inners k hk, Option.map_some]

/-- … and a strict peer decodes exactly those requests from the session's byte stream -/
theorem session_decodes (v : Version) (sc nh : Bool) (inners : List Bytes)
    (h : LegalRaws v (raws v sc nh (sessionBodies Gen.Netconf.initialMessageID inners))) :
    strictDecode v (session v sc nh inners)
      = some (raws v sc nh (sessionBodies Gen.Netconf.initialMessageID inners)) :=
  strictDecode_wire v sc nh _ h

/-- every reported input of a session is non-empty (it carries a message-id) -/
theorem session_raws_ne_nil (v : Version) (sc nh : Bool) (first : Nat) (inners : List Bytes) :
    ∀ r ∈ raws v sc nh (sessionBodies first inners), r ≠ [] := by
  induction inners generalizing first with
  | nil => intro r hr; simp [raws, sessionBodies] at hr
  | cons i is ih =>
    intro r hr
    simp only [raws, sessionBodies, List.map_cons, List.mem_cons] at hr
    rcases hr with rfl | hr
    · intro e
      have := msgIdOf_serialize v sc nh first i
      rw [e] at this
      simp [msgIdOf, splitOn, msgIdKey] at this
    · exact ih (first + 1) r hr

/-- For NETCONF 1.1 the only hypothesis left is the RFC's own size limit: every session whose
reported inputs are shorter than 2³² bytes is decoded exactly by a strict RFC 6242 peer. -/
theorem session_decodes_v11 (sc nh : Bool) (inners : List Bytes)
    (hsize : ∀ r ∈ raws .v11 sc nh (sessionBodies Gen.Netconf.initialMessageID inners), r.length < 2 ^ 32) :
    strictDecode .v11 (session .v11 sc nh inners)
      = some (raws .v11 sc nh (sessionBodies Gen.Netconf.initialMessageID inners)) :=
  session_decodes .v11 sc nh inners
    (fun r hr => ⟨session_raws_ne_nil .v11 sc nh _ inners r hr, hsize r hr⟩)

/-! ## the caller's XML is embedded verbatim -/

theorem childrenOf_wrap (o c f : Bytes) : childrenOf o c (o ++ f ++ c) = some f := by
  unfold childrenOf
  have h1 : hasPrefix (o ++ f ++ c) o = true := by
    rw [List.append_assoc]; exact hasPrefix_append o _
  have h2 : hasPrefix (o ++ f ++ c).reverse c.reverse = true := by
    have : (o ++ f ++ c).reverse = c.reverse ++ (o ++ f).reverse := by simp
    rw [this]; exact hasPrefix_append _ _
  have h3 : o.length + c.length ≤ (o ++ f ++ c).length := by
    simp only [List.length_append]; omega
  simp only [h1, h2, h3, decide_true, Bool.and_self, if_true, Option.some.injEq]
  rw [List.append_assoc, List.drop_left]
  have : (o ++ (f ++ c)).length - o.length - c.length = f.length := by
    simp only [List.length_append]; omega
  rw [this, List.take_left]

/-- **filter_content_verbatim.** For EVERY caller fragment — any bytes: a fragment whose own
top-level element is called `filter`, one that contains `</filter>`, white space, comments, CDATA,
nothing at all — the children of the `<filter type="subtree">` element the request carries are
exactly the caller's bytes. -/
theorem filter_content_verbatim (filter : Bytes) :
    childrenOf subtreeOpen filterClose (subtreeFilterElem filter) = some filter :=
  childrenOf_wrap _ _ _

/-- the same for the configuration of an edit-config and for the body of a raw rpc -/
theorem config_content_verbatim (target config : Bytes) :
    childrenOf (editConfigOpen target) editConfigClose (editConfigElem target config) = some config :=
  childrenOf_wrap _ _ _

theorem rpc_content_verbatim (id : Nat) (inner : Bytes) :
    childrenOf (rpcOpenPrefix ++ (decDigits id ++ [34, GTc])) rpcClose (rpcBody id inner) = some inner := by
  have : rpcBody id inner = (rpcOpenPrefix ++ (decDigits id ++ [34, GTc])) ++ inner ++ rpcClose := by
    simp [rpcBody]
  rw [this]; exact childrenOf_wrap _ _ _

/-- Source fact (regenerated from driver/netconf on every run): on its way from the public method
to the marshalled struct every caller-content parameter (filter, filter type, defaults mode, source,
target, config, raw rpc body, persist, persist-id, xpath, period) is only compared, logged, handed
on bare to the next builder, or stored bare in a struct field — no function of the fragment other
than embedding. -/
theorem embedding_clean : Gen.C03Embedding.clean = true := by decide

/-- … the fragments land in the fields the model embeds, and those fields are `,innerxml` -/
theorem embedding_sites :
    ("buildFilterElem", "filter", "field:Payload") ∈ Gen.C03Embedding.uses
    ∧ ("buildFilterElem", "filter", "field:Select") ∈ Gen.C03Embedding.uses
    ∧ ("buildEditConfigElem", "config", "field:Payload") ∈ Gen.C03Embedding.uses
    ∧ ("buildRPCElem", "filter", "pass:buildPayload#0") ∈ Gen.C03Embedding.uses
    ∧ ("buildPayload", "payload", "field:Payload") ∈ Gen.C03Embedding.uses
    ∧ "filterT.Payload xml:\",innerxml\"" ∈ Gen.C03Embedding.tags
    ∧ "editConfig.Payload xml:\",innerxml\"" ∈ Gen.C03Embedding.tags
    ∧ "message.Payload xml:\",innerxml\"" ∈ Gen.C03Embedding.tags := by
  decide +kernel

/-- … and the public methods hand their arguments and operation options on in this order -/
theorem embedding_calls :
    "Get: d.buildGetElem(filter, op.FilterType)" ∈ Gen.C03Embedding.calls
    ∧ "GetConfig: d.buildGetConfigElem(source, op.Filter, op.FilterType, op.DefaultType)" ∈ Gen.C03Embedding.calls
    ∧ "EditConfig: d.buildEditConfigElem(target, config)" ∈ Gen.C03Embedding.calls
    ∧ "RPC: d.buildRPCElem(op.Filter)" ∈ Gen.C03Embedding.calls
    ∧ "Commit: d.buildCommitElem(op.CommitConfirmed, op.CommitConfirmTimeout, op.CommitConfirmedPersist, op.CommitConfirmedPersistID)" ∈ Gen.C03Embedding.calls
    ∧ "CopyConfig: d.buildCopyConfigElem(source, target)" ∈ Gen.C03Embedding.calls := by
  decide +kernel

/-! ## the request does not depend on what the server advertised -/

/-- **request_independent_of_server_caps.** Two drivers that agree on the negotiated framing, the
two serialisation options and the message-id counter produce the same reported input, the same
framed input and the same bytes on the wire for the same marshalled payload — whatever capabilities
(with-defaults basic mode, candidate, xpath, url, …), session-id and preferred version they hold. -/
theorem request_independent_of_server_caps (st st' : DriverState) (inner : Bytes)
    (hv : st.version = st'.version) (hs : st.selfClose = st'.selfClose)
    (hh : st.noHeader = st'.noHeader) (hm : st.messageID = st'.messageID) :
    (st.request inner).1 = (st'.request inner).1
    ∧ (st.request inner).2.1 = (st'.request inner).2.1
    ∧ (st.request inner).2.2.1 = (st'.request inner).2.2.1 := by
  simp only [DriverState.request, hv, hs, hh, hm, and_self]

/-- … and sending leaves what the server advertised alone -/
theorem request_keeps_server_caps (st : DriverState) (inner : Bytes) :
    (st.request inner).2.2.2.serverCaps = st.serverCaps
    ∧ (st.request inner).2.2.2.messageID = st.messageID + 1 := ⟨rfl, rfl⟩

/-- **defaults_mode_on_wire.** Each of the four with-defaults modes the caller may name yields a
`<with-defaults>` element whose content is exactly that mode (the element is never dropped; there
is no parameter through which a server capability could enter). -/
theorem defaults_mode_on_wire (mode : Bytes)
    (h : mode = Gen.Netconf.reportAll ∨ mode = Gen.Netconf.reportAllTagged
      ∨ mode = Gen.Netconf.trim ∨ mode = Gen.Netconf.explicit) :
    ∃ e, defaultsElem mode = some (some e) ∧ childrenOf defaultsOpen defaultsClose e = some mode := by
  refine ⟨defaultsOpen ++ mode ++ defaultsClose, ?_, childrenOf_wrap _ _ _⟩
  rcases h with rfl | rfl | rfl | rfl <;> decide +kernel

/-- Source fact (regenerated on every run): nothing a request method can reach in driver/netconf
touches `serverCapabilities`, `sessionID` or `PreferredVersion`, or calls `ServerHasCapability`,
`ServerCapabilities`, `SessionID`, `processServerCapabilities` or `determineVersion`. -/
theorem request_path_caps_free : Gen.C03Embedding.capsFree = true := by decide +kernel

/-! ## a session that ends early (failed call, transport write failure between two requests) -/

/-- the stream of a session is the stream of its first `k` requests followed by the bytes of the
remaining ones: a failure after request `k` leaves a stream that is itself a complete session -/
theorem wire_take_append (v : Version) (sc nh : Bool) (bodies : List Bytes) (k : Nat) :
    wire v sc nh bodies
      = wire v sc nh (bodies.take k) ++ ((bodies.drop k).map (sendOne v sc nh)).flatten := by
  unfold wire
  conv => lhs; rw [← List.take_append_drop k bodies]
  simp only [List.map_append, List.flatten_append, List.append_assoc]

theorem legalRaws_take (v : Version) (sc nh : Bool) (bodies : List Bytes) (k : Nat)
    (h : LegalRaws v (raws v sc nh bodies)) : LegalRaws v (raws v sc nh (bodies.take k)) := by
  have hsub : ∀ r ∈ raws v sc nh (bodies.take k), r ∈ raws v sc nh bodies := by
    intro r hr
    simp only [raws, List.mem_map] at hr ⊢
    obtain ⟨b, hb, rfl⟩ := hr
    exact ⟨b, List.mem_of_mem_take hb, rfl⟩
  cases v with
  | v10 => exact fun r hr => h r (hsub r hr)
  | v11 => exact fun r hr => h r (hsub r hr)

/-- … and the strict decoder recovers exactly the first `k` reported inputs from it -/
theorem session_cut_decodes (v : Version) (sc nh : Bool) (bodies : List Bytes) (k : Nat)
    (h : LegalRaws v (raws v sc nh bodies)) :
    strictDecode v (wire v sc nh (bodies.take k)) = some ((raws v sc nh bodies).take k) := by
  rw [strictDecode_wire v sc nh _ (legalRaws_take v sc nh bodies k h)]
  simp [raws, List.map_take]

/-! ## tie to the source: translated body = model (regenerated on every run) -/

/-- the body of `(*message).serialize` as the translator renders it from the current source
(`Generated/BodiesRequest.lean`; `body` = the bytes `xml.Marshal` returned, taken to succeed,
`ForceSelfClosingTags` = the model's `forceSelfClosing`, `%d` of `fmt.Sprintf` = `decDigits`): for
both versions and all four option combinations it returns a `nil` error, `rawXML` is the model's raw
message and `framedXML` the model's framed message, whatever the two fields held before -/
theorem generated_serialize_eq (ver : Version) (sc nh : Bool) (body r0 f0 : Bytes) :
    Gen.Bodies.Request.serialize body forceSelfClosing r0 f0
        (match ver with | .v10 => Gen.Netconf.V1Dot0 | .v11 => Gen.Netconf.V1Dot1) sc nh
      = some ((), none, (serialize ver sc nh body).1, (serialize ver sc nh body).2) := by
  have hne : (Gen.Netconf.V1Dot1 == Gen.Netconf.V1Dot0) = false := by decide
  have h0 : ∀ m : Bytes, decide ((0 : Int) ≤ Go.len m) = true := by intro m; simp [Go.len]
  unfold Gen.Bodies.Request.serialize serialize
  cases ver <;> cases sc <;> cases nh <;>
    simp [hne, h0, Go.copy_replicate, Go.fmtInt_len, HASH, LF]

/-- the body of `ForceSelfClosingTags` as the translator renders it from the current source — the
`range` over `emptyTags.FindAllSubmatch(b, -1)`, the eligibility test (`bytes.Equal` of the two tag
names, `bytes.HasSuffix(…, "/")`), `fmt.Sprintf("<%s%s/>", …)` and one `bytes.ReplaceAll` per
eligible match on the progressively rewritten buffer — never indexes a match out of range and
computes `forceSelfClosingGo Match.eligible`, given that `FindAllSubmatch` returns the matches
`findAll` finds (full text and the three groups; tied by the regex diff of the run) and that
`bytes.ReplaceAll` with a non-empty `old` is `replaceAll` -/
theorem generated_forceSelfClosingTags_eq (s : Bytes) :
    Gen.Bodies.Request.forceSelfClosingTags (fun b => (findAll b.length b).map Match.groups) s
      = some (forceSelfClosingGo Match.eligible s) := by
  unfold Gen.Bodies.Request.forceSelfClosingTags Go.forRange forceSelfClosingGo
  simp only [fsc_loop]

end Scrapli.Netconf.C03
