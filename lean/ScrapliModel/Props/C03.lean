import ScrapliModel.Lemmas.Request
/-!
# C03 — NETCONF requests on the wire are correctly framed and carry the caller's content

Property theorems only. Model: `ScrapliModel/Netconf/Request.lean` (mirrors
`driver/netconf/message.go`, `rpc.go`, `capabilities.go`, `driver.go: buildPayload`). Constants
(`xmlHeader`, `v1Dot0Delim`, `v1Dot0Caps`, `v1Dot1Caps`, `initialMessageID`, `emptyTagPattern`,
`DefaultReturnChar`) come from `Generated/Consts.lean`, regenerated from the source on every run.

The XML-content clause of the property (the rpc element denotes the caller's operation and
arguments) is a specification checked by correspondence only: `encoding/xml` is not modelled, the
marshalled rpc element is a parameter (`body`) of every theorem below.
-/
namespace Scrapli.Netconf.C03
open Scrapli Scrapli.Netconf Scrapli.Netconf.Req

abbrev delim : Bytes := Gen.Netconf.v1Dot0Delim

/-! ## obligations on regenerated constants -/

/-- the channel writes a single LF as its return: in 1.1 that LF is the first byte of the next
chunk header, in 1.0 it is white space between documents -/
theorem ret_is_lf : ret = [LF] := by decide

/-- the hello text of each version without its end-of-message marker -/
def helloXml (v : Version) : Bytes := (clientHello v).take ((clientHello v).length - delim.length)

/-- each client hello is `xml ++ ]]>]]>` and the marker does not occur earlier in it -/
theorem clientHello_shape (v : Version) :
    clientHello v = helloXml v ++ delim ∧ isInfix delim (helloXml v ++ delim.dropLast) = false := by
  cases v <;> decide +kernel

theorem delim_ne_nil : delim ≠ [] := by decide

/-! ## the strict decoder recovers every request from the session's byte stream -/

/-- which reported inputs a strict peer can recover, per framing:
* 1.1 (RFC 6242): non-empty and shorter than 2³² bytes (the RFC's maximum chunk size; the code
  always sends a message as ONE chunk);
* 1.0 (RFC 4742): does not begin with white space, and `]]>]]>` occurs neither inside it nor
  straddling its end (a message ending in `]]>` is ambiguous under 1.0 framing itself). -/
def LegalRaws : Version → List Bytes → Prop
  | .v11, rs => Legal11 rs
  | .v10, rs => Legal10 delim rs

/-- the XML the response reports as its input (`Response.Input`) for each request of a session -/
def raws (v : Version) (sc nh : Bool) (bodies : List Bytes) : List Bytes :=
  bodies.map fun b => (serialize v sc nh b).1

theorem wire_eq_hello (v : Version) (sc nh : Bool) (bodies : List Bytes) :
    wire v sc nh bodies = helloXml v ++ delim ++ (LF :: (bodies.map (sendOne v sc nh)).flatten) := by
  unfold wire
  rw [ret_is_lf]
  conv => lhs; rw [(clientHello_shape v).1]
  simp

theorem sendOne11_eq (sc nh : Bool) (b : Bytes) :
    sendOne .v11 sc nh b =
      HASH :: (decDigits (serialize .v11 sc nh b).1.length ++ LF :: ((serialize .v11 sc nh b).1 ++ [LF, HASH, HASH]))
        ++ [LF] ++ [LF] := by
  simp only [sendOne, serialize, ret_is_lf]

theorem sendOne10_eq (sc nh : Bool) (b : Bytes) :
    sendOne .v10 sc nh b = (serialize .v10 sc nh b).1 ++ (delim ++ [LF]) := by
  simp only [sendOne, serialize, ret_is_lf, List.append_nil, List.append_assoc]

/-- **strictDecode_wire.** For every session (any number of requests, any marshalled bodies, both
versions, both options) the strict RFC decoder turns the bytes handed to the transport back into
exactly the list of reported inputs. In 1.1 this says in particular that every chunk size is the
exact byte count of its message and that the second return supplies the LF that must precede the
next chunk header. -/
theorem strictDecode_wire (v : Version) (sc nh : Bool) (bodies : List Bytes)
    (h : LegalRaws v (raws v sc nh bodies)) :
    strictDecode v (wire v sc nh bodies) = some (raws v sc nh bodies) := by
  have hs := splitOn_first delim (helloXml v) (LF :: (bodies.map (sendOne v sc nh)).flatten)
    delim_ne_nil (clientHello_shape v).2
  unfold strictDecode strictDecodeFull
  rw [wire_eq_hello, hs]
  cases v with
  | v11 =>
    have e : LF :: (bodies.map (sendOne .v11 sc nh)).flatten
        = ((raws .v11 sc nh bodies).map frame1).flatten ++ [LF] := by
      rw [← regroup11, raws, List.map_map]
      congr 2
    simp only [e]
    rw [msgs11_frames _ _ h (by
      have := frames_length (raws .v11 sc nh bodies)
      simp only [List.length_append, List.length_cons, List.length_nil]; omega)]
    rfl
  | v10 =>
    have e : LF :: (bodies.map (sendOne .v10 sc nh)).flatten
        = [LF] ++ ((raws .v10 sc nh bodies).map (fun r => r ++ (delim ++ [LF]))).flatten := by
      have e2 : bodies.map (sendOne .v10 sc nh)
          = (raws .v10 sc nh bodies).map (fun r => r ++ (delim ++ [LF])) := by
        rw [raws, List.map_map]
        apply List.map_congr_left
        intro b _
        exact sendOne10_eq sc nh b
      rw [e2]; rfl
    simp only [e]
    rw [msgs10_frames delim delim_ne_nil _ _ [LF] (by intro x hx; simp at hx; subst hx; decide) h (by
      have := frames10_length delim (raws .v10 sc nh bodies)
      simp only [List.length_append, List.length_cons, List.length_nil]; omega)]
    rfl

end Scrapli.Netconf.C03
