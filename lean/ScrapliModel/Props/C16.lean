import ScrapliModel.Lemmas.Pipe
import ScrapliModel.Generated.Consts
import ScrapliModel.Generated.SshArgv
import ScrapliModel.Generated.C16Deadlines
/-!
# C16 — Built-in transports are transparent, ordered byte pipes that unblock on close

Theorems over the model in `ScrapliModel/Pipe.lean` (the wrapper logic of
`transport/{system,standard,telnet,transport}.go` on top of an *assumed* raw reader contract, see
`rawRead`).  They quantify over every history of peer sends, client reads of any size with any
choice of returned prefix length, client writes, peer exit and local close.

Partial by nature: that the pty, TCP, `crypto/ssh` and OpenSSH satisfy the raw contract is observed
by the correspondence harness with real peers, not proved.
-/
namespace Scrapli.Props.C16
open Scrapli Scrapli.Pipe

/-! ## Conservation: every byte exactly once, in order -/

/-- Invariant of every history, from any well-formed state: what the reads returned so far followed
by what is still to be read is exactly what was to be read at the start followed by what the peer
sent since. -/
theorem run_conserves (kd : Kind) (t : TState) (evs : List Ev) (hwf : wf kd t) :
    delivered (run kd t evs).2 ++ (run kd t evs).1.left = t.left ++ sentFrom t.s.peerGone evs := by
  induction evs generalizing t with
  | nil => simp [run, delivered, sentFrom]
  | cons e es ih =>
    rw [run_cons]
    have ih' := ih (step kd t e).1 (wf_step kd t e hwf)
    cases e with
    | send b =>
      simp only [step] at ih' ⊢
      by_cases hg : t.s.peerGone = true
      · simp only [hg, if_true] at ih' ⊢
        simp only [sentFrom, if_true]
        rw [ih']
      · have hg' : t.s.peerGone = false := by simpa using hg
        simp only [hg', Bool.false_eq_true, if_false] at ih' ⊢
        simp only [sentFrom, Bool.false_eq_true, if_false]
        rw [ih']
        simp [TState.left, List.append_assoc]
    | read n k =>
      have hs := implRead_spec kd n k t hwf
      simp only [step] at ih' ⊢
      rw [delivered_cons, List.append_assoc, ih', hs.2.1, ← List.append_assoc, hs.1]
      simp [sentFrom]
    | write b =>
      have hst : (step kd t (.write b)).1.left = t.left ∧
          (step kd t (.write b)).1.s.peerGone = t.s.peerGone := by
        simp only [step, implWrite]; split <;> exact ⟨rfl, rfl⟩
      show delivered (run kd (step kd t (.write b)).1 es).2 ++ (run kd (step kd t (.write b)).1 es).1.left = _
      rw [ih', hst.1, hst.2]
      simp [sentFrom]
    | peerExit =>
      simp only [step] at ih' ⊢
      rw [ih']
      simp [sentFrom, TState.left]
    | close =>
      simp only [step] at ih' ⊢
      rw [ih']
      simp [sentFrom, TState.left]

/-- **reads_concat_eq_sent** (system / standard: `ib = []`; telnet: any initial buffer).
For all histories — all peer write sequences, all read sizes, all choices of the returned prefix
lengths, interleaved in any way with client writes, peer exit and close — the concatenation of the
read results followed by the bytes not yet read equals the initial buffer followed by everything
the peer sent: nothing lost, duplicated, reordered or invented. -/
theorem reads_concat_eq_sent (kd : Kind) (ib : Bytes) (evs : List Ev) (hwf : kd = .telnet ∨ ib = []) :
    delivered (run kd (TState.init ib) evs).2 ++ (run kd (TState.init ib) evs).1.left
      = ib ++ sentFrom false evs := by
  have h := run_conserves kd (TState.init ib) evs hwf
  simpa [TState.init, TState.left, Stream.init] using h

example : (Kind.telnet = .telnet ∨ ([104, 105] : Bytes) = []) := Or.inl rfl
example : delivered (run .system (TState.init []) [.send [1, 2, 3], .read 2 9, .send [4], .read 8 1, .read 8 8]).2
    = [1, 2, 3, 4] := by decide

/-- the reads return a prefix of what the peer sent -/
theorem reads_prefix_of_sent (kd : Kind) (ib : Bytes) (evs : List Ev) (hwf : kd = .telnet ∨ ib = []) :
    delivered (run kd (TState.init ib) evs).2 <+: ib ++ sentFrom false evs :=
  ⟨_, reads_concat_eq_sent kd ib evs hwf⟩

/-- once drained, the reads returned exactly what the peer sent -/
theorem reads_eq_sent_when_drained (kd : Kind) (ib : Bytes) (evs : List Ev) (hwf : kd = .telnet ∨ ib = [])
    (hdr : (run kd (TState.init ib) evs).1.left = []) :
    delivered (run kd (TState.init ib) evs).2 = ib ++ sentFrom false evs := by
  have h := reads_concat_eq_sent kd ib evs hwf
  rw [hdr, List.append_nil] at h
  exact h

/-! ## Progress and bounds of a single read -/

/-- a read on an open transport with bytes to read and a positive read size returns a non-empty
result without error -/
theorem read_progress (kd : Kind) (n k : Nat) (t : TState) (hwf : wf kd t)
    (hopen : t.s.closed = false) (hn : 1 ≤ n) (hleft : t.left ≠ []) :
    ∃ d, (implRead kd n k t).1 = .ret d none ∧ d ≠ [] ∧
      (implRead kd n k t).2.left.length < t.left.length := by
  have hsp := implRead_spec kd n k t hwf
  rcases implRead_cases kd n k t hwf with h | ⟨hib, h | h | h | h | h⟩
  · refine ⟨t.ib, by rw [h.2.2], h.2.1, ?_⟩
    rw [h.2.2]
    have : t.ib.length ≠ 0 := by
      intro h0; exact h.2.1 (List.eq_nil_of_length_eq_zero h0)
    simp only [TState.left, List.length_append, List.length_nil]
    omega
  · rw [hopen] at h; simp at h
  · omega
  · exfalso; apply hleft; simp [TState.left, hib, h.2.2.1]
  · exfalso; apply hleft; simp [TState.left, hib, h.2.2.1]
  · have hp : 1 ≤ t.s.pending.length := by
      cases hpp : t.s.pending with
      | nil => exact absurd hpp h.2.2.1
      | cons x xs => simp
    have hl := takeLen_pos n k
    have hle := takeLen_le n k hn
    refine ⟨_, by rw [h.2.2.2], ?_, ?_⟩
    · intro h0
      have := congrArg List.length h0
      simp only [List.length_take, List.length_nil] at this
      omega
    · rw [h.2.2.2]
      simp only [TState.left, hib, List.nil_append, List.length_drop]
      omega

/-- a read never returns more than `n` bytes, except telnet's one-shot hand-out of the whole
initial buffer -/
theorem read_bounded (kd : Kind) (n k : Nat) (t : TState) (hwf : wf kd t) :
    (implRead kd n k t).1.data.length ≤ n ∨
      (kd = .telnet ∧ t.ib ≠ [] ∧ (implRead kd n k t).1 = .ret t.ib none) := by
  rcases implRead_cases kd n k t hwf with h | ⟨_, h | h | h | h | h⟩
  · exact Or.inr ⟨h.1, h.2.1, by rw [h.2.2]⟩
  · left; rw [h.2]; simp [Outcome.data]
  · left; rw [h.2.2]; simp [Outcome.data]
  · left; rw [h.2.2.2.2]; simp [Outcome.data]
  · left; rw [h.2.2.2.2]; simp [Outcome.data]
  · left; rw [h.2.2.2]
    have hp : 1 ≤ t.s.pending.length := by
      cases hpp : t.s.pending with
      | nil => exact absurd hpp h.2.2.1
      | cons x xs => simp
    have hle := takeLen_le n k (by omega)
    simp only [Outcome.data, List.length_take]
    omega

/-- the shipped default read size is inside the domain of `read_progress` -/
theorem default_read_size_positive : 1 ≤ Gen.Transport.defaultReadSize := by decide

/-- reading keeps the transport open/closed as it was -/
theorem run_reads_closed (kd : Kind) (n : Nat) (ks : List Nat) (t : TState) (hwf : wf kd t) :
    (run kd t (readEvents n ks)).1.s.closed = t.s.closed ∧ wf kd (run kd t (readEvents n ks)).1 := by
  induction ks generalizing t with
  | nil => exact ⟨rfl, hwf⟩
  | cons k ks ih =>
    simp only [readEvents, List.map_cons] at ih ⊢
    rw [run_cons]
    have hs := implRead_spec kd n k t hwf
    have := ih (step kd t (.read n k)).1 (wf_step kd t _ hwf)
    simp only [step] at this ⊢
    exact ⟨by rw [this.1, hs.2.2.1], this.2⟩

/-- **drain**: on an open transport, `|left|` reads of any positive size with any choices of prefix
lengths read everything (fewer suffice when the choices are larger); together with conservation the
reads then returned exactly the bytes that were pending, in order. -/
theorem drain_complete (kd : Kind) (n : Nat) (ks : List Nat) (t : TState) (hwf : wf kd t)
    (hopen : t.s.closed = false) (hn : 1 ≤ n) (hlen : t.left.length ≤ ks.length) :
    (run kd t (readEvents n ks)).1.left = [] ∧ delivered (run kd t (readEvents n ks)).2 = t.left := by
  have hsent : ∀ (ks : List Nat) (g : Bool), sentFrom g (readEvents n ks) = [] := by
    intro ks g
    induction ks with
    | nil => rfl
    | cons k ks ih => simpa [readEvents, sentFrom] using ih
  have hcons := run_conserves kd t (readEvents n ks) hwf
  rw [hsent, List.append_nil] at hcons
  suffices h : (run kd t (readEvents n ks)).1.left = [] by
    rw [h, List.append_nil] at hcons
    exact ⟨h, hcons⟩
  clear hcons hsent
  induction ks generalizing t with
  | nil =>
    simp only [List.length_nil, Nat.le_zero] at hlen
    simpa [readEvents, run] using List.eq_nil_of_length_eq_zero hlen
  | cons k ks ih =>
    simp only [readEvents, List.map_cons]
    rw [run_cons]
    simp only [step]
    have hs := implRead_spec kd n k t hwf
    have hwf' : wf kd (implRead kd n k t).2 := Or.inr hs.2.2.2.2
    apply ih _ hwf' (by rw [hs.2.2.1]; exact hopen)
    by_cases hl : t.left = []
    · have h1 := hs.1
      rw [hl] at h1
      have := List.append_eq_nil_iff.mp h1
      rw [this.2]; simp
    · rcases read_progress kd n k t hwf hopen hn hl with ⟨d, _, _, hlt⟩
      simp only [List.length_cons] at hlen
      omega

example : (run .telnet ⟨[7, 7, 7], ⟨[1, 2, 3, 4, 5], false, false⟩, []⟩ (readEvents 2 [0, 9, 1, 5, 5, 5, 5, 5])).1.left = [] := by
  decide

/-! ## Telnet: the initial buffer first, then the stream -/

/-- **telnet_initial_then_stream** (one read): with a non-empty initial buffer the read returns
exactly that buffer, whole, for every read size (also sizes smaller than the buffer) and every
stream state, consumes nothing from the connection, and clears the buffer; with an empty buffer the
telnet read is the plain connection read, identical to the system/standard read. -/
theorem telnet_initial_then_stream (n k : Nat) (ib : Bytes) (s : Stream) (out : Bytes) :
    (ib ≠ [] → telnetRead n k ⟨ib, s, out⟩ = (.ret ib none, ⟨[], s, out⟩)) ∧
    (telnetRead n k ⟨[], s, out⟩ = sysRead n k ⟨[], s, out⟩) := by
  constructor
  · intro h
    cases ib with
    | nil => exact absurd rfl h
    | cons x xs => simp [telnetRead]
  · have ht := implRead_cases .telnet n k ⟨[], s, out⟩ (Or.inl rfl)
    have hs := implRead_cases .system n k ⟨[], s, out⟩ (Or.inr rfl)
    simp only [implRead] at ht hs
    rcases ht with h | ⟨_, h | h | h | h | h⟩
    · simp at h
    all_goals rcases hs with g | ⟨_, g | g | g | g | g⟩
    all_goals first
      | (simp at g; done)
      | (rw [h.2, g.2]; done)
      | (rw [h.2.2, g.2.2]; done)
      | (rw [h.2.2.2, g.2.2.2]; done)
      | (rw [h.2.2.2.2, g.2.2.2.2]; done)
      | (exfalso; simp_all; done)

/-- telnet, whole histories: the reads deliver the initial buffer first and then the stream: on an
open connection the first read returns the initial buffer and the reads after it, once drained,
return exactly what the peer sent -/
theorem telnet_initial_then_stream_history (n k : Nat) (ib : Bytes) (evs : List Ev) (hib : ib ≠ []) :
    (run .telnet (TState.init ib) (.read n k :: evs)).2
        = .ret ib none :: (run .telnet (TState.init []) evs).2 ∧
    ((run .telnet (TState.init []) evs).1.left = [] →
      delivered (run .telnet (TState.init ib) (.read n k :: evs)).2 = ib ++ sentFrom false evs) := by
  have h1 := (telnet_initial_then_stream n k ib Stream.init []).1 hib
  have hrun : run .telnet (TState.init ib) (.read n k :: evs)
      = ((run .telnet (TState.init []) evs).1, .ret ib none :: (run .telnet (TState.init []) evs).2) := by
    rw [run_cons]
    simp only [step, implRead, TState.init]
    rw [h1]
  constructor
  · rw [hrun]
  · intro hdr
    rw [hrun, delivered_cons]
    simp only [Outcome.data]
    rw [reads_eq_sent_when_drained .telnet [] evs (Or.inl rfl) hdr]
    simp

/-! ## Close and peer exit unblock a blocked read -/

/-- a read blocks exactly when the transport is open, the read size is positive, nothing is left to
read and the peer is still there -/
theorem blocks_iff (kd : Kind) (n k : Nat) (t : TState) (hwf : wf kd t) :
    (implRead kd n k t).1 = .block ↔
      (t.s.closed = false ∧ n ≠ 0 ∧ t.left = [] ∧ t.s.peerGone = false) := by
  rcases implRead_cases kd n k t hwf with h | ⟨hib, h | h | h | h | h⟩
  · rw [h.2.2]
    simp only [TState.left, List.append_eq_nil_iff]
    constructor
    · intro hh; cases hh
    · intro hh; exact absurd hh.2.2.1.1 h.2.1
  · rw [h.2]; simp [h.1]
  · rw [h.2.2]; simp [h.2.1]
  · rw [h.2.2.2.2]; simp [h.2.2.2.1]
  · rw [h.2.2.2.2]; simp [h.1, h.2.1, h.2.2.1, h.2.2.2.1, hib, TState.left]
  · rw [h.2.2.2]; simp [TState.left, h.2.2.1]

/-- **close_unblocks** (on the model): if a read would block, then after a local `Close` the same
read returns at once with an error and no data, and after the peer goes away it returns at once
with EOF and no data — for every transport kind, read size and choice. -/
theorem close_unblocks (kd : Kind) (n k : Nat) (t : TState) (hwf : wf kd t)
    (hb : (implRead kd n k t).1 = .block) :
    (implRead kd n k (step kd t .close).1).1 = .ret [] (some .closed) ∧
    (implRead kd n k (step kd t .peerExit).1).1 = .ret [] (some .eof) := by
  have hb' := (blocks_iff kd n k t hwf).mp hb
  have hib : t.ib = [] := (List.append_eq_nil_iff.mp hb'.2.2.1).1
  have hp : t.s.pending = [] := (List.append_eq_nil_iff.mp hb'.2.2.1).2
  constructor
  · rcases implRead_cases kd n k (step kd t .close).1 (wf_step kd t _ hwf) with h | ⟨_, h | h | h | h | h⟩
    · simp [step, hib] at h
    · rw [h.2]
    all_goals (simp [step] at h)
  · rcases implRead_cases kd n k (step kd t .peerExit).1 (wf_step kd t _ hwf) with h | ⟨_, h | h | h | h | h⟩
    · simp [step, hib] at h
    · simp [step, hb'.1] at h
    · exact absurd h.2.1 hb'.2.1
    · rw [h.2.2.2.2]
    · simp [step] at h
    · simp [step, hp] at h

example : (implRead .standard 8192 0 (TState.init [])).1 = .block := by decide

/-! ### `Transport.read` holds `implLock`; `Transport.Write` and `Transport.Close(true)` take no lock -/

/-- with `force` the closer is never made to wait, whatever the reader and the writer hold or do -/
theorem force_closer_never_waits (s : LSt) (h : s.c ≠ .done) (hw : s.c ≠ .waitLock) :
    (closerStep true s).isSome = true := by
  rcases s with ⟨r, w, c, l, cl, av, dr⟩
  cases c <;> simp_all [closerStep]

/-- once the descriptor is closed, a read inside `Transport.read` returns and releases the lock -/
theorem closed_read_returns (s : LSt) (hc : s.closed = true) (hr : s.r = .inRead) :
    ∃ s', readerStep s = some s' ∧ s'.r = .done ∧ s'.lock = .none := by
  rcases s with ⟨r, w, c, l, cl, av, dr⟩
  simp only at hc hr
  subst hc hr
  refine ⟨{ r := .done, w := w, c := c, lock := .none, closed := true, avail := av, drain := dr }, ?_, rfl, rfl⟩
  simp [readerStep]

/-- once the descriptor is closed, a write inside `Transport.Write` returns -/
theorem closed_write_returns (s : LSt) (hc : s.closed = true) (hw : s.w = .inWrite) :
    ∃ s', writerStep s = some s' ∧ s'.w = .done := by
  rcases s with ⟨r, w, c, l, cl, av, dr⟩
  simp only at hc hw
  subst hc hw
  refine ⟨{ r := r, w := .done, c := c, lock := l, closed := true, avail := av, drain := dr }, ?_, rfl⟩
  simp [writerStep]

/-- after two closer moves of a forced close the closer is done and the descriptor closed, under
every schedule of the three processes, from every combination of blocked reader / blocked writer -/
theorem force_close_completes (rb wb : Bool) (sched : List Who) (h2 : 2 ≤ nCloser sched) :
    (runSched true (blocked rb wb) sched).c = .done ∧ (runSched true (blocked rb wb) sched).closed = true := by
  have hinv0 : finv (blocked rb wb) := by simp [finv, blocked]
  have h1 := force_sched (blocked rb wb) hinv0 sched
  have hcd : (runSched true (blocked rb wb) sched).c = .done := by
    have : cprog (runSched true (blocked rb wb) sched).c = 2 := by
      rw [h1.2.1]; simp [blocked, cprog]; omega
    cases hc : (runSched true (blocked rb wb) sched).c <;> simp [hc, cprog] at this
    rfl
  exact ⟨hcd, h1.1.2 hcd⟩

/-- **force close unblocks, for every schedule** (reader blocked and/or writer blocked): start with
a read blocked inside `Transport.read` (holding `implLock`) when `rb`, and a write blocked inside
`Transport.Write` (peer not draining) when `wb`. Under *any* interleaving of the three processes in
which `Close(true)` got its two moves (enter, close the descriptor), the next move of the blocked
reader completes the read and the next move of the blocked writer completes the write; both stay
completed, and `Close` itself has returned. -/
theorem force_close_unblocks (rb wb : Bool) (sched more : List Who) (h2 : 2 ≤ nCloser sched) :
    (rb = true → (runSched true (blocked rb wb) (sched ++ .reader :: more)).r = .done) ∧
    (wb = true → (runSched true (blocked rb wb) (sched ++ .writer :: more)).w = .done) ∧
    (runSched true (blocked rb wb) (sched ++ more)).c = .done := by
  have hinv0 : finv (blocked rb wb) := by simp [finv, blocked]
  have h1 := force_sched (blocked rb wb) hinv0 sched
  have hcl := force_close_completes rb wb sched h2
  refine ⟨?_, ?_, ?_⟩
  · intro hrb
    rw [runSched_append]
    generalize runSched true (blocked rb wb) sched = s1 at h1 hcl
    have hrin : rIn s1 := h1.2.2.1 (by simp [rIn, blocked, hrb])
    simp only [runSched]
    have hr1 : (move true s1 .reader).r = .done := by
      rcases hrin with hr | hr
      · rcases closed_read_returns s1 hcl.2 hr with ⟨s', hs', hd, _⟩
        simp only [move]; rw [hs']; exact hd
      · exact (finv_move s1 .reader h1.1).2.2.2.2.1 hr
    exact (force_sched _ (finv_move s1 .reader h1.1).1 more).2.2.2.2.1 hr1
  · intro hwb
    rw [runSched_append]
    generalize runSched true (blocked rb wb) sched = s1 at h1 hcl
    have hwin : wIn s1 := h1.2.2.2.1 (by simp [wIn, blocked, hwb])
    simp only [runSched]
    have hw1 : (move true s1 .writer).w = .done := by
      rcases hwin with hw | hw
      · rcases closed_write_returns s1 hcl.2 hw with ⟨s', hs', hd⟩
        simp only [move]; rw [hs']; exact hd
      · exact (finv_move s1 .writer h1.1).2.2.2.2.2 hw
    exact (force_sched _ (finv_move s1 .writer h1.1).1 more).2.2.2.2.2 hw1
  · have h3 := force_sched (blocked rb wb) hinv0 (sched ++ more)
    have : cprog (runSched true (blocked rb wb) (sched ++ more)).c = 2 := by
      rw [h3.2.1]
      have : nCloser (sched ++ more) = nCloser sched + nCloser more := by
        clear h1 hcl h3 h2
        induction sched with
        | nil => simp [nCloser]
        | cons x xs ih => cases x <;> simp [nCloser, ih] <;> omega
      rw [this]; simp [blocked, cprog]; omega
    cases hc : (runSched true (blocked rb wb) (sched ++ more)).c <;> simp [hc, cprog] at this
    rfl

example : 2 ≤ nCloser [.reader, .closer, .writer, .reader, .closer] := by decide
example : (runSched true (blocked true true) [.closer, .writer, .closer, .writer, .reader]).r = .done := by decide

/-- why `force` exists: without it, while the read stays blocked (no data, peer alive), `Close`
waits for `implLock` under every schedule, whatever the writer does — neither the read nor `Close`
ever completes. -/
theorem nonforce_close_waits (wb : Bool) (sched : List Who) :
    (runSched false (blocked true wb) sched).r = .inRead ∧
    (runSched false (blocked true wb) sched).c ≠ .done ∧
    (runSched false (blocked true wb) sched).closed = false := by
  have key : ∀ (s : LSt), (s.r = .inRead ∧ s.lock = .reader ∧ s.closed = false ∧ s.avail = false ∧
        (s.c = .idle ∨ s.c = .waitLock)) →
      ∀ sched, ((runSched false s sched).r = .inRead ∧ (runSched false s sched).closed = false ∧
        ((runSched false s sched).c = .idle ∨ (runSched false s sched).c = .waitLock)) := by
    intro s hs sched
    induction sched generalizing s with
    | nil => exact ⟨hs.1, hs.2.2.1, hs.2.2.2.2⟩
    | cons p rest ih =>
      simp only [runSched]
      apply ih
      rcases s with ⟨r, w, c, l, cl, av, dr⟩
      rcases hs with ⟨h1, h2, h3, h4, h5⟩
      simp only at h1 h2 h3 h4 h5
      subst h1 h2 h3 h4
      cases p with
      | reader => simp [move, readerStep]; exact h5
      | writer =>
        cases w <;> simp [move, writerStep] <;> (try split) <;> simp_all
      | closer =>
        rcases h5 with h5 | h5 <;> subst h5 <;> simp [move, closerStep]
  have := key (blocked true wb) (by simp [blocked]) sched
  refine ⟨this.1, ?_, this.2.1⟩
  rcases this.2.2 with h | h <;> rw [h] <;> simp

/-- without `force` but with no read in progress, `Close` gets the lock and releases a blocked
writer: the lock a writer could be blocked under does not exist -/
theorem nonforce_close_releases_writer :
    (runSched false (blocked false true) [.closer, .closer, .closer, .writer]).w = .done ∧
    (runSched false (blocked false true) [.closer, .closer, .closer, .writer]).c = .done := by
  decide

/-! ## A pipe delivery is a segmentation of the stream (`session_over_pipe`) -/

/-- **session_over_pipe (1)**: the chunks the channel layer receives over any history are a
segmentation of a prefix of `ib ++ sent`, and of the whole of it once drained. Hence every theorem
of the other properties that quantifies over all segmentations of the device's emission applies to
sessions over these transports. -/
theorem delivery_is_segmentation (kd : Kind) (ib : Bytes) (evs : List Ev) (hwf : kd = .telnet ∨ ib = []) :
    IsSegmentation (chunks (run kd (TState.init ib) evs).2) (delivered (run kd (TState.init ib) evs).2) ∧
    delivered (run kd (TState.init ib) evs).2 <+: ib ++ sentFrom false evs ∧
    ((run kd (TState.init ib) evs).1.left = [] →
      IsSegmentation (chunks (run kd (TState.init ib) evs).2) (ib ++ sentFrom false evs)) := by
  refine ⟨⟨chunks_flatten _, chunks_nonempty _⟩, reads_prefix_of_sent kd ib evs hwf, ?_⟩
  intro hdr
  exact ⟨by rw [chunks_flatten, reads_eq_sent_when_drained kd ib evs hwf hdr], chunks_nonempty _⟩

/-- **session_over_pipe (2)**: any consumer whose result does not depend on the segmentation gives
over the drained pipe the result it gives over the ideal pipe that delivers the stream in one piece -/
theorem session_over_pipe {α : Type} (f : List Bytes → α)
    (hseg : ∀ cs cs' : List Bytes, cs.flatten = cs'.flatten → f cs = f cs')
    (kd : Kind) (ib : Bytes) (evs : List Ev) (hwf : kd = .telnet ∨ ib = [])
    (hdr : (run kd (TState.init ib) evs).1.left = []) :
    f (chunks (run kd (TState.init ib) evs).2) = f [ib ++ sentFrom false evs] := by
  apply hseg
  rw [chunks_flatten, reads_eq_sent_when_drained kd ib evs hwf hdr]
  simp

example : ∀ cs cs' : List Bytes, cs.flatten = cs'.flatten →
    (fun l : List Bytes => l.flatten.length) cs = (fun l : List Bytes => l.flatten.length) cs' := by
  intro cs cs' h; simp [h]

/-- **every segmentation is realisable**: conversely, for every read size `n` and every
segmentation into pieces of at most `n` bytes there are prefix-length choices under which the pipe
delivers exactly that segmentation, so the choice parameter covers all behaviours of a real pipe. -/
theorem every_segmentation_realisable (kd : Kind) (n : Nat) (cs : List Bytes)
    (hcs : ∀ c ∈ cs, c ≠ [] ∧ c.length ≤ n) (gone : Bool) (out : Bytes) :
    (run kd ⟨[], ⟨cs.flatten, gone, false⟩, out⟩ (readEvents n (cs.map List.length))).2
      = cs.map (fun c => Outcome.ret c none) := by
  induction cs with
  | nil => simp [readEvents, run]
  | cons c cs ih =>
    have hc := hcs c (by simp)
    have hc1 : 1 ≤ c.length := by
      cases hcc : c with
      | nil => exact absurd hcc hc.1
      | cons x xs => simp
    simp only [List.map_cons, readEvents]
    rw [run_cons]
    simp only [step]
    have hne : (c ++ cs.flatten) ≠ [] := by
      intro h; exact hc.1 (List.append_eq_nil_iff.mp h).1
    rcases implRead_cases kd n c.length ⟨[], ⟨c ++ cs.flatten, gone, false⟩, out⟩ (Or.inr rfl) with h | ⟨_, h | h | h | h | h⟩
    · simp at h
    · simp at h
    · omega
    · exact absurd h.2.2.1 hne
    · exact absurd h.2.2.1 hne
    · have htl : takeLen n c.length = c.length := takeLen_exact _ _ hc1 hc.2
      simp only [List.flatten_cons]
      rw [h.2.2.2]
      simp only [htl, List.take_left, List.drop_left]
      have ih' := ih (fun c' hc' => hcs c' (by simp [hc']))
      simp only [readEvents] at ih'
      rw [ih']

example : ∀ c ∈ ([[1, 2], [3], [4, 5, 6]] : List Bytes), c ≠ [] ∧ c.length ≤ 3 := by decide

/-! ## The write direction -/

/-- every byte accepted by `Write` is handed to the peer, unmodified, once, in call order; a write
after `Close` is refused and hands over nothing -/
theorem writes_concat_eq_received (kd : Kind) (t : TState) (evs : List Ev) :
    (run kd t evs).1.out = t.out ++ writtenFrom t.s.closed evs := by
  induction evs generalizing t with
  | nil => simp [run, writtenFrom]
  | cons e es ih =>
    rw [run_cons]
    simp only
    rw [ih]
    cases e with
    | send b => simp only [step]; split <;> simp [writtenFrom]
    | read n k =>
      have h := implRead_out_closed kd n k t
      simp only [step, writtenFrom]
      rw [h.1, h.2]
    | write b =>
      simp only [step, implWrite, writtenFrom]
      split <;> simp_all
    | peerExit => simp [step, writtenFrom]
    | close => simp [step, writtenFrom]

/-! ### Concurrent writes -/

/-- whatever interleaving of two concurrent writes reaches the peer, each writer's bytes are all
there, once and in order: for every predicate that separates the two writers' bytes the two
projections of the merged stream are the two written strings -/
theorem concurrent_writes_keep_each_order (p : UInt8 → Bool) (a b m : Bytes) (h : IsMerge a b m)
    (ha : ∀ x ∈ a, p x = true) (hb : ∀ x ∈ b, p x = false) :
    m.filter p = a ∧ m.filter (fun x => !p x) = b := by
  induction h with
  | nil => simp
  | left x _ ih =>
    have hx := ha x (by simp)
    have := ih (fun y hy => ha y (by simp [hy])) hb
    simp [List.filter_cons, hx, this.1, this.2]
  | right x _ ih =>
    have hx := hb x (by simp)
    have := ih ha (fun y hy => hb y (by simp [hy]))
    simp [List.filter_cons, hx, this.1, this.2]

/-- conversely every byte string is a merge of its two projections, so the projection check the
harness applies to what the peer received accepts exactly the merges -/
theorem projections_form_a_merge (p : UInt8 → Bool) (m : Bytes) :
    IsMerge (m.filter p) (m.filter (fun x => !p x)) m := by
  induction m with
  | nil => exact IsMerge.nil
  | cons x m ih =>
    cases hx : p x
    · simp only [List.filter_cons, hx, Bool.not_false, if_true, Bool.false_eq_true, if_false]
      exact IsMerge.right x ih
    · simp only [List.filter_cons, hx, Bool.not_true, if_true, Bool.false_eq_true, if_false]
      exact IsMerge.left x ih

/-- the executable verdict of the driver is the merge relation for tagged writers -/
theorem mergeVerdict_iff (a b m : Bytes) (ha : ∀ x ∈ a, lowByte x = true) (hb : ∀ x ∈ b, lowByte x = false) :
    mergeVerdict a b m = true ↔ IsMerge a b m := by
  constructor
  · intro h
    simp only [mergeVerdict, Bool.and_eq_true, beq_iff_eq] at h
    have := projections_form_a_merge lowByte m
    rw [h.1, h.2] at this
    exact this
  · intro h
    have := concurrent_writes_keep_each_order lowByte a b m h ha hb
    simp [mergeVerdict, this.1, this.2]

example : IsMerge [1, 2] [200, 201] [1, 200, 201, 2] :=
  IsMerge.left 1 (IsMerge.right 200 (IsMerge.right 201 (IsMerge.left 2 IsMerge.nil)))

/-! ## The ssh client of the system transport gets no escape character

With a tty the OpenSSH client interprets `~` at the start of a line of its *input* (`~.` ends the
session, `~~` sends one `~`): bytes written to the transport would not reach the peer unmodified.
The transport turns that off on the command line. Proved from the body of `buildOpenArgs` as the
translator regenerates it from `transport/system.go`, for every configuration. -/

/-- **escapechar_none_always**: whatever the host, port, user, time-out, strict-key setting,
known-hosts file, ssh config file (none, given, system), private key, extra arguments and previous
content of `OpenArgs`, the argv built for the ssh client carries `-o EscapeChar=none` at positions
7 and 8 — before the config file option, before the user's extra arguments (ssh keeps the first
value it obtains for an option and reads the command line before any file) — and it is followed by
the rest of the vector. -/
theorem escapechar_none_always (a : SshCfg.Args) (s : SshCfg.SSHArgs) (extra o : List Bytes) :
    ((Gen.SshArgv.buildOpenArgs a s extra o).drop 7).take 2 = [dashO, escapeCharNone] ∧
    ∃ pre post, pre.length = 7 ∧
      Gen.SshArgv.buildOpenArgs a s extra o = pre ++ [dashO, escapeCharNone] ++ post := by
  have key : (Gen.SshArgv.buildOpenArgs a s extra o).take 9 =
      [a.host, ([45,112] : Bytes), SshCfg.fmtInt a.port, ([45,111] : Bytes),
       (([67,111,110,110,101,99,116,84,105,109,101,111,117,116,61] : Bytes) ++ SshCfg.fmtInt (SshCfg.timeoutSeconds a.timeoutNs)),
       ([45,111] : Bytes),
       (([83,101,114,118,101,114,65,108,105,118,101,73,110,116,101,114,118,97,108,61] : Bytes) ++ SshCfg.fmtInt (SshCfg.timeoutSeconds a.timeoutNs)),
       dashO, escapeCharNone] := by
    simp only [Gen.SshArgv.buildOpenArgs, dashO, escapeCharNone]
    repeat' split
    all_goals simp
  have hsplit := List.take_append_drop 9 (Gen.SshArgv.buildOpenArgs a s extra o)
  rw [key] at hsplit
  constructor
  · rw [← hsplit]; rfl
  · refine ⟨[a.host, ([45,112] : Bytes), SshCfg.fmtInt a.port, ([45,111] : Bytes),
       (([67,111,110,110,101,99,116,84,105,109,101,111,117,116,61] : Bytes) ++ SshCfg.fmtInt (SshCfg.timeoutSeconds a.timeoutNs)),
       ([45,111] : Bytes),
       (([83,101,114,118,101,114,65,108,105,118,101,73,110,116,101,114,118,97,108,61] : Bytes) ++ SshCfg.fmtInt (SshCfg.timeoutSeconds a.timeoutNs))],
      (Gen.SshArgv.buildOpenArgs a s extra o).drop 9, rfl, ?_⟩
    exact hsplit.symm

example : ((Gen.SshArgv.buildOpenArgs ⟨[104], 22, [117], [], 30000000000⟩
    { strictKey := true, configFile := [47, 99] } [[45, 118]] []).drop 7).take 2 = [dashO, escapeCharNone] := by
  decide

/-! ## No socket deadline outlives `Open`

The model's raw reader and writer have no notion of time: a session of any age behaves like a
fresh one. In the code that holds only if every deadline armed while a connection is opened
(telnet's negotiation reads; nothing in the standard and system transports) is cleared before the
open reports success. The translator lists every `Set(Read|Write)?Deadline` call of the transports
and the directions still armed at each success return. -/

/-- **no_deadline_survives_open**: in `transport/{standard,telnet,system}.go`, no function that
sets a deadline returns success with a read or write deadline still armed (and every file was
parsed, so the list is complete) -/
theorem no_deadline_survives_open :
    Gen.C16Deadlines.survivors = [] ∧ Gen.C16Deadlines.unparsed = [] := by
  decide

/-- every arming call site is paired with a clearing call of the same method in the same function -/
theorem deadline_armings_have_clears :
    ∀ s ∈ Gen.C16Deadlines.sites, s.arg ≠ "zero" →
      ∃ c ∈ Gen.C16Deadlines.sites, c.file = s.file ∧ c.fn = s.fn ∧ c.arg = "zero" ∧
        (c.method = s.method ∨ c.method = "SetDeadline") := by
  decide

/-- **no_socket_option_calls**: the transports set no socket options (`SetLinger`, `SetNoDelay`,
keep-alive, buffer sizes, `setsockopt`). In particular no `SO_LINGER`: closing sends FIN behind the
bytes already accepted by `Write`, it does not reset the connection and discard them. -/
theorem no_socket_option_calls : Gen.C16Deadlines.socketOptionCalls = [] := by decide

/-- **system_close_kills_child**: `System.Close` ends the spawned ssh with `Process.Kill` — the one
signal a program cannot ignore — and with nothing else (no `Signal`, no `Wait` that could block):
the child's end of the pty closes whatever the child does, which is what releases a read blocked
on the master (the descriptor itself is in blocking mode, see C16-F17). -/
theorem system_close_kills_child :
    Gen.C16Deadlines.processCalls = [("system.go", "Close", "Kill")] := by decide

/-! ## The wrapper's slice and error handling -/

/-- `b[0:k]` of the buffer the reader filled is exactly what the reader delivered (no zero padding,
no truncation), for both wrappers -/
theorem wrappers_return_what_was_read (n : Nat) (d : Bytes) (e : Option RErr) :
    sysWrap n d none = (d, none) ∧ telWrap n d e = (d, e) :=
  ⟨sysWrap_none n d, telWrap_eq n d e⟩

/-- the system / standard wrapper discards data that comes together with an error; the raw contract
(`rawRead`) never produces such a result, which is why nothing is lost. This is the one place where
the wrappers rely on more than the `io.Reader` contract. -/
theorem raw_error_carries_no_data (n k : Nat) (s : Stream) (d : Bytes) (e : RErr)
    (h : (rawRead n k s).1 = .ret d (some e)) : d = [] := by
  rcases rawRead_cases n k s with c | c | c | c | c
  · rw [c.2] at h; cases h; rfl
  · rw [c.2.2] at h; cases h
  · rw [c.2.2.2.2] at h; cases h; rfl
  · rw [c.2.2.2.2] at h; cases h
  · rw [c.2.2.2] at h; cases h

end Scrapli.Props.C16
