import ScrapliModel.Lemmas.Store
import ScrapliModel.Lemmas.StoreTimed
import ScrapliModel.Netconf.StoreSession
import ScrapliModel.Lemmas.StoreSubs
import ScrapliModel.Generated.BodiesNetconf
import ScrapliModel.Generated.C08ReadLoop
import ScrapliModel.Lemmas.BodiesStore
import ScrapliModel.Generated.BodiesStore
/-!
# C08 — Each NETCONF call gets the reply to its own request

Property theorems only. Model: `ScrapliModel/Netconf/Store.lean` (mirrors `driver/netconf/read.go`,
`driver.go` `buildPayload/storeMessage/getMessage`, the caller side of `rpc.go`). Constants
(`initialMessageID`, `v1Dot0Delim`, the regex sources `v1Dot1Delim`, `messageIDPattern`) come from
`Generated/Consts.lean`, regenerated from the source on every run.

Shape of the argument: the read loop's buffer and the list of messages it files are a function of
the reads alone (`filings`); under the hypotheses on what the server sends (`Delivery.valid`) the
filed messages are exactly the replies, each under the id of the request it answers (`framing`);
the store only ever holds filed messages and a call only ever fetches its own key (`Inv`).
-/
namespace Scrapli.Netconf.C08
open Scrapli Scrapli.Netconf.Store

/-! ## obligations on the regenerated constants -/

/-- the 1.1 end-of-chunks pattern the scanner `match11From`/`after11From` stands for: `(?m)^##$` -/
theorem v1Dot1Delim_pinned : Gen.Netconf.v1Dot1Delim = [40, 63, 109, 41, 94, 35, 35, 36] := by decide

/-- the 1.0 delimiter is the literal `]]>]]>` (no regex metacharacter that is active outside a class) -/
theorem v1Dot0Delim_pinned : Gen.Netconf.v1Dot0Delim = [93, 93, 62, 93, 93, 62] := by decide

/-- the message-id pattern the scanner `firstId` stands for:
`(?i)(?:message-id\s*=\s*["'](\d+)["'])` -/
theorem messageIDPattern_pinned : Gen.Netconf.messageIDPattern = [40, 63, 105, 41, 40, 63, 58, 109, 101, 115, 115, 97, 103, 101, 45, 105, 100, 92, 115, 42, 61, 92, 115, 42, 91, 34, 39, 93, 40, 92, 100, 43, 41, 91, 34, 39, 93, 41] := by decide

/-- the literal part the scanner folds over is the literal part of the source pattern -/
theorem midPrefix_from_pattern :
    midPrefix.map (·.1) = (Gen.Netconf.messageIDPattern.drop 7).take 10 := by decide

/-- id `0` means "no id" to the read loop, so the first id must not be 0 -/
theorem initialMessageID_pos : 0 < Gen.Netconf.initialMessageID := by decide

/-! ## request ids -/

/-- `ids_strictly_increasing`: after any history whatsoever (any replies, timeouts, reads), the ids
handed out so far are `initialMessageID, initialMessageID+1, …` in order, and the counter is one
past the last. Nothing about earlier outcomes enters. -/
theorem ids_strictly_increasing (v : Ver) (evs : List Ev) :
    (run v init evs).issued =
      List.range' Gen.Netconf.initialMessageID (run v init evs).issued.length ∧
    (run v init evs).st.nextId = Gen.Netconf.initialMessageID + (run v init evs).issued.length :=
  ⟨(run_init_inv v evs).ids, (run_init_inv v evs).next⟩

/-- the k-th request (0-based) carries `initialMessageID + k` -/
theorem kth_request_id (v : Ver) (evs : List Ev) (k id : Nat)
    (h : (run v init evs).issued[k]? = some id) : id = Gen.Netconf.initialMessageID + k := by
  rw [(ids_strictly_increasing v evs).1] at h
  rw [List.getElem?_eq_some_iff] at h
  obtain ⟨hk, h⟩ := h
  rw [List.getElem_range'] at h
  omega

/-- ids are unique within a session -/
theorem ids_unique (v : Ver) (evs : List Ev) : (run v init evs).issued.Nodup := by
  rw [(ids_strictly_increasing v evs).1]; exact List.nodup_range' 1

/-! ## the store -/

/-- `store_invariant`: for every history and every chunking (no hypothesis at all), every stored
message is filed under the first message-id it carries, and never under 0. -/
theorem store_invariant (v : Ver) (evs : List Ev) (id : Nat) (m : Bytes)
    (h : (id, m) ∈ (run v init evs).st.store) : firstId m = some id ∧ id ≠ 0 :=
  filings_keyed _ _ _ ((run_init_inv v evs).store_sub _ h)

/-- unconditional half of the property: whatever bytes arrive in whatever reads, a call that
returns a message returns one whose first message-id is the call's own id. -/
theorem fetch_returns_own_key (v : Ver) (evs : List Ev) (id : Nat) (m : Bytes)
    (h : (id, some m) ∈ (run v init evs).results) : firstId m = some id :=
  (filings_keyed _ _ _ ((run_init_inv v evs).res_sub _ _ h)).1

/-! ## the property -/

/-- the replies contained in a list of deliveries, in order of arrival -/
def repliesOf (ds : List Delivery) : List Reply := ds.flatMap (·.burst.replies)
/-- the reads a list of deliveries is cut into -/
def chunksOf (ds : List Delivery) : List Bytes := ds.flatMap (·.chunks)

/-- `m` is the reply `r` as the server sent it: line feeds left over from earlier messages, the
framed reply through its end marker, and some of its trailing line feeds -/
def IsReply (m : Bytes) (r : Reply) : Prop :=
  ∃ lf j, allLF lf = true ∧ m = lf ++ r.body ++ r.tail.take j

/-- `fetch_returns_own` (THE property). For both versions, for every interleaving `evs` of calls,
read-loop iterations, polls and timeouts, whose reads so far are a prefix of the reads of any list
of valid deliveries (echo on or off per request; replies now, late or never; any segmentation with
at most one server message per read, an echo possibly sharing reads with its reply; empty reads
anywhere): every completed call returned an error (`none`) or the reply whose `to` is the call's
own id — byte for byte the reply the server framed. -/
theorem fetch_returns_own (v : Ver) (evs : List Ev) (ds : List Delivery) (later : List Bytes)
    (hv : ∀ d ∈ ds, d.valid v = true) (hreads : readsOf evs ++ later = chunksOf ds)
    (id : Nat) (out : Option Bytes) (h : (id, out) ∈ (run v init evs).results) :
    out = none ∨ ∃ m r, out = some m ∧ r ∈ repliesOf ds ∧ r.to = id ∧ IsReply m r := by
  cases out with
  | none => exact Or.inl rfl
  | some m =>
    right
    have hmem := (run_init_inv v evs).res_sub _ _ h
    have hmem' : (id, m) ∈ (filings v [] (chunksOf ds)).1 := by
      rw [← hreads]; exact filings_prefix_mem hmem
    obtain ⟨fs, lf', hf, _, hall⟩ := framing ds [] hv (by rfl)
    unfold chunksOf at hmem'
    rw [hf] at hmem'
    obtain ⟨r, hr, hto, lf, j, hlf, hm⟩ := hall.mem hmem'
    exact ⟨m, r, rfl, hr, hto.symm, lf, j, hlf, hm⟩

/-- `complete_reply_not_lost`, first half: if the reply to request `r.to` has been delivered in
full (its delivery and everything before it has been read) while call `r.to` is still waiting,
the call's next poll returns a reply to `r.to`. -/
theorem complete_reply_not_lost (v : Ver) (evs : List Ev) (ds : List Delivery)
    (hv : ∀ d ∈ ds, d.valid v = true) (hreads : readsOf evs = chunksOf ds)
    (r : Reply) (hr : r ∈ repliesOf ds) (hpend : (run v init evs).pending = some r.to) :
    ∃ m r', (run v init (evs ++ [.poll])).results = (run v init evs).results ++ [(r.to, some m)] ∧
      (run v init (evs ++ [.poll])).pending = none ∧
      r' ∈ repliesOf ds ∧ r'.to = r.to ∧ IsReply m r' := by
  have hI := run_init_inv v evs
  obtain ⟨fs, lf', hf, _, hall⟩ := framing ds [] hv (by rfl)
  obtain ⟨f, hfm, hfto, _⟩ := hall.mem_right hr
  have hfm' : f ∈ (hist v evs).1 := by
    unfold hist; rw [hreads]; unfold chunksOf; rw [hf]; exact hfm
  -- the key is in the store: it cannot have been handed out, the call is still pending
  have hkey : ∃ m, (r.to, m) ∈ (run v init evs).st.store := by
    rcases hI.keys f hfm' with hk | ⟨m, hm⟩
    · rw [hfto] at hk; exact hk
    · exfalso
      rw [hfto] at hm
      have hnd := ids_unique v evs
      simp only [Client.issued, hpend, Option.toList] at hnd
      have h1 : r.to ∈ (run v init evs).results.map (·.1) :=
        List.mem_map.mpr ⟨(r.to, some m), hm, rfl⟩
      have := (List.nodup_append.mp hnd).2.2 r.to h1 r.to (by simp)
      exact this rfl
  obtain ⟨m, hg⟩ := Store.get_of_key hkey
  have hstore := hI.store_sub _ (Store.get_some hg)
  have hmem' : (r.to, m) ∈ fs := by
    unfold hist at hstore; rw [hreads] at hstore; unfold chunksOf at hstore
    rw [hf] at hstore; exact hstore
  obtain ⟨r', hr', hto', lf, j, hlf, hm⟩ := hall.mem hmem'
  refine ⟨m, r', ?_, ?_, hr', hto'.symm, lf, j, hlf, hm⟩
  · simp only [run, List.foldl_append, List.foldl_cons, List.foldl_nil]
    simp only [run] at hpend hg
    simp [step, hpend, fetch, hg]
  · simp only [run, List.foldl_append, List.foldl_cons, List.foldl_nil]
    simp only [run] at hpend hg
    simp [step, hpend, fetch, hg]

/-- when the server answers each request once, the reply returned is that very reply -/
theorem complete_reply_not_lost_unique (v : Ver) (evs : List Ev) (ds : List Delivery)
    (hv : ∀ d ∈ ds, d.valid v = true) (hreads : readsOf evs = chunksOf ds)
    (r : Reply) (hr : r ∈ repliesOf ds) (hpend : (run v init evs).pending = some r.to)
    (huniq : ∀ r' ∈ repliesOf ds, r'.to = r.to → r' = r) :
    ∃ m, (run v init (evs ++ [.poll])).results = (run v init evs).results ++ [(r.to, some m)] ∧
      IsReply m r := by
  obtain ⟨m, r', h1, _, hr', hto, hm⟩ := complete_reply_not_lost v evs ds hv hreads r hr hpend
  rw [huniq r' hr' hto] at hm
  exact ⟨m, h1, hm⟩

/-- `complete_reply_not_lost`, second half: a reply that arrives when nobody waits for it any more
(or not yet) has been filed under its own id — it sits in the store under `r.to` or was handed to
call `r.to` — and by `store_invariant`/`fetch_returns_own` it is never returned to another id. -/
theorem late_reply_kept_under_own_id (v : Ver) (evs : List Ev) (ds : List Delivery)
    (hv : ∀ d ∈ ds, d.valid v = true) (hreads : readsOf evs = chunksOf ds)
    (r : Reply) (hr : r ∈ repliesOf ds) :
    (∃ m, (r.to, m) ∈ (run v init evs).st.store) ∨ (∃ m, (r.to, some m) ∈ (run v init evs).results) := by
  have hI := run_init_inv v evs
  obtain ⟨fs, lf', hf, _, hall⟩ := framing ds [] hv (by rfl)
  obtain ⟨f, hfm, hfto, _⟩ := hall.mem_right hr
  have hfm' : f ∈ (hist v evs).1 := by
    unfold hist; rw [hreads]; unfold chunksOf; rw [hf]; exact hfm
  have := hI.keys f hfm'
  rwa [hfto] at this

/-- between server messages the read loop's buffer holds line feeds only: nothing of one message
leaks into the next -/
theorem buffer_clean_between_messages (v : Ver) (evs : List Ev) (ds : List Delivery)
    (hv : ∀ d ∈ ds, d.valid v = true) (hreads : readsOf evs = chunksOf ds) :
    allLF (run v init evs).st.buf = true := by
  obtain ⟨fs, lf', hf, hlf, _⟩ := framing ds [] hv (by rfl)
  rw [(run_init_inv v evs).buf]
  unfold hist; rw [hreads]; unfold chunksOf; rw [hf]; exact hlf

/-! ## the hypotheses are satisfiable; the known defects are outside them -/

def r11body : Bytes := [10, 35, 51, 51, 10, 60, 114, 112, 99, 45, 114, 101, 112, 108, 121, 32, 109, 101, 115, 115, 97, 103, 101, 45, 105, 100, 61, 34, 49, 48, 49, 34, 47, 62, 10, 35, 35]
def e11body : Bytes := [35, 51, 50, 10, 60, 114, 112, 99, 32, 109, 101, 115, 115, 97, 103, 101, 45, 105, 100, 61, 34, 49, 48, 49, 34, 62, 60, 47, 114, 112, 99, 62, 10, 35, 35]
def r10body : Bytes := [60, 114, 112, 99, 45, 114, 101, 112, 108, 121, 32, 109, 101, 115, 115, 97, 103, 101, 45, 105, 100, 61, 34, 49, 48, 49, 34, 47, 62, 93, 93, 62, 93, 93, 62]
def e10body : Bytes := [60, 114, 112, 99, 32, 109, 101, 115, 115, 97, 103, 101, 45, 105, 100, 61, 34, 49, 48, 49, 34, 62, 60, 47, 114, 112, 99, 62, 93, 93, 62, 93, 93, 62]
def f13body : Bytes := [10, 35, 53, 10, 60, 114, 112, 99, 45, 10, 35, 55, 10, 114, 101, 112, 108, 121, 32, 109, 10, 35, 49, 55, 10, 101, 115, 115, 97, 103, 101, 45, 105, 100, 61, 34, 49, 48, 49, 34, 47, 62, 10, 35, 35]
def f2body : Bytes := [10, 35, 51, 55, 10, 60, 114, 112, 99, 45, 114, 101, 112, 108, 121, 32, 109, 101, 115, 115, 97, 103, 101, 45, 105, 100, 61, 34, 49, 48, 49, 34, 62, 97, 10, 35, 35, 10, 98, 60, 47, 114, 62, 10, 35, 35]

def r11 : Reply := ⟨101, r11body, [10]⟩
def e11 : Echo := ⟨e11body, [10, 10]⟩
def r10 : Reply := ⟨101, r10body, [10]⟩
def e10 : Echo := ⟨e10body, [10]⟩

/-- 1.1, echo sharing a read with the reply, reply cut right after `##`, idle read at the end -/
def d11 : Delivery := ⟨.echoReply e11 r11,
  [e11body.take 20, e11body.drop 20 ++ [10, 10] ++ r11body.take 9, [], r11body.drop 9, [10], []]⟩
/-- 1.0, reply only, one byte short then the rest -/
def d10 : Delivery := ⟨.replyOnly r10, [r10body.take 34, r10body.drop 34 ++ [10]]⟩
def d10e : Delivery := ⟨.echoOnly e10, [e10body ++ [10]]⟩

example : d11.valid .v11 = true := by decide +kernel
example : d10.valid .v10 = true := by decide +kernel
example : d10e.valid .v10 = true := by decide +kernel

/-- an end-to-end instance: the call gets its reply -/
example : (run .v11 init ([.call] ++ d11.chunks.map .read ++ [.poll])).results
    = [(101, some ([10, 10] ++ r11body))] := by decide +kernel

/-- a timed-out call, its late reply, then the next call: 102 gets an error or its own reply, never 101's -/
example : ((run .v10 init ([.call] ++ d10e.chunks.map .read ++ [.poll, .expire] ++
    d10.chunks.map .read ++ [.call, .poll, .expire])).results.map (·.2)) = [none, none] := by
  decide +kernel

/-- pending-call instance of the hypotheses of `complete_reply_not_lost` -/
example : (run .v10 init ([.call] ++ d10.chunks.map .read)).pending = some r10.to := by decide +kernel

/-- F13 (known finding): RFC 6242 chunking that splits the `message-id` attribute is outside
`goodReply` — and the model, like the code, never files such a reply. -/
def f13 : Reply := ⟨101, f13body, [10]⟩
example : goodReply .v11 f13 = false := by decide +kernel
example : (run .v11 init [.call, .read (f13body ++ [10]), .read [], .poll, .expire]).results
    = [(101, none)] := by decide +kernel

/-- F2 (known finding): a payload line `##` followed by a read boundary is outside `goodReply`
(`noEarlyFire` fails) — and the model, like the code, hands the caller a truncated message. -/
def f2 : Reply := ⟨101, f2body, [10]⟩
example : goodReply .v11 f2 = false := by decide +kernel
example : (run .v11 init [.call, .read (f2body.take 37), .read (f2body.drop 37 ++ [10]), .poll]).results
    = [(101, some (f2body.take 37))] := by decide +kernel

/-! ## tie to the source: translated body = model (regenerated on every run) -/

/-! ## version matrix: the read loop waits for the marker of the version the session speaks -/

/-- `delimiter_matches_selected_version` (model): for every cell of server capabilities x client
preference in which a session comes about, the pattern the read loop examines its buffer with is
the end-of-message marker of the SELECTED version — so `fetch_returns_own` and
`complete_reply_not_lost`, stated for `run v`, speak about `Session.run` with `v = selected`; and
the selected version is the client's preference when it states one, else the highest common. -/
theorem delimiter_matches_selected_version (s10 s11 : Bool) (pref : Option Ver) (n : Session)
    (h : negotiate s10 s11 pref = some n) :
    n.prompt = n.selected ∧
      (∀ v, pref = some v → n.selected = v) ∧
      (pref = none → n.selected = if s11 then .v11 else .v10) := by
  cases s10 <;> cases s11 <;> cases pref with
  | none => simp [negotiate] at h <;> (try subst h) <;> simp
  | some v => cases v <;> simp [negotiate] at h <;> (try subst h) <;> simp

theorem session_run_is_selected_version (s10 s11 : Bool) (pref : Option Ver) (n : Session)
    (h : negotiate s10 s11 pref = some n) (c : Client) (evs : List Ev) :
    n.run c evs = run n.selected c evs := by
  rw [← (delimiter_matches_selected_version s10 s11 pref n h).1]; rfl

/-- tie to the source (regenerated body of `(*Driver).determineVersion`, with the two compiled
delimiter patterns instantiated by the versions they belong to): whenever the code returns `nil`,
the pattern it leaves in `Channel.PromptPattern` belongs to the version it leaves in
`SelectedVersion`, whatever both held on entry, and the pair is the model's `negotiate`. -/
theorem generated_determineVersion_prompt (caps : List Bytes) (pref sel0 sel : Bytes) (p0 p : Ver)
    (h : Gen.Bodies.Netconf.determineVersion caps pref Ver.v10 Ver.v11 sel0 p0 = (none, sel, p)) :
    sel = p.str ∧
      negotiate (Netconf.Hello.hasCap caps Gen.Netconf.v1Dot0Cap)
        (Netconf.Hello.hasCap caps Gen.Netconf.v1Dot1Cap) (prefOf pref) = some ⟨p, p⟩ := by
  have hne : (Gen.Netconf.V1Dot1 == Gen.Netconf.V1Dot0) = false := by decide
  unfold Gen.Bodies.Netconf.determineVersion at h
  unfold negotiate prefOf
  cases h11 : Netconf.Hello.hasCap caps Gen.Netconf.v1Dot1Cap <;>
    cases h10 : Netconf.Hello.hasCap caps Gen.Netconf.v1Dot0Cap <;>
    cases hp0 : pref == Gen.Netconf.V1Dot0 <;> cases hp1 : pref == Gen.Netconf.V1Dot1 <;>
    simp [h11, h10, hp0, hp1, hne, Ver.str] at h ⊢ <;>
    (try (obtain ⟨h1, h2⟩ := h; subst h1; subst h2; simp))

/-- regenerated syntactic fact: in `determineVersion` no assignment to `Channel.PromptPattern`
stands before the last assignment to `SelectedVersion` (the pattern is derived after the
`PreferredVersion` override) -/
theorem promptPattern_assigned_after_final_selection :
    Gen.C08ReadLoop.determineVersionFound = true ∧
      0 < Gen.C08ReadLoop.promptPatternAssigns ∧
      Gen.C08ReadLoop.promptPatternAssignsBeforeLastSelectedVersion = 0 := by decide

/-- negative witness: installing the pattern with the first pick leaves a server that offers both
versions and a client that prefers 1.0 with 1.0 framing and a read loop waiting for `##` … -/
example : negotiateEarlyPrompt true true (some .v10) = some ⟨.v10, .v11⟩ := by decide
/-- … and then no 1.0-framed reply is ever filed: the call times out -/
example : ((⟨.v10, .v11⟩ : Session).run init [.call, .read (r10body ++ [10]), .read [], .poll, .expire]).results
    = [(101, none)] := by decide +kernel
example : ((⟨.v10, .v10⟩ : Session).run init [.call, .read (r10body ++ [10]), .read [], .poll, .expire]).results
    = [(101, some (r10body ++ [10]))] := by decide +kernel

/-! ## the read loop examines its buffer on every pass, also when nothing arrived -/

/-- `complete_reply_delivered_without_new_bytes`: when the buffer holds a complete reply (say,
because the echo that shared its read has just been stripped), ONE further iteration of the read
loop files it under its id — whether or not new bytes arrive (here: an empty read). -/
theorem complete_reply_delivered_without_new_bytes (v : Ver) (r : Reply) (lf a y : Bytes)
    (hr : goodReply v r = true) (hlf : allLF lf = true) (ht : r.tail = a ++ y) :
    bufStep v (lf ++ r.body ++ a) [] = ([], some (r.to, lf ++ r.body ++ a)) :=
  bufStep_reply hr hlf y ht (lf ++ r.body ++ a) [] (by simp)

/-- session form: with such a buffer and the call for `r.to` waiting, an idle iteration followed
by a poll returns the reply -/
theorem waiting_call_gets_buffered_reply (v : Ver) (r : Reply) (lf a y : Bytes) (c : Client)
    (hr : goodReply v r = true) (hlf : allLF lf = true) (ht : r.tail = a ++ y)
    (hbuf : c.st.buf = lf ++ r.body ++ a) (hp : c.pending = some r.to) :
    (run v c [.read [], .poll]).results = c.results ++ [(r.to, some (lf ++ r.body ++ a))] := by
  have hs := complete_reply_delivered_without_new_bytes v r lf a y hr hlf ht
  simp only [List.append_assoc] at hs hbuf
  simp [run, step, readStep, hbuf, hs, St.file, hp, fetch, Store.get, Store.put]

/-- regenerated syntactic fact: between taking bytes off the channel and examining the buffer the
loop of `(*Driver).read` has no `continue` / `break` / `goto` (an empty read does not skip the
examination) -/
theorem read_loop_examines_buffer_every_pass :
    Gen.C08ReadLoop.readLoopFound = true ∧ Gen.C08ReadLoop.jumpsBetweenReadAndExamine = [] := by
  decide

/-- negative witness: echo and reply coalesced into one read, then silence. The loop that looks at
its buffer every pass files the reply on the idle iteration; the skip-on-empty variant never does. -/
example : (filings .v11 [] [e11body ++ [10, 10] ++ r11body ++ [10], [], [], []]).1
    = [(101, [10, 10] ++ r11body ++ [10])] := by decide +kernel
example : (filingsSkip .v11 [] [e11body ++ [10, 10] ++ r11body ++ [10], [], [], []]).1 = [] := by
  decide +kernel
example : (filingsSkip .v10 [] [e10body ++ r10body ++ [10], [], []]).1 = [] := by decide +kernel

/-! ## notifications: routed by subscription id, replies still reach their callers -/

/-- the messages (replies, notifications, both, neither) contained in a list of deliveries -/
def msgsOf (ds : List Delivery2) : List Msg := ds.flatMap (·.burst.msgs)
def chunksOf2 (ds : List Delivery2) : List Bytes := ds.flatMap (·.chunks)

/-- `notification_routing`: over any valid deliveries (echoes, replies, notifications, in any
interleaving and segmentation) the read loop cuts out exactly the server's messages, one per
message and in order, and what it hands to `storeMessage` / `storeSubscriptionMessage` are those
cuts keyed by the server's `to` / `sub` (a message with `to = 0` is filed under no message-id, one
with `sub = 0` under no subscription). -/
theorem notification_routing (v : Ver) (ds : List Delivery2) (hv : ∀ d ∈ ds, d.valid v = true) :
    ∃ cs, AllCut cs (msgsOf ds) ∧
      (filings v [] (chunksOf2 ds)).1 = cs.filterMap keyOf ∧
      subFilings v [] (chunksOf2 ds) = cs.filterMap subOf ∧
      (∀ c m, CutFor c m → m ∈ msgsOf ds →
        keyOf c = (if m.to != 0 then some (m.to, c) else none) ∧
        subOf c = (if m.sub != 0 then some (m.sub, c) else none)) := by
  obtain ⟨cs, lf', hc, _, hall⟩ := cut_framing ds [] hv (by rfl)
  refine ⟨cs, hall, ?_, ?_, ?_⟩
  · rw [filings_eq_cuts]; unfold chunksOf2; rw [hc]
  · unfold subFilings chunksOf2; rw [hc]
  · intro c m hcm hm
    have hg := msgs_good hv m hm
    exact ⟨keyOf_cut hg hcm, subOf_cut hg hcm⟩

/-- `fetch_returns_own_with_notifications`: THE property with notifications interleaved anywhere
(before, between, after replies; carrying a subscription id or not): every completed call
returned an error or, byte for byte, the message the server sent in answer to that very request —
never a notification (`to = 0`), never another request's reply. -/
theorem fetch_returns_own_with_notifications (v : Ver) (evs : List Ev) (ds : List Delivery2)
    (later : List Bytes) (hv : ∀ d ∈ ds, d.valid v = true)
    (hreads : readsOf evs ++ later = chunksOf2 ds)
    (id : Nat) (out : Option Bytes) (h : (id, out) ∈ (run v init evs).results) :
    out = none ∨ ∃ c m, out = some c ∧ m ∈ msgsOf ds ∧ m.to = id ∧ m.to ≠ 0 ∧ CutFor c m := by
  cases out with
  | none => exact Or.inl rfl
  | some c =>
    right
    have hmem := (run_init_inv v evs).res_sub _ _ h
    have hmem' : (id, c) ∈ (filings v [] (chunksOf2 ds)).1 := by
      rw [← hreads]; exact filings_prefix_mem hmem
    obtain ⟨cs, hall, hfil, _, hkeys⟩ := notification_routing v ds hv
    rw [hfil, List.mem_filterMap] at hmem'
    obtain ⟨c', hc', hk⟩ := hmem'
    obtain ⟨m, hm, hcm⟩ := hall.mem hc'
    have := (hkeys c' m hcm hm).1
    rw [this] at hk
    by_cases h0 : m.to = 0
    · simp [h0] at hk
    · simp [h0] at hk
      obtain ⟨h1, h2⟩ := hk
      exact ⟨c, m, rfl, hm, h1, h0, by rw [← h2]; exact hcm⟩

/-- `notifications_in_order_exactly_once`: for any interleaving of read-loop iterations and
`GetSubscriptionMessages` calls (for any ids, at any moments) whose reads are the chunks of valid
deliveries: what `GetSubscriptionMessages(id)` has handed out so far, concatenated in call order,
followed by what still waits in the store, is exactly the server's messages of subscription `id`
— each one once, in the order sent, nothing else (in particular no reply of another subscription
and no plain reply). -/
theorem notifications_in_order_exactly_once (v : Ver) (evs : List SEv) (ds : List Delivery2)
    (hv : ∀ d ∈ ds, d.valid v = true) (hreads : sreadsOf evs = chunksOf2 ds)
    (id : Nat) (hid : id ≠ 0) :
    AllCut ((srun v sinit evs).delivered id ++ (srun v sinit evs).waiting id)
      ((msgsOf ds).filter (fun m => m.sub == id)) := by
  have hacc := srun_accounts v evs sinit id
  simp only [sinit, SubClient.delivered, SubClient.waiting, List.filter_nil, List.flatMap_nil,
    List.map_nil, List.append_nil, List.nil_append] at hacc
  have hacc' : (srun v sinit evs).delivered id ++ (srun v sinit evs).waiting id =
      ((subFilings v [] (sreadsOf evs)).filter (fun p => p.1 == id)).map (·.2) := by
    simpa [sinit, SubClient.delivered, SubClient.waiting] using hacc
  rw [hacc', hreads]
  obtain ⟨cs, hall, _, hsub, _⟩ := notification_routing v ds hv
  rw [hsub]
  exact hall.sub_filter (msgs_good hv) id hid

def n10abody : Bytes := [60, 110, 111, 116, 105, 102, 105, 99, 97, 116, 105, 111, 110, 62, 60, 115, 117, 98, 115, 99, 114, 105, 112, 116, 105, 111, 110, 45, 105, 100, 62, 55, 60, 47, 115, 117, 98, 115, 99, 114, 105, 112, 116, 105, 111, 110, 45, 105, 100, 62, 60, 115, 101, 113, 62, 49, 60, 47, 115, 101, 113, 62, 60, 47, 110, 111, 116, 105, 102, 105, 99, 97, 116, 105, 111, 110, 62, 93, 93, 62, 93, 93, 62]
def n10bbody : Bytes := [60, 110, 111, 116, 105, 102, 105, 99, 97, 116, 105, 111, 110, 62, 60, 115, 117, 98, 115, 99, 114, 105, 112, 116, 105, 111, 110, 45, 105, 100, 62, 55, 60, 47, 115, 117, 98, 115, 99, 114, 105, 112, 116, 105, 111, 110, 45, 105, 100, 62, 60, 115, 101, 113, 62, 50, 60, 47, 115, 101, 113, 62, 60, 47, 110, 111, 116, 105, 102, 105, 99, 97, 116, 105, 111, 110, 62, 93, 93, 62, 93, 93, 62]
def nbadbody : Bytes := [60, 110, 111, 116, 105, 102, 105, 99, 97, 116, 105, 111, 110, 62, 60, 115, 117, 98, 115, 99, 114, 105, 112, 116, 105, 111, 110, 45, 105, 100, 62, 55, 60, 47, 115, 117, 98, 115, 99, 114, 105, 112, 116, 105, 111, 110, 45, 105, 100, 62, 60, 120, 32, 109, 101, 115, 115, 97, 103, 101, 45, 105, 100, 61, 34, 49, 48, 49, 34, 47, 62, 60, 47, 110, 111, 116, 105, 102, 105, 99, 97, 116, 105, 111, 110, 62, 93, 93, 62, 93, 93, 62]

/-- instances: 1.0, a notification of subscription 7, the reply to 101 (one byte short, then the
rest), a second notification; the call gets its reply, `GetSubscriptionMessages(7)` the two
notifications in order, a second call to it nothing -/
def n10a : Msg := ⟨0, 7, n10abody, [10]⟩
def n10b : Msg := ⟨0, 7, n10bbody, []⟩
def dn1 : Delivery2 := ⟨.msgOnly n10a, [n10abody.take 30, n10abody.drop 30 ++ [10]]⟩
def dn2 : Delivery2 := ⟨.msgOnly ⟨101, 0, r10body, [10]⟩, [r10body.take 34, r10body.drop 34 ++ [10]]⟩
def dn3 : Delivery2 := ⟨.msgOnly n10b, [n10bbody]⟩
example : dn1.valid .v10 = true ∧ dn2.valid .v10 = true ∧ dn3.valid .v10 = true := by decide +kernel
example : (run .v10 init ([.call] ++ (chunksOf2 [dn1, dn2, dn3]).map .read ++ [.poll])).results
    = [(101, some (r10body ++ [10]))] := by decide +kernel
example : (srun .v10 sinit ((chunksOf2 [dn1, dn2, dn3]).map .read ++ [.get 7, .get 7])).got
    = [(7, [n10abody ++ [10], n10bbody]), (7, [])] := by decide +kernel
/-- a notification that carries the text `message-id="101"` is outside `goodMsg` (known finding
C08-F26): the model, like the code, files it under 101 -/
example : goodMsg .v10 ⟨0, 7, nbadbody, []⟩ = false := by decide +kernel
example : (filings .v10 [] [nbadbody]).1 = [(101, nbadbody)] := by decide +kernel

/-! ## the routing key is computed over the whole message, whatever the channel settings -/

/-- `routing_independent_of_search_depth`: a read-loop iteration does the same thing for every
`PromptSearchDepth`, `ReadDelay`, transport read size, return character and `TimeoutOps` the
session was created with — the message-id (and the subscription id) of a complete message are
looked for in the WHOLE message, wherever in it the attribute stands. (Trivial in the model, which
has no such parameter; the correspondence runs sessions over all these settings, and the source
fact below pins the argument of the pattern search.) -/
theorem routing_independent_of_search_depth (cfg1 cfg2 : ChannelCfg) (v : Ver) (buf chunk : Bytes) :
    bufStepWith cfg1 v buf chunk = bufStepWith cfg2 v buf chunk ∧
      bufStepWith cfg1 v buf chunk = ((bufCut v buf chunk).1, (bufCut v buf chunk).2.bind keyOf) :=
  ⟨rfl, bufStep_eq_cut v buf chunk⟩

/-- regenerated syntactic fact: inside the end-of-message test of `(*Driver).read` the message-id
pattern and the subscription-id pattern are run over exactly the expression that was tested and
that is stored — the complete message buffer, no slice, no helper in between -/
theorem id_patterns_search_the_whole_message :
    Gen.C08ReadLoop.examinedBuffer ≠ "" ∧
      Gen.C08ReadLoop.messageIDSearchArgs = [Gen.C08ReadLoop.examinedBuffer] ∧
      Gen.C08ReadLoop.subscriptionIDSearchArgs = [Gen.C08ReadLoop.examinedBuffer] ∧
      Gen.C08ReadLoop.storedMessageArgs = [Gen.C08ReadLoop.examinedBuffer, Gen.C08ReadLoop.examinedBuffer] := by
  decide

/-- negative witness: a reply whose `message-id` stands after 100 bytes of namespace declarations.
The loop files it under 101; the variant that searches only the first 80 bytes files nothing. -/
def farbody : Bytes := [60, 110, 99, 58, 114, 112, 99, 45, 114, 101, 112, 108, 121, 32, 120, 109, 108, 110, 115, 58, 110, 99, 61, 34, 117, 114, 110, 58, 105, 101, 116, 102, 58, 112, 97, 114, 97, 109, 115, 58, 120, 109, 108, 58, 110, 115, 58, 110, 101, 116, 99, 111, 110, 102, 58, 98, 97, 115, 101, 58, 49, 46, 48, 34, 32, 120, 109, 108, 110, 115, 58, 97, 61, 34, 117, 114, 110, 58, 97, 34, 32, 120, 109, 108, 110, 115, 58, 98, 61, 34, 117, 114, 110, 58, 98, 34, 32, 109, 101, 115, 115, 97, 103, 101, 45, 105, 100, 61, 34, 49, 48, 49, 34, 47, 62, 93, 93, 62, 93, 93, 62]
example : goodReply .v10 ⟨101, farbody, []⟩ = true := by decide +kernel
example : (bufStep .v10 [] farbody).2 = some (101, farbody) := by decide +kernel
example : (bufStepHead 80 .v10 [] farbody).2 = none := by decide +kernel

/-! ## each version's read loop treats the other version's end-of-message marker as data -/

/-- `v11_ignores_v10_marker`: under 1.1 the end-of-message test is the `##` line and nothing else
(first conjunct, by definition), and the hypotheses on a 1.1 reply say nothing about `]]>]]>`: a
complete 1.1 reply is filed whole under its id by one iteration whatever it contains — a comment,
attribute value, CDATA section or processing instruction with `]]>]]>` in it included (see the
instance below). Symmetrically 1.0 does not look for `##` lines. -/
theorem v11_ignores_v10_marker (r : Reply) (hr : goodReply .v11 r = true) (b : Bytes) :
    delimMatch .v11 b = match11From true b ∧
      delimMatch .v10 b = isInfix delim10 b ∧
      bufStep .v11 [] (r.body ++ r.tail) = ([], some (r.to, r.body ++ r.tail)) := by
  refine ⟨rfl, rfl, ?_⟩
  have h := bufStep_reply (lf := []) (a := r.tail) hr (by rfl) [] (by simp) [] (r.body ++ r.tail) (by simp)
  simpa using h

/-- regenerated syntactic fact: `(*Driver).read` mentions each version's delimiter only inside the
`case` of that version (the 1.1 path never looks for `]]>]]>`, the 1.0 path never for `##`) -/
theorem read_loop_uses_each_delimiter_for_its_own_version_only :
    Gen.C08ReadLoop.delimiterUsesOutsideOwnVersionCase = [] := by decide

/-- instances: a 1.1 reply with `]]>]]>` inside a comment, a 1.0 reply with a `##` line: both are
inside the hypotheses and both are filed whole; the variant that cuts a 1.1 buffer at the first
`]]>]]>` files nothing -/
def r11x : Bytes := [10, 35, 53, 56, 10, 60, 114, 112, 99, 45, 114, 101, 112, 108, 121, 32, 109, 101, 115, 115, 97, 103, 101, 45, 105, 100, 61, 34, 49, 48, 49, 34, 62, 60, 33, 45, 45, 32, 93, 93, 62, 93, 93, 62, 32, 45, 45, 62, 60, 111, 107, 47, 62, 60, 47, 114, 112, 99, 45, 114, 101, 112, 108, 121, 62, 10, 35, 35]
def r10x : Bytes := [60, 114, 112, 99, 45, 114, 101, 112, 108, 121, 32, 109, 101, 115, 115, 97, 103, 101, 45, 105, 100, 61, 34, 49, 48, 49, 34, 62, 60, 97, 62, 120, 10, 35, 35, 10, 121, 60, 47, 97, 62, 60, 47, 114, 112, 99, 45, 114, 101, 112, 108, 121, 62, 93, 93, 62, 93, 93, 62]
example : goodReply .v11 ⟨101, r11x, [10]⟩ = true ∧ goodReply .v10 ⟨101, r10x, []⟩ = true := by
  decide +kernel
example : (bufStep .v11 [] (r11x ++ [10])).2 = some (101, r11x ++ [10]) := by decide +kernel
example : (bufStep .v10 [] r10x).2 = some (101, r10x) := by decide +kernel
example : (bufStepDrop10 [] (r11x ++ [10])).2 = none := by decide +kernel

/-! ## histories: per-call deadlines (timed layer, `Netconf/StoreTimed.lean`) -/

/-- every timed history (calls with their own timeouts, reads, polls, time passing during calls
and while the session idles) is an untimed history in which `expire` happens only when a tick
reaches the deadline of the call in flight: all theorems above apply to it. -/
theorem timed_refines (v : Ver) (t : TClient) (evs : List TEv) :
    (trun v t evs).c = run v t.c (erase v t evs) := trun_refines v evs t

/-- `timeout_is_per_call`: while no call is in flight, the clock and whatever the last timer was
armed with (expired long ago during an idle period, still pending, never armed) are irrelevant for
everything that happens afterwards: a call's timeout verdict depends only on events after the call
started. (`sendRPC` arms a fresh timer per call; nothing of it is carried across calls.) -/
theorem timeout_is_per_call (v : Ver) (t1 t2 : TClient) (hc : t1.c = t2.c)
    (hidle : t1.c.pending = none) (evs : List TEv) :
    (trun v t1 evs).c = (trun v t2 evs).c :=
  (trun_sameFuture evs t1 t2 ⟨hc, fun hne => absurd hidle hne⟩).1

/-- a call with timeout `d` gets no timeout verdict while fewer than `d` ticks have passed since it
started — no matter how long the session idled before, how earlier calls ended or what their
timeouts were. -/
theorem no_timeout_before_deadline (v : Ver) (t : TClient) (d : Nat) (evs : List TEv)
    (hidle : t.c.pending = none) (hcalls : noCalls evs = true) (hticks : ticksIn evs < d) :
    timeouts (trun v t (.call d :: evs)).c = timeouts t.c := by
  have h := no_timeout_aux (v := v) evs (tstep v t (.call d)) hcalls (by
    intro _; simp only [tstep, hidle]; omega)
  simp only [trun, List.foldl_cons] at h ⊢
  rw [h]
  simp [tstep, hidle, step, buildRequest, timeouts]

def r10body102 : Bytes := [60, 114, 112, 99, 45, 114, 101, 112, 108, 121, 32, 109, 101, 115, 115, 97, 103, 101, 45, 105, 100, 61, 34, 49, 48, 50, 34, 47, 62, 93, 93, 62, 93, 93, 62]

/-- instance: a successful call with timeout 100, a long idle period (300 ticks, the old timer
would have fired long ago), then a call with timeout 100 whose reply arrives after 10 ticks: the
reply is returned, not a timeout; a third call with timeout 5 and no reply times out -/
example : (trun .v10 tinit ([.call 100] ++ d10.chunks.map .read ++ [.poll] ++ List.replicate 300 .tick ++
    [.call 100] ++ List.replicate 10 .tick ++ [.read r10body102, .poll] ++ List.replicate 200 .tick ++
    [.call 5] ++ List.replicate 5 .tick)).c.results.map (fun p => (p.1, p.2.isSome))
    = [(101, true), (102, true), (103, false)] := by decide +kernel

/-- the body of `getID` as the translator renders it from the current source
(`Generated/BodiesStore.lean`), on a match of the message-id pattern (whole match + one group of one
or more digits): no index out of range, and the result is `atoiClamp` of the digits — `strconv.Atoi`
(`Go.atoi`: the range error is dropped, the clamped value kept) -/
theorem generated_getID_eq (whole ds : Bytes) (hne : ds ≠ []) (hd : ∀ b ∈ ds, isDigit b = true) :
    Gen.Bodies.Store.getID [whole, ds] = some ((atoiClamp ds : Nat) : Int) := by
  unfold Gen.Bodies.Store.getID
  have hl : Go.len [whole, ds] = (Gen.Netconf.idOrSubMatchLen : Int) := rfl
  have hi : Go.idxOK ((Gen.Netconf.idOrSubMatchLen : Nat) : Int) 1 = true := by decide
  have ha : Go.at [whole, ds] 1 = ds := by simp [Go.at]
  simp only [hl, bne_self_eq_false, Bool.false_eq_true, if_false, hi, Bool.not_true, ha]
  rw [← atoi_digits ds hne hd]

/-- … and `0` when `FindSubmatch` found nothing (or anything that is not "whole match + one group") -/
theorem generated_getID_nomatch (m : List Bytes) (h : m.length ≠ Gen.Netconf.idOrSubMatchLen) :
    Gen.Bodies.Store.getID m = some 0 := by
  unfold Gen.Bodies.Store.getID
  have : (Go.len m != (Gen.Netconf.idOrSubMatchLen : Int)) = true := by
    simp only [Go.len, bne_iff_ne, ne_eq]; omega
  simp [this]

end Scrapli.Netconf.C08
