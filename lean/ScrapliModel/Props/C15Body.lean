import ScrapliModel.Lemmas.Telnet
import ScrapliModel.Lemmas.GoSem
import ScrapliModel.Lemmas.TelnetBody
import ScrapliModel.Generated.BodiesTelnet
import ScrapliModel.Generated.BodiesByteIsAny
/-!
# C15 — tie to the source: translated body = model (regenerated on every run)

Kept in its own module (listed as `extra_props` of C15) so that a source change the body
translator cannot render breaks this obligation only: the model theorems of `Props/C15.lean`, the
model driver and the correspondence harness keep building and the failing-input search still runs.
-/
namespace Scrapli.Telnet.Body.C15
open Scrapli Scrapli.Telnet

set_option linter.unusedSimpArgs false in
/-- the body of `(*Telnet).handleControlCharResponse` as the translator renders it from the current
source (`Generated/BodiesTelnet.lean`; `t.initialBuf` is the data accumulator, the arguments of
`t.c.Write` are appended to the reply list, every write succeeds) never indexes out of range,
returns a `nil` error, and its new `ctrlBuf`, `initialBuf` and replies are exactly `step`, for every
parser state (any `ctrlBuf` length) and every byte -/
theorem generated_handleControlCharResponse_eq (s : St) (c : UInt8) :
    Gen.Bodies.Telnet.stepGen s c = some (step s c, none) := by
  obtain ⟨ctrl, data, replies⟩ := s
  unfold Gen.Bodies.Telnet.stepGen
  have eI : UInt8.ofNat Gen.Transport.«iac» = IAC := rfl
  have eD : UInt8.ofNat Gen.Transport.«do» = DO := rfl
  have eN : UInt8.ofNat Gen.Transport.«dont» = DONT := rfl
  have eW : UInt8.ofNat Gen.Transport.«will» = WILL := rfl
  have eO : UInt8.ofNat Gen.Transport.«wont» = WONT := rfl
  have eS : UInt8.ofNat Gen.Transport.«sga» = SGA := rfl
  unfold Gen.Bodies.Telnet.handleControlCharResponse step
  simp only [eI, eD, eN, eW, eO, eS, contains_verbs, contains_do_dont]
  match ctrl with
  | [] => by_cases h : c = IAC <;> simp [Go.len, h]
  | [a] =>
    have hz : Go.slice [a] 0 0 = [] := by simp [Go.slice]
    cases hv : isVerb c <;> by_cases h : c = IAC <;> simp [Go.len, Go.sliceOK, hz, hv, h]
  | [a, cmd] =>
    -- `cmd` is read as `ctrlBuf[1:2][0]` (buffer passed as a parameter) or `t.ctrlBuf[1]` (field);
    -- the buffer is emptied with `make([]byte, 0)` or `t.ctrlBuf[:0]`
    have hs : Go.slice [a, cmd] 1 2 = [cmd] := by simp [Go.slice]
    have hz : Go.slice [a, cmd] 0 0 = [] := by simp [Go.slice]
    have ha : Go.at [a, cmd] 1 = cmd := by simp [Go.at]
    simp only [hs, hz, ha, Go.len, Go.sliceOK, Go.idxOK, Go.at, finish, replyFor]
    have k1 : DO ≠ DONT := by decide
    have k2 : DO ≠ WILL := by decide
    have k3 : DO ≠ WONT := by decide
    have k4 : DONT ≠ WILL := by decide
    have k5 : DONT ≠ WONT := by decide
    have k6 : WILL ≠ WONT := by decide
    by_cases h1 : cmd = DO <;> by_cases h2 : c = SGA <;> by_cases h3 : cmd = DONT <;>
      by_cases h4 : cmd = WILL <;> by_cases h5 : cmd = WONT <;>
      simp [h1, h2, h3, h4, h5, k1, k2, k3, k4, k5, k6, k1.symm, k2.symm, k3.symm, k4.symm,
        k5.symm, k6.symm]
  | _ :: _ :: _ :: l =>
    have h0 : ¬ ((l.length : Int) + 1 + 1 + 1 = 0) := by omega
    have h1 : ¬ ((l.length : Int) + 1 + 1 + 1 = 1) := by omega
    have h2 : ¬ ((l.length : Int) + 1 + 1 + 1 = 2) := by omega
    simp [Go.len, h0, h1, h2]

/-- Obligation on a regenerated fact: every negotiation phase starts with an empty partial-sequence
buffer — `ctrlBuf` is a local of `handleControlChars` initialised empty, or a struct field that
`Open` / `handleControlChars` empties before the read loop. Together with
`generated_handleControlCharResponse_eq` this is what makes `openWith` (fresh parser state) the
model of every `Open`, cf. `C15.open_history_independent`. -/
theorem ctrl_fresh_per_open : Gen.Bodies.Telnet.ctrlFreshPerOpen = true := by decide

/-- the `range` loop of `util.ByteIsAny` as translated from the current source is list membership —
which is what the translator's library table renders its call sites in
`handleControlCharResponse` as -/
theorem generated_byteIsAny_eq (b : UInt8) (l : Bytes) :
    Gen.Bodies.ByteIsAny.byteIsAny b l = l.contains b := by
  unfold Gen.Bodies.ByteIsAny.byteIsAny Go.forRange
  rw [Go.forRangeFrom_find (fun ss => b == ss) (fun _ => true)]
  induction l with
  | nil => simp
  | cons a l ih =>
    simp only [List.find?, List.contains_cons]
    cases h : b == a <;> simp [ih]


/-- the body of `(*Telnet).Read` as the translator renders it from the current source: a non-empty
`initialBuf` is returned WHOLE — whatever the read size `n`, even a negative one — with a `nil`
error, and the buffer is cleared: exactly `Conn.readN .whole` (so `initial_buffer_conservation`
speaks about the code). With an empty buffer the call returns the first `sockN` bytes of its
scratch buffer with the socket's error and leaves the buffer empty (`sockN`, `sockErr` = results of
`t.c.Read(b)`, `0 ≤ sockN ≤ n` by the `io.Reader` contract; the bytes themselves are the socket's and
are not modelled). -/
theorem generated_telnetRead_eq (sockN : Int) (sockErr : Go.Error) (data : Bytes) (n : Int) :
    (data ≠ [] →
      Gen.Bodies.Telnet.telnetRead sockN sockErr data n = some (data, none, []) ∧
      ∀ sock, Conn.readN .whole n.toNat ⟨data, sock⟩ = (some data, ⟨[], sock⟩)) ∧
    (data = [] → 0 ≤ sockN → sockN ≤ n →
      ∃ b, Gen.Bodies.Telnet.telnetRead sockN sockErr data n = some (b, sockErr, []) ∧
        (b.length : Int) = sockN) := by
  constructor
  · intro h
    have hlen : data.length > 0 := by
      cases data with
      | nil => exact absurd rfl h
      | cons x xs => simp
    have hl : (Go.len data > 0) := by simp only [Go.len]; omega
    constructor
    · simp [Gen.Bodies.Telnet.telnetRead, hl]
    · intro sock; simp [Conn.readN, hlen]
  · intro h h0 hn
    subst h
    have hn0 : 0 ≤ n := by omega
    refine ⟨Go.slice (List.replicate n.toNat (0 : UInt8)) 0 sockN, ?_, ?_⟩
    · have hmax : max n 0 = n := by omega
      have hok' : Go.sliceOK n 0 sockN = true := by
        simp only [Go.sliceOK, Bool.and_eq_true, decide_eq_true_eq]; omega
      simp [Gen.Bodies.Telnet.telnetRead, Go.len, hn0, hmax, hok']
    · simp only [Go.slice, List.length_drop, List.length_take, List.length_replicate]
      omega

end Scrapli.Telnet.Body.C15
