import ScrapliModel.Props.C01Body
import ScrapliModel.Lemmas.ChannelOpsEv
import ScrapliModel.Generated.BodiesOps
/-!
# C01 (also C05, C12) — `GetPrompt` and `SendInputB` as the source reads now

Both functions are translated from the source on every run (`Generated/BodiesOps.lean`). Their
`go func(){…}()` + `r := <-cr` is recognised syntactically as the synchronous-goroutine idiom
(`go/facts/gobody.go`, `GoIdiom`: one unbuffered result channel, one goroutine literal, every path
sends exactly once and then returns, the parent receives once right after — anything else renders
`unsupported_goroutine_idiom`) and the goroutine body is rendered sequentially over the
phase-indexed event semantics of `ScrapliModel/ChannelOpsEv.lean`: every `ReadUntil*` call is the
translated loop of `Generated/BodiesRead.lean` on its own event list, every write is logged and may
fail according to an oracle, `NewOperation(opts...)` is an input, the function-valued local
`readUntilF` is the name of the method assigned to it.

`generated_GetPrompt_eq` / `generated_SendInputB_eq`: for all inputs and enough fuel the translated
functions never panic and return exactly what `getPromptEv` / `sendInputEv` return. The remaining
theorems read the properties off the model and bridge it to `ChannelOps.lean`.

Separate obligation set (`extra_props` of C01, C05, C12).
-/
namespace Scrapli.Chan.C01
open Scrapli Scrapli.Chan

set_option linter.unusedSimpArgs false in
theorem generated_GetPrompt_eq (fuel : Nat) (cfg : Cfg) (findP : Bytes → Bytes) (st : OpSt)
    (hf : totalEv st.phases + 1 ≤ fuel) :
    Gen.Bodies.Ops.getPrompt fuel cfg findP st.phases st.writes st.wfaults
      = (getPromptEv cfg findP st).map OpRes.encode := by
  obtain ⟨phases, writes, wfaults⟩ := st
  have hp := popPhase_len phases
  have hread := generated_ReadUntilPrompt_eq fuel cfg (popPhase phases).1 (by simp at hf; omega)
  unfold Gen.Bodies.Ops.getPrompt getPromptEv OpSt.write OpSt.read
  simp only [hread]
  cases hw : (popFault wfaults).1 with
  | some e =>
    by_cases he : e = "ctx.Err()" <;> simp [hw, he, mapErr, OpRes.encode, cancelErr]
  | none =>
    simp only [hw]
    cases hr : readUntilEv (promptPred cfg) (popPhase phases).1 [] with
    | none => simp
    | some p =>
      obtain ⟨r, rest⟩ := p
      cases r with
      | ok rb => simp [RRes.encode, OpRes.encode]
      | cancelled => simp [RRes.encode, OpRes.encode, RRes.fail, cancelErr]
      | err e => by_cases he : e = "ctx.Err()" <;> simp [RRes.encode, OpRes.encode, RRes.fail, mapErr, he, cancelErr]

set_option linter.unusedSimpArgs false in
theorem generated_SendInputB_eq (fuel : Nat) (cfg : Cfg) (o : SendOpts) (opErr : Option String) (st : OpSt)
    (cmd : Bytes) (hm : cfg.mult = Gen.Channel.inputSearchDepthMultiplier)
    (hf : totalEv st.phases + 1 ≤ fuel) :
    Gen.Bodies.Ops.sendInputB fuel cfg opErr cfg.exact o.eager cfg.strip o.interim st.phases st.writes st.wfaults cmd
      = (sendInputEv cfg o opErr st cmd).map OpRes.encode := by
  obtain ⟨phases, writes, wfaults⟩ := st
  simp only at hf
  have hp := popPhase_len phases
  -- the echo read
  have h1 : (if (if cfg.exact = true then "ReadUntilExplicit" else "ReadUntilFuzzy") == "ReadUntilExplicit"
        then Gen.Bodies.Read.readUntilExplicit fuel cfg (popPhase phases).1 cmd
        else Gen.Bodies.Read.readUntilFuzzy fuel cfg (popPhase phases).1 cmd)
      = if cmd = [] then some ([], none, (popPhase phases).1)
        else (readUntilEv (echoPred cfg cmd) (popPhase phases).1 []).map RRes.encode := by
    cases hx : cfg.exact
    · simpa using generated_ReadUntilFuzzy_eq fuel cfg cmd _ hm hx (by omega)
    · simpa using generated_ReadUntilExplicit_eq fuel cfg cmd _ hm hx (by omega)
  -- the second read, on whatever the first one left
  have h2 : ∀ rest : List Ev, rest.length ≤ (popPhase phases).1.length →
      Gen.Bodies.Read.readUntilPrompt fuel cfg (popPhase (pushBack rest (popPhase phases).2)).1
        = (readUntilEv (promptPred cfg) (popPhase (pushBack rest (popPhase phases).2)).1 []).map RRes.encode := by
    intro rest hr
    apply generated_ReadUntilPrompt_eq
    have a := popPhase_fst_le (pushBack rest (popPhase phases).2)
    have b := totalEv_pushBack rest (popPhase phases).2
    omega
  have h3 : ∀ rest : List Ev, rest.length ≤ (popPhase phases).1.length →
      Gen.Bodies.Read.readUntilAnyPrompt fuel cfg ([cfg.promptP] ++ o.interim) (popPhase (pushBack rest (popPhase phases).2)).1
        = (readUntilEv (anyPromptPred cfg.depth (cfg.promptP :: o.interim))
            (popPhase (pushBack rest (popPhase phases).2)).1 []).map RRes.encode := by
    intro rest hr
    apply generated_ReadUntilAnyPrompt_eq
    have a := popPhase_fst_le (pushBack rest (popPhase phases).2)
    have b := totalEv_pushBack rest (popPhase phases).2
    omega
  have hpo : ∀ b : Bytes, Gen.Bodies.Channel.processOut cfg.ret cfg.stripP b cfg.strip = some (processOut cfg b) :=
    fun b => generated_processOut_eq cfg b
  -- what follows a successful echo read that left `rest` in the queue
  have tail : ∀ (rest : List Ev), rest.length ≤ (popPhase phases).1.length →
      ∀ K, K = (sendInputEv cfg o none ⟨phases, writes, wfaults⟩ cmd) → True := fun _ _ _ _ => trivial
  unfold Gen.Bodies.Ops.sendInputB sendInputEv OpSt.write
  cases opErr with
  | some e => simp [OpRes.encode]
  | none =>
    simp only [bne_self_eq_false, Bool.false_eq_true, if_false, h1]
    cases hw : (popFault wfaults).1 with
    | some e => by_cases he : e = "ctx.Err()" <;> simp [hw, he, mapErr, OpRes.encode, cancelErr]
    | none =>
      simp only [hw]
      rcases read_cases ⟨phases, writes ++ [cmd], (popFault wfaults).2⟩ cmd.isEmpty (echoPred cfg cmd)
          (if cmd = [] then some ([], none, (popPhase phases).1)
            else (readUntilEv (echoPred cfg cmd) (popPhase phases).1 []).map RRes.encode)
          (by cases cmd <;> simp) with ⟨hG, hM⟩ | ⟨rest, hG, hM⟩ | ⟨e, rest, hG, hM⟩ | ⟨b, rest, hle, hG, hM⟩
      · simp only [hG, hM]; simp
      · simp only [hG, hM]; simp [RRes.fail, OpRes.encode, cancelErr]
      · simp only [hG, hM]
        by_cases he : e = "ctx.Err()" <;> simp [RRes.fail, mapErr, OpRes.encode, cancelErr, he]
      · simp only [hG, hM]
        cases hw2 : (popFault (popFault wfaults).2).1 with
        | some e => by_cases he : e = "ctx.Err()" <;> simp [hw2, he, mapErr, OpRes.encode, cancelErr]
        | none =>
          simp only [hw2, bne_self_eq_false, Bool.false_eq_true, if_false]
          cases hea : o.eager with
          | true => simp [hpo, OpRes.encode]
          | false =>
            simp only [Bool.not_false, if_true, Bool.false_eq_true, if_false]
            by_cases hi : o.interim.isEmpty = true
            · simp only [hi, if_true]
              rcases read_cases ⟨pushBack rest (popPhase phases).2, writes ++ [cmd] ++ [cfg.ret],
                    (popFault (popFault wfaults).2).2⟩ false (finalPred cfg o.interim)
                  (Gen.Bodies.Read.readUntilPrompt fuel cfg (popPhase (pushBack rest (popPhase phases).2)).1)
                  (by rw [h2 rest hle]; simp [finalPred, hi])
                with ⟨hG, hM⟩ | ⟨rest2, hG, hM⟩ | ⟨e, rest2, hG, hM⟩ | ⟨b2, rest2, hle2, hG, hM⟩
              · simp only [hG, hM]; simp
              · simp only [hG, hM]; simp [RRes.fail, OpRes.encode, cancelErr]
              · simp only [hG, hM]
                by_cases he : e = "ctx.Err()" <;> simp [RRes.fail, mapErr, OpRes.encode, cancelErr, he]
              · simp only [hG, hM]; simp [hpo, OpRes.encode]
            · have hi' : o.interim.isEmpty = false := by simpa using hi
              simp only [hi', Bool.false_eq_true, if_false]
              rcases read_cases ⟨pushBack rest (popPhase phases).2, writes ++ [cmd] ++ [cfg.ret],
                    (popFault (popFault wfaults).2).2⟩ false (finalPred cfg o.interim)
                  (Gen.Bodies.Read.readUntilAnyPrompt fuel cfg ([cfg.promptP] ++ o.interim)
                    (popPhase (pushBack rest (popPhase phases).2)).1)
                  (by rw [h3 rest hle]; simp [finalPred, hi'])
                with ⟨hG, hM⟩ | ⟨rest2, hG, hM⟩ | ⟨e, rest2, hG, hM⟩ | ⟨b2, rest2, hle2, hG, hM⟩
              · simp only [hG, hM]; simp
              · simp only [hG, hM]; simp [RRes.fail, OpRes.encode, cancelErr]
              · simp only [hG, hM]
                by_cases he : e = "ctx.Err()" <;> simp [RRes.fail, mapErr, OpRes.encode, cancelErr, he]
              · simp only [hG, hM]; simp [hpo, OpRes.encode]

/-! ## what the model says: bridge to `ChannelOps.lean`, write order, errors, eager -/

set_option linter.unusedSimpArgs false

/-- the environment of an operation run on the plain queue `q` (chunk-only events, every write succeeds) -/
def ofSess (q : List Bytes) (writes : List Bytes) : OpSt := ⟨[q.map .chunk], writes, []⟩

/-- bridge: on chunk-only events without write faults `getPromptEv` is `ChannelOps.getPrompt` -/
theorem getPromptEv_agrees_with_getPrompt (cfg : Cfg) (findP : Bytes → Bytes) (s : Sess) (resp : List Bytes) :
    getPromptEv cfg findP ⟨[(s.q ++ resp).map .chunk], s.writes, []⟩
      = (getPrompt cfg findP s resp).map fun r => (.ok r.1, ofSess r.2.q r.2.writes) := by
  unfold getPromptEv getPrompt OpSt.write OpSt.read
  simp only [popFault, popPhase, Bool.false_eq_true, if_false, readUntilEv_chunks]
  cases readUntil (promptPred cfg) (s.q ++ resp) [] with
  | none => simp
  | some p => simp [pushBack, ofSess]

/-- bridge: on chunk-only events (the echo phase is the queue plus the echo, the second phase is the
device's answer) without write faults `sendInputEv` is `ChannelOps.sendInputO`, for every option set -/
theorem sendInputEv_agrees_with_sendInputO (cfg : Cfg) (o : SendOpts) (s : Sess) (x : Exchange) :
    sendInputEv cfg o none ⟨[(s.q ++ x.echo).map .chunk, x.resp.map .chunk], s.writes, []⟩ x.cmd
      = (sendInputO cfg o s x).map fun r => (.ok r.1, ofSess r.2.q r.2.writes) := by
  unfold sendInputEv sendInputO echoRead skipsEcho OpSt.write OpSt.read
  simp only [popFault, popPhase]
  by_cases hc : x.cmd.isEmpty = true
  · simp only [hc, if_true, pushBack, ← List.map_append]
    cases o.eager with
    | true => simp [ofSess]
    | false =>
      simp only [Bool.false_eq_true, if_false, popPhase, readUntilEv_chunks]
      cases readUntil (finalPred cfg o.interim) (s.q ++ x.echo ++ x.resp) [] with
      | none => simp
      | some p => simp [pushBack, ofSess]
  · have hc' : x.cmd.isEmpty = false := by simpa using hc
    simp only [hc', Bool.false_eq_true, if_false, readUntilEv_chunks]
    cases readUntil (echoPred cfg x.cmd) (s.q ++ x.echo) [] with
    | none => simp
    | some p =>
      obtain ⟨rb, q2⟩ := p
      simp only [Option.map_some, pushBack, ← List.map_append, popFault, popPhase]
      cases o.eager with
      | true => simp [ofSess]
      | false =>
        simp only [Bool.false_eq_true, if_false, readUntilEv_chunks]
        cases readUntil (finalPred cfg o.interim) (q2 ++ x.resp) [] with
        | none => simp
        | some p => simp [pushBack, ofSess]

/-- an error of `NewOperation` is returned as it is: nothing is written, nothing is read -/
theorem sendInputEv_option_error (cfg : Cfg) (o : SendOpts) (e : String) (st : OpSt) (cmd : Bytes) :
    sendInputEv cfg o (some e) st cmd = some (.err e, st) := rfl

theorem write_writes (st : OpSt) (b : Bytes) : (st.write b).2.writes = st.writes ++ [b] := rfl

theorem read_writes (st st' : OpSt) (skip : Bool) (P : Bytes → Bool) (r : RRes)
    (h : st.read skip P = some (r, st')) : st'.writes = st.writes ∧ st'.wfaults = st.wfaults := by
  unfold OpSt.read at h
  split at h
  · simp at h; obtain ⟨_, rfl⟩ := h; exact ⟨rfl, rfl⟩
  · split at h
    · simp at h
    · simp at h; obtain ⟨_, rfl⟩ := h; exact ⟨rfl, rfl⟩

/-- the writes of a send: a prefix of "the input, then the return" and nothing else, whatever
happens; a send that succeeds has written both -/
theorem sendInputEv_writes_prefix (cfg : Cfg) (o : SendOpts) (opErr : Option String) (st : OpSt) (cmd : Bytes)
    (r : OpRes) (st' : OpSt) (h : sendInputEv cfg o opErr st cmd = some (r, st')) :
    (∃ k, k ≤ 2 ∧ st'.writes = st.writes ++ ([cmd, cfg.ret].take k)) ∧
    (∀ b, r = .ok b → st'.writes = st.writes ++ [cmd, cfg.ret]) := by
  unfold sendInputEv at h
  cases opErr with
  | some e => simp at h; obtain ⟨rfl, rfl⟩ := h; exact ⟨⟨0, by omega, by simp⟩, by intro b hb; cases hb⟩
  | none =>
    simp only at h
    have e1 := write_writes st cmd
    generalize st.write cmd = w1 at h e1
    obtain ⟨f1, st1⟩ := w1
    simp only at e1
    cases f1 with
    | some e =>
      simp at h; obtain ⟨rfl, rfl⟩ := h
      exact ⟨⟨1, by omega, by simp [e1]⟩, by intro b hb; simp [mapErr] at hb; split at hb <;> cases hb⟩
    | none =>
      simp only at h
      cases hr : st1.read cmd.isEmpty (echoPred cfg cmd) with
      | none => simp [hr] at h
      | some p =>
        obtain ⟨r2, st2⟩ := p
        have e2 := (read_writes _ _ _ _ _ hr).1
        rw [hr] at h
        cases r2 with
        | cancelled =>
          simp [RRes.fail] at h; obtain ⟨rfl, rfl⟩ := h
          exact ⟨⟨1, by omega, by simp [e2, e1]⟩, by intro b hb; cases hb⟩
        | err e =>
          simp [RRes.fail] at h; obtain ⟨rfl, rfl⟩ := h
          exact ⟨⟨1, by omega, by simp [e2, e1]⟩, by intro b hb; simp [mapErr] at hb; split at hb <;> cases hb⟩
        | ok rb =>
          simp only at h
          have e3 := write_writes st2 cfg.ret
          generalize st2.write cfg.ret = w3 at h e3
          obtain ⟨f3, st3⟩ := w3
          simp only at e3
          have e3' : st3.writes = st.writes ++ [cmd, cfg.ret] := by simp [e3, e2, e1]
          cases f3 with
          | some e =>
            simp at h; obtain ⟨rfl, rfl⟩ := h
            exact ⟨⟨2, by omega, by simp [e3']⟩, by intro b hb; simp [mapErr] at hb; split at hb <;> cases hb⟩
          | none =>
            simp only at h
            cases hea : o.eager with
            | true => simp [hea] at h; obtain ⟨rfl, rfl⟩ := h; exact ⟨⟨2, by omega, by simp [e3']⟩, fun _ _ => e3'⟩
            | false =>
              simp only [hea, Bool.false_eq_true, if_false] at h
              cases hr4 : st3.read false (finalPred cfg o.interim) with
              | none => simp [hr4] at h
              | some p4 =>
                obtain ⟨r4, st4⟩ := p4
                have e4 := (read_writes _ _ _ _ _ hr4).1
                rw [hr4] at h
                have hw : st4.writes = st.writes ++ [cmd, cfg.ret] := by rw [e4, e3']
                cases r4 <;> (simp at h; obtain ⟨rfl, rfl⟩ := h; exact ⟨⟨2, by omega, by simp [hw]⟩, fun _ _ => hw⟩)

/-- a failed first write ends the send with that error (mapped): nothing is read, the return is
not written -/
theorem sendInputEv_first_write_fails (cfg : Cfg) (o : SendOpts) (phases : List (List Ev)) (writes : List Bytes)
    (e : String) (fs : List (Option String)) (cmd : Bytes) :
    sendInputEv cfg o none ⟨phases, writes, some e :: fs⟩ cmd
      = some (mapErr e, ⟨phases, writes ++ [cmd], fs⟩) := by
  simp [sendInputEv, OpSt.write, popFault]

/-- an echo read that ends in a cancellation or an error ends the send: the return is not written,
the second phase is not touched, a cancellation is the timeout error -/
theorem sendInputEv_echo_fails (cfg : Cfg) (o : SendOpts) (phases : List (List Ev)) (writes : List Bytes)
    (fs : List (Option String)) (cmd : Bytes) (r : RRes) (st2 : OpSt) (hr : ∀ b, r ≠ .ok b)
    (h : (OpSt.mk phases (writes ++ [cmd]) fs).read cmd.isEmpty (echoPred cfg cmd) = some (r, st2)) :
    sendInputEv cfg o none ⟨phases, writes, none :: fs⟩ cmd = some (r.fail, st2) ∧
      st2.writes = writes ++ [cmd] ∧ RRes.cancelled.fail = .timeout := by
  refine ⟨?_, (read_writes _ _ _ _ _ h).1, rfl⟩
  cases r with
  | ok b => exact absurd rfl (hr b)
  | cancelled => simp [sendInputEv, OpSt.write, popFault, h]
  | err e => simp [sendInputEv, OpSt.write, popFault, h]

/-- an eager send makes no second read: it returns `processOut` of nothing -/
theorem sendInputEv_eager (cfg : Cfg) (o : SendOpts) (opErr : Option String) (st st' : OpSt) (cmd b : Bytes)
    (he : o.eager = true) (h : sendInputEv cfg o opErr st cmd = some (.ok b, st')) :
    b = processOut cfg [] := by
  unfold sendInputEv at h
  cases opErr with
  | some e => simp at h
  | none =>
    simp only [he, if_true] at h
    generalize st.write cmd = w1 at h
    obtain ⟨f1, st1⟩ := w1
    cases f1 with
    | some e => simp [mapErr] at h; split at h <;> simp at h
    | none =>
      simp only at h
      cases hr : st1.read cmd.isEmpty (echoPred cfg cmd) with
      | none => simp [hr] at h
      | some p =>
        obtain ⟨r2, st2⟩ := p
        rw [hr] at h
        cases r2 with
        | cancelled => simp [RRes.fail] at h
        | err e => simp [RRes.fail, mapErr] at h; split at h <;> simp at h
        | ok rb =>
          simp only at h
          generalize st2.write cfg.ret = w3 at h
          obtain ⟨f3, st3⟩ := w3
          cases f3 with
          | some e => simp [mapErr] at h; split at h <;> simp at h
          | none => simp at h; exact h.1.symm

/-- `GetPrompt` writes one return and nothing else; on success the result is `PromptPattern.Find`
of what the read returned -/
theorem getPromptEv_writes (cfg : Cfg) (findP : Bytes → Bytes) (st st' : OpSt) (r : OpRes)
    (h : getPromptEv cfg findP st = some (r, st')) : st'.writes = st.writes ++ [cfg.ret] := by
  unfold getPromptEv at h
  have e1 := write_writes st cfg.ret
  generalize st.write cfg.ret = w1 at h e1
  obtain ⟨f1, st1⟩ := w1
  simp only at e1
  cases f1 with
  | some e => simp at h; obtain ⟨_, rfl⟩ := h; exact e1
  | none =>
    simp only at h
    cases hr : st1.read false (promptPred cfg) with
    | none => simp [hr] at h
    | some p =>
      obtain ⟨r2, st2⟩ := p
      have e2 := (read_writes _ _ _ _ _ hr).1
      rw [hr] at h
      cases r2 <;> (simp at h; obtain ⟨_, rfl⟩ := h; rw [e2, e1])

end Scrapli.Chan.C01
