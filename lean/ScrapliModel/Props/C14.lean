import ScrapliModel.Lemmas.SshCfg
import ScrapliModel.Generated.SshArgv
import ScrapliModel.Generated.SshAuth
import ScrapliModel.Generated.SshDial
import ScrapliModel.Generated.ResolveFile
/-!
# C14 — SSH connections honour strict host-key checking and the configured identity

Property theorems only.  Model: `ScrapliModel/SshCfg.lean` (mirrors `transport/system.go`,
`transport/standard.go`); `defaultSSHStrictKey` comes from `Generated/Consts.lean`, and
`Generated/SshArgv.lean` is the translator's rendering of the body of `buildOpenArgs`, both
regenerated from the source on every run.
-/
namespace Scrapli.SshCfg.C14
open Scrapli Scrapli.SshCfg

/-! ## obligations on regenerated facts -/

/-- strict host-key checking is the default (generated constant) -/
theorem default_strict : Gen.Transport.defaultSSHStrictKey = true := by decide

/-- … and `NewSSHArgs` starts from it -/
theorem newSSHArgs_strict : newSSHArgs.strictKey = true := by decide

/-- the system transport spawns `ssh` unless told otherwise -/
theorem default_bin : Gen.Transport.defaultOpenBin = b!"ssh" := by decide

/-- the body of `(*System).buildOpenArgs` as the translator renders it from the current source
(`Generated/SshArgv.lean`) computes, for all inputs and whatever `OpenArgs` held before, exactly
the hand-written model — so every theorem below is about the code as it is now -/
theorem generated_buildOpenArgs_eq (a : Args) (s : SSHArgs) (extra pre : List Bytes) :
    Gen.SshArgv.buildOpenArgs a s extra pre = buildOpenArgs a s extra := by
  unfold Gen.SshArgv.buildOpenArgs buildOpenArgs
  cases hs : s.strictKey <;> by_cases hu : a.user = [] <;> by_cases hk : s.knownHostsFile = [] <;>
    by_cases hc : s.configFile = [] <;> by_cases hp : s.privateKeyPath = [] <;>
    cases extra <;> simp [*]

/-! ## system transport: shape of the argument vector -/

/-- the fixed head of the argv: host first, `-p port`, the two timeout options, no escape character -/
def head (a : Args) : List Bytes :=
  [a.host, b!"-p", fmtInt a.port,
   b!"-o", b!"ConnectTimeout=" ++ fmtInt (timeoutSeconds a.timeoutNs),
   b!"-o", b!"ServerAliveInterval=" ++ fmtInt (timeoutSeconds a.timeoutNs),
   b!"-o", b!"EscapeChar=none"]

def userPart (a : Args) : List Bytes := if a.user = [] then [] else [b!"-l", a.user]

def strictPart (s : SSHArgs) : List Bytes :=
  if s.strictKey then
    (if s.knownHostsFile = [] then [b!"-o", b!"StrictHostKeyChecking=yes"]
     else [b!"-o", b!"StrictHostKeyChecking=yes", b!"-o", b!"UserKnownHostsFile=" ++ s.knownHostsFile])
  else [b!"-o", b!"StrictHostKeyChecking=no", b!"-o", b!"UserKnownHostsFile=/dev/null"]

def cfgPart (s : SSHArgs) : List Bytes :=
  [b!"-F", if s.configFile = [] then b!"/dev/null" else s.configFile]

def keyPart (s : SSHArgs) : List Bytes :=
  if s.privateKeyPath = [] then [] else [b!"-i", s.privateKeyPath]

/-- `argv_identity`: for every configuration the argv is exactly
host, `-p port`, timeouts, `-o EscapeChar=none`, `-l user` iff a user is set, the strict-key options (known-hosts option
iff strict ∧ set), `-F cfg` or `-F /dev/null`, `-i key` iff set, then the extra arguments, last
and in order — nothing else, and nothing depending on anything else. -/
theorem argv_identity (a : Args) (s : SSHArgs) (extra : List Bytes) :
    buildOpenArgs a s extra = head a ++ userPart a ++ strictPart s ++ cfgPart s ++ keyPart s ++ extra := by
  unfold buildOpenArgs head userPart strictPart cfgPart keyPart
  cases hs : s.strictKey <;> by_cases hu : a.user = [] <;> by_cases hk : s.knownHostsFile = [] <;>
    by_cases hc : s.configFile = [] <;> by_cases hp : s.privateKeyPath = [] <;> simp [*]

/-- `argv_no_escape_char`: for every configuration the argv carries `-o EscapeChar=none` at the
fixed positions 7 and 8 — in scrapligo's own part of the command line, before the strict-key
options and before any caller-supplied extra argument (so, `-o` values being first-wins, no extra
argument can re-enable the escape character). -/
theorem argv_no_escape_char (a : Args) (s : SSHArgs) (extra : List Bytes) :
    ((buildOpenArgs a s extra).drop 7).take 2 = [b!"-o", b!"EscapeChar=none"] ∧
    ∃ pre post, buildOpenArgs a s extra = pre ++ [b!"-o", b!"EscapeChar=none"] ++ post ++ extra ∧
      pre.length = 7 := by
  rw [argv_identity]
  refine ⟨by simp [head], (head a).take 7, userPart a ++ strictPart s ++ cfgPart s ++ keyPart s, ?_, by simp [head]⟩
  simp [head]

/-- index where the strict-key options start -/
def strictAt (a : Args) : Nat := if a.user = [] then 9 else 11

/-- `argv_strict` (positional, no hypotheses): right after the head and the optional `-l user`
come `-o StrictHostKeyChecking=yes` when strict checking is on, and
`-o StrictHostKeyChecking=no -o UserKnownHostsFile=/dev/null` when it is off; and conversely. -/
theorem argv_strict (a : Args) (s : SSHArgs) (extra : List Bytes) :
    let rest := (buildOpenArgs a s extra).drop (strictAt a)
    (s.strictKey = true ↔ rest.take 2 = [b!"-o", b!"StrictHostKeyChecking=yes"]) ∧
    (s.strictKey = false ↔
      rest.take 4 = [b!"-o", b!"StrictHostKeyChecking=no", b!"-o", b!"UserKnownHostsFile=/dev/null"]) := by
  rw [argv_identity]
  unfold head userPart strictPart strictAt
  cases hs : s.strictKey <;> by_cases hu : a.user = [] <;> by_cases hk : s.knownHostsFile = [] <;>
    simp [*] <;> decide

/-! ## system transport: what the argv means to ssh

`sshParse` is our reading of OpenSSH's command-line rules (see `SshCfg.lean`; trusted, exercised
against the real binary by the harness).  Under it, what scrapligo puts before the caller's extra
arguments fixes the destination, port, user, the strict-checking mode and the known-hosts file,
and no extra argument can displace them. -/

/-- meaning of everything before the extra arguments -/
def prefixEff (a : Args) (s : SSHArgs) : Eff :=
  { host := some a.host, port := some (fmtInt a.port),
    user := if a.user = [] then none else some a.user,
    strict := some (if s.strictKey then b!"yes" else b!"no"),
    knownHosts := if s.strictKey then (if s.knownHostsFile = [] then none else some s.knownHostsFile)
                  else some (b!"/dev/null"),
    cfg := some (if s.configFile = [] then b!"/dev/null" else s.configFile),
    ids := if s.privateKeyPath = [] then [] else [s.privateKeyPath] }

theorem two_append (x y : Bytes) (r : List Bytes) : [x, y] ++ r = x :: y :: r := rfl
theorem four_append (x y z w : Bytes) (r : List Bytes) : [x, y, z, w] ++ r = x :: y :: z :: w :: r := rfl

theorem prefix_meaning (a : Args) (s : SSHArgs) (rest : List Bytes) (hh : hostOk a.host = true) :
    List.foldl step {} (head a ++ userPart a ++ strictPart s ++ cfgPart s ++ keyPart s ++ rest) =
      List.foldl step (prefixEff a s) rest := by
  have r0 : Ready ({} : Eff) := ⟨rfl, rfl, rfl⟩
  obtain ⟨h0, r1⟩ := step_host (e := {}) (h := a.host) r0 rfl hh
  -- head
  simp only [List.append_assoc]
  show List.foldl step {} (a.host :: b!"-p" :: fmtInt a.port ::
      b!"-o" :: (b!"ConnectTimeout=" ++ fmtInt (timeoutSeconds a.timeoutNs)) ::
      b!"-o" :: (b!"ServerAliveInterval=" ++ fmtInt (timeoutSeconds a.timeoutNs)) ::
      b!"-o" :: b!"EscapeChar=none" ::
      (userPart a ++ (strictPart s ++ (cfgPart s ++ (keyPart s ++ rest))))) = _
  rw [List.foldl_cons, h0, pair_p _ _ r1, applyOpt_p _ _ rfl]
  have r2 := ready_upd_port (some (fmtInt a.port)) r1
  rw [pair_o _ _ r2, applyOpt_connectTimeout, pair_o _ _ r2, applyOpt_serverAlive,
    pair_o _ _ r2, applyOpt_escapeChar]
  -- user
  have hu : ∃ e : Eff, Ready e ∧ e.strict = none ∧ e.knownHosts = none ∧
      e = { host := some a.host, port := some (fmtInt a.port),
            user := if a.user = [] then none else some a.user } ∧
      List.foldl step { host := some a.host, port := some (fmtInt a.port) }
        (userPart a ++ (strictPart s ++ (cfgPart s ++ (keyPart s ++ rest)))) =
      List.foldl step e (strictPart s ++ (cfgPart s ++ (keyPart s ++ rest))) := by
    unfold userPart
    by_cases h : a.user = []
    · exact ⟨_, r2, rfl, rfl, by simp [h], by simp [h]⟩
    · refine ⟨_, ready_upd_user (some a.user) r2, rfl, rfl, by simp [h], ?_⟩
      simp only [h, if_false]
      rw [two_append, pair_l _ _ r2, applyOpt_l _ _ rfl]
  obtain ⟨e2, re2, hs2, hk2, he2, hfold2⟩ := hu
  rw [hfold2]
  -- strict part
  have hst : ∃ e : Eff, Ready e ∧
      e = { e2 with strict := some (if s.strictKey then b!"yes" else b!"no"),
                    knownHosts := if s.strictKey then (if s.knownHostsFile = [] then none else some s.knownHostsFile)
                                  else some (b!"/dev/null") } ∧
      List.foldl step e2 (strictPart s ++ (cfgPart s ++ (keyPart s ++ rest))) =
      List.foldl step e (cfgPart s ++ (keyPart s ++ rest)) := by
    unfold strictPart
    cases hs : s.strictKey
    · -- not strict
      have ra := ready_upd_strict (some (b!"no")) re2
      refine ⟨_, ready_upd_kh (some (b!"/dev/null")) ra, by simp, ?_⟩
      simp only [Bool.false_eq_true, if_false]
      rw [four_append, pair_o _ _ re2]
      rw [show (b!"StrictHostKeyChecking=no") = b!"StrictHostKeyChecking=" ++ b!"no" from rfl,
        applyOpt_strict _ _ hs2, pair_o _ _ ra]
      have hk3 : ({ e2 with strict := some (b!"no") } : Eff).knownHosts = none := hk2
      rw [show (b!"UserKnownHostsFile=/dev/null") = b!"UserKnownHostsFile=" ++ b!"/dev/null" from rfl,
        applyOpt_knownHosts _ _ hk3]
    · by_cases hk : s.knownHostsFile = []
      · refine ⟨_, ready_upd_strict (some (b!"yes")) re2, ?_, ?_⟩
        · cases e2; simp at hk2; simp [hk, hk2]
        · simp only [hk, if_true]
          rw [two_append, pair_o _ _ re2]
          rw [show (b!"StrictHostKeyChecking=yes") = b!"StrictHostKeyChecking=" ++ b!"yes" from rfl,
            applyOpt_strict _ _ hs2]
      · have ra := ready_upd_strict (some (b!"yes")) re2
        refine ⟨_, ready_upd_kh (some s.knownHostsFile) ra, by simp [hk], ?_⟩
        simp only [hk, if_true, if_false]
        rw [four_append, pair_o _ _ re2]
        have hk3 : ({ e2 with strict := some (b!"yes") } : Eff).knownHosts = none := hk2
        rw [show (b!"StrictHostKeyChecking=yes") = b!"StrictHostKeyChecking=" ++ b!"yes" from rfl,
          applyOpt_strict _ _ hs2, pair_o _ _ ra, applyOpt_knownHosts _ _ hk3]
  obtain ⟨e3, re3, he3, hfold3⟩ := hst
  rw [hfold3]
  -- config file
  unfold cfgPart
  rw [two_append, pair_F _ _ re3, applyOpt_F]
  have re4 := ready_upd_cfg (some (if s.configFile = [] then b!"/dev/null" else s.configFile)) re3
  -- key
  unfold keyPart
  by_cases hp : s.privateKeyPath = []
  · simp only [hp, if_true, List.nil_append]
    congr 1
    subst he3 he2
    simp [prefixEff, hp]
  · simp only [hp, if_false]
    rw [two_append, pair_i _ _ re4, applyOpt_i]
    congr 1
    subst he3 he2
    simp [prefixEff, hp]

/-- `argv_effective`: for every configuration whose host is not option-like and for EVERY list
of extra arguments, ssh (as we read its rules) connects to the configured host and port, as the
configured user when one is set, with StrictHostKeyChecking `yes` iff strict checking is on and
`no` otherwise, with the configured known-hosts file when strict (and `/dev/null` when not),
and offers the configured key; without extra arguments the config file is the configured one or
`/dev/null` and no other identity is named. -/
theorem argv_effective (a : Args) (s : SSHArgs) (extra : List Bytes) (hh : hostOk a.host = true) :
    let e := sshParse (buildOpenArgs a s extra)
    e.host = some a.host ∧ e.port = some (fmtInt a.port) ∧
    (a.user ≠ [] → e.user = some a.user) ∧
    e.strict = some (if s.strictKey then b!"yes" else b!"no") ∧
    (s.strictKey = false → e.knownHosts = some (b!"/dev/null")) ∧
    (s.strictKey = true → s.knownHostsFile ≠ [] → e.knownHosts = some s.knownHostsFile) ∧
    (s.privateKeyPath ≠ [] → s.privateKeyPath ∈ e.ids) ∧
    (extra = [] → e = prefixEff a s) := by
  intro e
  have he : e = List.foldl step (prefixEff a s) extra := by
    show sshParse (buildOpenArgs a s extra) = _
    rw [argv_identity, sshParse, prefix_meaning a s extra hh]
  obtain ⟨k1, k2, k3, k4, k5, k6⟩ := foldl_step_keeps extra (prefixEff a s)
  rw [← he] at k1 k2 k3 k4 k5 k6
  refine ⟨k1 _ rfl, k2 _ rfl, ?_, k4 _ rfl, ?_, ?_, ?_, ?_⟩
  · intro hu; exact k3 _ (by simp [prefixEff, hu])
  · intro hs; exact k5 _ (by simp [prefixEff, hs])
  · intro hs hk; exact k5 _ (by simp [prefixEff, hs, hk])
  · intro hp; exact k6 _ (by simp [prefixEff, hp])
  · intro hx; rw [he, hx]; rfl

example : hostOk (b!"r1.example.com") = true := by decide

/-- the hypothesis is needed: an option-like host IS read as an option by ssh -/
example : (sshParse (buildOpenArgs { host := b!"-oStrictHostKeyChecking=no", port := 22, timeoutNs := 0 }
    { strictKey := true } [])).strict = some (b!"no") := by decide

/-- the configuration does not itself contain the literal `lit` as a whole argument -/
def Clean (lit : Bytes) (a : Args) (s : SSHArgs) (extra : List Bytes) : Prop :=
  a.host ≠ lit ∧ a.user ≠ lit ∧ s.configFile ≠ lit ∧ s.privateKeyPath ≠ lit ∧ lit ∉ extra

/-- `argv_strict` (membership form of DESIGN §5): unless the caller's own strings are that very
literal, `StrictHostKeyChecking=yes` is an argument iff strict checking is on. -/
theorem argv_strict_yes_mem (a : Args) (s : SSHArgs) (extra : List Bytes)
    (hc : Clean (b!"StrictHostKeyChecking=yes") a s extra) :
    b!"StrictHostKeyChecking=yes" ∈ buildOpenArgs a s extra ↔ s.strictKey = true := by
  obtain ⟨h1, h2, h3, h4, h5⟩ := hc
  have hp := fmtInt_ne_cons a.port 83 (b!"trictHostKeyChecking=yes") (by decide) (by decide)
  rw [argv_identity]
  unfold head userPart strictPart cfgPart keyPart
  cases hs : s.strictKey <;> by_cases hu : a.user = [] <;> by_cases hk : s.knownHostsFile = [] <;>
    by_cases hcf : s.configFile = [] <;> by_cases hpk : s.privateKeyPath = [] <;>
    simp [*, Ne.symm h1, Ne.symm h2, Ne.symm h3, Ne.symm h4, Ne.symm hp]

/-- … and `StrictHostKeyChecking=no` (which always comes with `UserKnownHostsFile=/dev/null`,
see `argv_strict`) is an argument iff strict checking was switched off. -/
theorem argv_strict_no_mem (a : Args) (s : SSHArgs) (extra : List Bytes)
    (hc : Clean (b!"StrictHostKeyChecking=no") a s extra) :
    b!"StrictHostKeyChecking=no" ∈ buildOpenArgs a s extra ↔ s.strictKey = false := by
  obtain ⟨h1, h2, h3, h4, h5⟩ := hc
  have hp := fmtInt_ne_cons a.port 83 (b!"trictHostKeyChecking=no") (by decide) (by decide)
  rw [argv_identity]
  unfold head userPart strictPart cfgPart keyPart
  cases hs : s.strictKey <;> by_cases hu : a.user = [] <;> by_cases hk : s.knownHostsFile = [] <;>
    by_cases hcf : s.configFile = [] <;> by_cases hpk : s.privateKeyPath = [] <;>
    simp [*, Ne.symm h1, Ne.symm h2, Ne.symm h3, Ne.symm h4, Ne.symm hp]

example : Clean (b!"StrictHostKeyChecking=yes")
    { host := b!"r1", port := 22, user := b!"bob", timeoutNs := 30000000000 }
    { strictKey := true, knownHostsFile := b!"/k" } [b!"-v"] := by
  refine ⟨?_, ?_, ?_, ?_, ?_⟩ <;> decide

/-! ## the password never reaches the command line -/

/-- for every configuration, the argv does not depend on the password at all -/
theorem argv_password_independent (a : Args) (s : SSHArgs) (extra : List Bytes) (p : Bytes) :
    buildOpenArgs { a with password := p } s extra = buildOpenArgs a s extra := rfl

/-- `m` occurs in none of the other inputs nor in the fixed option syntax -/
def Marker (m : UInt8) (a : Args) (t : System) : Prop :=
  isOptionByte m = false ∧ m ∉ a.host ∧ m ∉ a.user ∧ m ∉ t.ssh.knownHostsFile ∧
  m ∉ t.ssh.configFile ∧ m ∉ t.ssh.privateKeyPath ∧ (∀ x ∈ t.extra, m ∉ x) ∧ (∀ x ∈ t.override, m ∉ x)

/-- the executable predicate the correspondence harness evaluates is that very domain -/
theorem marker_iff (m : UInt8) (a : Args) (t : System) : markerB m a t = true ↔ Marker m a t := by
  simp [markerB, Marker, and_assoc]

theorem buildOpenArgs_marker_free (a : Args) (s : SSHArgs) (extra : List Bytes) (m : UInt8)
    (hfix : isOptionByte m = false) (hh : m ∉ a.host) (hu : m ∉ a.user)
    (hkh : m ∉ s.knownHostsFile) (hcf : m ∉ s.configFile) (hpk : m ∉ s.privateKeyPath)
    (hx : ∀ x ∈ extra, m ∉ x) : ∀ e ∈ buildOpenArgs a s extra, m ∉ e := by
  have lit : ∀ l : Bytes, l.all isOptionByte = true → m ∉ l := fun l h => notin_of_all l h hfix
  have hint : ∀ i, m ∉ fmtInt i := fun i h => by
    have := fmtInt_bytes i m h; rw [hfix] at this; cases this
  have happ : ∀ l r : Bytes, m ∉ l → m ∉ r → m ∉ l ++ r := fun l r h1 h2 h =>
    (List.mem_append.mp h).elim h1 h2
  rw [argv_identity]
  intro e he
  simp only [List.mem_append] at he
  rcases he with ((((he | he) | he) | he) | he) | he
  · simp only [head, List.mem_cons, List.not_mem_nil, or_false] at he
    rcases he with rfl | rfl | rfl | rfl | rfl | rfl | rfl | rfl | rfl
    · exact hh
    · exact lit _ (by decide)
    · exact hint _
    · exact lit _ (by decide)
    · exact happ _ _ (lit _ (by decide)) (hint _)
    · exact lit _ (by decide)
    · exact happ _ _ (lit _ (by decide)) (hint _)
    · exact lit _ (by decide)
    · exact lit _ (by decide)
  · unfold userPart at he
    split at he
    · cases he
    · simp only [List.mem_cons, List.not_mem_nil, or_false] at he
      rcases he with rfl | rfl
      · exact lit _ (by decide)
      · exact hu
  · unfold strictPart at he
    split at he
    · split at he
      · simp only [List.mem_cons, List.not_mem_nil, or_false] at he
        rcases he with rfl | rfl <;> exact lit _ (by decide)
      · simp only [List.mem_cons, List.not_mem_nil, or_false] at he
        rcases he with rfl | rfl | rfl | rfl
        · exact lit _ (by decide)
        · exact lit _ (by decide)
        · exact lit _ (by decide)
        · exact happ _ _ (lit _ (by decide)) hkh
    · simp only [List.mem_cons, List.not_mem_nil, or_false] at he
      rcases he with rfl | rfl | rfl | rfl <;> exact lit _ (by decide)
  · unfold cfgPart at he
    simp only [List.mem_cons, List.not_mem_nil, or_false] at he
    rcases he with rfl | rfl
    · exact lit _ (by decide)
    · split
      · exact lit _ (by decide)
      · exact hcf
  · unfold keyPart at he
    split at he
    · cases he
    · simp only [List.mem_cons, List.not_mem_nil, or_false] at he
      rcases he with rfl | rfl
      · exact lit _ (by decide)
      · exact hpk
  · exact hx e he

/-- `argv_no_password`: whatever else is configured (including an argv override and NETCONF
mode), a password containing a byte that occurs in no other input and is not a letter, digit,
`-`, `=` or `/` is not contained in any argument of the spawned command. -/
theorem argv_no_password (a : Args) (t : System) (m : UInt8) (hm : m ∈ a.password)
    (hmk : Marker m a t) : ∀ e ∈ systemArgv a t, isInfix a.password e = false := by
  obtain ⟨hfix, hh, hu, hkh, hcf, hpk, hx, ho⟩ := hmk
  have base : ∀ e ∈ (if t.override ≠ [] then t.override else buildOpenArgs a t.ssh t.extra), m ∉ e := by
    split
    · exact ho
    · exact buildOpenArgs_marker_free a t.ssh t.extra m hfix hh hu hkh hcf hpk hx
  intro e he
  apply not_isInfix_of_marker hm
  unfold systemArgv at he
  simp only at he
  split at he
  · rcases List.mem_append.mp he with he | he
    · exact base e he
    · simp only [List.mem_cons, List.not_mem_nil, or_false] at he
      rcases he with rfl | rfl <;> exact notin_of_all _ (by decide) hfix
  · exact base e he

example : Marker 33 { host := b!"r1", port := 22, user := b!"bob", password := b!"pa!ss", timeoutNs := 0 }
    { ssh := { strictKey := true, knownHostsFile := b!"/k" }, extra := [b!"-v"] } := by
  refine ⟨by decide, by decide, by decide, by decide, by decide, by decide, by decide, by decide⟩

/-- without an override the spawned argv is `buildOpenArgs` (plus `-s netconf` for NETCONF) -/
theorem systemArgv_no_override (a : Args) (t : System) (h : t.override = []) :
    systemArgv a t = buildOpenArgs a t.ssh t.extra ++ (if t.ssh.netconf then [b!"-s", b!"netconf"] else []) := by
  unfold systemArgv
  cases hn : t.ssh.netconf <;> simp [h]

/-- `Open` refuses a key with a passphrase (unsupported) and an unusable key file; otherwise it
spawns `bin` with `systemArgv` -/
theorem systemOpen_table (a : Args) (t : System) (keyLoads : Bool) :
    systemOpen a t keyLoads =
      if t.ssh.privateKeyPath = [] then .ok (t.bin, systemArgv a t)
      else if t.ssh.privateKeyPassPhrase ≠ [] then .error .badOption
      else if keyLoads then .ok (t.bin, systemArgv a t) else .error .keyFile := by
  unfold systemOpen
  by_cases h1 : t.ssh.privateKeyPath = [] <;> by_cases h2 : t.ssh.privateKeyPassPhrase = [] <;>
    cases keyLoads <;> simp [*]

/-! ## standard (crypto/ssh) transport: the decision table -/

/-- `standard_policy`, error rows: strict checking without a known-hosts file is refused before
anything is dialled (whatever else is configured); an unloadable known-hosts file likewise. -/
theorem standard_strict_needs_known_hosts (a : Args) (s : SSHArgs) (khLoads keyLoads : Bool)
    (hs : s.strictKey = true) (hk : s.knownHostsFile = []) :
    standardCfg a s khLoads keyLoads = .error .badOption := by
  simp [standardCfg, hs, hk]

theorem standard_known_hosts_must_load (a : Args) (s : SSHArgs) (keyLoads : Bool)
    (hs : s.strictKey = true) (hk : s.knownHostsFile ≠ []) :
    standardCfg a s false keyLoads = .error .knownHostsFile := by
  simp [standardCfg, hs, hk]

/-- `standard_policy`, success rows: whenever `openBase` reaches `ssh.Dial`, the host-key policy
is the known-hosts file iff strict (and then the file is set and loaded), insecure iff not strict;
the address, user and timeout are the configured ones; the auth methods are the key (iff a key
path is set, first) followed by password and keyboard-interactive carrying the password (iff a
password is set) — and nothing else. -/
theorem standard_policy (a : Args) (s : SSHArgs) (khLoads keyLoads : Bool) (c : ClientCfg)
    (h : standardCfg a s khLoads keyLoads = .ok c) :
    c.policy = (if s.strictKey then .knownHosts s.knownHostsFile else .insecure) ∧
    (s.strictKey = true → s.knownHostsFile ≠ [] ∧ khLoads = true) ∧
    (s.privateKeyPath ≠ [] → keyLoads = true) ∧
    c.addr = a.host ++ b!":" ++ fmtInt a.port ∧ c.user = a.user ∧ c.timeoutNs = a.timeoutNs ∧
    c.auth = (if s.privateKeyPath = [] then [] else [.publicKey s.privateKeyPath]) ++
             (if a.password = [] then [] else [.password a.password, .keyboardInteractive a.password]) := by
  unfold standardCfg at h
  cases hs : s.strictKey <;> cases khLoads <;> cases keyLoads <;>
    by_cases hk : s.knownHostsFile = [] <;> by_cases hp : s.privateKeyPath = [] <;>
    by_cases hw : a.password = [] <;> simp [*] at h <;> subst h <;> simp [*]

/-- the policy is insecure only when strict checking was explicitly switched off -/
theorem standard_insecure_iff (a : Args) (s : SSHArgs) (khLoads keyLoads : Bool) (c : ClientCfg)
    (h : standardCfg a s khLoads keyLoads = .ok c) :
    c.policy = .insecure ↔ s.strictKey = false := by
  have := (standard_policy a s khLoads keyLoads c h).1
  rw [this]
  cases s.strictKey <;> simp

/-- totality of the table: `openBase` reaches `ssh.Dial` exactly when the files it needs load -/
theorem standard_cfg_ok_iff (a : Args) (s : SSHArgs) (khLoads keyLoads : Bool) :
    (∃ c, standardCfg a s khLoads keyLoads = .ok c) ↔
      (s.strictKey = true → s.knownHostsFile ≠ [] ∧ khLoads = true) ∧
      (s.privateKeyPath ≠ [] → keyLoads = true) := by
  unfold standardCfg
  cases hs : s.strictKey <;> cases khLoads <;> cases keyLoads <;>
    by_cases hk : s.knownHostsFile = [] <;> by_cases hp : s.privateKeyPath = [] <;> simp [*]

/-- `standard_strict_sound` — the property's first sentence for the standard transport: a
connection is established under strict checking only if a known-hosts file is configured, loads,
and the known-hosts database says the server's key matches. -/
theorem standard_strict_sound (a : Args) (s : SSHArgs) (khLoads keyLoads : Bool) (v : KhVerdict)
    (acc : AuthMethod → Bool) (u : Bytes) (m : AuthMethod)
    (h : standardOpen a s khLoads keyLoads v acc = .established u m) (hs : s.strictKey = true) :
    s.knownHostsFile ≠ [] ∧ khLoads = true ∧ v = .matches := by
  unfold standardOpen at h
  split at h
  · cases h
  · rename_i cfg hc
    obtain ⟨hpol, hkh, -⟩ := standard_policy a s khLoads keyLoads cfg hc
    refine ⟨(hkh hs).1, (hkh hs).2, ?_⟩
    rw [hpol, hs] at h
    cases v <;> simp [hostKeyAccepted] at h <;> rfl

/-- … and, established or not, the identity used is the configured one: the user is the
configured user and the credential that got in is one built from the configured key path or
password and accepted by the server. -/
theorem standard_identity (a : Args) (s : SSHArgs) (khLoads keyLoads : Bool) (v : KhVerdict)
    (acc : AuthMethod → Bool) (u : Bytes) (m : AuthMethod)
    (h : standardOpen a s khLoads keyLoads v acc = .established u m) :
    u = a.user ∧ acc m = true ∧
    (m = .publicKey s.privateKeyPath ∧ s.privateKeyPath ≠ [] ∨
     (m = .password a.password ∨ m = .keyboardInteractive a.password) ∧ a.password ≠ []) := by
  unfold standardOpen at h
  split at h
  · cases h
  · rename_i cfg hc
    obtain ⟨-, -, -, -, hu, -, hauth⟩ := standard_policy a s khLoads keyLoads cfg hc
    split at h
    · cases h
    · split at h
      · rename_i m' hf
        injection h with h1 h2
        subst h1 h2
        have hacc := List.find?_some hf
        have hmem := List.mem_of_find?_eq_some hf
        rw [hauth] at hmem
        refine ⟨hu, hacc, ?_⟩
        by_cases hp : s.privateKeyPath = [] <;> by_cases hw : a.password = [] <;>
          simp only [hp, hw, if_true, if_false, List.append_nil, List.nil_append, List.cons_append,
            List.mem_cons, List.not_mem_nil, or_false] at hmem
        · exact .inr ⟨hmem, hw⟩
        · exact .inl ⟨hmem, hp⟩
        · rcases hmem with h | h
          · exact .inl ⟨h, hp⟩
          · exact .inr ⟨h, hw⟩
      · cases h

/-- not strict: the verdict of the known-hosts database is irrelevant -/
theorem standard_not_strict_ignores_verdict (a : Args) (s : SSHArgs) (khLoads keyLoads : Bool)
    (v v' : KhVerdict) (acc : AuthMethod → Bool) (hs : s.strictKey = false) :
    standardOpen a s khLoads keyLoads v acc = standardOpen a s khLoads keyLoads v' acc := by
  unfold standardOpen
  split
  · rfl
  · rename_i cfg hc
    have := (standard_policy a s khLoads keyLoads cfg hc).1
    simp [this, hs, hostKeyAccepted]

example : standardOpen { host := b!"r1", port := 22, user := b!"bob", password := b!"pw", timeoutNs := 0 }
    { strictKey := true, knownHostsFile := b!"/k" } true true .matches (fun _ => true)
    = .established (b!"bob") (.password (b!"pw")) := by decide

/-- everything `openBase` configures except the auth methods is independent of the password:
the password reaches the server only inside the authentication exchange -/
theorem standard_password_only_in_auth (a : Args) (s : SSHArgs) (khLoads keyLoads : Bool) (p : Bytes) :
    (standardCfg { a with password := p } s khLoads keyLoads).map (fun c => { c with auth := [] }) =
    (standardCfg a s khLoads keyLoads).map (fun c => { c with auth := [] }) := by
  unfold standardCfg
  cases s.strictKey <;> cases khLoads <;> cases keyLoads <;>
    by_cases hk : s.knownHostsFile = [] <;> by_cases hp : s.privateKeyPath = [] <;>
    simp [*, Except.map]

/-- no credential (key, password, keyboard-interactive answer) is offered to a server whose host
key was not accepted under strict checking -/
theorem no_credentials_before_host_key (a : Args) (s : SSHArgs) (khLoads keyLoads : Bool)
    (v : KhVerdict) (acc : AuthMethod → Bool) (hs : s.strictKey = true) (hv : v ≠ .matches) :
    standardAttempts a s khLoads keyLoads v acc = [] := by
  unfold standardAttempts
  split
  · rfl
  · rename_i cfg hc
    have := (standard_policy a s khLoads keyLoads cfg hc).1
    rw [this, hs]
    cases v <;> simp [hostKeyAccepted] at hv ⊢

/-! ## connections in sequence: no history -/

/-- `standard_no_history`: in any run of connections opened one after the other by one process,
the outcome of connection `n` is `standardConn` of connection `n`'s own inputs (its configuration,
what its known-hosts path holds at that time, what the server accepts) … -/
theorem standard_no_history (h : List Conn) (n : Nat) :
    (standardHistory h)[n]? = (h[n]?).map standardConn := by
  simp [standardHistory]

/-- … hence two runs that agree on connection `n` agree on its outcome, whatever came before or
comes after (other files, the same path with other content, other drivers) -/
theorem standard_no_history_indep (h h' : List Conn) (n : Nat) (hn : h[n]? = h'[n]?) :
    (standardHistory h)[n]? = (standardHistory h')[n]? := by
  rw [standard_no_history, standard_no_history, hn]

/-- the property's first sentence for every connection of a run: established under strict
checking only if the configured file, as it is when that connection is opened, loads and holds
the server's key -/
theorem standard_history_strict_sound (h : List Conn) (n : Nat) (c : Conn) (u : Bytes) (m : AuthMethod)
    (hc : h[n]? = some c) (he : (standardHistory h)[n]? = some (.established u m))
    (hs : c.s.strictKey = true) :
    c.s.knownHostsFile ≠ [] ∧ c.kh = .holds .matches := by
  rw [standard_no_history, hc] at he
  simp only [Option.map_some, Option.some.injEq] at he
  obtain ⟨h1, h2, h3⟩ := standard_strict_sound c.a c.s c.kh.loads c.keyLoads c.kh.verdict c.accepts u m he hs
  refine ⟨h1, ?_⟩
  cases hk : c.kh with
  | missing => simp [hk, KhContent.loads] at h2
  | malformed => simp [hk, KhContent.loads] at h2
  | holds v => simp [hk, KhContent.verdict] at h3; rw [h3]

example : standardHistory
    [ { a := { host := b!"r1", port := 22, password := b!"pw", timeoutNs := 0 },
        s := { strictKey := true, knownHostsFile := b!"/k" }, kh := .holds .matches, keyLoads := true,
        accepts := fun _ => true },
      { a := { host := b!"r1", port := 22, password := b!"pw", timeoutNs := 0 },
        s := { strictKey := true, knownHostsFile := b!"/k" }, kh := .holds .mismatch, keyLoads := true,
        accepts := fun _ => true } ]
    = [.established [] (.password (b!"pw")), .hostKeyRejected] := by decide

/-! ## the rest of the public surface: spawn failure, file options, in-channel credentials -/

/-- a binary that cannot be started changes nothing but the result: `Open` fails, otherwise the
very same `(bin, argv)` is spawned -/
theorem systemOpenSpawn_table (a : Args) (t : System) (keyLoads binRuns : Bool) :
    systemOpenSpawn a t keyLoads binRuns =
      match systemOpen a t keyLoads with
      | .error e => .error e
      | .ok r => if binRuns then .ok r else .error .spawn := by
  unfold systemOpenSpawn
  cases systemOpen a t keyLoads <;> rfl

/-- `resolve_file_option`: the option table of `WithSSHKnownHostsFile[System]` /
`WithSSHConfigFile[System]`: nothing configured without the option; an explicit path is taken
iff it resolves and is otherwise an error (no driver, hence no connection); the system variant
prefers the user's file over the system-wide one and is an error when neither exists. -/
theorem resolve_file_option (home etc : Bytes) (o : FileOpt) :
    resolveFileOpt home etc o =
      match o with
      | .none => .ok []
      | .path p true => .ok p
      | .path _ false => .error .fileNotFound
      | .system true _ => .ok home
      | .system false true => .ok etc
      | .system false false => .error .badOption := by
  cases o with
  | none => rfl
  | path p f => cases f <;> rfl
  | system h e => cases h <;> cases e <;> rfl

/-- a resolved file is one the caller named or one of the two well-known locations — never
anything else -/
theorem resolve_file_option_sound (home etc r : Bytes) (o : FileOpt) (h : resolveFileOpt home etc o = .ok r) :
    r = [] ∧ o = .none ∨ (∃ p, o = .path p true ∧ r = p) ∨ (∃ e, o = .system true e ∧ r = home) ∨
      (o = .system false true ∧ r = etc) := by
  cases o with
  | none => simp [resolveFileOpt] at h; exact .inl ⟨h, rfl⟩
  | path p f =>
    cases f <;> simp [resolveFileOpt] at h
    exact .inr (.inl ⟨p, rfl, h.symm⟩)
  | system hh e =>
    cases hh <;> cases e <;> simp [resolveFileOpt] at h
    · exact .inr (.inr (.inr ⟨rfl, h.symm⟩))
    · exact .inr (.inr (.inl ⟨false, rfl, h.symm⟩))
    · exact .inr (.inr (.inl ⟨true, rfl, h.symm⟩))

/-- the standard transport hands the channel no credential: the password can reach the server
only through the authentication exchange configured by `standardCfg` -/
theorem standard_no_in_channel_credentials (a : Args) (s : SSHArgs) :
    inChannelAuthData .standard a s = { type := .unsupported, user := [], password := [], passphrase := [] } := rfl

/-- the system transport hands the channel exactly the configured user, password and passphrase
(to be typed at ssh's own prompts on the pty, never put on the command line: `argv_no_password`) -/
theorem system_in_channel_identity (a : Args) (s : SSHArgs) :
    inChannelAuthData .system a s =
      { type := .ssh, user := a.user, password := a.password, passphrase := s.privateKeyPassPhrase } := rfl

/-! ## the configured identity is the one used -/

/-- obligation on the regenerated facts about `openBase`: the auth-method list is declared once
and from then on only ever extended by `authMethods = append(authMethods, …)` — the key under
`PrivateKeyPath != ""` first, password and keyboard-interactive under `Password != ""` second —
and it is what the client configuration's `Auth` is set to.  (An assignment that replaces the
list, a reordering, a dropped method or another guard makes this fail.) -/
theorem auth_methods_source_shape :
    Gen.SshAuth.found = true ∧
    Gen.SshAuth.authWrites = [b!"define", b!"append-self", b!"append-self"] ∧
    Gen.SshAuth.authAppends =
      [(b!"t.SSHArgs.PrivateKeyPath != \"\"", [b!"PublicKeys"]),
       (b!"a.Password != \"\"", [b!"Password", b!"KeyboardInteractive"])] ∧
    Gen.SshAuth.authUsed = true := by decide

/-- `offered_methods_spec`: whenever `openBase` reaches `ssh.Dial`, the methods it configures are
`configuredMethods` of the configuration -/
theorem offered_methods_spec (a : Args) (s : SSHArgs) (khLoads keyLoads : Bool) (c : ClientCfg)
    (h : standardCfg a s khLoads keyLoads = .ok c) : c.auth = configuredMethods a s := by
  have := (standard_policy a s khLoads keyLoads c h).2.2.2.2.2.2
  rw [this]
  unfold configuredMethods
  by_cases hp : s.privateKeyPath = [] <;> by_cases hw : a.password = [] <;> simp [hp, hw]

/-- a configured key is part of the identity whatever the password setting, and it comes first -/
theorem key_configured_is_offered_first (a : Args) (s : SSHArgs) (hk : s.privateKeyPath ≠ []) :
    (configuredMethods a s).head? = some (.publicKey s.privateKeyPath) ∧
    ∀ p, AuthMethod.publicKey s.privateKeyPath ∈ configuredMethods { a with password := p } s := by
  unfold configuredMethods
  refine ⟨by simp [hk], fun p => by simp [hk]⟩

/-- a configured password is part of the identity whatever the key setting -/
theorem password_configured_is_offered (a : Args) (s : SSHArgs) (hw : a.password ≠ []) :
    AuthMethod.password a.password ∈ configuredMethods a s ∧
    AuthMethod.keyboardInteractive a.password ∈ configuredMethods a s := by
  unfold configuredMethods
  by_cases hp : s.privateKeyPath = [] <;> simp [hp, hw]

theorem attemptsUntil_head (acc : AuthMethod → Bool) (m : AuthMethod) (t : List AuthMethod) :
    (attemptsUntil acc (m :: t)).head? = some m := by
  unfold attemptsUntil; split <;> rfl

/-- against a server on which every method is available, a connection that gets past the host
key offers the configured key first — with or without a password configured — and when the server
accepts that key the connection is established WITH the key -/
theorem key_is_used (a : Args) (s : SSHArgs) (keyLoads khLoads : Bool) (v : KhVerdict)
    (acc : AuthMethod → Bool) (c : ClientCfg) (hk : s.privateKeyPath ≠ [])
    (hc : standardCfg a s khLoads keyLoads = .ok c) (hv : hostKeyAccepted c.policy v = true) :
    (standardOpenP a s khLoads keyLoads v (.anyOf acc)).2.head? = some (.publicKey s.privateKeyPath) ∧
    (acc (.publicKey s.privateKeyPath) = true →
      (standardOpenP a s khLoads keyLoads v (.anyOf acc)).1 = .established a.user (.publicKey s.privateKeyPath)) := by
  have hauth := offered_methods_spec a s khLoads keyLoads c hc
  have huser := (standard_policy a s khLoads keyLoads c hc).2.2.2.2.1
  have hcons : ∃ t, c.auth = .publicKey s.privateKeyPath :: t := by
    rw [hauth]; unfold configuredMethods; simp [hk]
  obtain ⟨t, ht⟩ := hcons
  unfold standardOpenP
  simp only [hc, hv, Bool.not_true, Bool.false_eq_true, if_false, authRun, ht]
  constructor
  · cases hf : List.find? acc (AuthMethod.publicKey s.privateKeyPath :: t) <;>
      simp [attemptsUntil_head]
  · intro hacc
    simp [List.find?, hacc, huser]

/-- the connection is established iff the server accepts one of the configured credentials
(every method available), and then with the first configured one it accepts -/
theorem established_iff_configured_credential_accepted (a : Args) (s : SSHArgs) (keyLoads khLoads : Bool)
    (v : KhVerdict) (acc : AuthMethod → Bool) (c : ClientCfg)
    (hc : standardCfg a s khLoads keyLoads = .ok c) (hv : hostKeyAccepted c.policy v = true) :
    ((∃ m, (standardOpenP a s khLoads keyLoads v (.anyOf acc)).1 = .established a.user m) ↔
      ∃ m ∈ configuredMethods a s, acc m = true) := by
  have hauth := offered_methods_spec a s khLoads keyLoads c hc
  have huser := (standard_policy a s khLoads keyLoads c hc).2.2.2.2.1
  unfold standardOpenP
  simp only [hc, hv, Bool.not_true, Bool.false_eq_true, if_false, authRun, hauth]
  cases hf : List.find? acc (configuredMethods a s) with
  | none =>
    simp only [reduceCtorEq, exists_false, false_iff]
    rintro ⟨m, hm, ha⟩
    have := List.find?_eq_none.mp hf m hm
    simp [ha] at this
  | some m =>
    simp only [huser]
    exact ⟨fun _ => ⟨m, List.mem_of_find?_eq_some hf, List.find?_some hf⟩, fun _ => ⟨m, rfl⟩⟩

/-- the one-step policy of `standardOpenP` is `standardOpen` / `standardAttempts` -/
theorem standardOpenP_anyOf (a : Args) (s : SSHArgs) (khLoads keyLoads : Bool) (v : KhVerdict)
    (acc : AuthMethod → Bool) :
    standardOpenP a s khLoads keyLoads v (.anyOf acc) =
      (standardOpen a s khLoads keyLoads v acc, standardAttempts a s khLoads keyLoads v acc) := by
  unfold standardOpenP standardOpen standardAttempts
  cases hc : standardCfg a s khLoads keyLoads with
  | error e => rfl
  | ok cfg =>
    simp only [authRun]
    cases hh : hostKeyAccepted cfg.policy v <;> simp
    cases hf : List.find? acc cfg.auth <;> simp

/-- two-step server (key, then password): the connection is established iff both are configured
and both are good; the key is offered whenever it is configured, the password only after the key
was accepted -/
theorem key_then_password (a : Args) (s : SSHArgs) (keyLoads khLoads : Bool) (v : KhVerdict)
    (keyOk pwOk : Bool) (c : ClientCfg)
    (hc : standardCfg a s khLoads keyLoads = .ok c) (hv : hostKeyAccepted c.policy v = true) :
    standardOpenP a s khLoads keyLoads v (.keyThenPassword keyOk pwOk) =
      if s.privateKeyPath = [] then (.authFailed, [])
      else if keyOk = false then (.authFailed, [.publicKey s.privateKeyPath])
      else if a.password = [] then (.authFailed, [.publicKey s.privateKeyPath])
      else if pwOk then (.established a.user (.password a.password), [.publicKey s.privateKeyPath, .password a.password])
      else (.authFailed, [.publicKey s.privateKeyPath, .password a.password]) := by
  have hauth := offered_methods_spec a s khLoads keyLoads c hc
  have huser := (standard_policy a s khLoads keyLoads c hc).2.2.2.2.1
  unfold standardOpenP
  simp only [hc, hv, Bool.not_true, Bool.false_eq_true, if_false, authRun, hauth, huser]
  unfold configuredMethods
  by_cases hp : s.privateKeyPath = [] <;> by_cases hw : a.password = [] <;>
    cases keyOk <;> cases pwOk <;>
    simp [hp, hw, List.find?, AuthMethod.isPublicKey, AuthMethod.isPassword]

/-! ## the host key is looked up under the configured host and port -/

/-- the two spellings of "configured host, configured port" the source may use -/
def allowedHostNameArgs : List Bytes :=
  [b!"Dial: fmt.Sprintf(\"%s:%d\", a.Host, a.Port)",
   b!"Dial: net.JoinHostPort(a.Host, strconv.Itoa(a.Port))"]

/-- obligation on the regenerated fact: the standard transport creates its ssh client in exactly
one place, and the address it passes (which crypto/ssh hands to the host-key callback as the
lookup name) is the configured `Host:Port` expression — not a resolved peer address -/
theorem host_name_argument_is_configured :
    Gen.SshDial.hostNameArgs.length = 1 ∧
    Gen.SshDial.hostNameArgs.all (fun x => allowedHostNameArgs.contains x) = true := by decide

/-- `knownhosts_lookup_uses_configured_host`: the name under which the known-hosts file is
searched is `host:port` as configured — a function of the configured host and port only: it does
not depend on the address the name resolved to, nor on any other part of the configuration -/
theorem knownhosts_lookup_uses_configured_host (a : Args) (s : SSHArgs) (khLoads keyLoads : Bool)
    (c : ClientCfg) (h : standardCfg a s khLoads keyLoads = .ok c) (peer : Bytes) :
    hostKeyLookupName c peer = a.host ++ b!":" ++ fmtInt a.port ∧
    (∀ peer', hostKeyLookupName c peer' = hostKeyLookupName c peer) ∧
    (∀ (a' : Args) (s' : SSHArgs) (kl kl' : Bool) (c' : ClientCfg),
      standardCfg a' s' kl kl' = .ok c' → a'.host = a.host → a'.port = a.port →
      hostKeyLookupName c' peer = hostKeyLookupName c peer) := by
  have hc := (standard_policy a s khLoads keyLoads c h).2.2.2.1
  refine ⟨hc, fun _ => rfl, ?_⟩
  intro a' s' kl kl' c' h' hh hp
  have hc' := (standard_policy a' s' kl kl' c' h').2.2.2.1
  show c'.addr = c.addr
  rw [hc, hc', hh, hp]

/-! ## which file a configured path names -/

/-- obligation on the regenerated fact about `util.ResolveFilePath`: it stats exactly twice, first
the path as given (before any rewriting of it), then the rewritten (home-relative) one -/
theorem resolve_file_path_source_order :
    Gen.ResolveFile.found = true ∧ Gen.ResolveFile.statOrder = [b!"as-given", b!"rewritten"] := by decide

/-- `resolve_path_as_given_first`: an existing configured file is the one used, whatever lies
under the home directory; the home-relative reading is only a fallback, and without either there
is no driver at all -/
theorem resolve_path_as_given_first (home f : Bytes) (underHome : Bool) :
    resolvePath home f true underHome = .ok f ∧
    resolvePath home f false true = .ok (home ++ b!"/" ++ trimPrefix f (b!"~/")) ∧
    resolvePath home f false false = .error .fileNotFound := by
  cases underHome <;> simp [resolvePath]

end Scrapli.SshCfg.C14
