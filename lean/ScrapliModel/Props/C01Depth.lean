import ScrapliModel.Props.C01
import ScrapliModel.Lemmas.ChannelDepth
import ScrapliModel.Generated.Patterns
/-!
# C01 — independence of the prompt search depth

C01 quantifies over "any prompt search depth larger than the prompt and the longest output line
(so the search window always starts at a line boundary)". `Props/C01.lean` carries that quantifier
through a per-exchange hypothesis (`WellFormed`, evaluated at the depth of the case). Here the
quantifier is discharged by theorems:

* the prompt matcher of the source (`Gen.Rx.Channel.promptPattern`, `(?im)^…[#>$]\s*$`) looks at
  lines independently (`LineLocal`), and so does `bytes.Contains(·, cmd)` (exact input matching);
* with a depth larger than every line (`NoLongLine`) the lines of the search window are a suffix of
  the lines of the buffer that contains its last line (`window_lines`);
* hence a line-local predicate gives the same verdict on the window as on the whole buffer (depth
  = ∞) as long as no text preceding a line feed already satisfied it (`QuietBeforeLF`, implied by
  the property's "proper prefixes never look like a prompt"), for *every* such depth;
* lifted to `ExactAt`, `readUntil`, `WellFormed` and whole sessions (`sendCommands_exact_any_depth`).

Counter-examples (closed by evaluation) show each hypothesis is needed, and that the fuzzy input
matcher (subsequence test, not line-local) is *not* depth independent even when `NoLongLine` holds.
-/
namespace Scrapli.Chan.C01
open Scrapli Scrapli.Chan

/-! ## line-local predicates -/

/-- `P` looks at the lines of a text independently: it holds of a text iff some line satisfies a
per-line test. -/
def LineLocal (P : Bytes → Bool) : Prop := ∃ L : Bytes → Bool, ∀ s, P s = (splitLF s).any L

/-- the per-line test of a line-local predicate is the predicate itself -/
theorem lineLocal_iff_self (P : Bytes → Bool) : LineLocal P ↔ ∀ s, P s = (splitLF s).any P :=
  ⟨fun ⟨_, hL⟩ => lineLocal_self hL, fun h => ⟨P, h⟩⟩

/-! ### the prompt pattern of the source is line-local -/

private def catL : Rx.Re → Rx.Re | .cat a _ => a | _ => .fail
private def catR : Rx.Re → Rx.Re | .cat _ b => b | _ => .fail

/-- `[a-z\d.\-@()/:]{1,48}` as it stands in the regenerated term -/
def promptHead : Rx.Re := catL (catR Gen.Rx.Channel.promptPattern)
/-- `[#>$]` as it stands in the regenerated term -/
def promptEnd : Rx.Re := catL (catR (catR Gen.Rx.Channel.promptPattern))

/-- `\s` as Go's parser renders it (it contains the line feed) -/
abbrev wsClass : List (Nat × Nat) := [(9, 10), (12, 13), (32, 32)]
/-- `\s` without the line feed -/
abbrev wsClassNoLF : List (Nat × Nat) := [(9, 9), (12, 13), (32, 32)]

/-- the body of the equivalent single-line pattern `(?m)^(head end [\t\f\r ]*)$` -/
def promptBody : Rx.Re := .cat promptHead (.cat promptEnd (.star (.cls wsClassNoLF) true))

/-- Shape of the regenerated default prompt pattern: `(?m)^ head end \s* $`. It is *not* of the
form `^body$` with a body unable to consume a line feed: the trailing `\s*` can. -/
theorem promptPattern_shape :
    Gen.Rx.Channel.promptPattern =
      .cat .bol (.cat promptHead (.cat promptEnd (.cat (.star (.cls wsClass) true) .eol))) := rfl

/-- the equivalent body cannot consume a line feed and has no text anchor -/
theorem promptBody_line : promptBody.noLF = true ∧ promptBody.noTextAnchor = true := by
  constructor <;> decide +kernel

/-- the prompt pattern matches exactly the texts the single-line pattern matches (a match is cut at
the first line feed the trailing `\s*` would swallow) -/
theorem promptPattern_eq_line (s : Bytes) :
    Rx.isMatch Gen.Rx.Channel.promptPattern s = Rx.isMatch (.cat .bol (.cat promptBody .eol)) s := by
  rw [promptPattern_shape]
  apply Rx.isMatch_trailing_ws
  · intro r h
    simp only [Rx.inRanges, Bool.or_eq_true, Bool.and_eq_true,
      decide_eq_true_eq, Bool.or_false] at h ⊢
    omega
  · intro r h h10
    simp only [Rx.inRanges, Bool.or_eq_true, Bool.and_eq_true,
      decide_eq_true_eq, Bool.or_false] at h ⊢
    omega

/-- **The default prompt matcher is line-local**: `PromptPattern.Match(b)` holds iff it holds of
one of the lines of `b` taken alone. -/
theorem promptPattern_lineLocal :
    LineLocal (fun s => Rx.isMatch Gen.Rx.Channel.promptPattern s) := by
  refine ⟨fun l => Rx.isMatch Gen.Rx.Channel.promptPattern l, fun s => ?_⟩
  rw [Bool.eq_iff_iff, List.any_eq_true]
  simp only [promptPattern_eq_line]
  exact Rx.isMatch_line_iff promptBody_line.1 promptBody_line.2 s

/-- the prompt pattern does not match the empty text (it needs a name byte and a terminator) -/
theorem promptPattern_empty : Rx.isMatch Gen.Rx.Channel.promptPattern [] = false := by
  decide +kernel

/-- three lines `ab` / `r1#` / `` : the middle one is a prompt, so the text matches -/
example : Rx.isMatch Gen.Rx.Channel.promptPattern [97, 98, 10, 114, 49, 35, 10] = true ∧
    (splitLF [97, 98, 10, 114, 49, 35, 10]).any (Rx.isMatch Gen.Rx.Channel.promptPattern) = true ∧
    Rx.isMatch Gen.Rx.Channel.promptPattern [97, 98, 10, 114, 32, 35] = false := by
  refine ⟨?_, ?_, ?_⟩ <;> decide +kernel

/-- **Exact input matching is line-local**: `bytes.Contains(b, cmd)` for a command without line
feed holds iff one line of `b` contains the command. -/
theorem contains_lineLocal (cmd : Bytes) (hne : cmd ≠ []) (hlf : LF ∉ cmd) :
    LineLocal (isInfix cmd) :=
  ⟨isInfix cmd, fun s => isInfix_lines cmd hne hlf s.length s (Nat.le_refl _)⟩

theorem contains_empty (cmd : Bytes) (hne : cmd ≠ []) : isInfix cmd [] = false := by
  cases cmd with
  | nil => exact absurd rfl hne
  | cons a t => rfl

/-- The fuzzy matcher is **not** line-local: `sh` is a subsequence of `s⏎h` but of none of its
lines. -/
example : roughlyContains [115, 104] [115, 10, 104] = true ∧
    (splitLF [115, 10, 104]).any (roughlyContains [115, 104]) = false := by decide

/-! ## `NoLongLine` and `QuietBeforeLF` -/

theorem noLongLine_iff_bounded (rb : Bytes) (d : Nat) :
    NoLongLine rb d ↔ ∀ i, i < rb.length + 1 → i + d ≤ rb.length → LF ∈ (rb.drop i).take d :=
  ⟨fun h i _ hi => h i hi, fun h i hi => h i (by omega) hi⟩

instance (rb : Bytes) (d : Nat) : Decidable (NoLongLine rb d) :=
  decidable_of_iff _ (noLongLine_iff_bounded rb d).symm

/-- a depth larger than every line of a text is larger than every line of its prefixes -/
theorem noLongLine_take (S : Bytes) (d k : Nat) (h : NoLongLine S d) : NoLongLine (S.take k) d := by
  intro i hi
  rw [List.length_take] at hi
  have := h i (by omega)
  rw [List.drop_take, List.take_take, Nat.min_eq_left (by omega)]
  exact this

/-- … and so is every larger depth -/
theorem noLongLine_mono (S : Bytes) (d d' : Nat) (h : NoLongLine S d) (hd : d ≤ d') :
    NoLongLine S d' := by
  intro i hi
  have := h i (by omega)
  have e : ((S.drop i).take d').take d = (S.drop i).take d := by
    rw [List.take_take, Nat.min_eq_left hd]
  rw [← e] at this
  exact List.mem_of_mem_take this

/-- No text that precedes a line feed of `S` satisfies `P`: the line-level reading of "proper
prefixes of the output never look like a prompt" (only prefixes that end where a line ends matter).
Weaker than the second half of `ExactAt P S`. -/
def QuietBeforeLF (P : Bytes → Bool) (S : Bytes) : Prop :=
  ∀ k, k < S.length → S[k]? = some LF → P (S.take k) = false

instance (P : Bytes → Bool) (S : Bytes) : Decidable (QuietBeforeLF P S) := by
  unfold QuietBeforeLF; exact inferInstance

theorem quietBeforeLF_of_exactAt (P : Bytes → Bool) (S : Bytes) (h : ExactAt P S) :
    QuietBeforeLF P S := fun k hk _ => h.2 k hk

theorem quietBeforeLF_take (P : Bytes → Bool) (S : Bytes) (k : Nat) (h : QuietBeforeLF P S) :
    QuietBeforeLF P (S.take k) := by
  intro j hj hlf
  rw [List.length_take] at hj
  rw [List.getElem?_take] at hlf
  have hjk : j < k := by omega
  simp only [hjk, if_true] at hlf
  rw [List.take_take, Nat.min_eq_left (by omega)]
  exact h j (by omega) hlf

/-- for a line-local predicate: no complete line (= no line but the last) satisfies it -/
theorem quietBeforeLF_lines (P : Bytes → Bool) (hL : LineLocal P) (pre rest : Bytes)
    (h : QuietBeforeLF P (pre ++ LF :: rest)) : ∀ l ∈ splitLF pre, P l = false := by
  have hP := (lineLocal_iff_self P).mp hL
  have := h pre.length (by simp) (by simp)
  rw [List.take_left' rfl, hP pre, List.any_eq_false] at this
  intro l hl
  simpa using this l hl

/-! ## the lines of the search window -/

/-- With a depth larger than every line the window is the whole buffer, or its lines are one empty
line (the window starts *at* the line feed) followed by a non-empty proper suffix of the lines of the
buffer. -/
theorem window_lines (rb : Bytes) (d : Nat) (h : NoLongLine rb d) :
    window rb d = rb ∨
    ∃ k, 0 < k ∧ k < (splitLF rb).length ∧ splitLF (window rb d) = [] :: (splitLF rb).drop k := by
  rcases window_starts_at_line_boundary rb d h with h | ⟨pre, rest, hrb, hw⟩
  · exact .inl h
  · right
    rw [hw, hrb]
    obtain ⟨h1, h2, h3⟩ := splitLF_cut pre rest
    exact ⟨_, h2, h3, h1⟩

/-- in particular the window always contains the last line of the buffer, whole -/
theorem window_last_line (rb : Bytes) (d : Nat) (h : NoLongLine rb d) :
    lastLine (window rb d) = lastLine rb := by
  rcases window_starts_at_line_boundary rb d h with h | ⟨pre, rest, hrb, hw⟩
  · rw [h]
  · rw [hw, hrb, lastLine_append_LF]
    exact lastLine_append_LF [] rest

/-- `ab⏎cd⏎r#` at depths 4 and 6: windows `⏎r#` and `⏎cd⏎r#`, i.e. the lines of the buffer from
the 3rd resp. 2nd on, after one empty line; at depth 20 the whole buffer -/
example : NoLongLine [97, 98, 10, 99, 100, 10, 114, 35] 4 ∧
    NoLongLine [97, 98, 10, 99, 100, 10, 114, 35] 6 ∧
    splitLF (window [97, 98, 10, 99, 100, 10, 114, 35] 4)
      = [] :: (splitLF [97, 98, 10, 99, 100, 10, 114, 35]).drop 2 ∧
    splitLF (window [97, 98, 10, 99, 100, 10, 114, 35] 6)
      = [] :: (splitLF [97, 98, 10, 99, 100, 10, 114, 35]).drop 1 ∧
    window [97, 98, 10, 99, 100, 10, 114, 35] 20 = [97, 98, 10, 99, 100, 10, 114, 35] := by
  decide +kernel

/-- `NoLongLine` is needed: `hello world#` at depth 6 gives the window `world#`, which is not a
suffix of the buffer's lines: the line is cut in the middle -/
example : ¬ NoLongLine [104, 101, 108, 108, 111, 32, 119, 111, 114, 108, 100, 35] 6 ∧
    splitLF (window [104, 101, 108, 108, 111, 32, 119, 111, 114, 108, 100, 35] 6)
      = [[119, 111, 114, 108, 100, 35]] ∧
    splitLF [104, 101, 108, 108, 111, 32, 119, 111, 114, 108, 100, 35]
      = [[104, 101, 108, 108, 111, 32, 119, 111, 114, 108, 100, 35]] := by
  decide +kernel

/-! ## verdict of a line-local predicate on the window -/

/-- shrinking the depth never creates a match: what a line-local predicate finds in the window it
finds in the buffer -/
theorem window_pred_le (P : Bytes → Bool) (hL : LineLocal P) (h0 : P [] = false) (rb : Bytes)
    (d : Nat) (h : NoLongLine rb d) (hw : P (window rb d) = true) : P rb = true := by
  have hP := (lineLocal_iff_self P).mp hL
  rcases window_starts_at_line_boundary rb d h with h | ⟨pre, rest, hrb, hwin⟩
  · rwa [h] at hw
  · rw [hwin, lineLocal_suffix hP h0] at hw
    rw [hrb, lineLocal_append hP, hw, Bool.or_true]

/-- **Depth independence of one test.** For a line-local predicate and a buffer in which no text
preceding a line feed satisfies it, the verdict on the search window is the verdict on the whole
buffer (search depth = ∞), for every depth larger than every line. -/
theorem window_pred_eq (P : Bytes → Bool) (hL : LineLocal P) (h0 : P [] = false) (rb : Bytes)
    (d : Nat) (h : NoLongLine rb d) (hq : QuietBeforeLF P rb) : P (window rb d) = P rb := by
  have hP := (lineLocal_iff_self P).mp hL
  rcases window_starts_at_line_boundary rb d h with h | ⟨pre, rest, hrb, hwin⟩
  · rw [h]
  · have hpre : P pre = false := by
      have := hq pre.length (by rw [hrb]; simp) (by rw [hrb]; simp)
      rwa [hrb, List.take_left' rfl] at this
    rw [hwin, lineLocal_suffix hP h0, hrb, lineLocal_append hP, hpre, Bool.false_or]

/-- … and that verdict is the per-line test on the last line of the buffer: the prompt is found iff
the last line received so far is a prompt. Equal for all admissible depths, and equal to the
verdict at depth ∞. -/
theorem promptPred_depth_independent_last_line (P : Bytes → Bool) (hL : LineLocal P)
    (h0 : P [] = false) (rb : Bytes) (hq : QuietBeforeLF P rb) :
    P rb = P (lastLine rb) ∧
    ∀ d, NoLongLine rb d → P (window rb d) = P (lastLine rb) := by
  have hP := (lineLocal_iff_self P).mp hL
  have hlast : P rb = P (lastLine rb) := by
    apply lineLocal_eq_last hP
    intro l hl
    have hne := Rx.splitLF_ne_nil' rb
    by_cases hlf : LF ∈ rb
    · -- cut at the last line feed
      obtain ⟨a, b, hab, hb⟩ := List.eq_append_cons_of_mem (List.mem_reverse.mpr hlf)
      have hrb : rb = b.reverse ++ LF :: a.reverse := by
        have := congrArg List.reverse hab
        simpa using this
      have hanl : ∀ x ∈ a.reverse, x ≠ LF := fun x hx e => hb (e ▸ List.mem_reverse.mp hx)
      rw [hrb, Rx.splitLF_append_LF, Rx.splitLF_noLF hanl] at hl
      rw [List.dropLast_concat] at hl
      exact quietBeforeLF_lines P hL b.reverse a.reverse (hrb ▸ hq) l hl
    · have : ∀ b ∈ rb, b ≠ LF := fun b hb e => hlf (e ▸ hb)
      rw [Rx.splitLF_noLF this] at hl
      simp at hl
  exact ⟨hlast, fun d hd => by rw [window_pred_eq P hL h0 rb d hd hq, hlast]⟩

/-- two different depths, same verdict (the last line): buffer `ab⏎cd⏎r#` is a prompt at depths 4,
6 and 20; buffer `ab⏎cd⏎r` is not, at any of them -/
example :
    let P := fun s => Rx.isMatch Gen.Rx.Channel.promptPattern s
    let rb : Bytes := [97, 98, 10, 99, 100, 10, 114, 35]
    NoLongLine rb 4 ∧ NoLongLine rb 6 ∧ QuietBeforeLF P rb ∧ lastLine rb = [114, 35] ∧
    P (window rb 4) = true ∧ P (window rb 6) = true ∧ P (window rb 20) = true ∧ P rb = true ∧
    P (window (rb.take 7) 4) = false ∧ P (window (rb.take 7) 6) = false := by
  decide +kernel

/-- `NoLongLine` is needed (finding W1-style): in `hello world#` no line is a prompt (blank inside),
but depth 6 cuts the line to `world#`, which is one. In `xxxxxxxx⏎r1#` the last line is a prompt but
depth 2 cuts it to `1#`… which still is one, while depth 1 leaves `#`, which is not. -/
example :
    let P := fun s => Rx.isMatch Gen.Rx.Channel.promptPattern s
    let rb : Bytes := [104, 101, 108, 108, 111, 32, 119, 111, 114, 108, 100, 35]
    let rb' : Bytes := [120, 120, 120, 120, 120, 120, 120, 120, 10, 114, 49, 35]
    ¬ NoLongLine rb 6 ∧ QuietBeforeLF P rb ∧ P rb = false ∧ P (window rb 6) = true ∧
    ¬ NoLongLine rb' 1 ∧ QuietBeforeLF P rb' ∧ P rb' = true ∧ P (window rb' 1) = false := by
  decide +kernel

/-- `QuietBeforeLF` is needed: in `a#⏎foo⏎bar` an earlier line looks like a prompt; both depths 5
and 20 are larger than every line, yet depth 5 (window `⏎bar`) misses it and depth 20 sees it -/
example :
    let P := fun s => Rx.isMatch Gen.Rx.Channel.promptPattern s
    let rb : Bytes := [97, 35, 10, 102, 111, 111, 10, 98, 97, 114]
    NoLongLine rb 5 ∧ NoLongLine rb 20 ∧ ¬ QuietBeforeLF P rb ∧
    P (window rb 5) = false ∧ P (window rb 20) = true := by
  decide +kernel

/-! ## lifted to `ExactAt`, `readUntil`, exchanges and sessions -/

/-- "`P` on the window first holds exactly at the end of `S`" does not depend on the depth: it is
equivalent to "`P` first holds exactly at the end of `S`" (depth ∞) for every depth larger than
every line of `S`. -/
theorem exactAt_window_iff (P : Bytes → Bool) (hL : LineLocal P) (h0 : P [] = false) (S : Bytes)
    (d : Nat) (h : NoLongLine S d) : ExactAt (fun rb => P (window rb d)) S ↔ ExactAt P S := by
  constructor
  · rintro ⟨h1, h2⟩
    refine ⟨window_pred_le P hL h0 S d h h1, ?_⟩
    intro k
    induction k using Nat.strongRecOn with
    | _ k ih =>
      intro hk
      have hq : QuietBeforeLF P (S.take k) := by
        intro j hj hlf
        rw [List.length_take] at hj
        rw [List.take_take, Nat.min_eq_left (by omega)]
        exact ih j (by omega) (by omega)
      rw [← window_pred_eq P hL h0 (S.take k) d (noLongLine_take S d k h) hq]
      exact h2 k hk
  · intro hE
    have hq := quietBeforeLF_of_exactAt P S hE
    refine ⟨?_, ?_⟩
    · show P (window S d) = true
      rw [window_pred_eq P hL h0 S d h hq]; exact hE.1
    · intro k hk
      show P (window (S.take k) d) = false
      rw [window_pred_eq P hL h0 (S.take k) d (noLongLine_take S d k h) (quietBeforeLF_take P S k hq)]
      exact hE.2 k hk

/-- the prompt half of `WellFormed` at depth `cfg.depth` is the depth-free statement -/
theorem exactAt_promptPred_iff (cfg : Cfg) (hL : LineLocal cfg.promptP) (h0 : cfg.promptP [] = false)
    (S : Bytes) (h : NoLongLine S cfg.depth) :
    ExactAt (promptPred cfg) S ↔ ExactAt cfg.promptP S :=
  exactAt_window_iff cfg.promptP hL h0 S cfg.depth h

/-- the echo half of `WellFormed` in exact matching mode is the depth-free statement -/
theorem exactAt_echoPred_exact_iff (cfg : Cfg) (cmd : Bytes) (hex : cfg.exact = true)
    (hne : cmd ≠ []) (hlf : LF ∉ cmd) (S : Bytes)
    (h : NoLongLine S (searchDepth cfg.mult cfg.depth cmd.length)) :
    ExactAt (echoPred cfg cmd) S ↔ ExactAt (isInfix cmd) S := by
  have e : echoPred cfg cmd
      = fun rb => isInfix cmd (window rb (searchDepth cfg.mult cfg.depth cmd.length)) := by
    funext rb; simp [echoPred, hex]
  rw [e]
  exact exactAt_window_iff _ (contains_lineLocal cmd hne hlf) (contains_empty cmd hne) S _ h

/-- while the depth does not exceed `mult ×` the input length, the echo test does not depend on it
at all, in either matching mode -/
theorem echoPred_small_depth (cfg : Cfg) (d' : Nat) (cmd : Bytes)
    (h1 : cfg.depth ≤ cfg.mult * cmd.length) (h2 : d' ≤ cfg.mult * cmd.length) :
    echoPred { cfg with depth := d' } cmd = echoPred cfg cmd := by
  funext rb
  have e : searchDepth cfg.mult d' cmd.length = searchDepth cfg.mult cfg.depth cmd.length := by
    unfold searchDepth; split <;> split <;> omega
  simp only [echoPred, e]

/-- **`ReadUntilPrompt` is depth independent.** Whatever the segmentation, for every depth larger
than every line of the stream, reading until the prompt predicate holds on the window returns what
reading with an unbounded window returns (same bytes, same left-over queue) — provided no text
preceding a line feed of the stream looks like a prompt. -/
theorem readUntil_window_eq (P : Bytes → Bool) (hL : LineLocal P) (h0 : P [] = false) (d : Nat)
    (chunks : List Bytes) (rb : Bytes) (h : NoLongLine (rb ++ chunks.flatten) d)
    (hq : QuietBeforeLF P (rb ++ chunks.flatten)) :
    readUntil (fun b => P (window b d)) chunks rb = readUntil P chunks rb := by
  induction chunks generalizing rb with
  | nil => rfl
  | cons c q ih =>
    have e : rb ++ (c :: q).flatten = (rb ++ c) ++ q.flatten := by simp
    rw [e] at h hq
    have htake : ((rb ++ c) ++ q.flatten).take (rb ++ c).length = rb ++ c := List.take_left' rfl
    have hw : P (window (rb ++ c) d) = P (rb ++ c) := by
      apply window_pred_eq P hL h0
      · rw [← htake]; exact noLongLine_take _ d _ h
      · rw [← htake]; exact quietBeforeLF_take P _ _ hq
    simp only [readUntil, hw, ih (rb ++ c) h hq]

/-- two configurations that differ only in the prompt search depth read the same response -/
theorem readUntil_depth_independent (cfg1 cfg2 : Cfg) (hp : cfg1.promptP = cfg2.promptP)
    (hL : LineLocal cfg1.promptP) (h0 : cfg1.promptP [] = false) (chunks : List Bytes) (rb : Bytes)
    (h1 : NoLongLine (rb ++ chunks.flatten) cfg1.depth)
    (h2 : NoLongLine (rb ++ chunks.flatten) cfg2.depth)
    (hq : QuietBeforeLF cfg1.promptP (rb ++ chunks.flatten)) :
    readUntil (promptPred cfg1) chunks rb = readUntil (promptPred cfg2) chunks rb := by
  have e1 := readUntil_window_eq cfg1.promptP hL h0 cfg1.depth chunks rb h1 hq
  have e2 := readUntil_window_eq cfg2.promptP (hp ▸ hL) (hp ▸ h0) cfg2.depth chunks rb h2 (hp ▸ hq)
  show readUntil (fun b => cfg1.promptP (window b cfg1.depth)) chunks rb
    = readUntil (fun b => cfg2.promptP (window b cfg2.depth)) chunks rb
  rw [e1, e2, hp]

/-- `⏎ok⏎r#` cut as `⏎o|k⏎|r|#`, read at depths 4 and 9: same result, the whole stream -/
example :
    let cfg1 : Cfg := { demoCfg with depth := 4, promptP := fun s => Rx.isMatch Gen.Rx.Channel.promptPattern s }
    let cfg2 : Cfg := { cfg1 with depth := 9 }
    let chunks : List Bytes := [[10, 111], [107, 10], [114], [35]]
    NoLongLine chunks.flatten 4 ∧ NoLongLine chunks.flatten 9 ∧
    QuietBeforeLF cfg1.promptP chunks.flatten ∧
    readUntil (promptPred cfg1) chunks [] = some (chunks.flatten, []) ∧
    readUntil (promptPred cfg2) chunks [] = some (chunks.flatten, []) := by
  decide +kernel

/-- An exchange well formed at one depth is well formed at any other depth larger than every line
of its response, given the echo half at the new depth (see `exactAt_echoPred_exact_iff` and
`echoPred_small_depth` for when that is automatic). -/
theorem wellFormed_depth_transfer (cfg : Cfg) (d' : Nat) (hL : LineLocal cfg.promptP)
    (h0 : cfg.promptP [] = false) (stale : List Bytes) (x : Exchange) (h : WellFormed cfg stale x)
    (hecho : ExactAt (echoPred { cfg with depth := d' } x.cmd) (stale ++ x.echo).flatten)
    (hr : NoLongLine x.resp.flatten cfg.depth) (hr' : NoLongLine x.resp.flatten d') :
    WellFormed { cfg with depth := d' } stale x := by
  obtain ⟨hne1, _, hne2, hp⟩ := h
  refine ⟨hne1, hecho, hne2, ?_⟩
  have := (exactAt_promptPred_iff cfg hL h0 _ hr).mp hp
  exact (exactAt_promptPred_iff { cfg with depth := d' } hL h0 _ hr').mpr this

/-- in exact matching mode the echo half transfers too -/
theorem wellFormed_depth_transfer_exact (cfg : Cfg) (d' : Nat) (hL : LineLocal cfg.promptP)
    (h0 : cfg.promptP [] = false) (hex : cfg.exact = true) (stale : List Bytes) (x : Exchange)
    (hcmd : LF ∉ x.cmd) (h : WellFormed cfg stale x)
    (he : NoLongLine (stale ++ x.echo).flatten (searchDepth cfg.mult cfg.depth x.cmd.length))
    (he' : NoLongLine (stale ++ x.echo).flatten (searchDepth cfg.mult d' x.cmd.length))
    (hr : NoLongLine x.resp.flatten cfg.depth) (hr' : NoLongLine x.resp.flatten d') :
    WellFormed { cfg with depth := d' } stale x := by
  have hne : x.cmd ≠ [] := by
    intro hnil
    -- an empty command is contained in the empty prefix, so the echo could not be exact
    have h2 := h.2.1.2 0 (List.length_pos_iff.mpr h.1)
    simp [echoPred, hex, hnil, window, isInfix] at h2
  apply wellFormed_depth_transfer cfg d' hL h0 stale x h _ hr hr'
  have := (exactAt_echoPred_exact_iff cfg x.cmd hex hne hcmd _ he).mp h.2.1
  exact (exactAt_echoPred_exact_iff { cfg with depth := d' } x.cmd hex hne hcmd _ he').mpr this

/-- The fuzzy input matcher is **not** depth independent, even with every line shorter than both
search depths: with the echo stream `s⏎ab⏎h`, command `sh`, multiplier 2, the search depth 4 gives
the window `⏎h` (no match) and depth 6 the whole stream (`s … h` is a subsequence across lines).
Exact matching gives the same verdict at both. -/
example :
    let cfgF : Cfg := { demoCfg with depth := 4, exact := false }
    let cfgE : Cfg := { demoCfg with depth := 4, exact := true }
    let S : Bytes := [115, 10, 97, 98, 10, 104]
    searchDepth 2 4 2 = 4 ∧ searchDepth 2 6 2 = 6 ∧ NoLongLine S 4 ∧ NoLongLine S 6 ∧
    echoPred cfgF [115, 104] S = false ∧ echoPred { cfgF with depth := 6 } [115, 104] S = true ∧
    echoPred cfgE [115, 104] S = false ∧ echoPred { cfgE with depth := 6 } [115, 104] S = false := by
  decide +kernel

/-- **THE PROPERTY, for any depth.** A session that is well formed at the configured depth returns,
at any other prompt search depth `d'` larger than every line of every response (and with the echo
half holding at `d'`), exactly the same outputs: the i-th send returns the processed output of the
i-th exchange, the queue is empty at every boundary, the device receives `cmd₁ ⏎ cmd₂ ⏎ …`. -/
theorem sendCommands_exact_any_depth (cfg : Cfg) (d' : Nat) (hL : LineLocal cfg.promptP)
    (h0 : cfg.promptP [] = false) (xs : List Exchange) (s : Sess) (hq : s.q.flatten = [])
    (h : ∀ x ∈ xs, WellFormed cfg [] x)
    (hecho : ∀ x ∈ xs, ExactAt (echoPred { cfg with depth := d' } x.cmd) ([] ++ x.echo).flatten)
    (hr : ∀ x ∈ xs, NoLongLine x.resp.flatten cfg.depth ∧ NoLongLine x.resp.flatten d') :
    ∃ s', sendAll { cfg with depth := d' } s xs
        = some (xs.map (fun x => processOut cfg x.resp.flatten), s') ∧
      s'.q.flatten = [] ∧
      s'.writes = s.writes ++ xs.flatMap (fun x => [x.cmd, cfg.ret]) := by
  have hwf : ∀ x ∈ xs, WellFormed { cfg with depth := d' } [] x := fun x hx =>
    wellFormed_depth_transfer cfg d' hL h0 [] x (h x hx) (hecho x hx) (hr x hx).1 (hr x hx).2
  exact sendCommands_exact { cfg with depth := d' } xs s hq hwf

/-- the session-level hypotheses are satisfiable with the extracted prompt pattern: command `sh`,
echo `sh`, response `⏎ok⏎r1#`, depths 5 and 12 -/
example :
    let cfg : Cfg := { demoCfg with depth := 5, promptP := fun s => Rx.isMatch Gen.Rx.Channel.promptPattern s }
    let x : Exchange := ⟨[115, 104], [[115], [104]], [[10, 111, 107], [10, 114, 49], [35]]⟩
    WellFormed cfg [] x ∧ ExactAt (echoPred { cfg with depth := 12 } x.cmd) ([] ++ x.echo).flatten ∧
    NoLongLine x.resp.flatten 5 ∧ NoLongLine x.resp.flatten 12 := by
  unfold WellFormed; decide +kernel

end Scrapli.Chan.C01
