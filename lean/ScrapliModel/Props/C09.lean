import ScrapliModel.Lemmas.HelloFrame
import ScrapliModel.Netconf.HelloState
import ScrapliModel.Generated.C09State
import ScrapliModel.Generated.BodiesNetconf
/-!
# C09 — NETCONF session establishment negotiates the right version or fails cleanly

Property theorems only. Model: `ScrapliModel/Netconf/Hello.lean` (mirrors
`driver/netconf/capabilities.go` and `Driver.Open`). The version strings, base capability URIs,
client hello texts, the 1.0 delimiter (`Generated/Consts.lean`) and the hello / capability /
session-id patterns (`Generated/Patterns.lean`) are regenerated from the source on every run.
-/
namespace Scrapli.Netconf.C09
open Scrapli Scrapli.Chan Scrapli.Netconf.Hello

/-! ## the version decision -/

/-- obligation on the regenerated constants: the two version strings differ from each other and
from the unset preference, and the two base URIs differ -/
theorem version_constants_distinct :
    Gen.Netconf.V1Dot0 ≠ Gen.Netconf.V1Dot1 ∧ Gen.Netconf.V1Dot0 ≠ [] ∧ Gen.Netconf.V1Dot1 ≠ [] ∧
    Gen.Netconf.v1Dot0Cap ≠ Gen.Netconf.v1Dot1Cap := by decide

/-- obligation on the regenerated constants: the version strings and base capability URIs are the
ones RFC 6241 §8.1 / RFC 4741 fix -/
theorem base_constants_are_rfc :
    Gen.Netconf.V1Dot0 = [49,46,48] ∧ Gen.Netconf.V1Dot1 = [49,46,49] ∧
    Gen.Netconf.v1Dot0Cap = [117,114,110,58,105,101,116,102,58,112,97,114,97,109,115,58,110,101,116,
      99,111,110,102,58,98,97,115,101,58,49,46,48] ∧
    Gen.Netconf.v1Dot1Cap = [117,114,110,58,105,101,116,102,58,112,97,114,97,109,115,58,110,101,116,
      99,111,110,102,58,98,97,115,101,58,49,46,49] ∧
    Gen.Netconf.v1Dot0Delim = [93,93,62,93,93,62] := by decide

/-- `determineVersion` is the specification table, for every capability list (any extra
capabilities, any order, duplicates) and each of the three preferences. -/
theorem version_table (caps : List Bytes) (p : Pref) :
    determineVersion caps p.bytes
      = specVersion (hasCap caps Gen.Netconf.v1Dot0Cap) (hasCap caps Gen.Netconf.v1Dot1Cap) p := by
  have h1 : (Gen.Netconf.V1Dot1 == Gen.Netconf.V1Dot0) = false := by decide
  have h2 : (([] : Bytes) == Gen.Netconf.V1Dot0) = false := by decide
  have h3 : (([] : Bytes) == Gen.Netconf.V1Dot1) = false := by decide
  unfold determineVersion specVersion
  cases p <;> cases hasCap caps Gen.Netconf.v1Dot0Cap <;> cases hasCap caps Gen.Netconf.v1Dot1Cap <;>
    simp [Pref.bytes, h1, h2, h3]

/-- the twelve cells, spelled out on the smallest capability lists -/
theorem version_table_cells :
    let c10 := Gen.Netconf.v1Dot0Cap
    let c11 := Gen.Netconf.v1Dot1Cap
    (determineVersion [] Pref.none.bytes = none) ∧
    (determineVersion [c10] Pref.none.bytes = some .v10) ∧
    (determineVersion [c11] Pref.none.bytes = some .v11) ∧
    (determineVersion [c10, c11] Pref.none.bytes = some .v11) ∧
    (determineVersion [] Pref.p10.bytes = none) ∧
    (determineVersion [c10] Pref.p10.bytes = some .v10) ∧
    (determineVersion [c11] Pref.p10.bytes = none) ∧
    (determineVersion [c10, c11] Pref.p10.bytes = some .v10) ∧
    (determineVersion [] Pref.p11.bytes = none) ∧
    (determineVersion [c10] Pref.p11.bytes = none) ∧
    (determineVersion [c11] Pref.p11.bytes = some .v11) ∧
    (determineVersion [c10, c11] Pref.p11.bytes = some .v11) := by decide

/-- the decision depends on the capability list only through membership of the two base URIs
(for every value of the preference field, valid or not) -/
theorem version_membership_only (caps caps' : List Bytes) (pref : Bytes)
    (h10 : hasCap caps Gen.Netconf.v1Dot0Cap = hasCap caps' Gen.Netconf.v1Dot0Cap)
    (h11 : hasCap caps Gen.Netconf.v1Dot1Cap = hasCap caps' Gen.Netconf.v1Dot1Cap) :
    determineVersion caps pref = determineVersion caps' pref := by
  unfold determineVersion
  rw [h10, h11]

/-- extra capabilities that are not base URIs never change the decision, wherever they stand -/
theorem version_ignores_extra (pre mid post base : List Bytes) (pref : Bytes)
    (hpre : ∀ c ∈ pre ++ mid ++ post, c ≠ Gen.Netconf.v1Dot0Cap ∧ c ≠ Gen.Netconf.v1Dot1Cap)
    (base1 base2 : List Bytes) (hb : base = base1 ++ base2) :
    determineVersion (pre ++ base1 ++ mid ++ base2 ++ post) pref = determineVersion base pref := by
  subst hb
  have key : ∀ c, (c = Gen.Netconf.v1Dot0Cap ∨ c = Gen.Netconf.v1Dot1Cap) →
      hasCap (pre ++ base1 ++ mid ++ base2 ++ post) c = hasCap (base1 ++ base2) c := by
    intro c hc
    have hn : ∀ x ∈ pre ++ mid ++ post, x ≠ c := by
      intro x hx
      rcases hc with rfl | rfl
      · exact (hpre x hx).1
      · exact (hpre x hx).2
    have hmem : ∀ l : List Bytes, (∀ x ∈ l, x ≠ c) → l.contains c = false := by
      intro l hl
      cases hcl : l.contains c with
      | false => rfl
      | true =>
        have hin : c ∈ l := by simpa using hcl
        exact absurd rfl (hl c hin)
    simp only [hasCap, List.contains_append]
    rw [hmem pre (fun x hx => hn x (by simp [hx])), hmem mid (fun x hx => hn x (by simp [hx])),
      hmem post (fun x hx => hn x (by simp [hx]))]
    simp
  exact version_membership_only _ _ pref (key _ (Or.inl rfl)) (key _ (Or.inr rfl))

example : ∀ c ∈ ([[1,2,3]] : List Bytes) ++ [[4]] ++ [[5,6]],
    c ≠ Gen.Netconf.v1Dot0Cap ∧ c ≠ Gen.Netconf.v1Dot1Cap := by decide

/-- a preference field that holds neither version string (only reachable by assigning the public
field directly: the option rejects it) behaves as no preference -/
theorem version_other_pref (caps : List Bytes) (pref : Bytes)
    (h : prefOptionOK pref = false) : determineVersion caps pref = determineVersion caps [] := by
  simp only [prefOptionOK, Bool.or_eq_false_iff] at h
  have h2 : (([] : Bytes) == Gen.Netconf.V1Dot0) = false := by decide
  have h3 : (([] : Bytes) == Gen.Netconf.V1Dot1) = false := by decide
  unfold determineVersion
  simp [h.1, h.2, h2, h3]

/-- the option accepts exactly the two version strings -/
theorem pref_option_valid (p : Pref) : prefOptionOK p.bytes = (p != .none) := by
  cases p <;> decide

/-! ## the client's own hello -/

/-- `clientHello v`, a regenerated constant, read with the library's own capability pattern (Lean
engine on the extracted term) and with the scanner: it is a hello, advertises exactly the selected
base capability, carries no session-id, and its only end-of-message marker is at its very end. -/
theorem client_hello_advertises_selected (v : Ver) :
    Rx.findAllGroup Gen.Rx.Netconf.capability (clientHello v) 1 = [v.cap] ∧
    Rx.isMatch Gen.Rx.Netconf.hello (clientHello v) = true ∧
    parseHelloScan true (clientHello v) = (true, [v.cap], none) ∧
    (∃ body, clientHello v = body ++ Gen.Netconf.v1Dot0Delim ∧
      indexOf Gen.Netconf.v1Dot0Delim (clientHello v) = some body.length) := by
  cases v
  · refine ⟨by decide +kernel, by decide +kernel, by decide +kernel,
      (clientHello .v10).take ((clientHello .v10).length - Gen.Netconf.v1Dot0Delim.length), ?_, ?_⟩
      <;> decide +kernel
  · refine ⟨by decide +kernel, by decide +kernel, by decide +kernel,
      (clientHello .v11).take ((clientHello .v11).length - Gen.Netconf.v1Dot0Delim.length), ?_, ?_⟩
      <;> decide +kernel

/-- the server, reading the client's hello, arrives at the version the client selected
(RFC 6241 §8.1: 1.1 iff both peers advertise it) -/
theorem peers_agree (caps : List Bytes) (pref : Bytes) (v : Ver)
    (h : determineVersion caps pref = some v) :
    serverVersion (hasCap caps Gen.Netconf.v1Dot1Cap) (parseHelloScan true (clientHello v)).2.1 = v := by
  rw [(client_hello_advertises_selected v).2.2.1]
  have hne : ([Gen.Netconf.v1Dot0Cap].contains Gen.Netconf.v1Dot1Cap) = false := by decide
  have heq : ([Gen.Netconf.v1Dot1Cap].contains Gen.Netconf.v1Dot1Cap) = true := by decide
  cases v with
  | v10 => simp only [serverVersion, hasCap, Ver.cap, hne, Bool.and_false, Bool.false_eq_true, if_false]
  | v11 =>
    have h11 : hasCap caps Gen.Netconf.v1Dot1Cap = true := by
      cases hc : hasCap caps Gen.Netconf.v1Dot1Cap with
      | true => rfl
      | false =>
        exfalso
        unfold determineVersion at h
        rw [hc] at h
        cases h10 : hasCap caps Gen.Netconf.v1Dot0Cap <;>
          cases hp0 : (pref == Gen.Netconf.V1Dot0) <;>
          cases hp1 : (pref == Gen.Netconf.V1Dot1) <;>
          simp [h10, hp0, hp1] at h
    simp only [serverVersion, hasCap, Ver.cap, heq, Bool.and_true]
    simp only [hasCap] at h11
    rw [h11]
    rfl

/-! ## reading the server's hello -/

/-- Every hello of the grammar — optional declaration, one optional namespace prefix on every
element, arbitrary attribute text, arbitrary `<`-free filler between elements, any list of
capability URIs (no `<`, no line feed), optional session-id of any decimal digits — followed by
any `<`-free text (the delimiter, trailing white space): the scanner finds the hello, exactly the
capability URIs in order, and exactly the session-id digits, prefixed or not. -/
theorem parseHelloScan_render (L : Layout) (tail : Bytes) (hL : L.ok = true)
    (ht : noLT tail = true) :
    parseHelloScan true (render L ++ tail) = (true, L.caps.map Prod.fst, L.sid) := by
  have h := L.ok_OK hL
  have ht' := (noLT_iff tail).mp ht
  simp only [parseHelloScan, hasHelloScan_render L tail h, capsScan_render L tail h ht',
    sidScan_render true L tail h ht' (by simp)]

/-- a prefixed hello with two capabilities (one with a query string) and a session-id is in the
grammar -/
def sampleLayout : Layout :=
  { pre := [77,79,84,68,10], decl := some [120,109,108,63,62], pfx := [110,99], attrs := [32,120,61,34,121,34],
    ws0 := [10], ws1 := [10,32], ws2 := [], ws3 := [9], ws4 := [10],
    caps := [(Gen.Netconf.v1Dot1Cap, [10]), ([117,58,120,63,97,61,98,38,99], [])],
    sid := some [52,50] }

example : sampleLayout.ok = true ∧ noLT Gen.Netconf.v1Dot0Delim = true := by decide

/-- the reported session-id is the server's number, for every number `Atoi` can hold -/
theorem session_id_exact (L : Layout) (tail : Bytes) (n : Nat) (hL : L.ok = true)
    (ht : noLT tail = true) (hs : L.sid = some (decDigits n)) (hn : n < 2 ^ 63) :
    sidValue (parseHelloScan true (render L ++ tail)).2.2 = some n := by
  rw [parseHelloScan_render L tail hL ht, hs]
  simp [sidValue, parseDec_decDigits, hn]

example : ({ sampleLayout with sid := some (decDigits 4294967295) } : Layout).ok = true := by
  decide +kernel

/-- the session-id pattern as it stood (no prefix accepted) still reads unprefixed hellos -/
theorem parseHelloScan_asIs_unprefixed (L : Layout) (tail : Bytes) (hL : L.ok = true)
    (ht : noLT tail = true) (hp : L.pfx = []) :
    parseHelloScan false (render L ++ tail) = (true, L.caps.map Prod.fst, L.sid) := by
  have h := L.ok_OK hL
  have ht' := (noLT_iff tail).mp ht
  simp only [parseHelloScan, hasHelloScan_render L tail h, capsScan_render L tail h ht',
    sidScan_render false L tail h ht' (fun _ => hp)]

/-- Finding F7 in the model, for ALL prefixed hellos: with a session-id pattern that accepts no
prefix, every hello of the grammar whose elements carry a namespace prefix loses its session-id
(the search finds nothing, `SessionID()` stays 0) while hello and capabilities are still read. -/
theorem asIs_prefixed_session_id_lost (L : Layout) (tail : Bytes) (hL : L.ok = true)
    (ht : noLT tail = true) (hp : L.pfx ≠ []) :
    parseHelloScan false (render L ++ tail) = (true, L.caps.map Prod.fst, none) ∧
    sidValue (parseHelloScan false (render L ++ tail)).2.2 = some 0 := by
  have h := L.ok_OK hL
  have ht' := (noLT_iff tail).mp ht
  have e : parseHelloScan false (render L ++ tail) = (true, L.caps.map Prod.fst, none) := by
    simp only [parseHelloScan, hasHelloScan_render L tail h, capsScan_render L tail h ht',
      sidScan_asIs_prefixed L tail h ht' hp]
  exact ⟨e, by rw [e]; rfl⟩

example : sampleLayout.pfx ≠ [] ∧ sampleLayout.sid = some [52,50] := by decide

/-- obligation on the regenerated session-id pattern (finding F7): like the hello and capability
patterns it must accept a namespace prefix on the element. Evaluated by the kernel on the
extracted term; fails on a tree whose pattern is `(?i)<session-id>(\d+)</session-id>`. -/
theorem sessionID_pattern_accepts_prefix :
    Rx.findGroup Gen.Rx.Netconf.sessionID
      [60,110,99,58,115,101,115,115,105,111,110,45,105,100,62,52,50,60,47,110,99,58,115,101,115,115,
       105,111,110,45,105,100,62] 1 = some [52,50] ∧
    Rx.findGroup Gen.Rx.Netconf.sessionID
      [60,115,101,115,115,105,111,110,45,105,100,62,52,50,60,47,115,101,115,115,105,111,110,45,105,
       100,62] 1 = some [52,50] := by decide +kernel

/-- obligation on the regenerated constant: a successful `FindSubmatch` of the one-group
session-id pattern (length 2) passes the length test in `processServerCapabilities` -/
theorem sessionID_match_length : sidMatchLenOK = true := by decide

/-- the three extracted patterns and the scanner agree on the sample hello (engine in the kernel) -/
theorem engine_scanner_agree_sample :
    parseHello (render sampleLayout ++ Gen.Netconf.v1Dot0Delim ++ [10])
      = parseHelloScan true (render sampleLayout ++ Gen.Netconf.v1Dot0Delim ++ [10]) := by
  decide +kernel

/-! ## `Open` -/

/-- **Open negotiates or fails cleanly, over every read segmentation.** For every hello `L` of the
grammar, every trailing text `suffix`, every segmentation `chunks` of `hello ++ delimiter ++ suffix`
(any chunk sizes, empty chunks included), every preference: provided the delimiter first completes
at the end of the hello and is visible in the search window once it has arrived (the two decidable
side conditions the driver evaluates per case), `Open` fails with a NETCONF error exactly in the
failure cells of the table (or when the session-id exceeds `int`), and otherwise selects the
table's version, reports exactly the server's capabilities and session-id, and has written exactly
one client hello for the selected version followed by the return. -/
theorem open_negotiates (delimP : Bytes → Bool) (depth : Nat) (ret : Bytes) (p : Pref)
    (L : Layout) (suffix : Bytes) (chunks : List Bytes)
    (hdelim : ∀ s, delimP s = isInfix Gen.Netconf.v1Dot0Delim s)
    (hL : L.ok = true) (hsuf : noLT suffix = true)
    (hchunks : chunks.flatten = render L ++ Gen.Netconf.v1Dot0Delim ++ suffix)
    (hearly : delimFirstAtEnd Gen.Netconf.v1Dot0Delim (render L) = true)
    (hwin : windowOK Gen.Netconf.v1Dot0Delim depth (render L) suffix = true) :
    ∃ q, openSession (parseHelloScan true) delimP depth ret p.bytes chunks =
      match sidValue L.sid,
        specVersion (hasCap (L.caps.map Prod.fst) Gen.Netconf.v1Dot0Cap)
          (hasCap (L.caps.map Prod.fst) Gen.Netconf.v1Dot1Cap) p with
      | some n, some v => .ok { ver := v, caps := L.caps.map Prod.fst, sid := n,
                                sent := clientHello v ++ ret, queue := q }
      | _, _ => .err .netconf := by
  obtain ⟨q, hq⟩ := openSession_render true delimP depth ret p.bytes L suffix chunks hdelim hL
    (by simp) hsuf hchunks hearly hwin
  refine ⟨q, ?_⟩
  rw [hq, specOpen, version_table]
  cases sidValue L.sid <;> simp only
  split <;> simp_all

example : delimFirstAtEnd Gen.Netconf.v1Dot0Delim (render sampleLayout) = true ∧
    windowOK Gen.Netconf.v1Dot0Delim 1000 (render sampleLayout) [10] = true ∧
    windowOK Gen.Netconf.v1Dot0Delim 20 (render sampleLayout) [10] = true := by decide +kernel

/-- the window condition holds whenever the whole stream fits into the search depth -/
theorem windowOK_short (D H suffix : Bytes) (depth : Nat)
    (h : (H ++ D ++ suffix).length ≤ depth) : windowOK D depth H suffix = true := by
  simp only [windowOK, List.all_eq_true, List.mem_range]
  intro j hj
  have hl : ((H ++ D ++ suffix).take (H.length + D.length + j)).length ≤ depth := by
    rw [List.length_take]; omega
  simp only [window, hl, if_true]
  rw [take_stream H D suffix _ (by omega)]
  exact (isInfix_iff D _).mpr ⟨H, suffix.take (H.length + D.length + j - (H.length + D.length)), by simp⟩

/-- a message that holds no hello element makes `Open` fail with a NETCONF error (whatever else it
holds), as soon as the read completes -/
theorem open_fails_without_hello (parse : Bytes → Bool × List Bytes × Option Bytes)
    (delimP : Bytes → Bool) (depth : Nat) (ret pref : Bytes) (chunks : List Bytes) (b : Bytes)
    (q : List Bytes)
    (hread : readUntil (fun rb => delimP (window rb depth)) chunks [] = some (b, q))
    (hno : (parse b).1 = false) :
    openSession parse delimP depth ret pref chunks = .err .netconf := by
  unfold openSession
  rw [hread]
  simp only
  rcases hp : parse b with ⟨hello, caps, sid⟩
  rw [hp] at hno
  simp only at hno
  simp [hno]

/-- `Open` never succeeds with anything but a table version and the matching client hello -/
theorem open_ok_sound (parse : Bytes → Bool × List Bytes × Option Bytes)
    (delimP : Bytes → Bool) (depth : Nat) (ret pref : Bytes) (chunks : List Bytes) (o : Opened)
    (h : openSession parse delimP depth ret pref chunks = .ok o) :
    determineVersion o.caps pref = some o.ver ∧ o.sent = clientHello o.ver ++ ret := by
  unfold openSession at h
  split at h
  · simp at h
  · rename_i b q hr
    simp only at h
    rcases hp : parse b with ⟨hello, caps, sid⟩
    rw [hp] at h
    simp only at h
    split at h
    · simp at h
    · split at h
      · simp at h
      · split at h
        · simp at h
        · rename_i v hv
          simp only [Res.ok.injEq] at h
          subst h
          exact ⟨hv, rfl⟩

/-! ## after `Open`: framing follows the selected version -/

/-- 1.1 selected: everything the client writes after its hello — the hello's return, then per
request the `#len` header, the XML, `\n##`, and the two returns — is exactly a sequence of
RFC 6242 single-chunk frames, one per request (plus the line feed that opens the next one), and a
strict RFC 6242 decoder reads each frame back to the request XML. -/
theorem framing_follows_version_11 (reqs : List Bytes) (xml rest : Bytes) (hne : xml ≠ []) :
    [LF] ++ (reqs.map (requestWire .v11 [LF])).flatten = (reqs.map frame11).flatten ++ [LF] ∧
    decodeOne11 (frame11 xml ++ rest) = some (xml, rest) :=
  ⟨stream11_regroup reqs, decodeOne11_frame11 xml rest hne⟩

/-- 1.0 selected: every request is its XML followed by the end-of-message marker and the return,
and a strict RFC 4742 decoder (text up to the first marker) reads it back, provided the XML itself
does not contain the marker. -/
theorem framing_follows_version_10 (reqs : List Bytes) (ret xml rest : Bytes)
    (h : delimFirstAtEnd Gen.Netconf.v1Dot0Delim (LF :: xml) = true) :
    (reqs.map (requestWire .v10 ret)).flatten
      = (reqs.map fun x => x ++ Gen.Netconf.v1Dot0Delim ++ ret).flatten ∧
    decodeOne10 (LF :: (xml ++ Gen.Netconf.v1Dot0Delim ++ rest))
      = some (xml.dropWhile (· == LF), rest) :=
  ⟨stream10_shape reqs ret, decodeOne10_frame xml rest h⟩

example : delimFirstAtEnd Gen.Netconf.v1Dot0Delim (LF :: [60,114,112,99,47,62]) = true := by
  decide +kernel

/-! ## tie to the source: translated body = model (regenerated on every run) -/

/-- the body of `(*Driver).determineVersion` as the translator renders it from the current source
(`Generated/BodiesNetconf.lean`; `sel0`, `p0` = `SelectedVersion` and the channel's prompt pattern
on entry, `d10` / `d11` = the two compiled delimiter patterns): whenever the model selects a
version the code returns `nil`, stores that version's string and installs that version's delimiter
pattern; whenever the model fails the code returns an error wrapping `ErrNetconfError` -/
theorem generated_determineVersion_eq {P : Type} (caps : List Bytes) (pref : Bytes) (d10 d11 : P)
    (sel0 : Bytes) (p0 : P) :
    match determineVersion caps pref with
    | some v => Gen.Bodies.Netconf.determineVersion caps pref d10 d11 sel0 p0
                  = (none, v.str, match v with | .v10 => d10 | .v11 => d11)
    | none => (Gen.Bodies.Netconf.determineVersion caps pref d10 d11 sel0 p0).1
                  = some "ErrNetconfError" := by
  have hne : (Gen.Netconf.V1Dot1 == Gen.Netconf.V1Dot0) = false := by decide
  unfold Gen.Bodies.Netconf.determineVersion determineVersion
  cases h11 : hasCap caps Gen.Netconf.v1Dot1Cap <;> cases h10 : hasCap caps Gen.Netconf.v1Dot0Cap <;>
    cases hp0 : pref == Gen.Netconf.V1Dot0 <;> cases hp1 : pref == Gen.Netconf.V1Dot1 <;>
    simp [hne, Ver.str]

/-! ## histories: probes, several Opens, Closes on ONE driver object -/

theorem touch_false (s : DState) : touch false s = s := rfl
theorem lookup_false (s : DState) (c : Bytes) : lookup false s c = s.caps.contains c := rfl

/-- a probe (every public getter) leaves the driver state exactly as it was -/
theorem probe_keeps_state (reopen : Bool) (s : DState) (c : Bytes) :
    (step false reopen s (.probe c)).1 = s := rfl

/-- **A probe is pure.** In every history, deleting all probes (wherever they stand: before the
first `Open`, between sessions, after a `Close`) changes neither the outcome of any `Open` / `Close`
nor the final state. -/
theorem probe_is_pure (reopen : Bool) (s : DState) (evs : List Ev) :
    (run false reopen s evs).filter (fun o => !o.isProbe)
      = run false reopen s (evs.filter (fun e => !e.isProbe)) ∧
    final false reopen s evs = final false reopen s (evs.filter (fun e => !e.isProbe)) := by
  induction evs generalizing s with
  | nil => exact ⟨rfl, rfl⟩
  | cons e es ih =>
    cases e with
    | probe c =>
      have := ih s
      simpa [run, final, step, Ev.isProbe, Obs.isProbe, touch_false] using this
    | close =>
      have := ih (step false reopen s .close).1
      simp only [run, final, List.filter_cons, Ev.isProbe, Bool.not_false, if_true]
      refine ⟨?_, this.2⟩
      simp only [step, Obs.isProbe, Bool.not_false, if_true, List.cons.injEq, true_and]
      exact this.1
    | openNoHello =>
      have := ih (step false reopen s .openNoHello).1
      simp only [run, final, List.filter_cons, Ev.isProbe, Bool.not_false, if_true]
      refine ⟨?_, this.2⟩
      have hnp : (step false reopen s .openNoHello).2.isProbe = false := by
        simp only [step]; split <;> rfl
      simp only [hnp, Bool.not_false, if_true, List.cons.injEq, true_and]
      exact this.1
    | openHello parsed pref =>
      have := ih (step false reopen s (.openHello parsed pref)).1
      simp only [run, final, List.filter_cons, Ev.isProbe, Bool.not_false, if_true]
      refine ⟨?_, this.2⟩
      have hnp : (step false reopen s (.openHello parsed pref)).2.isProbe = false := by
        simp only [step]
        split
        · rfl
        · split <;> rfl
      simp only [hnp, Bool.not_false, if_true, List.cons.injEq, true_and]
      exact this.1

example : (fun e : Ev => !e.isProbe) (.probe [1]) = false ∧ (fun e : Ev => !e.isProbe) .close = true := by
  decide

/-- the state-level decision is the list-level `determineVersion` -/
theorem decideVer_result (caps : List Bytes) (pref : Bytes) :
    (decideVer (hasCap caps Gen.Netconf.v1Dot0Cap) (hasCap caps Gen.Netconf.v1Dot1Cap) pref).2
      = determineVersion caps pref := by
  unfold decideVer determineVersion
  cases hasCap caps Gen.Netconf.v1Dot0Cap <;> cases hasCap caps Gen.Netconf.v1Dot1Cap <;>
    cases pref == Gen.Netconf.V1Dot0 <;> cases pref == Gen.Netconf.V1Dot1 <;> simp

/-- what one negotiation yields, written WITHOUT any reference to the driver's earlier state -/
def negotiationOutcome (parsed : Bool × List Bytes × Option Bytes) (pref : Bytes) : Option Ver :=
  if !parsed.1 then none
  else match sidValue parsed.2.2 with
    | none => none
    | some _ => determineVersion parsed.2.1 pref

/-- **The negotiation depends on the last hello only** (state level). Whatever the driver went
through before — any earlier capabilities, session-id, selected version — the result of
negotiating on a hello is `negotiationOutcome` of that hello and the preference; after a success
the stored capabilities are exactly the hello's, `SelectedVersion` is the result,
`ServerHasCapability` answers membership in the hello's list, and the session-id is the hello's
whenever the hello carries one. -/
theorem negotiate_last_hello_only (s : DState) (parsed : Bool × List Bytes × Option Bytes)
    (pref : Bytes) :
    (negotiate false s parsed pref).2 = negotiationOutcome parsed pref ∧
    ∀ v, (negotiate false s parsed pref).2 = some v →
      (negotiate false s parsed pref).1.caps = parsed.2.1 ∧
      (negotiate false s parsed pref).1.sel = v.str ∧
      (∀ c, lookup false (negotiate false s parsed pref).1 c = parsed.2.1.contains c) ∧
      (∀ ds, parsed.2.2 = some ds → some (negotiate false s parsed pref).1.sid = sidValue (some ds)) := by
  obtain ⟨hello, caps, sid⟩ := parsed
  cases hello with
  | false => simp [negotiate, negotiationOutcome]
  | true =>
    cases sid with
    | none =>
      simp only [negotiate, negotiationOutcome, sidValue, Bool.not_true, Bool.false_eq_true, if_false,
        lookup_false, touch_false, decideVer, determineVersion, hasCap]
      by_cases h10 : Gen.Netconf.v1Dot0Cap ∈ caps <;>
        by_cases h11 : Gen.Netconf.v1Dot1Cap ∈ caps <;>
        rcases Bool.eq_false_or_eq_true (pref == Gen.Netconf.V1Dot0) with hp0 | hp0 <;>
        rcases Bool.eq_false_or_eq_true (pref == Gen.Netconf.V1Dot1) with hp1 | hp1 <;>
        simp [h10, h11, hp0, hp1]
    | some ds =>
      cases hv : sidValue (some ds) with
      | none => simp [negotiate, negotiationOutcome, hv]
      | some n =>
        simp only [negotiate, negotiationOutcome, hv, Bool.not_true, Bool.false_eq_true, if_false,
          lookup_false, touch_false, decideVer, determineVersion, hasCap]
        by_cases h10 : Gen.Netconf.v1Dot0Cap ∈ caps <;>
          by_cases h11 : Gen.Netconf.v1Dot1Cap ∈ caps <;>
          rcases Bool.eq_false_or_eq_true (pref == Gen.Netconf.V1Dot0) with hp0 | hp0 <;>
          rcases Bool.eq_false_or_eq_true (pref == Gen.Netconf.V1Dot1) with hp1 | hp1 <;>
          simp [h10, h11, hp0, hp1, hv]

/-- **History level.** Take ANY two histories `h1`, `h2` (any probes, Opens against any hellos,
Closes, from any start states) after which the driver can still open (always, if the channel is
re-openable; as built: as long as the channel was never closed). An `Open` against the same hello
then has the same outcome after both, and if it succeeds every later probe answers the same:
version, capabilities, `ServerHasCapability` and (for a hello that carries one) the session-id are a
function of the LAST hello only. -/
theorem negotiation_depends_on_last_hello_only (reopen : Bool) (a b : DState) (h1 h2 : List Ev)
    (parsed : Bool × List Bytes × Option Bytes) (pref : Bytes) (probes : List Bytes) (ds : Bytes)
    (hsid : parsed.2.2 = some ds)
    (hl1 : ((final false reopen a h1).dead && !reopen) = false)
    (hl2 : ((final false reopen b h2).dead && !reopen) = false) :
    (step false reopen (final false reopen a h1) (.openHello parsed pref)).2
      = (step false reopen (final false reopen b h2) (.openHello parsed pref)).2 ∧
    (∀ v, (step false reopen (final false reopen a h1) (.openHello parsed pref)).2 = .opened v →
      run false reopen (step false reopen (final false reopen a h1) (.openHello parsed pref)).1
          (probes.map .probe)
        = run false reopen (step false reopen (final false reopen b h2) (.openHello parsed pref)).1
          (probes.map .probe)) := by
  generalize final false reopen a h1 = s1 at *
  generalize final false reopen b h2 = s2 at *
  have n1 := negotiate_last_hello_only { s1 with dead := false } parsed pref
  have n2 := negotiate_last_hello_only { s2 with dead := false } parsed pref
  have probes_eq : ∀ (t1 t2 : DState), t1.caps = t2.caps → t1.sid = t2.sid → t1.sel = t2.sel →
      run false reopen t1 (probes.map .probe) = run false reopen t2 (probes.map .probe) := by
    induction probes with
    | nil => intros; rfl
    | cons c cs ih =>
      intro t1 t2 hc hs hl
      simp only [List.map_cons, run, step, touch_false, lookup_false, hc, hs, hl, List.cons.injEq, true_and]
      exact ih t1 t2 hc hs hl
  simp only [step, hl1, hl2, Bool.false_eq_true, if_false]
  rcases e1 : negotiate false { s1 with dead := false } parsed pref with ⟨t1, r1⟩
  rcases e2 : negotiate false { s2 with dead := false } parsed pref with ⟨t2, r2⟩
  rw [e1] at n1
  rw [e2] at n2
  simp only at n1 n2
  have hr : r1 = r2 := by rw [n1.1, n2.1]
  subst hr
  cases r1 with
  | none => simp
  | some v =>
    obtain ⟨c1, l1, _, sd1⟩ := n1.2 v rfl
    obtain ⟨c2, l2, _, sd2⟩ := n2.2 v rfl
    refine ⟨rfl, fun _ _ => ?_⟩
    apply probes_eq
    · simp [c1, c2]
    · have := (sd1 ds hsid).trans (sd2 ds hsid).symm
      simpa using this
    · simp [l1, l2]

example : ((final false false DState.init [.probe [1], .probe [2]]).dead && !false) = false ∧
    ((final false true DState.init [.openHello (true, [Gen.Netconf.v1Dot0Cap], some [55]) [], .close]).dead
      && !true) = false := by decide

/-- as built: a hello WITHOUT session-id leaves the previous value of `sessionID` in place
(`processServerCapabilities` returns before assigning). Unreachable through the public API today
only because a driver object cannot be opened twice. -/
theorem session_id_kept_when_absent (s : DState) (caps : List Bytes) (pref : Bytes) :
    (negotiate false s (true, caps, none) pref).1.sid = s.sid := by
  simp only [negotiate, sidValue, Bool.not_true, Bool.false_eq_true, if_false, lookup_false, touch_false]
  rcases decideVer (caps.contains Gen.Netconf.v1Dot0Cap) (caps.contains Gen.Netconf.v1Dot1Cap) pref
    with ⟨st, r⟩
  cases st <;> cases r <;> rfl

/-- as built: once the channel was closed (by `Close` or by a failed `Open`) every later `Open`
fails with a connection error and changes nothing -/
theorem asBuilt_single_use (s : DState) (e : Ev) (hd : s.dead = true)
    (he : (∃ p q, e = .openHello p q) ∨ e = .openNoHello) :
    step false false s e = (s, .openDead) := by
  rcases he with ⟨p, q, rfl⟩ | rfl <;> simp [step, hd]

/-- **Negative witness (frozen index, the shape of seeded change C09k).** With a capability index
that is built once and never rebuilt, one `ServerHasCapability` call before `Open` makes the `Open`
reject a hello advertising both base versions, while without the call it selects 1.1: the probe is
not pure; and on a re-openable channel a second session against a 1.0-only server still
"negotiates" 1.1 from the first session's capabilities: the outcome does not depend on the last
hello only. -/
theorem frozen_index_violates_both :
    let both : Bool × List Bytes × Option Bytes :=
      (true, [Gen.Netconf.v1Dot0Cap, Gen.Netconf.v1Dot1Cap], some [49])
    let only10 : Bool × List Bytes × Option Bytes := (true, [Gen.Netconf.v1Dot0Cap], some [50])
    run true false DState.init [.probe Gen.Netconf.v1Dot0Cap, .openHello both []]
      = [.probed false [] 0 [], .openErr .netconf] ∧
    run true false DState.init [.openHello both []] = [.opened .v11] ∧
    run false false DState.init [.probe Gen.Netconf.v1Dot0Cap, .openHello both []]
      = [.probed false [] 0 [], .opened .v11] ∧
    run true true DState.init [.openHello both [], .close, .openHello only10 []]
      = [.opened .v11, .closed, .opened .v11] ∧
    run false true DState.init [.openHello both [], .close, .openHello only10 []]
      = [.opened .v11, .closed, .opened .v10] := by decide

/-! ## tie of the history model to the source (facts regenerated by `gen_c09.go` on every run) -/

/-- obligation: `ServerHasCapability` touches the capability list and nothing else of the driver
(no cache, no index, no once-guard): the `frozen = false` lookup of the history model -/
theorem hasCap_reads_only_capability_list :
    Gen.C09State.hasCapFound = true ∧ Gen.C09State.hasCapReceiverRefs = ["serverCapabilities"] := by
  decide

/-- obligation: `processServerCapabilities` replaces the capability list unconditionally (top
level of its body, before any statement that can return nil), and it is the only function of the
package that assigns the list: `negotiate`'s `{ s with caps := caps }` -/
theorem processCaps_assigns_list_unconditionally :
    Gen.C09State.procCapsFound = true ∧
    "serverCapabilities" ∈ Gen.C09State.procCapsAssignsBeforeSuccessReturn ∧
    Gen.C09State.capabilityListWriters = ["processServerCapabilities"] := by decide

/-- the session-id is assigned at the top level too, but only after the early `return nil` for a
hello without session-id — exactly the model's `session_id_kept_when_absent` -/
theorem processCaps_sessionID_after_early_return :
    "sessionID" ∈ Gen.C09State.procCapsTopLevelAssigns ∧
    "sessionID" ∉ Gen.C09State.procCapsAssignsBeforeSuccessReturn := by decide

/-! ## further ways into `Open`: in-channel authentication, a failing write of the client hello -/

/-- **Open through in-channel authentication** (system ssh transport, or any transport that logs
in through the channel): whatever banner preceded the password prompt, for every hello of the
grammar (incl. banner / MOTD text after the login and before the hello), every trailing text and
every segmentation of what arrives after the password, under the same two side conditions, the
login loop hands the hello over as one chunk and `Open` is the table's outcome with exactly the
server's capabilities and session-id. -/
theorem open_negotiates_after_inchannel_auth (delimP : Bytes → Bool) (depth : Nat) (ret : Bytes)
    (p : Pref) (L : Layout) (suffix : Bytes) (chunks : List Bytes)
    (hdelim : ∀ s, delimP s = isInfix Gen.Netconf.v1Dot0Delim s)
    (hL : L.ok = true) (hsuf : noLT suffix = true)
    (hchunks : chunks.flatten = render L ++ Gen.Netconf.v1Dot0Delim ++ suffix)
    (hearly : delimFirstAtEnd Gen.Netconf.v1Dot0Delim (render L) = true)
    (hwin : windowOK Gen.Netconf.v1Dot0Delim depth (render L) suffix = true) :
    ∃ q, openSessionAuth (parseHelloScan true) delimP depth ret p.bytes chunks =
      match sidValue L.sid,
        specVersion (hasCap (L.caps.map Prod.fst) Gen.Netconf.v1Dot0Cap)
          (hasCap (L.caps.map Prod.fst) Gen.Netconf.v1Dot1Cap) p with
      | some n, some v => .ok { ver := v, caps := L.caps.map Prod.fst, sid := n,
                                sent := clientHello v ++ ret, queue := q }
      | _, _ => .err .netconf := by
  obtain ⟨q, hq⟩ := openSessionAuth_render true delimP depth ret p.bytes L suffix chunks hdelim hL
    (by simp) hsuf hchunks hearly hwin
  refine ⟨q, ?_⟩
  rw [hq, specOpen, version_table]
  cases sidValue L.sid <;> simp only
  split <;> simp_all

/-- a failing write of the client hello never yields an open session: a negotiation that had
succeeded becomes a transport error, a failed one keeps its own error -/
theorem open_write_failure (r : Res) :
    (∀ o, withWriteFailure true r ≠ .ok o) ∧
    ((∃ o, r = .ok o) → withWriteFailure true r = .err .transport) ∧
    (∀ e, r = .err e → withWriteFailure true r = .err e) ∧
    withWriteFailure false r = r := by
  cases r with
  | err e => cases e <;> simp [withWriteFailure]
  | ok o => simp [withWriteFailure]

/-! ## several sessions in one process -/

/-- **Sessions are independent.** Interleave the events of any number of driver objects in any
order: what session `a` observes (every Open outcome, every getter answer) is exactly what it
observes when its own events run alone, its final state is the final state of its own events, and
therefore the framing of its later traffic (`sessionWire`) is a function of ITS hello and ITS
events only — whichever other session negotiated last. The correspondence run (`c09multi`) checks
the real drivers against this, two or three alive at once. -/
theorem sessions_are_independent (frozen reopen : Bool) (a : Nat) (st : Nat → DState)
    (evs : List (Nat × Ev)) :
    ((runMulti frozen reopen st evs).filter (fun o => o.1 == a)).map Prod.snd
      = run frozen reopen (st a) ((evs.filter (fun e => e.1 == a)).map Prod.snd) ∧
    finalMulti frozen reopen st evs a
      = final frozen reopen (st a) ((evs.filter (fun e => e.1 == a)).map Prod.snd) ∧
    ∀ ret xml, sessionWire (finalMulti frozen reopen st evs a) ret xml
      = sessionWire (final frozen reopen (st a) ((evs.filter (fun e => e.1 == a)).map Prod.snd)) ret xml := by
  have key : ((runMulti frozen reopen st evs).filter (fun o => o.1 == a)).map Prod.snd
        = run frozen reopen (st a) ((evs.filter (fun e => e.1 == a)).map Prod.snd) ∧
      finalMulti frozen reopen st evs a
        = final frozen reopen (st a) ((evs.filter (fun e => e.1 == a)).map Prod.snd) := by
    induction evs generalizing st with
    | nil => exact ⟨rfl, rfl⟩
    | cons e es ih =>
      obtain ⟨i, ev⟩ := e
      have h := ih (stepMulti frozen reopen st (i, ev)).1
      by_cases hi : i = a
      · subst hi
        simp only [runMulti, finalMulti, stepMulti, List.filter_cons, beq_self_eq_true, if_true,
          List.map_cons, run, final] at h ⊢
        exact ⟨by rw [h.1], h.2⟩
      · have hb : (i == a) = false := by simpa using hi
        have hst : (stepMulti frozen reopen st (i, ev)).1 a = st a := by
          simp only [stepMulti]
          have : ¬ a = i := fun h => hi h.symm
          simp [this]
        simp only [runMulti, finalMulti, List.filter_cons, hb, Bool.false_eq_true, if_false]
        have hb2 : ((stepMulti frozen reopen st (i, ev)).2.1 == a) = false := by simpa [stepMulti] using hi
        simp only [hb2, Bool.false_eq_true, if_false]
        rw [hst] at h
        exact h
  exact ⟨key.1, key.2, fun ret xml => by rw [key.2]⟩

example : ((runMulti false false (fun _ => DState.init)
    [(0, .openHello (true, [Gen.Netconf.v1Dot0Cap], some [49]) []),
     (1, .openHello (true, [Gen.Netconf.v1Dot0Cap, Gen.Netconf.v1Dot1Cap], some [50]) []),
     (0, .probe Gen.Netconf.v1Dot1Cap)]).filter (fun o => o.1 == 0)).map Prod.snd
    = [.opened .v10, .probed false [Gen.Netconf.v1Dot0Cap] 1 Gen.Netconf.V1Dot0] := by decide

/-- obligation (regenerated fact): no function of driver/netconf assigns a field of the
package-level pattern table outside its constructor — the one piece of process-wide state the
sessions share stays read-only -/
theorem pattern_table_is_read_only : Gen.C09State.patternTableWrites = [] := by decide

end Scrapli.Netconf.C09
