import ScrapliModel.Lemmas.HelloFrame
import ScrapliModel.Generated.BodiesNetconf
/-!
# C09 — NETCONF session establishment negotiates the right version or fails cleanly

Property theorems only. Model: `ScrapliModel/Netconf/Hello.lean` (mirrors
`driver/netconf/capabilities.go` and `Driver.Open`). The version strings, base capability URIs,
client hello texts, the 1.0 delimiter (`Generated/Consts.lean`) and the hello / capability /
session-id patterns (`Generated/Patterns.lean`) are regenerated from the source on every run.
-/
namespace Scrapli.Netconf.C09
open Scrapli Scrapli.Chan Scrapli.Netconf.Hello

/-! ## the version decision -/

/-- obligation on the regenerated constants: the two version strings differ from each other and
from the unset preference, and the two base URIs differ -/
theorem version_constants_distinct :
    Gen.Netconf.V1Dot0 ≠ Gen.Netconf.V1Dot1 ∧ Gen.Netconf.V1Dot0 ≠ [] ∧ Gen.Netconf.V1Dot1 ≠ [] ∧
    Gen.Netconf.v1Dot0Cap ≠ Gen.Netconf.v1Dot1Cap := by decide

/-- obligation on the regenerated constants: the version strings and base capability URIs are the
ones RFC 6241 §8.1 / RFC 4741 fix -/
theorem base_constants_are_rfc :
    Gen.Netconf.V1Dot0 = [49,46,48] ∧ Gen.Netconf.V1Dot1 = [49,46,49] ∧
    Gen.Netconf.v1Dot0Cap = [117,114,110,58,105,101,116,102,58,112,97,114,97,109,115,58,110,101,116,
      99,111,110,102,58,98,97,115,101,58,49,46,48] ∧
    Gen.Netconf.v1Dot1Cap = [117,114,110,58,105,101,116,102,58,112,97,114,97,109,115,58,110,101,116,
      99,111,110,102,58,98,97,115,101,58,49,46,49] ∧
    Gen.Netconf.v1Dot0Delim = [93,93,62,93,93,62] := by decide

/-- `determineVersion` is the specification table, for every capability list (any extra
capabilities, any order, duplicates) and each of the three preferences. -/
theorem version_table (caps : List Bytes) (p : Pref) :
    determineVersion caps p.bytes
      = specVersion (hasCap caps Gen.Netconf.v1Dot0Cap) (hasCap caps Gen.Netconf.v1Dot1Cap) p := by
  have h1 : (Gen.Netconf.V1Dot1 == Gen.Netconf.V1Dot0) = false := by decide
  have h2 : (([] : Bytes) == Gen.Netconf.V1Dot0) = false := by decide
  have h3 : (([] : Bytes) == Gen.Netconf.V1Dot1) = false := by decide
  unfold determineVersion specVersion
  cases p <;> cases hasCap caps Gen.Netconf.v1Dot0Cap <;> cases hasCap caps Gen.Netconf.v1Dot1Cap <;>
    simp [Pref.bytes, h1, h2, h3]

/-- the twelve cells, spelled out on the smallest capability lists -/
theorem version_table_cells :
    let c10 := Gen.Netconf.v1Dot0Cap
    let c11 := Gen.Netconf.v1Dot1Cap
    (determineVersion [] Pref.none.bytes = none) ∧
    (determineVersion [c10] Pref.none.bytes = some .v10) ∧
    (determineVersion [c11] Pref.none.bytes = some .v11) ∧
    (determineVersion [c10, c11] Pref.none.bytes = some .v11) ∧
    (determineVersion [] Pref.p10.bytes = none) ∧
    (determineVersion [c10] Pref.p10.bytes = some .v10) ∧
    (determineVersion [c11] Pref.p10.bytes = none) ∧
    (determineVersion [c10, c11] Pref.p10.bytes = some .v10) ∧
    (determineVersion [] Pref.p11.bytes = none) ∧
    (determineVersion [c10] Pref.p11.bytes = none) ∧
    (determineVersion [c11] Pref.p11.bytes = some .v11) ∧
    (determineVersion [c10, c11] Pref.p11.bytes = some .v11) := by decide

/-- the decision depends on the capability list only through membership of the two base URIs
(for every value of the preference field, valid or not) -/
theorem version_membership_only (caps caps' : List Bytes) (pref : Bytes)
    (h10 : hasCap caps Gen.Netconf.v1Dot0Cap = hasCap caps' Gen.Netconf.v1Dot0Cap)
    (h11 : hasCap caps Gen.Netconf.v1Dot1Cap = hasCap caps' Gen.Netconf.v1Dot1Cap) :
    determineVersion caps pref = determineVersion caps' pref := by
  unfold determineVersion
  rw [h10, h11]

/-- extra capabilities that are not base URIs never change the decision, wherever they stand -/
theorem version_ignores_extra (pre mid post base : List Bytes) (pref : Bytes)
    (hpre : ∀ c ∈ pre ++ mid ++ post, c ≠ Gen.Netconf.v1Dot0Cap ∧ c ≠ Gen.Netconf.v1Dot1Cap)
    (base1 base2 : List Bytes) (hb : base = base1 ++ base2) :
    determineVersion (pre ++ base1 ++ mid ++ base2 ++ post) pref = determineVersion base pref := by
  subst hb
  have key : ∀ c, (c = Gen.Netconf.v1Dot0Cap ∨ c = Gen.Netconf.v1Dot1Cap) →
      hasCap (pre ++ base1 ++ mid ++ base2 ++ post) c = hasCap (base1 ++ base2) c := by
    intro c hc
    have hn : ∀ x ∈ pre ++ mid ++ post, x ≠ c := by
      intro x hx
      rcases hc with rfl | rfl
      · exact (hpre x hx).1
      · exact (hpre x hx).2
    have hmem : ∀ l : List Bytes, (∀ x ∈ l, x ≠ c) → l.contains c = false := by
      intro l hl
      cases hcl : l.contains c with
      | false => rfl
      | true =>
        have hin : c ∈ l := by simpa using hcl
        exact absurd rfl (hl c hin)
    simp only [hasCap, List.contains_append]
    rw [hmem pre (fun x hx => hn x (by simp [hx])), hmem mid (fun x hx => hn x (by simp [hx])),
      hmem post (fun x hx => hn x (by simp [hx]))]
    simp
  exact version_membership_only _ _ pref (key _ (Or.inl rfl)) (key _ (Or.inr rfl))

example : ∀ c ∈ ([[1,2,3]] : List Bytes) ++ [[4]] ++ [[5,6]],
    c ≠ Gen.Netconf.v1Dot0Cap ∧ c ≠ Gen.Netconf.v1Dot1Cap := by decide

/-- a preference field that holds neither version string (only reachable by assigning the public
field directly: the option rejects it) behaves as no preference -/
theorem version_other_pref (caps : List Bytes) (pref : Bytes)
    (h : prefOptionOK pref = false) : determineVersion caps pref = determineVersion caps [] := by
  simp only [prefOptionOK, Bool.or_eq_false_iff] at h
  have h2 : (([] : Bytes) == Gen.Netconf.V1Dot0) = false := by decide
  have h3 : (([] : Bytes) == Gen.Netconf.V1Dot1) = false := by decide
  unfold determineVersion
  simp [h.1, h.2, h2, h3]

/-- the option accepts exactly the two version strings -/
theorem pref_option_valid (p : Pref) : prefOptionOK p.bytes = (p != .none) := by
  cases p <;> decide

/-! ## the client's own hello -/

/-- `clientHello v`, a regenerated constant, read with the library's own capability pattern (Lean
engine on the extracted term) and with the scanner: it is a hello, advertises exactly the selected
base capability, carries no session-id, and its only end-of-message marker is at its very end. -/
theorem client_hello_advertises_selected (v : Ver) :
    Rx.findAllGroup Gen.Rx.Netconf.capability (clientHello v) 1 = [v.cap] ∧
    Rx.isMatch Gen.Rx.Netconf.hello (clientHello v) = true ∧
    parseHelloScan true (clientHello v) = (true, [v.cap], none) ∧
    (∃ body, clientHello v = body ++ Gen.Netconf.v1Dot0Delim ∧
      indexOf Gen.Netconf.v1Dot0Delim (clientHello v) = some body.length) := by
  cases v
  · refine ⟨by decide +kernel, by decide +kernel, by decide +kernel,
      (clientHello .v10).take ((clientHello .v10).length - Gen.Netconf.v1Dot0Delim.length), ?_, ?_⟩
      <;> decide +kernel
  · refine ⟨by decide +kernel, by decide +kernel, by decide +kernel,
      (clientHello .v11).take ((clientHello .v11).length - Gen.Netconf.v1Dot0Delim.length), ?_, ?_⟩
      <;> decide +kernel

/-- the server, reading the client's hello, arrives at the version the client selected
(RFC 6241 §8.1: 1.1 iff both peers advertise it) -/
theorem peers_agree (caps : List Bytes) (pref : Bytes) (v : Ver)
    (h : determineVersion caps pref = some v) :
    serverVersion (hasCap caps Gen.Netconf.v1Dot1Cap) (parseHelloScan true (clientHello v)).2.1 = v := by
  rw [(client_hello_advertises_selected v).2.2.1]
  have hne : ([Gen.Netconf.v1Dot0Cap].contains Gen.Netconf.v1Dot1Cap) = false := by decide
  have heq : ([Gen.Netconf.v1Dot1Cap].contains Gen.Netconf.v1Dot1Cap) = true := by decide
  cases v with
  | v10 => simp only [serverVersion, hasCap, Ver.cap, hne, Bool.and_false, Bool.false_eq_true, if_false]
  | v11 =>
    have h11 : hasCap caps Gen.Netconf.v1Dot1Cap = true := by
      cases hc : hasCap caps Gen.Netconf.v1Dot1Cap with
      | true => rfl
      | false =>
        exfalso
        unfold determineVersion at h
        rw [hc] at h
        cases h10 : hasCap caps Gen.Netconf.v1Dot0Cap <;>
          cases hp0 : (pref == Gen.Netconf.V1Dot0) <;>
          cases hp1 : (pref == Gen.Netconf.V1Dot1) <;>
          simp [h10, hp0, hp1] at h
    simp only [serverVersion, hasCap, Ver.cap, heq, Bool.and_true]
    simp only [hasCap] at h11
    rw [h11]
    rfl

/-! ## reading the server's hello -/

/-- Every hello of the grammar — optional declaration, one optional namespace prefix on every
element, arbitrary attribute text, arbitrary `<`-free filler between elements, any list of
capability URIs (no `<`, no line feed), optional session-id of any decimal digits — followed by
any `<`-free text (the delimiter, trailing white space): the scanner finds the hello, exactly the
capability URIs in order, and exactly the session-id digits, prefixed or not. -/
theorem parseHelloScan_render (L : Layout) (tail : Bytes) (hL : L.ok = true)
    (ht : noLT tail = true) :
    parseHelloScan true (render L ++ tail) = (true, L.caps.map Prod.fst, L.sid) := by
  have h := L.ok_OK hL
  have ht' := (noLT_iff tail).mp ht
  simp only [parseHelloScan, hasHelloScan_render L tail h, capsScan_render L tail h ht',
    sidScan_render true L tail h ht' (by simp)]

/-- a prefixed hello with two capabilities (one with a query string) and a session-id is in the
grammar -/
def sampleLayout : Layout :=
  { decl := some [120,109,108,63,62], pfx := [110,99], attrs := [32,120,61,34,121,34],
    ws0 := [10], ws1 := [10,32], ws2 := [], ws3 := [9], ws4 := [10],
    caps := [(Gen.Netconf.v1Dot1Cap, [10]), ([117,58,120,63,97,61,98,38,99], [])],
    sid := some [52,50] }

example : sampleLayout.ok = true ∧ noLT Gen.Netconf.v1Dot0Delim = true := by decide

/-- the reported session-id is the server's number, for every number `Atoi` can hold -/
theorem session_id_exact (L : Layout) (tail : Bytes) (n : Nat) (hL : L.ok = true)
    (ht : noLT tail = true) (hs : L.sid = some (decDigits n)) (hn : n < 2 ^ 63) :
    sidValue (parseHelloScan true (render L ++ tail)).2.2 = some n := by
  rw [parseHelloScan_render L tail hL ht, hs]
  simp [sidValue, parseDec_decDigits, hn]

example : ({ sampleLayout with sid := some (decDigits 4294967295) } : Layout).ok = true := by
  decide +kernel

/-- the session-id pattern as it stood (no prefix accepted) still reads unprefixed hellos -/
theorem parseHelloScan_asIs_unprefixed (L : Layout) (tail : Bytes) (hL : L.ok = true)
    (ht : noLT tail = true) (hp : L.pfx = []) :
    parseHelloScan false (render L ++ tail) = (true, L.caps.map Prod.fst, L.sid) := by
  have h := L.ok_OK hL
  have ht' := (noLT_iff tail).mp ht
  simp only [parseHelloScan, hasHelloScan_render L tail h, capsScan_render L tail h ht',
    sidScan_render false L tail h ht' (fun _ => hp)]

/-- Finding F7 in the model, for ALL prefixed hellos: with a session-id pattern that accepts no
prefix, every hello of the grammar whose elements carry a namespace prefix loses its session-id
(the search finds nothing, `SessionID()` stays 0) while hello and capabilities are still read. -/
theorem asIs_prefixed_session_id_lost (L : Layout) (tail : Bytes) (hL : L.ok = true)
    (ht : noLT tail = true) (hp : L.pfx ≠ []) :
    parseHelloScan false (render L ++ tail) = (true, L.caps.map Prod.fst, none) ∧
    sidValue (parseHelloScan false (render L ++ tail)).2.2 = some 0 := by
  have h := L.ok_OK hL
  have ht' := (noLT_iff tail).mp ht
  have e : parseHelloScan false (render L ++ tail) = (true, L.caps.map Prod.fst, none) := by
    simp only [parseHelloScan, hasHelloScan_render L tail h, capsScan_render L tail h ht',
      sidScan_asIs_prefixed L tail h ht' hp]
  exact ⟨e, by rw [e]; rfl⟩

example : sampleLayout.pfx ≠ [] ∧ sampleLayout.sid = some [52,50] := by decide

/-- obligation on the regenerated session-id pattern (finding F7): like the hello and capability
patterns it must accept a namespace prefix on the element. Evaluated by the kernel on the
extracted term; fails on a tree whose pattern is `(?i)<session-id>(\d+)</session-id>`. -/
theorem sessionID_pattern_accepts_prefix :
    Rx.findGroup Gen.Rx.Netconf.sessionID
      [60,110,99,58,115,101,115,115,105,111,110,45,105,100,62,52,50,60,47,110,99,58,115,101,115,115,
       105,111,110,45,105,100,62] 1 = some [52,50] ∧
    Rx.findGroup Gen.Rx.Netconf.sessionID
      [60,115,101,115,115,105,111,110,45,105,100,62,52,50,60,47,115,101,115,115,105,111,110,45,105,
       100,62] 1 = some [52,50] := by decide +kernel

/-- obligation on the regenerated constant: a successful `FindSubmatch` of the one-group
session-id pattern (length 2) passes the length test in `processServerCapabilities` -/
theorem sessionID_match_length : sidMatchLenOK = true := by decide

/-- the three extracted patterns and the scanner agree on the sample hello (engine in the kernel) -/
theorem engine_scanner_agree_sample :
    parseHello (render sampleLayout ++ Gen.Netconf.v1Dot0Delim ++ [10])
      = parseHelloScan true (render sampleLayout ++ Gen.Netconf.v1Dot0Delim ++ [10]) := by
  decide +kernel

/-! ## `Open` -/

/-- **Open negotiates or fails cleanly, over every read segmentation.** For every hello `L` of the
grammar, every trailing text `suffix`, every segmentation `chunks` of `hello ++ delimiter ++ suffix`
(any chunk sizes, empty chunks included), every preference: provided the delimiter first completes
at the end of the hello and is visible in the search window once it has arrived (the two decidable
side conditions the driver evaluates per case), `Open` fails with a NETCONF error exactly in the
failure cells of the table (or when the session-id exceeds `int`), and otherwise selects the
table's version, reports exactly the server's capabilities and session-id, and has written exactly
one client hello for the selected version followed by the return. -/
theorem open_negotiates (delimP : Bytes → Bool) (depth : Nat) (ret : Bytes) (p : Pref)
    (L : Layout) (suffix : Bytes) (chunks : List Bytes)
    (hdelim : ∀ s, delimP s = isInfix Gen.Netconf.v1Dot0Delim s)
    (hL : L.ok = true) (hsuf : noLT suffix = true)
    (hchunks : chunks.flatten = render L ++ Gen.Netconf.v1Dot0Delim ++ suffix)
    (hearly : delimFirstAtEnd Gen.Netconf.v1Dot0Delim (render L) = true)
    (hwin : windowOK Gen.Netconf.v1Dot0Delim depth (render L) suffix = true) :
    ∃ q, openSession (parseHelloScan true) delimP depth ret p.bytes chunks =
      match sidValue L.sid,
        specVersion (hasCap (L.caps.map Prod.fst) Gen.Netconf.v1Dot0Cap)
          (hasCap (L.caps.map Prod.fst) Gen.Netconf.v1Dot1Cap) p with
      | some n, some v => .ok { ver := v, caps := L.caps.map Prod.fst, sid := n,
                                sent := clientHello v ++ ret, queue := q }
      | _, _ => .err .netconf := by
  obtain ⟨q, hq⟩ := openSession_render true delimP depth ret p.bytes L suffix chunks hdelim hL
    (by simp) hsuf hchunks hearly hwin
  refine ⟨q, ?_⟩
  rw [hq, specOpen, version_table]
  cases sidValue L.sid <;> simp only
  split <;> simp_all

example : delimFirstAtEnd Gen.Netconf.v1Dot0Delim (render sampleLayout) = true ∧
    windowOK Gen.Netconf.v1Dot0Delim 1000 (render sampleLayout) [10] = true ∧
    windowOK Gen.Netconf.v1Dot0Delim 20 (render sampleLayout) [10] = true := by decide +kernel

/-- the window condition holds whenever the whole stream fits into the search depth -/
theorem windowOK_short (D H suffix : Bytes) (depth : Nat)
    (h : (H ++ D ++ suffix).length ≤ depth) : windowOK D depth H suffix = true := by
  simp only [windowOK, List.all_eq_true, List.mem_range]
  intro j hj
  have hl : ((H ++ D ++ suffix).take (H.length + D.length + j)).length ≤ depth := by
    rw [List.length_take]; omega
  simp only [window, hl, if_true]
  rw [take_stream H D suffix _ (by omega)]
  exact (isInfix_iff D _).mpr ⟨H, suffix.take (H.length + D.length + j - (H.length + D.length)), by simp⟩

/-- a message that holds no hello element makes `Open` fail with a NETCONF error (whatever else it
holds), as soon as the read completes -/
theorem open_fails_without_hello (parse : Bytes → Bool × List Bytes × Option Bytes)
    (delimP : Bytes → Bool) (depth : Nat) (ret pref : Bytes) (chunks : List Bytes) (b : Bytes)
    (q : List Bytes)
    (hread : readUntil (fun rb => delimP (window rb depth)) chunks [] = some (b, q))
    (hno : (parse b).1 = false) :
    openSession parse delimP depth ret pref chunks = .err .netconf := by
  unfold openSession
  rw [hread]
  simp only
  rcases hp : parse b with ⟨hello, caps, sid⟩
  rw [hp] at hno
  simp only at hno
  simp [hno]

/-- `Open` never succeeds with anything but a table version and the matching client hello -/
theorem open_ok_sound (parse : Bytes → Bool × List Bytes × Option Bytes)
    (delimP : Bytes → Bool) (depth : Nat) (ret pref : Bytes) (chunks : List Bytes) (o : Opened)
    (h : openSession parse delimP depth ret pref chunks = .ok o) :
    determineVersion o.caps pref = some o.ver ∧ o.sent = clientHello o.ver ++ ret := by
  unfold openSession at h
  split at h
  · simp at h
  · rename_i b q hr
    simp only at h
    rcases hp : parse b with ⟨hello, caps, sid⟩
    rw [hp] at h
    simp only at h
    split at h
    · simp at h
    · split at h
      · simp at h
      · split at h
        · simp at h
        · rename_i v hv
          simp only [Res.ok.injEq] at h
          subst h
          exact ⟨hv, rfl⟩

/-! ## after `Open`: framing follows the selected version -/

/-- 1.1 selected: everything the client writes after its hello — the hello's return, then per
request the `#len` header, the XML, `\n##`, and the two returns — is exactly a sequence of
RFC 6242 single-chunk frames, one per request (plus the line feed that opens the next one), and a
strict RFC 6242 decoder reads each frame back to the request XML. -/
theorem framing_follows_version_11 (reqs : List Bytes) (xml rest : Bytes) (hne : xml ≠ []) :
    [LF] ++ (reqs.map (requestWire .v11 [LF])).flatten = (reqs.map frame11).flatten ++ [LF] ∧
    decodeOne11 (frame11 xml ++ rest) = some (xml, rest) :=
  ⟨stream11_regroup reqs, decodeOne11_frame11 xml rest hne⟩

/-- 1.0 selected: every request is its XML followed by the end-of-message marker and the return,
and a strict RFC 4742 decoder (text up to the first marker) reads it back, provided the XML itself
does not contain the marker. -/
theorem framing_follows_version_10 (reqs : List Bytes) (ret xml rest : Bytes)
    (h : delimFirstAtEnd Gen.Netconf.v1Dot0Delim (LF :: xml) = true) :
    (reqs.map (requestWire .v10 ret)).flatten
      = (reqs.map fun x => x ++ Gen.Netconf.v1Dot0Delim ++ ret).flatten ∧
    decodeOne10 (LF :: (xml ++ Gen.Netconf.v1Dot0Delim ++ rest))
      = some (xml.dropWhile (· == LF), rest) :=
  ⟨stream10_shape reqs ret, decodeOne10_frame xml rest h⟩

example : delimFirstAtEnd Gen.Netconf.v1Dot0Delim (LF :: [60,114,112,99,47,62]) = true := by
  decide +kernel

/-! ## tie to the source: translated body = model (regenerated on every run) -/

/-- the body of `(*Driver).determineVersion` as the translator renders it from the current source
(`Generated/BodiesNetconf.lean`; `sel0`, `p0` = `SelectedVersion` and the channel's prompt pattern
on entry, `d10` / `d11` = the two compiled delimiter patterns): whenever the model selects a
version the code returns `nil`, stores that version's string and installs that version's delimiter
pattern; whenever the model fails the code returns an error wrapping `ErrNetconfError` -/
theorem generated_determineVersion_eq {P : Type} (caps : List Bytes) (pref : Bytes) (d10 d11 : P)
    (sel0 : Bytes) (p0 : P) :
    match determineVersion caps pref with
    | some v => Gen.Bodies.Netconf.determineVersion caps pref d10 d11 sel0 p0
                  = (none, v.str, match v with | .v10 => d10 | .v11 => d11)
    | none => (Gen.Bodies.Netconf.determineVersion caps pref d10 d11 sel0 p0).1
                  = some "ErrNetconfError" := by
  have hne : (Gen.Netconf.V1Dot1 == Gen.Netconf.V1Dot0) = false := by decide
  unfold Gen.Bodies.Netconf.determineVersion determineVersion
  cases h11 : hasCap caps Gen.Netconf.v1Dot1Cap <;> cases h10 : hasCap caps Gen.Netconf.v1Dot0Cap <;>
    cases hp0 : pref == Gen.Netconf.V1Dot0 <;> cases hp1 : pref == Gen.Netconf.V1Dot1 <;>
    simp [hne, Ver.str]

end Scrapli.Netconf.C09
