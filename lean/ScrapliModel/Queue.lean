import ScrapliModel.Bytes
/-!
# Queue: model of `util/queue.go` (core Lean only)

```go
type Queue struct {
	queue     [][]byte
	depth     int
	depthChan chan int      // capacity 1, always holds (or is about to hold) the published depth
	lock      *sync.RWMutex
}
```

Three layers:

* `Spec`   — the abstract queue the property talks about: a `List Bytes`.
* `Seq`    — the Go methods as total functions on the concrete state `(queue, depth, token, locked)`
             (used when one goroutine calls them; this is what the differential run executes).
* `Conc`   — the same methods as small-step programs (one step per lock / unlock / channel
             operation / slice or depth statement) for ONE producer goroutine (`Enqueue`) and ONE
             consumer goroutine (`Dequeue`, `DequeueAll`, `Requeue`, `GetDepth`), with arbitrary
             chunk contents, an unbounded number of operations and arbitrary interleaving.
-/
namespace Scrapli.Queue

/-! ## operations and their observable results -/

inductive Op where
  | enq (b : Bytes)
  | deq
  | deqAll
  | req (b : Bytes)
  | depth
  deriving Repr, DecidableEq

/-- what a caller observes: `Enqueue`/`Requeue` return nothing, `Dequeue`/`DequeueAll` return a
slice (`none` = Go `nil`), `GetDepth` an `int`. -/
inductive Out where
  | unit
  | bytes (r : Option Bytes)
  | num (d : Int)
  deriving Repr, DecidableEq

/-! ## Spec: a list of chunks -/
namespace Spec

def apply : Op → List Bytes → Out × List Bytes
  | .enq b, l => (.unit, l ++ [b])
  | .req b, l => (.unit, b :: l)
  | .deq, [] => (.bytes none, [])
  | .deq, h :: t => (.bytes (some h), t)
  | .deqAll, [] => (.bytes none, [])
  | .deqAll, h :: t => (.bytes (some (h :: t).flatten), [])
  | .depth, l => (.num (l.length : Int), l)

def run : List Op → List Bytes → List Out × List Bytes
  | [], l => ([], l)
  | o :: os, l =>
    let (r, l') := apply o l
    let (rs, l'') := run os l'
    (r :: rs, l'')

end Spec

/-! ## Seq: the Go methods, one caller -/

/-- the Go struct. `token` is the content of the 1-slot `depthChan` (`none` = channel empty);
`locked` is the RWMutex (between calls of a single goroutine it is always free). -/
structure Q where
  queue : List Bytes
  depth : Int
  token : Option Int
  locked : Bool
  deriving Repr, DecidableEq

/-- ways a call can fail to return -/
inductive Fault where
  | panic      -- index out of range
  | deadlock   -- blocks forever: receive from the empty depth channel / send to the full one / Lock on a held lock
  deriving Repr, DecidableEq

/-- `NewQueue()` -/
def new : Q := { queue := [], depth := 0, token := some 0, locked := false }

namespace Seq

/-- `q.lock.Lock()` -/
def lock (q : Q) : Except Fault Q :=
  if q.locked then .error .deadlock else .ok { q with locked := true }

/-- deferred `q.lock.Unlock()` -/
def unlock (q : Q) : Q := { q with locked := false }

/-- `<-q.depthChan` -/
def recvTok (q : Q) : Except Fault (Int × Q) :=
  match q.token with
  | some d => .ok (d, { q with token := none })
  | none => .error .deadlock

/-- `q.depthChan <- v` -/
def sendTok (q : Q) (v : Int) : Except Fault Q :=
  match q.token with
  | none => .ok { q with token := some v }
  | some _ => .error .deadlock

/-- `<-q.depthChan; q.depthChan <- q.depth` -/
def republish (q : Q) : Except Fault Q := do
  let (_, q) ← recvTok q
  sendTok q q.depth

/-- `getDepth()`: `d := <-q.depthChan; q.depthChan <- d; return d` -/
def getDepthTok (q : Q) : Except Fault (Int × Q) := do
  let (d, q) ← recvTok q
  let q ← sendTok q d
  pure (d, q)

def enqueue (q : Q) (b : Bytes) : Except Fault Q := do
  let q ← lock q
  let q := { q with queue := q.queue ++ [b] }
  let q := { q with depth := q.depth + 1 }
  let q ← republish q
  pure (unlock q)

def requeue (q : Q) (b : Bytes) : Except Fault Q := do
  let q ← lock q
  let q := { q with queue := b :: q.queue }
  let q := { q with depth := q.depth + 1 }
  let q ← republish q
  pure (unlock q)

def dequeue (q : Q) : Except Fault (Option Bytes × Q) := do
  let (d, q) ← getDepthTok q
  if d = 0 then pure (none, q) else
  let q ← lock q
  match q.queue with
  | [] => pure (none, unlock q)               -- `if len(q.queue) == 0 { return nil }` (re-check under the lock)
  | b :: rest =>                              -- b := q.queue[0]
    let q := { q with queue := rest }         -- q.queue = q.queue[1:]
    let q := { q with depth := q.depth - 1 }
    let q ← republish q
    pure (some b, unlock q)

def dequeueAll (q : Q) : Except Fault (Option Bytes × Q) := do
  let (d, q) ← getDepthTok q
  if d = 0 then pure (none, q) else
  let q ← lock q
  let b := q.queue
  let q := { q with queue := [] }
  let q := { q with depth := 0 }
  let q ← republish q
  pure (some b.flatten, unlock q)             -- bytes.Join(b, []byte{})

/-- `GetDepth()`: RLock; read `q.depth`; RUnlock -/
def getDepth (q : Q) : Except Fault (Int × Q) := do
  let q ← lock q
  pure (q.depth, unlock q)

def apply : Op → Q → Except Fault (Out × Q)
  | .enq b, q => do let q ← enqueue q b; pure (.unit, q)
  | .req b, q => do let q ← requeue q b; pure (.unit, q)
  | .deq, q => do let (r, q) ← dequeue q; pure (.bytes r, q)
  | .deqAll, q => do let (r, q) ← dequeueAll q; pure (.bytes r, q)
  | .depth, q => do let (d, q) ← getDepth q; pure (.num d, q)

/-- run a history; stops at the first fault -/
def run : List Op → Q → Except Fault (List Out × Q)
  | [], q => .ok ([], q)
  | o :: os, q => do
    let (r, q) ← apply o q
    let (rs, q) ← run os q
    pure (r :: rs, q)

end Seq

/-! ## Conc: one producer, one consumer, small steps -/
namespace Conc

inductive Who where
  | prod | cons
  deriving Repr, DecidableEq

/-- producer program counter: `Enqueue(b)` -/
inductive PPc where
  | idle
  | lock (b : Bytes)      -- about to `q.lock.Lock()`
  | app (b : Bytes)       -- about to `q.queue = append(q.queue, b)`
  | inc                   -- about to `q.depth++`
  | recv                  -- about to `<-q.depthChan`
  | send                  -- about to `q.depthChan <- q.depth`
  | unlock                -- about to run the deferred `Unlock`
  deriving Repr, DecidableEq

/-- which of the two methods that start with `getDepth()` the consumer is in -/
inductive Kind where
  | dq | da
  deriving Repr, DecidableEq

/-- a consumer call's result as logged when it returns. `deqAll` keeps the chunk list it joined
(the caller sees `chunks.flatten`). -/
inductive Ret where
  | deq (r : Option Bytes)
  | deqAll (chunks : Option (List Bytes))
  | req (b : Bytes)
  | depth (d : Int)
  deriving Repr, DecidableEq

/-- consumer program counter -/
inductive CPc where
  | idle
  -- getDepth() at the top of Dequeue / DequeueAll
  | gRecv (k : Kind)              -- about to `d := <-q.depthChan`
  | gSend (k : Kind) (d : Int)    -- about to `q.depthChan <- d`
  | gTest (k : Kind) (d : Int)    -- about to test `d == 0` (return nil) else go on
  | lock (k : Kind)               -- about to `q.lock.Lock()`
  -- Dequeue
  | dqChk                         -- about to test `len(q.queue) == 0` under the lock (return nil)
  | dqIdx                         -- about to `b := q.queue[0]`
  | dqSlice (b : Bytes)           -- about to `q.queue = q.queue[1:]`
  | dqDec (b : Bytes)             -- about to `q.depth--`
  -- DequeueAll
  | daTake                        -- about to `b := q.queue`
  | daNil (bs : List Bytes)       -- about to `q.queue = nil`
  | daZero (bs : List Bytes)      -- about to `q.depth = 0`
  -- Requeue(b)
  | rqLock (b : Bytes)            -- about to `q.lock.Lock()`
  | rqPrep (b : Bytes)            -- about to `q.queue = append([][]byte{b}, q.queue...)`
  | rqInc (b : Bytes)             -- about to `q.depth++`
  -- common tail of the three mutators: republish depth, unlock, return
  | pubRecv (r : Ret)             -- about to `<-q.depthChan`
  | pubSend (r : Ret)             -- about to `q.depthChan <- q.depth`
  | unlock (r : Ret)              -- about to run the deferred `Unlock` and return `r`
  -- GetDepth
  | gdRLock                       -- about to `q.lock.RLock()`
  | gdRead                        -- about to read `q.depth`
  | gdRUnlock (d : Int)           -- about to `RUnlock` and return `d`
  -- the goroutine died with an index-out-of-range panic
  | panicked
  deriving Repr, DecidableEq

/-- what the consumer may call next -/
inductive Call where
  | dequeue | dequeueAll | requeue (b : Bytes) | getDepth
  deriving Repr, DecidableEq

/-- consumer-side events at the moment the slice is changed -/
inductive CEv where
  | got (c : Bytes)     -- chunk `c` taken off the front
  | back (b : Bytes)    -- chunk `b` put back at the front
  deriving Repr, DecidableEq

/-- global state: the shared struct, both program counters, and history variables
(`produced`, `clog`, `rets` are never read by the programs). With one reader and one writer an
`RLock` excludes the writer exactly like a `Lock`, so the RWMutex is `Option Who`. -/
structure St where
  queue : List Bytes
  depth : Int
  token : Option Int
  lock : Option Who
  ppc : PPc
  cpc : CPc
  produced : List Bytes     -- chunks appended by the producer, in order
  clog : List CEv           -- consumer's slice mutations, in order
  rets : List Ret           -- results of the consumer's completed calls, in order
  deriving Repr, DecidableEq

def init : St :=
  { queue := [], depth := 0, token := some 0, lock := none, ppc := .idle, cpc := .idle,
    produced := [], clog := [], rets := [] }

/-- one producer step; `b` is the argument used if the step is a new `Enqueue(b)` call.
`none` = the producer is blocked in this state. -/
def stepP (s : St) (b : Bytes) : Option St :=
  match s.ppc with
  | .idle => some { s with ppc := .lock b }
  | .lock b => if s.lock = none then some { s with lock := some .prod, ppc := .app b } else none
  | .app b => some { s with queue := s.queue ++ [b], produced := s.produced ++ [b], ppc := .inc }
  | .inc => some { s with depth := s.depth + 1, ppc := .recv }
  | .recv => match s.token with
    | some _ => some { s with token := none, ppc := .send }
    | none => none
  | .send => match s.token with
    | none => some { s with token := some s.depth, ppc := .unlock }
    | some _ => none
  | .unlock => some { s with lock := none, ppc := .idle }

/-- one consumer step; `call` is used if the step is a new call. `none` = blocked (or dead). -/
def stepC (s : St) (call : Call) : Option St :=
  match s.cpc with
  | .idle => match call with
    | .dequeue => some { s with cpc := .gRecv .dq }
    | .dequeueAll => some { s with cpc := .gRecv .da }
    | .requeue b => some { s with cpc := .rqLock b }
    | .getDepth => some { s with cpc := .gdRLock }
  | .gRecv k => match s.token with
    | some d => some { s with token := none, cpc := .gSend k d }
    | none => none
  | .gSend k d => match s.token with
    | none => some { s with token := some d, cpc := .gTest k d }
    | some _ => none
  | .gTest k d =>
    if d = 0 then
      some { s with cpc := .idle,
                    rets := s.rets ++ [match k with | .dq => Ret.deq none | .da => Ret.deqAll none] }
    else some { s with cpc := .lock k }
  | .lock k =>
    if s.lock = none then
      some { s with lock := some .cons, cpc := match k with | .dq => .dqChk | .da => .daTake }
    else none
  | .dqChk => match s.queue with
    | [] => some { s with cpc := .unlock (.deq none) }
    | _ :: _ => some { s with cpc := .dqIdx }
  | .dqIdx => match s.queue with
    | [] => some { s with cpc := .panicked }
    | b :: _ => some { s with cpc := .dqSlice b }
  | .dqSlice b => some { s with queue := s.queue.drop 1, clog := s.clog ++ [.got b], cpc := .dqDec b }
  | .dqDec b => some { s with depth := s.depth - 1, cpc := .pubRecv (.deq (some b)) }
  | .daTake => some { s with cpc := .daNil s.queue }
  | .daNil bs => some { s with queue := [], clog := s.clog ++ bs.map .got, cpc := .daZero bs }
  | .daZero bs => some { s with depth := 0, cpc := .pubRecv (.deqAll (some bs)) }
  | .rqLock b => if s.lock = none then some { s with lock := some .cons, cpc := .rqPrep b } else none
  | .rqPrep b => some { s with queue := b :: s.queue, clog := s.clog ++ [.back b], cpc := .rqInc b }
  | .rqInc b => some { s with depth := s.depth + 1, cpc := .pubRecv (.req b) }
  | .pubRecv r => match s.token with
    | some _ => some { s with token := none, cpc := .pubSend r }
    | none => none
  | .pubSend r => match s.token with
    | none => some { s with token := some s.depth, cpc := .unlock r }
    | some _ => none
  | .unlock r => some { s with lock := none, rets := s.rets ++ [r], cpc := .idle }
  | .gdRLock => if s.lock = none then some { s with lock := some .cons, cpc := .gdRead } else none
  | .gdRead => some { s with cpc := .gdRUnlock s.depth }
  | .gdRUnlock d => some { s with lock := none, rets := s.rets ++ [.depth d], cpc := .idle }
  | .panicked => none

/-- a step of the system: either goroutine moves (any schedule), any argument -/
inductive Step : St → St → Prop where
  | p (b : Bytes) {s s' : St} : stepP s b = some s' → Step s s'
  | c (call : Call) {s s' : St} : stepC s call = some s' → Step s s'

/-- reachable under some schedule, some arguments, any number of steps -/
inductive Reach : St → Prop where
  | init : Reach init
  | step {s s' : St} : Reach s → Step s s' → Reach s'

/-! ### the FIFO statement -/

/-- A reader of the chunk stream `S` with a push-back stack: `got c` must find `c` at the front and
removes it, `back b` puts `b` in front. Returns what is left, or `none` if some `got` did not
match. -/
def consume : List CEv → List Bytes → Option (List Bytes)
  | [], S => some S
  | .got c :: es, S => match S with
    | [] => none
    | h :: t => if h = c then consume es t else none
  | .back b :: es, S => consume es (b :: S)

/-- slice mutations a completed call stands for -/
def Ret.events : Ret → List CEv
  | .deq (some b) => [.got b]
  | .deq none => []
  | .deqAll (some bs) => bs.map .got
  | .deqAll none => []
  | .req b => [.back b]
  | .depth _ => []

/-- bytes a completed call handed to the caller -/
def Ret.bytes : Ret → Bytes
  | .deq (some b) => b
  | .deqAll (some bs) => bs.flatten
  | _ => []

/-- slice mutations already done by the call in progress -/
def CPc.pending : CPc → List CEv
  | .dqDec b => [.got b]
  | .daZero bs => bs.map .got
  | .rqInc b => [.back b]
  | .pubRecv r => r.events
  | .pubSend r => r.events
  | .unlock r => r.events
  | _ => []

/-- the call steps: a goroutine that is idle starts a new operation -/
def PPc.busy : PPc → Bool
  | .idle => false
  | _ => true

def CPc.busy : CPc → Bool
  | .idle => false
  | .panicked => false
  | _ => true

/-- a step of a goroutine that is inside an operation (no new call is started) -/
inductive BusyStep : St → St → Prop where
  | p (b : Bytes) {s s' : St} : s.ppc.busy = true → stepP s b = some s' → BusyStep s s'
  | c (call : Call) {s s' : St} : s.cpc.busy = true → stepC s call = some s' → BusyStep s s'

/-- zero or more busy steps -/
inductive BusySteps : St → St → Prop where
  | refl (s : St) : BusySteps s s
  | step {s s' s'' : St} : BusyStep s s' → BusySteps s' s'' → BusySteps s s''

/-- steps the producer still has to take before its call returns -/
def PPc.rem : PPc → Nat
  | .idle => 0 | .lock _ => 6 | .app _ => 5 | .inc => 4 | .recv => 3 | .send => 2 | .unlock => 1

/-- upper bound on the steps the consumer still has to take before its call returns -/
def CPc.rem : CPc → Nat
  | .idle => 0 | .panicked => 0
  | .gRecv _ => 11 | .gSend _ _ => 10 | .gTest _ _ => 9 | .lock _ => 8
  | .dqChk => 7 | .dqIdx => 6 | .dqSlice _ => 5 | .dqDec _ => 4
  | .daTake => 6 | .daNil _ => 5 | .daZero _ => 4
  | .rqLock _ => 6 | .rqPrep _ => 5 | .rqInc _ => 4
  | .pubRecv _ => 3 | .pubSend _ => 2 | .unlock _ => 1
  | .gdRLock => 3 | .gdRead => 2 | .gdRUnlock _ => 1

def St.rem (s : St) : Nat := s.ppc.rem + s.cpc.rem

/-- the consumer's byte stream: everything its calls returned, concatenated -/
def outBytes (rets : List Ret) : Bytes := (rets.map Ret.bytes).flatten

/-- chunks taken by a completed call -/
def Ret.chunks : Ret → List Bytes
  | .deq (some b) => [b]
  | .deqAll (some bs) => bs
  | _ => []

def Ret.isReq : Ret → Bool
  | .req _ => true
  | _ => false

def gotsOf : List CEv → List Bytes
  | [] => []
  | .got c :: es => c :: gotsOf es
  | .back _ :: es => gotsOf es

def backsOf : List CEv → List Bytes
  | [] => []
  | .got _ :: es => backsOf es
  | .back b :: es => b :: backsOf es

end Conc
end Scrapli.Queue
