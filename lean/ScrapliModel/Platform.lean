import ScrapliModel.Regex
/-!
# Platform definitions as data (property C17)

Mirror of `platform/definition.go`, `platform/onx.go`, `platform/options.go` and of the parts of
`driver/network/privilege.go` / `acquirepriv.go` that consume a definition:

* `Sections` = `platform.Platform` (the eight sections `mergeVariant` may replace + `options`),
  with Go's zero values: `""` for an absent string, `[]` for an absent list, `none` for a nil
  on-X list (`some []` is YAML `[]`: non-nil and empty).
* `mergeVariant` statement by statement.
* `Level` = `network.PrivilegeLevel` plus the translator's witness prompts.
* the checks the property names as decidable `Bool` functions over a definition: driver type,
  default level, single tree, key = name, witnesses, prompt classes, on-X well-formedness,
  reachability over the usable escalate / deescalate links.

Core only; everything is evaluated by the kernel in `Props/C17.lean` over `Generated/Platforms`.
-/
namespace Scrapli.Platform
open Scrapli Scrapli.Rx

/-- a YAML value as `yaml.v3` decodes it into `interface{}` -/
inductive Val
  | null
  | str (s : String)
  | bool (b : Bool)
  | int (i : Int)
  | float (repr : String)
  | strList (l : List String)
  | other (kind : String)
  deriving DecidableEq, Repr, Inhabited

/-- one on-open / on-close step: the YAML map, keys sorted -/
structure Step where
  fields : List (String × Val)
  deriving DecidableEq, Repr, Inhabited

def Step.get (s : Step) (k : String) : Option Val :=
  (s.fields.find? fun kv => kv.1 == k).map (·.2)

/-- `network.PrivilegeLevel` as loaded from a definition (+ map key, parsed patterns, witnesses) -/
structure Level where
  key : String := ""
  name : String := ""
  patternSrc : String := ""
  patternOk : Bool := true
  pattern : Re := .empty
  notContains : List String := []
  notContainsB : List Bytes := []
  previous : String := ""
  deescalate : String := ""
  escalate : String := ""
  escalateAuth : Bool := false
  escalatePromptSrc : String := ""
  escalatePromptOk : Bool := true
  escalatePrompt : Re := .empty
  witnessFound : Bool := false
  witness : Bytes := []
  authWitness : Bytes := []
  deriving Repr, Inhabited

/-- `platform.optionDefinition` -/
structure OptionDef where
  name : String
  value : Val
  deriving DecidableEq, Repr, Inhabited

/-- `platform.Platform`: the sections of a definition, generic in the representation of levels,
steps and options (`mergeVariant` never looks inside them). -/
structure Sections (L S O : Type) where
  driverType : String := ""
  failedWhen : List String := []
  onOpen : Option (List S) := none
  onClose : Option (List S) := none
  levels : List L := []
  defaultLevel : String := ""
  netOnOpen : Option (List S) := none
  netOnClose : Option (List S) := none
  options : List O := []
  deriving Repr, Inhabited

abbrev Def := Sections Level Step OptionDef

/-! `(*Platform).mergeVariant`, one function per `if` statement of the Go method, composed in
source order (`options` is never touched). -/
section merge
variable {L S O : Type}

def mDriverType (v p : Sections L S O) : Sections L S O :=
  if v.driverType != "" then { p with driverType := v.driverType } else p
def mFailedWhen (v p : Sections L S O) : Sections L S O :=
  if v.failedWhen.length > 0 then { p with failedWhen := v.failedWhen } else p
def mOnOpen (v p : Sections L S O) : Sections L S O :=
  if v.onOpen.isSome then { p with onOpen := v.onOpen } else p
def mOnClose (v p : Sections L S O) : Sections L S O :=
  if v.onClose.isSome then { p with onClose := v.onClose } else p
def mLevels (v p : Sections L S O) : Sections L S O :=
  if v.levels.length > 0 then { p with levels := v.levels } else p
def mDefaultLevel (v p : Sections L S O) : Sections L S O :=
  if v.defaultLevel != "" then { p with defaultLevel := v.defaultLevel } else p
def mNetOnOpen (v p : Sections L S O) : Sections L S O :=
  if v.netOnOpen.isSome then { p with netOnOpen := v.netOnOpen } else p
def mNetOnClose (v p : Sections L S O) : Sections L S O :=
  if v.netOnClose.isSome then { p with netOnClose := v.netOnClose } else p

def mergeVariant (p v : Sections L S O) : Sections L S O :=
  mNetOnClose v (mNetOnOpen v (mDefaultLevel v (mLevels v (mOnClose v (mOnOpen v (mFailedWhen v (mDriverType v p)))))))

end merge

/-- one embedded definition file -/
structure PlatformFile where
  file : String
  parses : Bool
  platformType : String
  hasDefault : Bool
  default : Def
  variants : List (String × Def)
  deriving Repr, Inhabited

/-- a definition as `NewPlatform` (variant `""`) or `NewPlatformVariant` hands it to `setDriver` -/
structure Loaded where
  file : String
  variant : String
  d : Def
  deriving Repr, Inhabited

def PlatformFile.loaded (f : PlatformFile) : List Loaded :=
  ⟨f.file, "", f.default⟩ :: f.variants.map fun nv => ⟨f.file, nv.1, mergeVariant f.default nv.2⟩

def allLoaded (fs : List PlatformFile) : List Loaded := fs.flatMap PlatformFile.loaded

def lookupLoaded (fs : List PlatformFile) (file variant : String) : Option Loaded :=
  (allLoaded fs).find? fun l => l.file == file && l.variant == variant

/-! ## loads over a history

`NewPlatform` / `NewPlatformVariant` read the embedded bytes and parse them on every call: the
instance a caller receives is its own, and whatever the caller does to it (any in-place mutation of
the level map, the level structs, the failure strings, the step lists) stays with that instance. -/

/-- `loadPlatformDefinition`: the embedded assets first, the caller's file system / URL only when
no asset has that name -/
def resolveSource {α : Type} (embedded fileOrURL : String → Option α) (name : String) : Option α :=
  match embedded name with
  | some d => some d
  | none => fileOrURL name

/-- one earlier load: which definition was asked for, and what its holder then did to it -/
structure LoadEvent where
  file : String
  variant : String
  mutate : Def → Def

def loadDef (fs : List PlatformFile) (file variant : String) : Option Def :=
  (lookupLoaded fs file variant).map (·.d)

/-- the instances handed out so far, as their holders have left them -/
def liveInstances (fs : List PlatformFile) : List LoadEvent → List (Option Def)
  | [] => []
  | e :: t => (loadDef fs e.file e.variant).map e.mutate :: liveInstances fs t

/-- a load after a history: (the new instance, the instances alive before it) -/
def loadAfter (fs : List PlatformFile) (hist : List LoadEvent) (file variant : String) :
    Option Def × List (Option Def) :=
  (loadDef fs file variant, liveInstances fs hist)

/-! ## the effective configuration: definition options, then the user's

`setDriver` builds `finalOpts := p.AsOptions() ++ opts` and the constructors apply that list in
order; every option is an unconditional assignment to its field (no option looks at another field
when it is applied), and the driver is validated once, after the whole list. -/

/-- the driver fields a definition / a user option list can set (levels, steps as opaque tokens) -/
structure DriverCfg where
  levels : List String := []
  defaultLevel : String := ""
  failedWhen : List String := []
  onOpen : String := ""
  onClose : String := ""
  port : Nat := 22
  transportType : String := "system"
  deriving DecidableEq, Repr

inductive CfgOpt
  | levels (l : List String)
  | default (s : String)
  | failedWhen (l : List String)
  | onOpen (f : String)
  | onClose (f : String)
  | port (n : Nat)
  | transportType (s : String)
  deriving DecidableEq, Repr

/-- which field an option assigns -/
def CfgOpt.field : CfgOpt → Nat
  | .levels _ => 0 | .default _ => 1 | .failedWhen _ => 2 | .onOpen _ => 3 | .onClose _ => 4
  | .port _ => 5 | .transportType _ => 6

def applyOpt (c : DriverCfg) : CfgOpt → DriverCfg
  | .levels l => { c with levels := l }
  | .default s => { c with defaultLevel := s }
  | .failedWhen l => { c with failedWhen := l }
  | .onOpen f => { c with onOpen := f }
  | .onClose f => { c with onClose := f }
  | .port n => { c with port := n }
  | .transportType s => { c with transportType := s }

def applyAll (c : DriverCfg) (os : List CfgOpt) : DriverCfg := os.foldl applyOpt c

/-- what `NewPlatform(name, host, user…)` configures: the definition's options, then the user's -/
def effectiveCfg (defn user : List CfgOpt) : DriverCfg := applyAll {} (defn ++ user)

/-- `network.NewDriver`'s only validation, on the final configuration -/
def cfgConstructs (c : DriverCfg) : Bool := c.defaultLevel != "" && !c.levels.isEmpty

/-! ## what `setDriver` does with a definition -/

inductive DriverKind | generic | network | none
  deriving DecidableEq, Repr

inductive LoadErr | ok | badoption
  deriving DecidableEq, Repr

/-- `setDriver`: which driver is built, and `network.NewDriver`'s complaint when the default level
or the level map is missing. An unknown driver type builds nothing and reports nothing. -/
def setDriver {L S O : Type} (p : Sections L S O) : DriverKind × LoadErr :=
  if p.driverType == "generic" then (.generic, .ok)
  else if p.driverType == "network" then
    if p.defaultLevel == "" || p.levels.length == 0 then (.none, .badoption) else (.network, .ok)
  else (.none, .ok)

/-! ## checks over one definition -/


def driverTypeValid (d : Def) : Bool := d.driverType == "generic" || d.driverType == "network"

def isNetwork (d : Def) : Bool := d.driverType == "network"

def findLevel (d : Def) (k : String) : Option Level := d.levels.find? fun l => l.key == k

def hasLevel (d : Def) (k : String) : Bool := d.levels.any fun l => l.key == k

def defaultLevelExists (d : Def) : Bool := hasLevel d d.defaultLevel

def keyEqName (d : Def) : Bool := d.levels.all fun l => l.key == l.name

def keysDistinct : List String → Bool
  | [] => true
  | k :: t => !t.contains k && keysDistinct t

/-- follow `previous-priv` links from level `k`; `true` iff the root (no previous) is reached
within `fuel` hops and every link names a level -/
def climbs (d : Def) : Nat → String → Bool
  | 0, _ => false
  | f+1, k =>
    match findLevel d k with
    | none => false
    | some l => if l.previous == "" then true else climbs d f l.previous

def roots (d : Def) : List String := (d.levels.filter fun l => l.previous == "").map (·.key)

/-- one root, every `previous-priv` names a level, no cycle (every level climbs to the root in
fewer hops than there are levels), level names pairwise distinct -/
def singleTree (d : Def) : Bool :=
  (roots d).length == 1
  && d.levels.all (fun l => l.previous == "" || hasLevel d l.previous)
  && d.levels.all (fun l => climbs d d.levels.length l.key)
  && keysDistinct (d.levels.map (·.name))

/-- `buildPrivGraph` does not panic: every non-empty `previous-priv` is the *name* of some level.
(The graph is keyed by name; the second loop writes the reverse edge into `privGraph[previous]`,
an assignment to a nil map when no level has that name.) -/
def graphBuildable (d : Def) : Bool :=
  d.levels.all fun l => l.previous == "" || d.levels.any fun x => x.name == l.previous

def patternsCompile (d : Def) : Bool :=
  d.levels.all fun l => l.patternOk && l.escalatePromptOk

def containsAny (s : Bytes) (l : List Bytes) : Bool := l.any fun n => isInfix n s

/-- `determineCurrentPriv`'s test for one level -/
def levelMatches (l : Level) (prompt : Bytes) : Bool :=
  !containsAny prompt l.notContainsB && isMatch l.pattern prompt

/-- the joined prompt pattern (`buildJoinedPromptPattern`): alternation of the level patterns in
the given order (Go joins the sources with `|` in map order; every embedded pattern carries its
own flag group, so the alternation of the parsed terms is the parse of the joined source — the
harness diffs this against the driver's real `Channel.PromptPattern`) -/
def joinedOf : List Re → Re
  | [] => .empty
  | [r] => r
  | r :: t => .alt r (joinedOf t)

def joined (d : Def) : Re := joinedOf (d.levels.map (·.pattern))

def joinedInOrder (d : Def) (order : List String) : Re :=
  joinedOf (order.filterMap fun k => (findLevel d k).map (·.pattern))

/-- the constructor returns a driver: `setDriver` is content, and for a network driver
`UpdatePrivileges` neither hits an invalid pattern (`MustCompile`) nor the nil-map write -/
def constructs (d : Def) : Bool :=
  (setDriver d).2 == .ok && (setDriver d).1 != .none &&
  (d.driverType != "network" || ((d.levels.all fun l => l.patternOk) && graphBuildable d))

def witnessOk (d : Def) (l : Level) : Bool :=
  l.witnessFound && !l.witness.isEmpty && levelMatches l l.witness && isMatch (joined d) l.witness

def witnessesOk (d : Def) : Bool := d.levels.all (witnessOk d)

/-- an authenticated edge needs an escalate prompt the device can show -/
def authEdgesOk (d : Def) : Bool :=
  d.levels.all fun l => !l.escalateAuth ||
    (l.escalatePromptSrc != "" && !l.authWitness.isEmpty && isMatch l.escalatePrompt (LF :: l.authWitness))

/-! ### prompt classes -/

/-- `a`'s canonical prompt is also accepted by `b` (or the other way round) -/
def confusable (a b : Level) : Bool := levelMatches b a.witness || levelMatches a b.witness

/-- the pairs (by key, `a < b` in list order) whose canonical prompts do not tell them apart -/
def confusablePairs : List Level → List (String × String)
  | [] => []
  | a :: t => ((t.filter (confusable a)).map fun b => (a.key, b.key)) ++ confusablePairs t

def linked (pairs : List (String × String)) (a b : String) : Bool :=
  pairs.any fun p => (p.1 == a && p.2 == b) || (p.1 == b && p.2 == a)

/-- grow a set of keys by the `pairs` relation, `fuel` rounds -/
def closeUnder (pairs : List (String × String)) (keys : List String) : Nat → List String → List String
  | 0, acc => acc
  | f+1, acc =>
    let more := keys.filter fun k => !acc.contains k && acc.any fun a => linked pairs a k
    if more.isEmpty then acc else closeUnder pairs keys f (acc ++ more)

def classOf (pairs : List (String × String)) (keys : List String) (k : String) : List String :=
  let c := closeUnder pairs keys keys.length [k]
  keys.filter c.contains

/-- the prompt classes, each in key order, listed by first member -/
def classesFrom (pairs : List (String × String)) (keys : List String) : List (List String) :=
  (keys.map (classOf pairs keys)).eraseDups

def promptClasses (d : Def) : List (List String) :=
  classesFrom (confusablePairs d.levels) (d.levels.map (·.key))

/-- lookup in the translator's table of Go-computed prompt classes -/
def goClassesFor (tab : List (String × String × List (List String))) (file variant : String) :
    Option (List (List String)) :=
  (tab.find? fun e => e.1 == file && e.2.1 == variant).map (·.2.2)

/-! ### on-open / on-close -/

def opChannelWrite : String := "channel.write"
def opChannelReturn : String := "channel.return"
def opAcquirePriv : String := "acquire-priv"
def opDriverSendCommand : String := "driver.send-command"

def isStr : Option Val → Bool
  | some (.str _) => true
  | _ => false

/-- a step is one of the four operations with its required argument of the right type;
`acquire-priv` without `target` means the default level; a `target` must name a level;
`redacted`, when given, is a bool -/
def stepOk (d : Def) (s : Step) : Bool :=
  match s.get "operation" with
  | some (.str op) =>
    if op == opChannelWrite then
      isStr (s.get "input") && (match s.get "redacted" with | none => true | some (.bool _) => true | _ => false)
    else if op == opChannelReturn then true
    else if op == opAcquirePriv then
      match s.get "target" with
      | none => hasLevel d d.defaultLevel
      | some (.str t) => hasLevel d t
      | _ => false
    else if op == opDriverSendCommand then isStr (s.get "command")
    else false
  | _ => false

/-- the generic runner (`asGenericOnX`) only executes the two channel operations -/
def genericStepOk (s : Step) : Bool :=
  match s.get "operation" with
  | some (.str op) => op == opChannelWrite || op == opChannelReturn
  | _ => false

def stepsOk (d : Def) : Option (List Step) → Bool
  | none => true
  | some l => l.all (stepOk d)

def onxWellformed (d : Def) : Bool :=
  stepsOk d d.onOpen && stepsOk d d.onClose && stepsOk d d.netOnOpen && stepsOk d d.netOnClose

def genericOnxEffective (d : Def) : Bool :=
  (d.onOpen.getD []).all genericStepOk && (d.onClose.getD []).all genericStepOk

/-! ### the network on-X interpreter (`asNetworkOnX`)

The closure `asNetworkOnX` returns runs when the driver opens / closes, i.e. after ALL options —
the definition's and the user's layered on top — have been applied. An `acquire-priv` step without
a string `target` reads `d.DefaultDesiredPriv` at that moment: the driver's run-time default, not
the definition's `default-desired-privilege-level`. -/

inductive OnxAction
  | write (input : String)
  | ret
  | acquire (target : String)
  | sendCommand (cmd : String)
  | badValue          -- `ErrBadOption`: the list stops here
  | skip              -- unknown operation string: nothing happens
  | panic             -- `operation` is not a string
  deriving DecidableEq, Repr

/-- one step of `asNetworkOnX` against a driver whose default desired level is `runtimeDefault` -/
def onxAction (runtimeDefault : String) (s : Step) : OnxAction :=
  match s.get "operation" with
  | some (.str op) =>
    if op == opChannelWrite then
      match s.get "input" with
      | some (.str i) => .write i
      | _ => .badValue
    else if op == opChannelReturn then .ret
    else if op == opAcquirePriv then
      .acquire (match s.get "target" with
        | some (.str t) => t
        | _ => runtimeDefault)
    else if op == opDriverSendCommand then
      match s.get "command" with
      | some (.str c) => .sendCommand c
      | _ => .badValue
    else .skip
  | _ => .panic

/-- the whole list, up to and including the first step that returns an error -/
def runNetworkOnX (runtimeDefault : String) : List Step → List OnxAction
  | [] => []
  | s :: t =>
    let a := onxAction runtimeDefault s
    if a == .badValue || a == .panic then [a] else a :: runNetworkOnX runtimeDefault t

/-- one step of `asGenericOnX`: only the two channel operations do anything -/
def onxActionGeneric (s : Step) : OnxAction :=
  match s.get "operation" with
  | some (.str op) =>
    if op == opChannelWrite then
      match s.get "input" with
      | some (.str i) => .write i
      | _ => .badValue
    else if op == opChannelReturn then .ret
    else .skip
  | _ => .panic

def runGenericOnX : List Step → List OnxAction
  | [] => []
  | s :: t =>
    let a := onxActionGeneric s
    if a == .badValue || a == .panic then [a] else a :: runGenericOnX t

/-- `DefaultDesiredPriv` of the driver `setDriver` builds: `AsOptions` puts the definition's value
first, the user's options are appended and applied after it, so a user `WithDefaultDesiredPriv`
wins -/
def runtimeDefault (d : Def) (user : Option String) : String := user.getD d.defaultLevel

def acquireTargets (as : List OnxAction) : List String :=
  as.filterMap fun a => match a with | .acquire t => some t | _ => none

/-- the `target` arguments a step list names explicitly -/
def explicitTargets (steps : List Step) : List String :=
  steps.filterMap fun s => match s.get "target" with | some (.str t) => some t | _ => none

/-! ### options (`optionDefinitions.asOptions`) -/

/-- what one entry of the `options:` block does: it lands on a field of the driver / channel /
transport arguments, or `asOptions` panics on it (wrong value type; an unknown name leaves a nil
option whose application panics), or the constructor refuses it (`ErrBadOption`) -/
inductive OptOutcome
  | lands (field : String)
  | panics
  | badoption
  deriving DecidableEq, Repr

def transportTypes : List String := ["system", "standard", "telnet", "file"]

def optionOutcome (o : OptionDef) : OptOutcome :=
  let str (f : String) : OptOutcome := match o.value with | .str _ => .lands f | _ => .panics
  let int (f : String) : OptOutcome := match o.value with | .int _ => .lands f | _ => .panics
  let flt (f : String) : OptOutcome := match o.value with | .float _ => .lands f | _ => .panics
  if o.name == "port" then int "Args.Port"
  else if o.name == "read-size" then int "Args.ReadSize"
  else if o.name == "transport-pty-height" then int "Args.TermHeight"
  else if o.name == "transport-pty-width" then int "Args.TermWidth"
  else if o.name == "auth-bypass" then .lands "Channel.AuthBypass"
  else if o.name == "auth-strict-key" then .lands "SSHArgs.StrictKey"
  else if o.name == "prompt-pattern" then str "Channel.PromptPattern"
  else if o.name == "username-pattern" then str "Channel.UsernamePattern"
  else if o.name == "password-pattern" then str "Channel.PasswordPattern"
  else if o.name == "passphrase-pattern" then str "Channel.PassphrasePattern"
  else if o.name == "return-char" then str "Channel.ReturnChar"
  else if o.name == "read-delay" then flt "Channel.ReadDelay"
  else if o.name == "timeout-ops" then flt "Channel.TimeoutOps"
  else if o.name == "transport-type" then
    match o.value with
    | .str t => if transportTypes.contains t then .lands "Driver.TransportType" else .badoption
    | _ => .panics
  else if o.name == "transport-system-open-args" then
    match o.value with
    | .strList _ => .lands "System.ExtraArgs"   -- a YAML list of strings (`[]interface{}`)
    | _ => .panics
  else .panics   -- unknown name: nil option

/-- `asOptions` and the application of the option do not panic -/
def optionOk (o : OptionDef) : Bool := optionOutcome o != .panics

/-- the outcome of a whole block: every type assertion runs first (`asOptions` builds the whole
slice), then the constructor applies the options in order and stops at the first nil option
(panic) or refusal -/
def optionsOutcome (os : List OptionDef) : OptOutcome :=
  let typePanic := os.any fun o => optionOutcome o == .panics && (o.name == "port" || o.name == "read-size"
    || o.name == "transport-pty-height" || o.name == "transport-pty-width" || o.name == "prompt-pattern"
    || o.name == "username-pattern" || o.name == "password-pattern" || o.name == "passphrase-pattern"
    || o.name == "return-char" || o.name == "read-delay" || o.name == "timeout-ops" || o.name == "transport-type"
    || o.name == "transport-system-open-args")
  if typePanic then .panics else
  match os.find? fun o => match optionOutcome o with | .lands _ => false | _ => true with
  | some o => optionOutcome o
  | none => .lands ""

def optionsOk (d : Def) : Bool := d.options.all optionOk

/-! ### reachability over the usable links

From level `a` the driver can go *up* to `a.previous` when `a` has a deescalate command, and *down*
into a child `c` (`c.previous = a`) when `c` has an escalate command. Levels whose canonical
prompts do not tell them apart count as one node. -/

def usableEdge (a b : Level) : Bool :=
  (b.previous == a.key && b.escalate != "") || (a.previous == b.key && a.deescalate != "")

def stepTo (pairs : List (String × String)) (a b : Level) : Bool :=
  usableEdge a b || linked pairs a.key b.key

def reachFrom (d : Def) (pairs : List (String × String)) : Nat → List String → List String
  | 0, acc => acc
  | f+1, acc =>
    let more := d.levels.filter fun b => !acc.contains b.key &&
      d.levels.any fun a => acc.contains a.key && stepTo pairs a b
    if more.isEmpty then acc else reachFrom d pairs f (acc ++ more.map (·.key))

/-- a level the property allows as a target: the root, or a level with an escalate command -/
def targetable (l : Level) : Bool := l.previous == "" || l.escalate != ""

def allReachable (d : Def) : Bool :=
  let pairs := confusablePairs d.levels
  d.levels.all fun a =>
    let r := reachFrom d pairs d.levels.length [a.key]
    d.levels.all fun b => !targetable b || r.contains b.key

/-- transition commands are unambiguous where the device has to tell them apart: the children of
one level have pairwise different escalate commands, and none equals the parent's own deescalate
command -/
def transitionsUnambiguous (d : Def) : Bool :=
  d.levels.all fun p =>
    let kids := (d.levels.filter fun c => c.previous == p.key && c.escalate != "").map (·.escalate)
    keysDistinct kids && (p.previous == "" || p.deescalate == "" || !kids.contains p.deescalate)

/-- the source-level content of a level (everything the YAML gives) -/
def Level.sig (l : Level) : List String × List String × Bool :=
  ([l.key, l.name, l.patternSrc, l.previous, l.deescalate, l.escalate, l.escalatePromptSrc], l.notContains, l.escalateAuth)

/-- two definitions have the same content, section by section -/
def defAgree (a b : Def) : Bool :=
  a.driverType == b.driverType && a.failedWhen == b.failedWhen && a.onOpen == b.onOpen && a.onClose == b.onClose
  && a.levels.map Level.sig == b.levels.map Level.sig && a.defaultLevel == b.defaultLevel
  && a.netOnOpen == b.netOnOpen && a.netOnClose == b.netOnClose && a.options == b.options

/-! ### canonical text (model driver ↔ harness) -/

def hexS (s : String) : String := toHex s.toUTF8.toList

def Val.canon : Val → String
  | .null => "n"
  | .str s => "s" ++ hexS s
  | .bool b => if b then "b1" else "b0"
  | .int i => "i" ++ toString i
  | .float r => "f" ++ hexS r
  | .strList l => "l" ++ "+".intercalate (l.map hexS)
  | .other k => "o" ++ hexS k

def Step.canon (s : Step) : String :=
  if s.fields.isEmpty then "{}" else
  "&".intercalate (s.fields.map fun kv => hexS kv.1 ++ "=" ++ kv.2.canon)

def stepsCanon : Option (List Step) → String
  | none => "nil"
  | some [] => "[]"
  | some l => ";".intercalate (l.map Step.canon)

def Level.canon (l : Level) : String :=
  "/".intercalate [hexS l.key, hexS l.name, hexS l.patternSrc,
    (if l.notContains.isEmpty then "." else "+".intercalate (l.notContains.map hexS)),
    hexS l.previous, hexS l.deescalate, hexS l.escalate, (if l.escalateAuth then "1" else "0"),
    hexS l.escalatePromptSrc]

def listCanon (l : List String) : String := if l.isEmpty then "." else ",".intercalate l

def Def.canon (d : Def) : String :=
  " ".intercalate [
    "dt=" ++ hexS d.driverType,
    "fw=" ++ listCanon (d.failedWhen.map hexS),
    "oo=" ++ stepsCanon d.onOpen, "oc=" ++ stepsCanon d.onClose,
    "pl=" ++ listCanon (d.levels.map Level.canon),
    "dd=" ++ hexS d.defaultLevel,
    "noo=" ++ stepsCanon d.netOnOpen, "noc=" ++ stepsCanon d.netOnClose,
    "opt=" ++ listCanon (d.options.map fun o => hexS o.name ++ "=" ++ o.value.canon)]

end Scrapli.Platform
