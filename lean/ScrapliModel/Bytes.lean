/-!
# Bytes: shared byte-string helpers for all models (core Lean only)
-/
namespace Scrapli

abbrev Bytes := List UInt8

def LF : UInt8 := 10
def CR : UInt8 := 13
def SP : UInt8 := 32
def TAB : UInt8 := 9
def HASH : UInt8 := 35
def ESC : UInt8 := 27

/-- Go `unicode.IsSpace` restricted to ASCII bytes as `bytes.TrimSpace` sees them:
    `\t \n \v \f \r ' '` (0x85 and 0xA0 are only space as *runes*; as lone bytes they are
    invalid UTF-8 and not trimmed). -/
def isSpaceB (b : UInt8) : Bool :=
  b == 9 || b == 10 || b == 11 || b == 12 || b == 13 || b == 32

def trimLeft (p : UInt8 → Bool) (l : Bytes) : Bytes := l.dropWhile p
def trimRight (p : UInt8 → Bool) (l : Bytes) : Bytes := (l.reverse.dropWhile p).reverse
def trimSpace (l : Bytes) : Bytes := trimRight isSpaceB (trimLeft isSpaceB l)

/-- `bytes.HasPrefix` -/
def hasPrefix : Bytes → Bytes → Bool
  | _, [] => true
  | [], _ :: _ => false
  | a :: s, b :: p => a == b && hasPrefix s p

/-- `bytes.TrimPrefix` -/
def trimPrefix (s p : Bytes) : Bytes := if hasPrefix s p then s.drop p.length else s

/-- `bytes.Contains` -/
def isInfix (needle : Bytes) : Bytes → Bool
  | [] => needle.isEmpty
  | b :: t => hasPrefix (b :: t) needle || isInfix needle t

/-- `bytes.TrimSuffix` -/
def trimSuffix (s p : Bytes) : Bytes :=
  if hasPrefix s.reverse p.reverse then s.take (s.length - p.length) else s

/-- split on LF, like `bytes.Split(b, "\n")` (always at least one element) -/
def splitLF : Bytes → List Bytes
  | [] => [[]]
  | b :: t =>
    match splitLF t with
    | [] => [[]]  -- unreachable
    | l :: ls => if b == LF then [] :: l :: ls else (b :: l) :: ls

def joinLF : List Bytes → Bytes
  | [] => []
  | [l] => l
  | l :: ls => l ++ LF :: joinLF ls

/-! ## decimal -/
def digitByte : Nat → UInt8
  | 0 => 48 | 1 => 49 | 2 => 50 | 3 => 51 | 4 => 52 | 5 => 53 | 6 => 54 | 7 => 55 | 8 => 56 | _ => 57

def digitVal : UInt8 → Nat
  | 48 => 0 | 49 => 1 | 50 => 2 | 51 => 3 | 52 => 4 | 53 => 5 | 54 => 6 | 55 => 7 | 56 => 8 | 57 => 9
  | _ => 0

def isDigit (b : UInt8) : Bool := 48 ≤ b && b ≤ 57

/-- decimal digits, most significant first -/
def decDigits (n : Nat) : Bytes :=
  if h : n < 10 then [digitByte n] else decDigits (n / 10) ++ [digitByte (n % 10)]
termination_by n
decreasing_by omega

def parseDecAux (acc : Nat) : Bytes → Option Nat
  | [] => some acc
  | b :: t => if isDigit b then parseDecAux (acc * 10 + digitVal b) t else none

/-- all-digit, non-empty decimal -/
def parseDec : Bytes → Option Nat
  | [] => none
  | bs => parseDecAux 0 bs

/-! ## hex line protocol -/
def hexDigit (n : Nat) : Char :=
  if n < 10 then Char.ofNat (48 + n) else Char.ofNat (87 + n)

def hexVal (c : Char) : Option Nat :=
  let n := c.toNat
  if 48 ≤ n && n ≤ 57 then some (n - 48)
  else if 97 ≤ n && n ≤ 102 then some (n - 87)
  else none

def toHex (b : Bytes) : String :=
  if b.isEmpty then "-" else
  String.ofList (b.flatMap fun x => [hexDigit (x.toNat / 16), hexDigit (x.toNat % 16)])

def fromHexAux : List Char → Option Bytes
  | [] => some []
  | [_] => none
  | a :: b :: t => do
    let x ← hexVal a
    let y ← hexVal b
    let r ← fromHexAux t
    pure (UInt8.ofNat (x * 16 + y) :: r)

/-- `-` encodes the empty string -/
def fromHex (s : String) : Option Bytes :=
  if s == "-" then some [] else fromHexAux s.toList

def ofStr (s : String) : Bytes := s.toUTF8.toList

end Scrapli
