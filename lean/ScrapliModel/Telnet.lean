import ScrapliModel.Bytes
import ScrapliModel.Generated.Consts
/-!
# Telnet: option negotiation while the connection opens (`transport/telnet.go`)

Two independent halves.

* **Model of the code** (`step`, `negotiate`, `Conn.read`): mirrors
  `Telnet.handleControlCharResponse`, the byte-at-a-time loop of `handleControlChars`, and
  `Telnet.Read`, statement by statement. The protocol bytes are the *generated* constants
  `Scrapli.Gen.Transport.«iac»` … (regenerated from the source on every run).
  `step` models the REPAIRED parser (fix for finding F8); `stepAsIs` keeps the behaviour of the
  parser before the repair so the defect itself is a theorem and the harness can classify it.
* **Specification** (`Tok`, `tokenize`, `encode`, `Tok.delivered`, `Tok.answer`): an RFC 854
  tokenizer written with look-ahead over the byte stream and RFC literal byte values
  (255, 251…254, 3); it shares no definition with the model.

Not modelled: a failing `conn.Write` (the reply is assumed to be written; the Go code aborts `Open`
with the write error), `SetReadDeadline` errors, and *when* the negotiation phase ends (the phase
ends after `TimeoutSocket/4` resp. `/2` of silence; the model takes the bytes that arrived before
that as its input, whatever they are).
-/
namespace Scrapli.Telnet
open Scrapli

/-! ## Model of the code -/

def IAC  : UInt8 := UInt8.ofNat Gen.Transport.«iac»
def DONT : UInt8 := UInt8.ofNat Gen.Transport.«dont»
def DO   : UInt8 := UInt8.ofNat Gen.Transport.«do»
def WONT : UInt8 := UInt8.ofNat Gen.Transport.«wont»
def WILL : UInt8 := UInt8.ofNat Gen.Transport.«will»
def SGA  : UInt8 := UInt8.ofNat Gen.Transport.«sga»

/-- parser state: `ctrl` = `ctrlBuf` (local of `handleControlChars`), `data` = `t.initialBuf`,
`replies` = the byte strings passed to `t.c.Write`, in order -/
structure St where
  ctrl : Bytes := []
  data : Bytes := []
  replies : List Bytes := []
deriving DecidableEq, Repr

/-- `util.ByteIsAny(c, []byte{do, dont, will, wont})` -/
def isVerb (c : UInt8) : Bool := c == DO || c == DONT || c == WILL || c == WONT

/-- the `if cmd == do && c == sga … else if …` ladder: what is written for `IAC cmd c` -/
def replyFor (cmd c : UInt8) : Option Bytes :=
  if cmd == DO && c == SGA then some [IAC, WILL, c]
  else if cmd == DO || cmd == DONT then some [IAC, WONT, c]
  else if cmd == WILL then some [IAC, DO, c]
  else if cmd == WONT then some [IAC, DONT, c]
  else none

/-- the `len(ctrlBuf) == 2` branch (shared by the repaired and the as-is parser) -/
def finish (s : St) (cmd c : UInt8) : St :=
  match replyFor cmd c with
  | some r => { s with ctrl := [], replies := s.replies ++ [r] }
  | none => { s with ctrl := [] }

/-- `handleControlCharResponse(ctrlBuf, c)` with the F8 repair: in the "saw IAC" state a byte that
is not DO/DONT/WILL/WONT ends the sequence (two-byte command); if it is IAC itself, it is the
escaped data byte 255. -/
def step (s : St) (c : UInt8) : St :=
  match s.ctrl with
  | [] => if c != IAC then { s with data := s.data ++ [c] } else { s with ctrl := s.ctrl ++ [c] }
  | [_] =>
    if isVerb c then { s with ctrl := s.ctrl ++ [c] }
    else if c == IAC then { s with ctrl := [], data := s.data ++ [c] }
    else { s with ctrl := [] }
  | [_, cmd] => finish s cmd c
  | _ => s

/-- the parser as it was before the repair: in the "saw IAC" state every non-verb byte is ignored
and the state is kept (finding F8) -/
def stepAsIs (s : St) (c : UInt8) : St :=
  match s.ctrl with
  | [] => if c != IAC then { s with data := s.data ++ [c] } else { s with ctrl := s.ctrl ++ [c] }
  | [_] => if isVerb c then { s with ctrl := s.ctrl ++ [c] } else s
  | [_, cmd] => finish s cmd c
  | _ => s

/-- the loop of `handleControlChars`: one `Read` of one byte, one parser step -/
def negotiate (s : St) (bs : Bytes) : St := bs.foldl step s
def negotiateAsIs (s : St) (bs : Bytes) : St := bs.foldl stepAsIs s

/-- the same loop when the bytes arrive as a sequence of TCP segments -/
def negotiateSegs (s : St) (segs : List Bytes) : St := segs.foldl negotiate s

/-- `Open`: fresh `Telnet` value, empty `ctrlBuf` -/
def openWith (bs : Bytes) : St := negotiate {} bs

/-! ### the same `Telnet` object opened again

Of the parser's state only `initialBuf` lives on the object (`ctrlBuf` is a local of
`handleControlChars`, `c` is replaced by the new dial), and `Open` does not clear it. -/

/-- `Open` on an object whose `initialBuf` still holds `leftover` (bytes buffered by an earlier
opening that no `Read` handed out, e.g. because that `Open` failed) -/
def openOn (leftover : Bytes) (bs : Bytes) : St := negotiate { data := leftover } bs

/-- one opening in the life of a transport object: the bytes that arrived during its negotiation
phase and whether the caller read afterwards (`Read` hands out and clears a non-empty
`initialBuf`; after a failed `Open` nobody reads) -/
structure Opening where
  bytes : Bytes
  drained : Bool
deriving DecidableEq, Repr

/-- the parser results of consecutive openings of one object -/
def history : Bytes → List Opening → List St
  | _, [] => []
  | leftover, o :: os =>
    let s := openOn leftover o.bytes
    s :: history (if o.drained then [] else s.data) os

/-- the connection after `Open`, as `Telnet.Read` sees it: `initialBuf` and the chunks that later
`c.Read` calls on the socket will return, in order -/
structure Conn where
  initialBuf : Bytes
  sock : List Bytes
deriving DecidableEq, Repr

/-- `Telnet.Read`: `if len(t.initialBuf) > 0 { b := t.initialBuf; t.initialBuf = nil; return b }`
else one socket read (`none` = the socket read blocks / has nothing more) -/
def Conn.read (t : Conn) : Option Bytes × Conn :=
  if t.initialBuf.length > 0 then (some t.initialBuf, { t with initialBuf := [] })
  else match t.sock with
    | [] => (none, t)
    | c :: cs => (some c, { t with sock := cs })

/-- the results of the first `n` successful `Read` calls -/
def Conn.reads : Nat → Conn → List Bytes
  | 0, _ => []
  | n + 1, t =>
    match t.read with
    | (some b, t') => b :: Conn.reads n t'
    | (none, _) => []

/-! ### `Read(n)`: the read size

`Telnet.Read(n)` as the code has it hands out the WHOLE `initialBuf` on the first call, whatever
`n` is (`b := t.initialBuf; t.initialBuf = nil; return b, nil` — `n` is only used for the socket
read), so the first read may be longer than `n`. Two other treatments of the buffer are modelled so
that the conservation theorem and its negative witness can be stated: handing out at most `n`
bytes and KEEPING the rest for the next call (also correct), and copying at most `n` bytes and
dropping the rest (loses data). A socket read of size `n` returns at most `n` bytes of the next
pending chunk and leaves the remainder of that chunk pending. -/

inductive BufPolicy
  | whole     -- the code: return initialBuf, ignore n
  | keepRest  -- return initialBuf[:n], keep initialBuf[n:]
  | dropRest  -- copy(b[:n], initialBuf); initialBuf = nil
deriving DecidableEq, Repr

def Conn.readN (p : BufPolicy) (n : Nat) (t : Conn) : Option Bytes × Conn :=
  if t.initialBuf.length > 0 then
    match p with
    | .whole => (some t.initialBuf, { t with initialBuf := [] })
    | .keepRest => (some (t.initialBuf.take n), { t with initialBuf := t.initialBuf.drop n })
    | .dropRest => (some (t.initialBuf.take n), { t with initialBuf := [] })
  else match t.sock with
    | [] => (none, t)
    | c :: cs =>
      if c.length ≤ n then (some c, { t with sock := cs })
      else (some (c.take n), { t with sock := c.drop n :: cs })

/-- the results of the first `k` successful `Read(n)` calls -/
def Conn.readsN (p : BufPolicy) (n : Nat) : Nat → Conn → List Bytes
  | 0, _ => []
  | k + 1, t =>
    match t.readN p n with
    | (some b, t') => b :: Conn.readsN p n k t'
    | (none, _) => []

/-- enough calls to drain everything: every successful read of size ≥ 1 lowers this number -/
def Conn.size (t : Conn) : Nat := t.initialBuf.length + (t.sock.map fun c => c.length + 1).sum

/-! ## Specification: RFC 854 token stream -/

inductive Verb | DO | DONT | WILL | WONT
deriving DecidableEq, Repr

/-- RFC 854: WILL 251, WON'T 252, DO 253, DON'T 254 -/
def Verb.code : Verb → UInt8
  | .WILL => 251 | .WONT => 252 | .DO => 253 | .DONT => 254

def verbOf (c : UInt8) : Option Verb :=
  if c = 251 then some .WILL else if c = 252 then some .WONT
  else if c = 253 then some .DO else if c = 254 then some .DONT else none

/-- what the server's opening consists of -/
inductive Tok
  | data (b : UInt8)              -- an ordinary data byte (not 255)
  | neg (v : Verb) (opt : UInt8)  -- IAC verb option
  | cmd (c : UInt8)               -- IAC c, a two-byte command (NOP 241, GA 249, …)
  | escIAC                        -- IAC IAC: the data byte 255
deriving DecidableEq, Repr

def Tok.wf : Tok → Bool
  | .data b => b != 255
  | .cmd c => c != 255 && (verbOf c).isNone
  | _ => true

/-- bytes on the wire -/
def Tok.wire : Tok → Bytes
  | .data b => [b]
  | .neg v o => [255, v.code, o]
  | .cmd c => [255, c]
  | .escIAC => [255, 255]

def encode (ts : List Tok) : Bytes := ts.flatMap Tok.wire

/-- the bytes the reader must be given for a token (RFC 854: `IAC IAC` is the data byte 255;
commands and negotiations carry no data) -/
def Tok.delivered : Tok → Bytes
  | .data b => [b]
  | .escIAC => [255]
  | _ => []

/-- the replies the property demands for a token: DO SGA(3) → WILL SGA; any other DO and every
DONT → WONT; WILL → DO; WONT → DONT -/
def Tok.answer : Tok → List Bytes
  | .neg .DO o => if o = 3 then [[255, 251, o]] else [[255, 252, o]]
  | .neg .DONT o => [[255, 252, o]]
  | .neg .WILL o => [[255, 253, o]]
  | .neg .WONT o => [[255, 254, o]]
  | _ => []

def isNeg : Tok → Bool
  | .neg _ _ => true
  | _ => false

def delivered (ts : List Tok) : Bytes := ts.flatMap Tok.delivered
def answers (ts : List Tok) : List Bytes := ts.flatMap Tok.answer

def push (t : Tok) (r : List Tok × Bytes) : List Tok × Bytes := (t :: r.1, r.2)

/-- RFC 854 tokenizer with look-ahead: the tokens of a byte stream and the incomplete sequence at
its end (`[]`, `[255]` or `[255, verb]`) -/
def tokenize : Bytes → List Tok × Bytes
  | [] => ([], [])
  | b :: rest =>
    if b ≠ 255 then push (.data b) (tokenize rest) else
    match rest with
    | [] => ([], [255])
    | c :: rest' =>
      if c = 255 then push .escIAC (tokenize rest') else
      match verbOf c with
      | none => push (.cmd c) (tokenize rest')
      | some v =>
        match rest' with
        | [] => ([], [255, c])
        | o :: rest'' => push (.neg v o) (tokenize rest'')

/-- RFC 854 two-byte commands NOP … GA (241–249). SE (240) and SB (250) belong to subnegotiation,
which the property does not mention: a stream containing them is outside its domain. -/
def isSimpleCmd (c : UInt8) : Bool := 241 ≤ c && c ≤ 249

/-- the property's quantifier: a complete token stream whose commands are RFC two-byte commands -/
def inDomain (bs : Bytes) : Bool :=
  let r := tokenize bs
  r.2.isEmpty && r.1.all fun t => match t with
    | .cmd c => isSimpleCmd c
    | _ => true

end Scrapli.Telnet
