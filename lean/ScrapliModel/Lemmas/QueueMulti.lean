import ScrapliModel.QueueMulti
import ScrapliModel.Lemmas.Queue
/-!
# Inductive invariant for one producer and k consumers (code with the re-check in `Dequeue`)
-/
namespace Scrapli.Queue.Multi
open Scrapli Scrapli.Queue.Conc

theorem reach_sched (rc : Bool) (k : Nat) : ∀ (l : List (Bytes ⊕ (Nat × Call))) (s s' : St),
    Reach rc k s → sched rc l s = some s' → Reach rc k s' := by
  intro l
  induction l with
  | nil => intro s s' h e; simp [sched] at e; exact e ▸ h
  | cons x xs ih =>
    intro s s' h e
    cases x with
    | inl b =>
      simp only [sched] at e
      cases hp : stepP s b with
      | none => simp [hp] at e
      | some s1 => simp [hp] at e; exact ih s1 s' (.step h (.p b hp)) e
    | inr ic =>
      obtain ⟨i, c⟩ := ic
      simp only [sched] at e
      cases hc : stepC rc s i c with
      | none => simp [hc] at e
      | some s1 => simp [hc] at e; exact ih s1 s' (.step h (.c i c hc)) e

/-- consumer holds the write lock -/
def critW : CPc → Bool
  | .dqChk | .dqIdx | .dqSlice _ | .dqDec _ | .daTake | .daNil _ | .daZero _ | .rqPrep _ | .rqInc _
  | .pubRecv _ | .pubSend _ | .unlock _ => true
  | _ => false

/-- consumer holds the depth token -/
def ctok : CPc → Bool
  | .gSend _ _ | .pubSend _ => true
  | _ => false

/-- facts tied to a consumer's program counter -/
def CNum (s : St) : CPc → Prop
  | .gSend _ d => d = s.pub
  | .dqChk => s.depth = s.queue.length ∧ s.pub = s.depth
  | .dqIdx => s.depth = s.queue.length ∧ s.pub = s.depth ∧ (1 : Int) ≤ s.queue.length
  | .dqSlice b => s.depth = s.queue.length ∧ s.queue.head? = some b
  | .dqDec _ => s.depth = s.queue.length + 1
  | .daTake => s.depth = s.queue.length
  | .daNil bs => s.queue = bs
  | .daZero _ => s.queue = []
  | .rqPrep _ => s.depth = s.queue.length
  | .rqInc _ => s.depth + 1 = s.queue.length
  | .pubRecv _ => s.depth = s.queue.length
  | .pubSend _ => s.depth = s.queue.length
  | .unlock _ => s.depth = s.queue.length ∧ s.pub = s.depth
  | .gdRUnlock d => d = s.depth
  | .panicked => False
  | _ => True

/-- what the invariant says about consumer `i` at program counter `pc` -/
structure CL (s : St) (i : Nat) (pc : CPc) : Prop where
  w : critW pc = true ↔ s.lock = some (.cons i)
  r : critR pc = true → s.lock = none
  t : ctok pc = true ↔ s.holder = some (.cons i)
  n : CNum s pc

/-- facts tied to the producer's program counter -/
def PNum (s : St) : Prop :=
  (s.ppc = .inc → s.depth + 1 = s.queue.length) ∧
  (s.lock = some .prod → s.ppc ≠ .inc → s.depth = s.queue.length) ∧
  (s.ppc = .unlock → s.pub = s.depth)

structure MInv (s : St) : Prop where
  lockP : s.lock = some .prod ↔ s.ppc.crit = true
  holdP : s.holder = some .prod ↔ s.ppc.tok = true
  tokH : s.token = none ↔ s.holder ≠ none
  tokPub : s.token = none ∨ s.token = some s.pub
  numP : PNum s
  numFree : s.lock = none → s.depth = s.queue.length ∧ s.pub = s.depth
  fifo : consume (s.clog.map (·.2)) s.produced = some s.queue
  cl : ∀ (i : Nat) (pc : CPc), s.cpcs[i]? = some pc → CL s i pc

theorem lockFree_elim {s : St} (h : lockFree s = true) :
    s.lock = none ∧ ∀ (i : Nat) (pc : CPc), s.cpcs[i]? = some pc → critR pc = false := by
  simp only [lockFree, Bool.and_eq_true, List.all_eq_true, Option.isNone_iff_eq_none] at h
  refine ⟨h.1, fun i pc hi => ?_⟩
  have := h.2 pc (List.mem_of_getElem? hi)
  simpa using this

theorem minv_init (k : Nat) : MInv (init k) := by
  refine ⟨by simp [init, PPc.crit], by simp [init, PPc.tok], by simp [init], by simp [init], by simp [init, PNum],
    by simp [init], by simp [init, consume], ?_⟩
  intro i pc hi
  simp only [init, List.getElem?_replicate] at hi
  split at hi
  · cases hi
    constructor <;> simp [init, critW, critR, ctok, CNum]
  · cases hi

/-! ## the invariant is inductive (producer steps, then consumer `i`'s steps by program counter;
for every other consumer `j ≠ i` a frame argument) -/

macro "m_simp" : tactic =>
  `(tactic| ((simp_all [PPc.crit, PPc.tok, critW, critR, ctok, CNum, PNum, consume_append_stream]) <;> omega))

theorem minv_stepP_idle {s s' : St} {b : Bytes} (h : MInv s) (hs : stepP s b = some s') (hp : s.ppc = .idle) : MInv s' := by
  obtain ⟨queue, depth, token, lock, holder, pub, ppc, cpcs, produced, clog⟩ := s
  obtain ⟨h1, h2, h3, h4, h5, h6, h7, h8⟩ := h
  simp only at hp; subst hp
  simp only [stepP] at hs
  cases hs
  refine ⟨?_, ?_, ?_, ?_, ?_, ?_, ?_, ?_⟩
  rotate_right 1
  ·
    intro i pc hi
    obtain ⟨hw, hr, ht, hn⟩ := h8 i pc hi
    clear h8
    cases pc <;> (constructor <;> m_simp)
  all_goals (clear h8; m_simp)

theorem minv_stepP_lock {s s' : St} {b : Bytes} (h : MInv s) (hs : stepP s b = some s') (c : Bytes) (hp : s.ppc = .lock c) : MInv s' := by
  obtain ⟨queue, depth, token, lock, holder, pub, ppc, cpcs, produced, clog⟩ := s
  obtain ⟨h1, h2, h3, h4, h5, h6, h7, h8⟩ := h
  simp only at hp; subst hp
  simp only [stepP] at hs
  split at hs
  · rename_i hf
    obtain ⟨hl, hnr⟩ := lockFree_elim hf
    simp only at hl hnr
    subst hl
    cases hs
    refine ⟨?_, ?_, ?_, ?_, ?_, ?_, ?_, ?_⟩
    rotate_right 1
    ·
      intro i pc hi
      have hnr' := hnr i pc hi
      obtain ⟨hw, hr, ht, hn⟩ := h8 i pc hi
      clear h8 hnr
      cases pc <;> (constructor <;> m_simp)
    all_goals (clear h8 hnr; m_simp)
  · cases hs

theorem minv_stepP_app {s s' : St} {b : Bytes} (h : MInv s) (hs : stepP s b = some s') (c : Bytes) (hp : s.ppc = .app c) : MInv s' := by
  obtain ⟨queue, depth, token, lock, holder, pub, ppc, cpcs, produced, clog⟩ := s
  obtain ⟨h1, h2, h3, h4, h5, h6, h7, h8⟩ := h
  simp only at hp; subst hp
  simp only [stepP] at hs
  cases hs
  refine ⟨?_, ?_, ?_, ?_, ?_, ?_, ?_, ?_⟩
  rotate_right 1
  ·
    intro i pc hi
    obtain ⟨hw, hr, ht, hn⟩ := h8 i pc hi
    clear h8
    cases pc <;> (constructor <;> m_simp)
  all_goals (clear h8; m_simp)

theorem minv_stepP_inc {s s' : St} {b : Bytes} (h : MInv s) (hs : stepP s b = some s') (hp : s.ppc = .inc) : MInv s' := by
  obtain ⟨queue, depth, token, lock, holder, pub, ppc, cpcs, produced, clog⟩ := s
  obtain ⟨h1, h2, h3, h4, h5, h6, h7, h8⟩ := h
  simp only at hp; subst hp
  simp only [stepP] at hs
  cases hs
  refine ⟨?_, ?_, ?_, ?_, ?_, ?_, ?_, ?_⟩
  rotate_right 1
  ·
    intro i pc hi
    obtain ⟨hw, hr, ht, hn⟩ := h8 i pc hi
    clear h8
    cases pc <;> (constructor <;> m_simp)
  all_goals (clear h8; m_simp)

theorem minv_stepP_recv {s s' : St} {b : Bytes} (h : MInv s) (hs : stepP s b = some s') (hp : s.ppc = .recv) : MInv s' := by
  obtain ⟨queue, depth, token, lock, holder, pub, ppc, cpcs, produced, clog⟩ := s
  obtain ⟨h1, h2, h3, h4, h5, h6, h7, h8⟩ := h
  simp only at hp; subst hp
  simp only [stepP] at hs
  split at hs
  · cases hs
    refine ⟨?_, ?_, ?_, ?_, ?_, ?_, ?_, ?_⟩
    rotate_right 1
    ·
      intro i pc hi
      obtain ⟨hw, hr, ht, hn⟩ := h8 i pc hi
      clear h8
      cases pc <;> (constructor <;> m_simp)
    all_goals (clear h8; m_simp)
  · cases hs

theorem minv_stepP_send {s s' : St} {b : Bytes} (h : MInv s) (hs : stepP s b = some s') (hp : s.ppc = .send) : MInv s' := by
  obtain ⟨queue, depth, token, lock, holder, pub, ppc, cpcs, produced, clog⟩ := s
  obtain ⟨h1, h2, h3, h4, h5, h6, h7, h8⟩ := h
  simp only at hp; subst hp
  simp only [stepP] at hs
  split at hs
  · cases hs
    refine ⟨?_, ?_, ?_, ?_, ?_, ?_, ?_, ?_⟩
    rotate_right 1
    ·
      intro i pc hi
      obtain ⟨hw, hr, ht, hn⟩ := h8 i pc hi
      clear h8
      cases pc <;> (constructor <;> m_simp)
    all_goals (clear h8; m_simp)
  · cases hs

theorem minv_stepP_unlock {s s' : St} {b : Bytes} (h : MInv s) (hs : stepP s b = some s') (hp : s.ppc = .unlock) : MInv s' := by
  obtain ⟨queue, depth, token, lock, holder, pub, ppc, cpcs, produced, clog⟩ := s
  obtain ⟨h1, h2, h3, h4, h5, h6, h7, h8⟩ := h
  simp only at hp; subst hp
  simp only [stepP] at hs
  cases hs
  refine ⟨?_, ?_, ?_, ?_, ?_, ?_, ?_, ?_⟩
  rotate_right 1
  ·
    intro i pc hi
    obtain ⟨hw, hr, ht, hn⟩ := h8 i pc hi
    clear h8
    cases pc <;> (constructor <;> m_simp)
  all_goals (clear h8; m_simp)

theorem minv_stepP {s s' : St} {b : Bytes} (h : MInv s) (hs : stepP s b = some s') : MInv s' := by
  cases hp : s.ppc with
  | idle => exact minv_stepP_idle h hs hp
  | lock c => exact minv_stepP_lock h hs c hp
  | app c => exact minv_stepP_app h hs c hp
  | inc => exact minv_stepP_inc h hs hp
  | recv => exact minv_stepP_recv h hs hp
  | send => exact minv_stepP_send h hs hp
  | unlock => exact minv_stepP_unlock h hs hp


macro "m_simp_l" : tactic =>
  `(tactic| ((simp_all [PPc.crit, PPc.tok, critW, critR, ctok, CNum, PNum, consume_append_log, consume, consume_gots_nil,
      List.map_append, List.map_map, Function.comp_def]) <;> omega))

set_option maxHeartbeats 1600000 in
theorem minv_stepC_idle {s s' : St} {i : Nat} {call : Call} (h : MInv s) (hs : stepC true s i call = some s') (hpc : s.cpcs[i]? = some (.idle)) : MInv s' := by
  obtain ⟨queue, depth, token, lock, holder, pub, ppc, cpcs, produced, clog⟩ := s
  obtain ⟨h1, h2, h3, h4, h5, h6, h7, h8⟩ := h
  simp only at hpc
  obtain ⟨hw, hr, ht, hn⟩ := h8 i _ hpc
  have hlt : i < cpcs.length := by
    rcases Nat.lt_or_ge i cpcs.length with hl | hl
    · exact hl
    · simp [List.getElem?_eq_none hl] at hpc
  simp only [stepC, hpc] at hs
  cases call <;> cases hs
  · refine ⟨?_, ?_, ?_, ?_, ?_, ?_, ?_, ?_⟩
    rotate_right 1
    · intro j pcj hj
      by_cases hji : j = i
      · subst hji
        simp [hlt] at hj
        subst hj
        clear h8 h1 h2 h5
        constructor <;> m_simp
      · have hj' : cpcs[j]? = some pcj := by simpa [List.getElem?_set, Ne.symm hji] using hj
        obtain ⟨jw, jr, jt, jn⟩ := h8 j pcj hj'
        clear h8 h1 h2 h5
        cases pcj <;> first | (exfalso; clear jn hn; simp_all [critW, critR, ctok]; done) | (constructor <;> m_simp)
    all_goals (clear h8; revert h1 h2 h5; cases ppc <;> intro h1 h2 h5 <;> m_simp)
  · refine ⟨?_, ?_, ?_, ?_, ?_, ?_, ?_, ?_⟩
    rotate_right 1
    · intro j pcj hj
      by_cases hji : j = i
      · subst hji
        simp [hlt] at hj
        subst hj
        clear h8 h1 h2 h5
        constructor <;> m_simp
      · have hj' : cpcs[j]? = some pcj := by simpa [List.getElem?_set, Ne.symm hji] using hj
        obtain ⟨jw, jr, jt, jn⟩ := h8 j pcj hj'
        clear h8 h1 h2 h5
        cases pcj <;> first | (exfalso; clear jn hn; simp_all [critW, critR, ctok]; done) | (constructor <;> m_simp)
    all_goals (clear h8; revert h1 h2 h5; cases ppc <;> intro h1 h2 h5 <;> m_simp)
  · refine ⟨?_, ?_, ?_, ?_, ?_, ?_, ?_, ?_⟩
    rotate_right 1
    · intro j pcj hj
      by_cases hji : j = i
      · subst hji
        simp [hlt] at hj
        subst hj
        clear h8 h1 h2 h5
        constructor <;> m_simp
      · have hj' : cpcs[j]? = some pcj := by simpa [List.getElem?_set, Ne.symm hji] using hj
        obtain ⟨jw, jr, jt, jn⟩ := h8 j pcj hj'
        clear h8 h1 h2 h5
        cases pcj <;> first | (exfalso; clear jn hn; simp_all [critW, critR, ctok]; done) | (constructor <;> m_simp)
    all_goals (clear h8; revert h1 h2 h5; cases ppc <;> intro h1 h2 h5 <;> m_simp)
  · refine ⟨?_, ?_, ?_, ?_, ?_, ?_, ?_, ?_⟩
    rotate_right 1
    · intro j pcj hj
      by_cases hji : j = i
      · subst hji
        simp [hlt] at hj
        subst hj
        clear h8 h1 h2 h5
        constructor <;> m_simp
      · have hj' : cpcs[j]? = some pcj := by simpa [List.getElem?_set, Ne.symm hji] using hj
        obtain ⟨jw, jr, jt, jn⟩ := h8 j pcj hj'
        clear h8 h1 h2 h5
        cases pcj <;> first | (exfalso; clear jn hn; simp_all [critW, critR, ctok]; done) | (constructor <;> m_simp)
    all_goals (clear h8; revert h1 h2 h5; cases ppc <;> intro h1 h2 h5 <;> m_simp)

set_option maxHeartbeats 1600000 in
theorem minv_stepC_gRecv {s s' : St} {i : Nat} {call : Call} (h : MInv s) (hs : stepC true s i call = some s') (k : Kind) (hpc : s.cpcs[i]? = some (.gRecv k)) : MInv s' := by
  obtain ⟨queue, depth, token, lock, holder, pub, ppc, cpcs, produced, clog⟩ := s
  obtain ⟨h1, h2, h3, h4, h5, h6, h7, h8⟩ := h
  simp only at hpc
  obtain ⟨hw, hr, ht, hn⟩ := h8 i _ hpc
  have hlt : i < cpcs.length := by
    rcases Nat.lt_or_ge i cpcs.length with hl | hl
    · exact hl
    · simp [List.getElem?_eq_none hl] at hpc
  simp only [stepC, hpc] at hs
  split at hs
  · cases hs
    refine ⟨?_, ?_, ?_, ?_, ?_, ?_, ?_, ?_⟩
    rotate_right 1
    · intro j pcj hj
      by_cases hji : j = i
      · subst hji
        simp [hlt] at hj
        subst hj
        clear h8 h1 h2 h5
        constructor <;> m_simp
      · have hj' : cpcs[j]? = some pcj := by simpa [List.getElem?_set, Ne.symm hji] using hj
        obtain ⟨jw, jr, jt, jn⟩ := h8 j pcj hj'
        clear h8 h1 h2 h5
        cases pcj <;> first | (exfalso; clear jn hn; simp_all [critW, critR, ctok]; done) | (constructor <;> m_simp)
    all_goals (clear h8; revert h1 h2 h5; cases ppc <;> intro h1 h2 h5 <;> m_simp)
  · cases hs

set_option maxHeartbeats 1600000 in
theorem minv_stepC_gSend {s s' : St} {i : Nat} {call : Call} (h : MInv s) (hs : stepC true s i call = some s') (k : Kind) (d : Int) (hpc : s.cpcs[i]? = some (.gSend k d)) : MInv s' := by
  obtain ⟨queue, depth, token, lock, holder, pub, ppc, cpcs, produced, clog⟩ := s
  obtain ⟨h1, h2, h3, h4, h5, h6, h7, h8⟩ := h
  simp only at hpc
  obtain ⟨hw, hr, ht, hn⟩ := h8 i _ hpc
  have hlt : i < cpcs.length := by
    rcases Nat.lt_or_ge i cpcs.length with hl | hl
    · exact hl
    · simp [List.getElem?_eq_none hl] at hpc
  simp only [stepC, hpc] at hs
  split at hs
  · cases hs
    refine ⟨?_, ?_, ?_, ?_, ?_, ?_, ?_, ?_⟩
    rotate_right 1
    · intro j pcj hj
      by_cases hji : j = i
      · subst hji
        simp [hlt] at hj
        subst hj
        clear h8 h1 h2 h5
        constructor <;> m_simp
      · have hj' : cpcs[j]? = some pcj := by simpa [List.getElem?_set, Ne.symm hji] using hj
        obtain ⟨jw, jr, jt, jn⟩ := h8 j pcj hj'
        clear h8 h1 h2 h5
        cases pcj <;> first | (exfalso; clear jn hn; simp_all [critW, critR, ctok]; done) | (constructor <;> m_simp)
    all_goals (clear h8; revert h1 h2 h5; cases ppc <;> intro h1 h2 h5 <;> m_simp)
  · cases hs

set_option maxHeartbeats 1600000 in
theorem minv_stepC_gTest {s s' : St} {i : Nat} {call : Call} (h : MInv s) (hs : stepC true s i call = some s') (k : Kind) (d : Int) (hpc : s.cpcs[i]? = some (.gTest k d)) : MInv s' := by
  obtain ⟨queue, depth, token, lock, holder, pub, ppc, cpcs, produced, clog⟩ := s
  obtain ⟨h1, h2, h3, h4, h5, h6, h7, h8⟩ := h
  simp only at hpc
  obtain ⟨hw, hr, ht, hn⟩ := h8 i _ hpc
  have hlt : i < cpcs.length := by
    rcases Nat.lt_or_ge i cpcs.length with hl | hl
    · exact hl
    · simp [List.getElem?_eq_none hl] at hpc
  simp only [stepC, hpc] at hs
  split at hs
  · cases hs
    refine ⟨?_, ?_, ?_, ?_, ?_, ?_, ?_, ?_⟩
    rotate_right 1
    · intro j pcj hj
      by_cases hji : j = i
      · subst hji
        simp [hlt] at hj
        subst hj
        clear h8 h1 h2 h5
        constructor <;> m_simp
      · have hj' : cpcs[j]? = some pcj := by simpa [List.getElem?_set, Ne.symm hji] using hj
        obtain ⟨jw, jr, jt, jn⟩ := h8 j pcj hj'
        clear h8 h1 h2 h5
        cases pcj <;> first | (exfalso; clear jn hn; simp_all [critW, critR, ctok]; done) | (constructor <;> m_simp)
    all_goals (clear h8; revert h1 h2 h5; cases ppc <;> intro h1 h2 h5 <;> m_simp)
  · cases hs
    refine ⟨?_, ?_, ?_, ?_, ?_, ?_, ?_, ?_⟩
    rotate_right 1
    · intro j pcj hj
      by_cases hji : j = i
      · subst hji
        simp [hlt] at hj
        subst hj
        clear h8 h1 h2 h5
        constructor <;> m_simp
      · have hj' : cpcs[j]? = some pcj := by simpa [List.getElem?_set, Ne.symm hji] using hj
        obtain ⟨jw, jr, jt, jn⟩ := h8 j pcj hj'
        clear h8 h1 h2 h5
        cases pcj <;> first | (exfalso; clear jn hn; simp_all [critW, critR, ctok]; done) | (constructor <;> m_simp)
    all_goals (clear h8; revert h1 h2 h5; cases ppc <;> intro h1 h2 h5 <;> m_simp)

set_option maxHeartbeats 1600000 in
theorem minv_stepC_lock {s s' : St} {i : Nat} {call : Call} (h : MInv s) (hs : stepC true s i call = some s') (k : Kind) (hpc : s.cpcs[i]? = some (.lock k)) : MInv s' := by
  obtain ⟨queue, depth, token, lock, holder, pub, ppc, cpcs, produced, clog⟩ := s
  obtain ⟨h1, h2, h3, h4, h5, h6, h7, h8⟩ := h
  simp only at hpc
  obtain ⟨hw, hr, ht, hn⟩ := h8 i _ hpc
  have hlt : i < cpcs.length := by
    rcases Nat.lt_or_ge i cpcs.length with hl | hl
    · exact hl
    · simp [List.getElem?_eq_none hl] at hpc
  simp only [stepC, hpc] at hs
  split at hs
  · rename_i hf
    obtain ⟨hl0, hnr⟩ := lockFree_elim hf
    simp only at hl0 hnr
    subst hl0
    cases k <;> cases hs
    · refine ⟨?_, ?_, ?_, ?_, ?_, ?_, ?_, ?_⟩
      rotate_right 1
      · intro j pcj hj
        by_cases hji : j = i
        · subst hji
          simp [hlt] at hj
          subst hj
          clear h8 hnr h1 h2 h5
          constructor <;> m_simp
        · have hj' : cpcs[j]? = some pcj := by simpa [List.getElem?_set, Ne.symm hji] using hj
          have hnr' := hnr j pcj hj'
          obtain ⟨jw, jr, jt, jn⟩ := h8 j pcj hj'
          clear h8 hnr h1 h2 h5
          cases pcj <;> first | (exfalso; clear jn hn; simp_all [critW, critR, ctok]; done) | (constructor <;> m_simp)
      all_goals (clear h8 hnr; revert h1 h2 h5; cases ppc <;> intro h1 h2 h5 <;> m_simp)
    · refine ⟨?_, ?_, ?_, ?_, ?_, ?_, ?_, ?_⟩
      rotate_right 1
      · intro j pcj hj
        by_cases hji : j = i
        · subst hji
          simp [hlt] at hj
          subst hj
          clear h8 hnr h1 h2 h5
          constructor <;> m_simp
        · have hj' : cpcs[j]? = some pcj := by simpa [List.getElem?_set, Ne.symm hji] using hj
          have hnr' := hnr j pcj hj'
          obtain ⟨jw, jr, jt, jn⟩ := h8 j pcj hj'
          clear h8 hnr h1 h2 h5
          cases pcj <;> first | (exfalso; clear jn hn; simp_all [critW, critR, ctok]; done) | (constructor <;> m_simp)
      all_goals (clear h8 hnr; revert h1 h2 h5; cases ppc <;> intro h1 h2 h5 <;> m_simp)
  · cases hs

set_option maxHeartbeats 1600000 in
theorem minv_stepC_dqChk {s s' : St} {i : Nat} {call : Call} (h : MInv s) (hs : stepC true s i call = some s') (hpc : s.cpcs[i]? = some (.dqChk)) : MInv s' := by
  obtain ⟨queue, depth, token, lock, holder, pub, ppc, cpcs, produced, clog⟩ := s
  obtain ⟨h1, h2, h3, h4, h5, h6, h7, h8⟩ := h
  simp only at hpc
  obtain ⟨hw, hr, ht, hn⟩ := h8 i _ hpc
  have hlt : i < cpcs.length := by
    rcases Nat.lt_or_ge i cpcs.length with hl | hl
    · exact hl
    · simp [List.getElem?_eq_none hl] at hpc
  simp only [stepC, hpc] at hs
  split at hs
  · cases hs
    refine ⟨?_, ?_, ?_, ?_, ?_, ?_, ?_, ?_⟩
    rotate_right 1
    · intro j pcj hj
      by_cases hji : j = i
      · subst hji
        simp [hlt] at hj
        subst hj
        clear h8 h1 h2 h5
        constructor <;> m_simp
      · have hj' : cpcs[j]? = some pcj := by simpa [List.getElem?_set, Ne.symm hji] using hj
        obtain ⟨jw, jr, jt, jn⟩ := h8 j pcj hj'
        clear h8 h1 h2 h5
        cases pcj <;> first | (exfalso; clear jn hn; simp_all [critW, critR, ctok]; done) | (constructor <;> m_simp)
    all_goals (clear h8; revert h1 h2 h5; cases ppc <;> intro h1 h2 h5 <;> m_simp)
  · cases hs
    refine ⟨?_, ?_, ?_, ?_, ?_, ?_, ?_, ?_⟩
    rotate_right 1
    · intro j pcj hj
      by_cases hji : j = i
      · subst hji
        simp [hlt] at hj
        subst hj
        clear h8 h1 h2 h5
        constructor <;> m_simp
      · have hj' : cpcs[j]? = some pcj := by simpa [List.getElem?_set, Ne.symm hji] using hj
        obtain ⟨jw, jr, jt, jn⟩ := h8 j pcj hj'
        clear h8 h1 h2 h5
        cases pcj <;> first | (exfalso; clear jn hn; simp_all [critW, critR, ctok]; done) | (constructor <;> m_simp)
    all_goals (clear h8; revert h1 h2 h5; cases ppc <;> intro h1 h2 h5 <;> m_simp)

set_option maxHeartbeats 1600000 in
theorem minv_stepC_dqIdx {s s' : St} {i : Nat} {call : Call} (h : MInv s) (hs : stepC true s i call = some s') (hpc : s.cpcs[i]? = some (.dqIdx)) : MInv s' := by
  obtain ⟨queue, depth, token, lock, holder, pub, ppc, cpcs, produced, clog⟩ := s
  obtain ⟨h1, h2, h3, h4, h5, h6, h7, h8⟩ := h
  simp only at hpc
  obtain ⟨hw, hr, ht, hn⟩ := h8 i _ hpc
  have hlt : i < cpcs.length := by
    rcases Nat.lt_or_ge i cpcs.length with hl | hl
    · exact hl
    · simp [List.getElem?_eq_none hl] at hpc
  simp only [stepC, hpc] at hs
  split at hs
  · cases hs
    refine ⟨?_, ?_, ?_, ?_, ?_, ?_, ?_, ?_⟩
    rotate_right 1
    · intro j pcj hj
      by_cases hji : j = i
      · subst hji
        simp [hlt] at hj
        subst hj
        clear h8 h1 h2 h5
        constructor <;> m_simp
      · have hj' : cpcs[j]? = some pcj := by simpa [List.getElem?_set, Ne.symm hji] using hj
        obtain ⟨jw, jr, jt, jn⟩ := h8 j pcj hj'
        clear h8 h1 h2 h5
        cases pcj <;> first | (exfalso; clear jn hn; simp_all [critW, critR, ctok]; done) | (constructor <;> m_simp)
    all_goals (clear h8; revert h1 h2 h5; cases ppc <;> intro h1 h2 h5 <;> m_simp)
  · cases hs
    refine ⟨?_, ?_, ?_, ?_, ?_, ?_, ?_, ?_⟩
    rotate_right 1
    · intro j pcj hj
      by_cases hji : j = i
      · subst hji
        simp [hlt] at hj
        subst hj
        clear h8 h1 h2 h5
        constructor <;> m_simp
      · have hj' : cpcs[j]? = some pcj := by simpa [List.getElem?_set, Ne.symm hji] using hj
        obtain ⟨jw, jr, jt, jn⟩ := h8 j pcj hj'
        clear h8 h1 h2 h5
        cases pcj <;> first | (exfalso; clear jn hn; simp_all [critW, critR, ctok]; done) | (constructor <;> m_simp)
    all_goals (clear h8; revert h1 h2 h5; cases ppc <;> intro h1 h2 h5 <;> m_simp)

set_option maxHeartbeats 1600000 in
theorem minv_stepC_dqSlice {s s' : St} {i : Nat} {call : Call} (h : MInv s) (hs : stepC true s i call = some s') (b : Bytes) (hpc : s.cpcs[i]? = some (.dqSlice b)) : MInv s' := by
  obtain ⟨queue, depth, token, lock, holder, pub, ppc, cpcs, produced, clog⟩ := s
  obtain ⟨h1, h2, h3, h4, h5, h6, h7, h8⟩ := h
  simp only at hpc
  obtain ⟨hw, hr, ht, hn⟩ := h8 i _ hpc
  have hlt : i < cpcs.length := by
    rcases Nat.lt_or_ge i cpcs.length with hl | hl
    · exact hl
    · simp [List.getElem?_eq_none hl] at hpc
  simp only [stepC, hpc] at hs
  cases hs
  rcases queue with _ | ⟨q0, qs⟩
  · refine ⟨?_, ?_, ?_, ?_, ?_, ?_, ?_, ?_⟩
    rotate_right 1
    · intro j pcj hj
      by_cases hji : j = i
      · subst hji
        simp [hlt] at hj
        subst hj
        clear h8 h1 h2 h5
        constructor <;> m_simp_l
      · have hj' : cpcs[j]? = some pcj := by simpa [List.getElem?_set, Ne.symm hji] using hj
        obtain ⟨jw, jr, jt, jn⟩ := h8 j pcj hj'
        clear h8 h1 h2 h5
        cases pcj <;> first | (exfalso; clear jn hn; simp_all [critW, critR, ctok]; done) | (constructor <;> m_simp_l)
    all_goals (clear h8; revert h1 h2 h5; cases ppc <;> intro h1 h2 h5 <;> m_simp_l)
  · refine ⟨?_, ?_, ?_, ?_, ?_, ?_, ?_, ?_⟩
    rotate_right 1
    · intro j pcj hj
      by_cases hji : j = i
      · subst hji
        simp [hlt] at hj
        subst hj
        clear h8 h1 h2 h5
        constructor <;> m_simp_l
      · have hj' : cpcs[j]? = some pcj := by simpa [List.getElem?_set, Ne.symm hji] using hj
        obtain ⟨jw, jr, jt, jn⟩ := h8 j pcj hj'
        clear h8 h1 h2 h5
        cases pcj <;> first | (exfalso; clear jn hn; simp_all [critW, critR, ctok]; done) | (constructor <;> m_simp_l)
    all_goals (clear h8; revert h1 h2 h5; cases ppc <;> intro h1 h2 h5 <;> m_simp_l)

set_option maxHeartbeats 1600000 in
theorem minv_stepC_dqDec {s s' : St} {i : Nat} {call : Call} (h : MInv s) (hs : stepC true s i call = some s') (b : Bytes) (hpc : s.cpcs[i]? = some (.dqDec b)) : MInv s' := by
  obtain ⟨queue, depth, token, lock, holder, pub, ppc, cpcs, produced, clog⟩ := s
  obtain ⟨h1, h2, h3, h4, h5, h6, h7, h8⟩ := h
  simp only at hpc
  obtain ⟨hw, hr, ht, hn⟩ := h8 i _ hpc
  have hlt : i < cpcs.length := by
    rcases Nat.lt_or_ge i cpcs.length with hl | hl
    · exact hl
    · simp [List.getElem?_eq_none hl] at hpc
  simp only [stepC, hpc] at hs
  cases hs
  refine ⟨?_, ?_, ?_, ?_, ?_, ?_, ?_, ?_⟩
  rotate_right 1
  · intro j pcj hj
    by_cases hji : j = i
    · subst hji
      simp [hlt] at hj
      subst hj
      clear h8 h1 h2 h5
      constructor <;> m_simp
    · have hj' : cpcs[j]? = some pcj := by simpa [List.getElem?_set, Ne.symm hji] using hj
      obtain ⟨jw, jr, jt, jn⟩ := h8 j pcj hj'
      clear h8 h1 h2 h5
      cases pcj <;> first | (exfalso; clear jn hn; simp_all [critW, critR, ctok]; done) | (constructor <;> m_simp)
  all_goals (clear h8; revert h1 h2 h5; cases ppc <;> intro h1 h2 h5 <;> m_simp)

set_option maxHeartbeats 1600000 in
theorem minv_stepC_daTake {s s' : St} {i : Nat} {call : Call} (h : MInv s) (hs : stepC true s i call = some s') (hpc : s.cpcs[i]? = some (.daTake)) : MInv s' := by
  obtain ⟨queue, depth, token, lock, holder, pub, ppc, cpcs, produced, clog⟩ := s
  obtain ⟨h1, h2, h3, h4, h5, h6, h7, h8⟩ := h
  simp only at hpc
  obtain ⟨hw, hr, ht, hn⟩ := h8 i _ hpc
  have hlt : i < cpcs.length := by
    rcases Nat.lt_or_ge i cpcs.length with hl | hl
    · exact hl
    · simp [List.getElem?_eq_none hl] at hpc
  simp only [stepC, hpc] at hs
  cases hs
  refine ⟨?_, ?_, ?_, ?_, ?_, ?_, ?_, ?_⟩
  rotate_right 1
  · intro j pcj hj
    by_cases hji : j = i
    · subst hji
      simp [hlt] at hj
      subst hj
      clear h8 h1 h2 h5
      constructor <;> m_simp
    · have hj' : cpcs[j]? = some pcj := by simpa [List.getElem?_set, Ne.symm hji] using hj
      obtain ⟨jw, jr, jt, jn⟩ := h8 j pcj hj'
      clear h8 h1 h2 h5
      cases pcj <;> first | (exfalso; clear jn hn; simp_all [critW, critR, ctok]; done) | (constructor <;> m_simp)
  all_goals (clear h8; revert h1 h2 h5; cases ppc <;> intro h1 h2 h5 <;> m_simp)

set_option maxHeartbeats 1600000 in
theorem minv_stepC_daNil {s s' : St} {i : Nat} {call : Call} (h : MInv s) (hs : stepC true s i call = some s') (bs : List Bytes) (hpc : s.cpcs[i]? = some (.daNil bs)) : MInv s' := by
  obtain ⟨queue, depth, token, lock, holder, pub, ppc, cpcs, produced, clog⟩ := s
  obtain ⟨h1, h2, h3, h4, h5, h6, h7, h8⟩ := h
  simp only at hpc
  obtain ⟨hw, hr, ht, hn⟩ := h8 i _ hpc
  have hlt : i < cpcs.length := by
    rcases Nat.lt_or_ge i cpcs.length with hl | hl
    · exact hl
    · simp [List.getElem?_eq_none hl] at hpc
  simp only [stepC, hpc] at hs
  cases hs
  refine ⟨?_, ?_, ?_, ?_, ?_, ?_, ?_, ?_⟩
  rotate_right 1
  · intro j pcj hj
    by_cases hji : j = i
    · subst hji
      simp [hlt] at hj
      subst hj
      clear h8 h1 h2 h5
      constructor <;> m_simp_l
    · have hj' : cpcs[j]? = some pcj := by simpa [List.getElem?_set, Ne.symm hji] using hj
      obtain ⟨jw, jr, jt, jn⟩ := h8 j pcj hj'
      clear h8 h1 h2 h5
      cases pcj <;> first | (exfalso; clear jn hn; simp_all [critW, critR, ctok]; done) | (constructor <;> m_simp_l)
  all_goals (clear h8; revert h1 h2 h5; cases ppc <;> intro h1 h2 h5 <;> m_simp_l)

set_option maxHeartbeats 1600000 in
theorem minv_stepC_daZero {s s' : St} {i : Nat} {call : Call} (h : MInv s) (hs : stepC true s i call = some s') (bs : List Bytes) (hpc : s.cpcs[i]? = some (.daZero bs)) : MInv s' := by
  obtain ⟨queue, depth, token, lock, holder, pub, ppc, cpcs, produced, clog⟩ := s
  obtain ⟨h1, h2, h3, h4, h5, h6, h7, h8⟩ := h
  simp only at hpc
  obtain ⟨hw, hr, ht, hn⟩ := h8 i _ hpc
  have hlt : i < cpcs.length := by
    rcases Nat.lt_or_ge i cpcs.length with hl | hl
    · exact hl
    · simp [List.getElem?_eq_none hl] at hpc
  simp only [stepC, hpc] at hs
  cases hs
  refine ⟨?_, ?_, ?_, ?_, ?_, ?_, ?_, ?_⟩
  rotate_right 1
  · intro j pcj hj
    by_cases hji : j = i
    · subst hji
      simp [hlt] at hj
      subst hj
      clear h8 h1 h2 h5
      constructor <;> m_simp
    · have hj' : cpcs[j]? = some pcj := by simpa [List.getElem?_set, Ne.symm hji] using hj
      obtain ⟨jw, jr, jt, jn⟩ := h8 j pcj hj'
      clear h8 h1 h2 h5
      cases pcj <;> first | (exfalso; clear jn hn; simp_all [critW, critR, ctok]; done) | (constructor <;> m_simp)
  all_goals (clear h8; revert h1 h2 h5; cases ppc <;> intro h1 h2 h5 <;> m_simp)

set_option maxHeartbeats 1600000 in
theorem minv_stepC_rqLock {s s' : St} {i : Nat} {call : Call} (h : MInv s) (hs : stepC true s i call = some s') (b : Bytes) (hpc : s.cpcs[i]? = some (.rqLock b)) : MInv s' := by
  obtain ⟨queue, depth, token, lock, holder, pub, ppc, cpcs, produced, clog⟩ := s
  obtain ⟨h1, h2, h3, h4, h5, h6, h7, h8⟩ := h
  simp only at hpc
  obtain ⟨hw, hr, ht, hn⟩ := h8 i _ hpc
  have hlt : i < cpcs.length := by
    rcases Nat.lt_or_ge i cpcs.length with hl | hl
    · exact hl
    · simp [List.getElem?_eq_none hl] at hpc
  simp only [stepC, hpc] at hs
  split at hs
  · rename_i hf
    obtain ⟨hl0, hnr⟩ := lockFree_elim hf
    simp only at hl0 hnr
    subst hl0
    cases hs
    refine ⟨?_, ?_, ?_, ?_, ?_, ?_, ?_, ?_⟩
    rotate_right 1
    · intro j pcj hj
      by_cases hji : j = i
      · subst hji
        simp [hlt] at hj
        subst hj
        clear h8 hnr h1 h2 h5
        constructor <;> m_simp
      · have hj' : cpcs[j]? = some pcj := by simpa [List.getElem?_set, Ne.symm hji] using hj
        have hnr' := hnr j pcj hj'
        obtain ⟨jw, jr, jt, jn⟩ := h8 j pcj hj'
        clear h8 hnr h1 h2 h5
        cases pcj <;> first | (exfalso; clear jn hn; simp_all [critW, critR, ctok]; done) | (constructor <;> m_simp)
    all_goals (clear h8 hnr; revert h1 h2 h5; cases ppc <;> intro h1 h2 h5 <;> m_simp)
  · cases hs

set_option maxHeartbeats 1600000 in
theorem minv_stepC_rqPrep {s s' : St} {i : Nat} {call : Call} (h : MInv s) (hs : stepC true s i call = some s') (b : Bytes) (hpc : s.cpcs[i]? = some (.rqPrep b)) : MInv s' := by
  obtain ⟨queue, depth, token, lock, holder, pub, ppc, cpcs, produced, clog⟩ := s
  obtain ⟨h1, h2, h3, h4, h5, h6, h7, h8⟩ := h
  simp only at hpc
  obtain ⟨hw, hr, ht, hn⟩ := h8 i _ hpc
  have hlt : i < cpcs.length := by
    rcases Nat.lt_or_ge i cpcs.length with hl | hl
    · exact hl
    · simp [List.getElem?_eq_none hl] at hpc
  simp only [stepC, hpc] at hs
  cases hs
  refine ⟨?_, ?_, ?_, ?_, ?_, ?_, ?_, ?_⟩
  rotate_right 1
  · intro j pcj hj
    by_cases hji : j = i
    · subst hji
      simp [hlt] at hj
      subst hj
      clear h8 h1 h2 h5
      constructor <;> m_simp_l
    · have hj' : cpcs[j]? = some pcj := by simpa [List.getElem?_set, Ne.symm hji] using hj
      obtain ⟨jw, jr, jt, jn⟩ := h8 j pcj hj'
      clear h8 h1 h2 h5
      cases pcj <;> first | (exfalso; clear jn hn; simp_all [critW, critR, ctok]; done) | (constructor <;> m_simp_l)
  all_goals (clear h8; revert h1 h2 h5; cases ppc <;> intro h1 h2 h5 <;> m_simp_l)

set_option maxHeartbeats 1600000 in
theorem minv_stepC_rqInc {s s' : St} {i : Nat} {call : Call} (h : MInv s) (hs : stepC true s i call = some s') (b : Bytes) (hpc : s.cpcs[i]? = some (.rqInc b)) : MInv s' := by
  obtain ⟨queue, depth, token, lock, holder, pub, ppc, cpcs, produced, clog⟩ := s
  obtain ⟨h1, h2, h3, h4, h5, h6, h7, h8⟩ := h
  simp only at hpc
  obtain ⟨hw, hr, ht, hn⟩ := h8 i _ hpc
  have hlt : i < cpcs.length := by
    rcases Nat.lt_or_ge i cpcs.length with hl | hl
    · exact hl
    · simp [List.getElem?_eq_none hl] at hpc
  simp only [stepC, hpc] at hs
  cases hs
  refine ⟨?_, ?_, ?_, ?_, ?_, ?_, ?_, ?_⟩
  rotate_right 1
  · intro j pcj hj
    by_cases hji : j = i
    · subst hji
      simp [hlt] at hj
      subst hj
      clear h8 h1 h2 h5
      constructor <;> m_simp
    · have hj' : cpcs[j]? = some pcj := by simpa [List.getElem?_set, Ne.symm hji] using hj
      obtain ⟨jw, jr, jt, jn⟩ := h8 j pcj hj'
      clear h8 h1 h2 h5
      cases pcj <;> first | (exfalso; clear jn hn; simp_all [critW, critR, ctok]; done) | (constructor <;> m_simp)
  all_goals (clear h8; revert h1 h2 h5; cases ppc <;> intro h1 h2 h5 <;> m_simp)

set_option maxHeartbeats 1600000 in
theorem minv_stepC_pubRecv {s s' : St} {i : Nat} {call : Call} (h : MInv s) (hs : stepC true s i call = some s') (r : Ret) (hpc : s.cpcs[i]? = some (.pubRecv r)) : MInv s' := by
  obtain ⟨queue, depth, token, lock, holder, pub, ppc, cpcs, produced, clog⟩ := s
  obtain ⟨h1, h2, h3, h4, h5, h6, h7, h8⟩ := h
  simp only at hpc
  obtain ⟨hw, hr, ht, hn⟩ := h8 i _ hpc
  have hlt : i < cpcs.length := by
    rcases Nat.lt_or_ge i cpcs.length with hl | hl
    · exact hl
    · simp [List.getElem?_eq_none hl] at hpc
  simp only [stepC, hpc] at hs
  split at hs
  · cases hs
    refine ⟨?_, ?_, ?_, ?_, ?_, ?_, ?_, ?_⟩
    rotate_right 1
    · intro j pcj hj
      by_cases hji : j = i
      · subst hji
        simp [hlt] at hj
        subst hj
        clear h8 h1 h2 h5
        constructor <;> m_simp
      · have hj' : cpcs[j]? = some pcj := by simpa [List.getElem?_set, Ne.symm hji] using hj
        obtain ⟨jw, jr, jt, jn⟩ := h8 j pcj hj'
        clear h8 h1 h2 h5
        cases pcj <;> first | (exfalso; clear jn hn; simp_all [critW, critR, ctok]; done) | (constructor <;> m_simp)
    all_goals (clear h8; revert h1 h2 h5; cases ppc <;> intro h1 h2 h5 <;> m_simp)
  · cases hs

set_option maxHeartbeats 1600000 in
theorem minv_stepC_pubSend {s s' : St} {i : Nat} {call : Call} (h : MInv s) (hs : stepC true s i call = some s') (r : Ret) (hpc : s.cpcs[i]? = some (.pubSend r)) : MInv s' := by
  obtain ⟨queue, depth, token, lock, holder, pub, ppc, cpcs, produced, clog⟩ := s
  obtain ⟨h1, h2, h3, h4, h5, h6, h7, h8⟩ := h
  simp only at hpc
  obtain ⟨hw, hr, ht, hn⟩ := h8 i _ hpc
  have hlt : i < cpcs.length := by
    rcases Nat.lt_or_ge i cpcs.length with hl | hl
    · exact hl
    · simp [List.getElem?_eq_none hl] at hpc
  simp only [stepC, hpc] at hs
  split at hs
  · cases hs
    refine ⟨?_, ?_, ?_, ?_, ?_, ?_, ?_, ?_⟩
    rotate_right 1
    · intro j pcj hj
      by_cases hji : j = i
      · subst hji
        simp [hlt] at hj
        subst hj
        clear h8 h1 h2 h5
        constructor <;> m_simp
      · have hj' : cpcs[j]? = some pcj := by simpa [List.getElem?_set, Ne.symm hji] using hj
        obtain ⟨jw, jr, jt, jn⟩ := h8 j pcj hj'
        clear h8 h1 h2 h5
        cases pcj <;> first | (exfalso; clear jn hn; simp_all [critW, critR, ctok]; done) | (constructor <;> m_simp)
    all_goals (clear h8; revert h1 h2 h5; cases ppc <;> intro h1 h2 h5 <;> m_simp)
  · cases hs

set_option maxHeartbeats 1600000 in
theorem minv_stepC_unlock {s s' : St} {i : Nat} {call : Call} (h : MInv s) (hs : stepC true s i call = some s') (r : Ret) (hpc : s.cpcs[i]? = some (.unlock r)) : MInv s' := by
  obtain ⟨queue, depth, token, lock, holder, pub, ppc, cpcs, produced, clog⟩ := s
  obtain ⟨h1, h2, h3, h4, h5, h6, h7, h8⟩ := h
  simp only at hpc
  obtain ⟨hw, hr, ht, hn⟩ := h8 i _ hpc
  have hlt : i < cpcs.length := by
    rcases Nat.lt_or_ge i cpcs.length with hl | hl
    · exact hl
    · simp [List.getElem?_eq_none hl] at hpc
  simp only [stepC, hpc] at hs
  cases hs
  refine ⟨?_, ?_, ?_, ?_, ?_, ?_, ?_, ?_⟩
  rotate_right 1
  · intro j pcj hj
    by_cases hji : j = i
    · subst hji
      simp [hlt] at hj
      subst hj
      clear h8 h1 h2 h5
      constructor <;> m_simp
    · have hj' : cpcs[j]? = some pcj := by simpa [List.getElem?_set, Ne.symm hji] using hj
      obtain ⟨jw, jr, jt, jn⟩ := h8 j pcj hj'
      clear h8 h1 h2 h5
      cases pcj <;> first | (exfalso; clear jn hn; simp_all [critW, critR, ctok]; done) | (constructor <;> m_simp)
  all_goals (clear h8; revert h1 h2 h5; cases ppc <;> intro h1 h2 h5 <;> m_simp)

set_option maxHeartbeats 1600000 in
theorem minv_stepC_gdRLock {s s' : St} {i : Nat} {call : Call} (h : MInv s) (hs : stepC true s i call = some s') (hpc : s.cpcs[i]? = some (.gdRLock)) : MInv s' := by
  obtain ⟨queue, depth, token, lock, holder, pub, ppc, cpcs, produced, clog⟩ := s
  obtain ⟨h1, h2, h3, h4, h5, h6, h7, h8⟩ := h
  simp only at hpc
  obtain ⟨hw, hr, ht, hn⟩ := h8 i _ hpc
  have hlt : i < cpcs.length := by
    rcases Nat.lt_or_ge i cpcs.length with hl | hl
    · exact hl
    · simp [List.getElem?_eq_none hl] at hpc
  simp only [stepC, hpc] at hs
  split at hs
  · rename_i hf
    simp only [Option.isNone_iff_eq_none] at hf
    subst hf
    cases hs
    refine ⟨?_, ?_, ?_, ?_, ?_, ?_, ?_, ?_⟩
    rotate_right 1
    · intro j pcj hj
      by_cases hji : j = i
      · subst hji
        simp [hlt] at hj
        subst hj
        clear h8 h1 h2 h5
        constructor <;> m_simp
      · have hj' : cpcs[j]? = some pcj := by simpa [List.getElem?_set, Ne.symm hji] using hj
        obtain ⟨jw, jr, jt, jn⟩ := h8 j pcj hj'
        clear h8 h1 h2 h5
        cases pcj <;> first | (exfalso; clear jn hn; simp_all [critW, critR, ctok]; done) | (constructor <;> m_simp)
    all_goals (clear h8; revert h1 h2 h5; cases ppc <;> intro h1 h2 h5 <;> m_simp)
  · cases hs

set_option maxHeartbeats 1600000 in
theorem minv_stepC_gdRead {s s' : St} {i : Nat} {call : Call} (h : MInv s) (hs : stepC true s i call = some s') (hpc : s.cpcs[i]? = some (.gdRead)) : MInv s' := by
  obtain ⟨queue, depth, token, lock, holder, pub, ppc, cpcs, produced, clog⟩ := s
  obtain ⟨h1, h2, h3, h4, h5, h6, h7, h8⟩ := h
  simp only at hpc
  obtain ⟨hw, hr, ht, hn⟩ := h8 i _ hpc
  have hlt : i < cpcs.length := by
    rcases Nat.lt_or_ge i cpcs.length with hl | hl
    · exact hl
    · simp [List.getElem?_eq_none hl] at hpc
  simp only [stepC, hpc] at hs
  cases hs
  refine ⟨?_, ?_, ?_, ?_, ?_, ?_, ?_, ?_⟩
  rotate_right 1
  · intro j pcj hj
    by_cases hji : j = i
    · subst hji
      simp [hlt] at hj
      subst hj
      clear h8 h1 h2 h5
      constructor <;> m_simp
    · have hj' : cpcs[j]? = some pcj := by simpa [List.getElem?_set, Ne.symm hji] using hj
      obtain ⟨jw, jr, jt, jn⟩ := h8 j pcj hj'
      clear h8 h1 h2 h5
      cases pcj <;> first | (exfalso; clear jn hn; simp_all [critW, critR, ctok]; done) | (constructor <;> m_simp)
  all_goals (clear h8; revert h1 h2 h5; cases ppc <;> intro h1 h2 h5 <;> m_simp)

set_option maxHeartbeats 1600000 in
theorem minv_stepC_gdRUnlock {s s' : St} {i : Nat} {call : Call} (h : MInv s) (hs : stepC true s i call = some s') (d : Int) (hpc : s.cpcs[i]? = some (.gdRUnlock d)) : MInv s' := by
  obtain ⟨queue, depth, token, lock, holder, pub, ppc, cpcs, produced, clog⟩ := s
  obtain ⟨h1, h2, h3, h4, h5, h6, h7, h8⟩ := h
  simp only at hpc
  obtain ⟨hw, hr, ht, hn⟩ := h8 i _ hpc
  have hlt : i < cpcs.length := by
    rcases Nat.lt_or_ge i cpcs.length with hl | hl
    · exact hl
    · simp [List.getElem?_eq_none hl] at hpc
  simp only [stepC, hpc] at hs
  cases hs
  refine ⟨?_, ?_, ?_, ?_, ?_, ?_, ?_, ?_⟩
  rotate_right 1
  · intro j pcj hj
    by_cases hji : j = i
    · subst hji
      simp [hlt] at hj
      subst hj
      clear h8 h1 h2 h5
      constructor <;> m_simp
    · have hj' : cpcs[j]? = some pcj := by simpa [List.getElem?_set, Ne.symm hji] using hj
      obtain ⟨jw, jr, jt, jn⟩ := h8 j pcj hj'
      clear h8 h1 h2 h5
      cases pcj <;> first | (exfalso; clear jn hn; simp_all [critW, critR, ctok]; done) | (constructor <;> m_simp)
  all_goals (clear h8; revert h1 h2 h5; cases ppc <;> intro h1 h2 h5 <;> m_simp)


theorem minv_stepC {s s' : St} {i : Nat} {call : Call} (h : MInv s) (hs : stepC true s i call = some s') : MInv s' := by
  cases hpc : s.cpcs[i]? with
  | none => simp [stepC, hpc] at hs
  | some pc =>
    cases pc with
    | idle => exact minv_stepC_idle h hs hpc
    | gRecv k => exact minv_stepC_gRecv h hs k hpc
    | gSend k d => exact minv_stepC_gSend h hs k d hpc
    | gTest k d => exact minv_stepC_gTest h hs k d hpc
    | lock k => exact minv_stepC_lock h hs k hpc
    | dqChk => exact minv_stepC_dqChk h hs hpc
    | dqIdx => exact minv_stepC_dqIdx h hs hpc
    | dqSlice b => exact minv_stepC_dqSlice h hs b hpc
    | dqDec b => exact minv_stepC_dqDec h hs b hpc
    | daTake => exact minv_stepC_daTake h hs hpc
    | daNil bs => exact minv_stepC_daNil h hs bs hpc
    | daZero bs => exact minv_stepC_daZero h hs bs hpc
    | rqLock b => exact minv_stepC_rqLock h hs b hpc
    | rqPrep b => exact minv_stepC_rqPrep h hs b hpc
    | rqInc b => exact minv_stepC_rqInc h hs b hpc
    | pubRecv r => exact minv_stepC_pubRecv h hs r hpc
    | pubSend r => exact minv_stepC_pubSend h hs r hpc
    | unlock r => exact minv_stepC_unlock h hs r hpc
    | gdRLock => exact minv_stepC_gdRLock h hs hpc
    | gdRead => exact minv_stepC_gdRead h hs hpc
    | gdRUnlock d => exact minv_stepC_gdRUnlock h hs d hpc
    | panicked => simp [stepC, hpc] at hs

theorem minv_reach {k : Nat} {s : St} (h : Reach true k s) : MInv s := by
  induction h with
  | init => exact minv_init k
  | step _ hs ih =>
    cases hs with
    | p b hp => exact minv_stepP ih hp
    | c i call hc => exact minv_stepC ih hc

/-! ## what FIFO means with several consumers -/

theorem gotsOf_sublist_filter (l : List (Nat × CEv)) (i : Nat) :
    (delivered i l).Sublist (gotsOf (l.map (·.2))) := by
  induction l with
  | nil => simp [delivered, gotsOf]
  | cons e es ih =>
    obtain ⟨j, ev⟩ := e
    simp only [delivered, List.filter_cons, List.map_cons] at ih ⊢
    by_cases hji : (j == i) = true
    · simp only [hji, if_true, List.map_cons]
      cases ev with
      | got c => simp only [gotsOf]; exact List.Sublist.cons₂ c ih
      | back b => simpa [gotsOf] using ih
    · simp only [hji]
      cases ev with
      | got c => simp only [gotsOf]; exact List.Sublist.cons c ih
      | back b => simpa [gotsOf] using ih

end Scrapli.Queue.Multi
